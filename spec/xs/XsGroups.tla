-------------------------------------------- MODULE XsGroups --------------------------------------------
(* C20, the manager-level clauses:

     "Grouping the blocks of a core for cross-section generation assigns every block to exactly one group,
      determined by its cross-section type and environment (burnup or temperature) group ... The representative
      block of a group is built only from the group's eligible members ... Creating representatives never changes
      the blocks of the core."

   Code transcribed (armi/physics/neutronics/crossSectionGroupManager.py, class CrossSectionGroupManager)
     _setBuGroupBounds/_setTempGroupBounds        the bounds of a scenario (upper bounds, ascending, + infinity)
     _updateEnvironmentGroups                     Refresh / EnvOf: first burnup bound with bu <= upper; first temperature
                                                  bound with T(xsTempIsotope) <= upper (only when temperature groups exist and
                                                  the settings found for the block's CURRENT key name an isotope, else group 0);
                                                  number = tempGroup * numBuGroups + buGroup; skipped when updates are disabled
                                                  or when there is a single burnup and a single temperature group
     Block.getMicroSuffix (reactor/blocks.py)     IdOf: one-letter type + environment letter; a two-letter type is the key itself
     _addXsGroupsFromBlocks/makeCrossSectionGroups  action MakeGroups (Refresh, then group by key, sorted by key)
     crossSectionSettings.XSSettings.__getitem__  OptFor: the settings of the key itself, else those of the same type with the
       + XSModelingOptions.setDefaults            lowest lower environment letter, else the global defaults
     blockCollectionFactory                       the option of a group -> RepOf of XsGroupsAvg
     createRepresentativeBlocks                   action CreateReps (MakeGroups; one representative per group with candidates,
                                                  sorted by key; groups without candidates are "unrepresented")
     _modifyUnrepresentedXSIDs/_getAlternateEnvGroup  the blocks of an unrepresented group get the environment letter of the
                                                  first (lowest) represented group of their type, if there is one
     BlockCollection._checkValidWeightingFactors  CreateReps refused: ValueError, representatives unchanged (env groups refreshed)
     disableEnvGroupUpdates/enableEnvGroupUpdates actions Disable / Enable
     createRepresentativeBlocksUsingExistingBlocks action UseExisting(L): MakeGroups; every original type met in the listed blocks
       + _getModifiedReprBlocks                   (in list order, only blocks whose key has a representative) gets the next unused letter of
       + getNextAvailableXsTypes                  _ALLOWABLE_XS_TYPE_LIST; the listed blocks take the new type (specified: "Update the XS
                                                  types of the blocks that will be modified"); the representatives are copied under the
                                                  new keys; the settings of the old key are stored under the new key; one new, empty
                                                  collection per new key with the class, valid block types and averageByComponent of the
                                                  old one.  The action includes what the caller does next: append each listed block to the
                                                  collection of its new key.
     updateNuclideTemperatures(collections|None)  action UpdateTemps(which): "core" = fresh collections from MakeGroups, "grp" = the
                                                  collections of the last grouping (kept by the caller), "new" = those of UseExisting;
                                                  avgNucTemperatures becomes exactly the table of these collections, computed from
                                                  the members' values NOW (NucTempsOf)
   Environment changes between calls (depletion, heating, a flux solution) are the actions Burn / Heat / Flux; they are
   plain parameter assignments on the real blocks.

   State   scn      the scenario (core layout, bounds, settings); chosen in Init, lets one TLC run cover several cores
           blk      the blocks of the core, in core order (records of XsGroupsAvg plus xs = the type label)
           env      environment group number of each block (p.envGroupNum; the letter is EnvLetter of it)
           enabled  _envGroupUpdatesEnabled
           reps     representativeBlocks (sorted by key) with avgNucTemperatures, as exact values; unrep: _unrepresentedXSIDs
           temps    avgNucTemperatures of the manager: [known, tab]; a refused createRepresentativeBlocks keeps the old
                    representatives but has already emptied (and partly refilled) the table: known = FALSE until the next call
           ctl      the per-key settings (crossSectionControl); createRepresentativeBlocksUsingExistingBlocks adds to them
           ret      what the last createRepresentativeBlocksUsingExistingBlocks returned: per new key the original key and the
                    copied representative;  colls: the new collections it returned, filled by the caller with the listed blocks
                    (the caller keeps these objects: updateNuclideTemperatures(colls) may be called again and again)
           grp/genv the block collections of the last grouping and the environment numbers it was made with (observation)
           err/act  outcome and label of the last action (observation)
           hist     the actions that led here, starting with the initial values (hidden by the VIEW; the emission config
                    prints it with every explored edge, so that each edge is a complete behaviour for the real code)

   Interpretation choices
   * "never changes the blocks of the core": the manager-level call is specified to refresh envGroupNum/envGroup
     (_updateEnvironmentGroups) and to re-label unrepresented groups; everything else of a block (blk) must not change:
     BlocksUntouched.  The adapter checks it on a fingerprint of all parameters except those two.
   * a core uses either one-letter types (with environment groups) or two-letter types (which the documentation
     of getMicroSuffix allows only without burnup/temperature groups), not both: the two-character key cannot tell
     type "A" in group "B" from type "AB".
   * two-letter types have no environment group, so an unrepresented group of such a type is left alone (the code
     applies the one-letter rule to the two characters of the key; the check reports what follows from that).
   * temperature-group boundaries are never hit exactly by the scenarios (the temperature is a float quotient).
   * updateNuclideTemperatures is only taken when no median collection lacks candidates (the code raises IndexError there;
     the statement says nothing about temperatures of groups without eligible members); UseExisting only with one-letter types,
     a non-empty list and existing representatives (otherwise ValueError by documentation).
   * blocks present in the blueprints but not in the core (_getMissingBlueprintBlocks) and pre-generated cross
     sections are not modelled.
*)
EXTENDS XsGroupsAvg, XsGroupsDefs

CONSTANTS Scenarios,       \* names
          ScnOf(_),        \* name -> scenario record (see XsGroups_mc.tla)
          TempNuc,         \* xsTempIsotope as a nuclide index ("U238" = 2)
          MaxLevel

VARIABLES scn, blk, env, enabled, ctl, reps, temps, unrep, grp, genv, ret, colls, err, act, hist
vars == <<scn, blk, env, enabled, ctl, reps, temps, unrep, grp, genv, ret, colls, err, act, hist>>

S      == ScnOf(scn)
N      == Len(S.xs)
Two    == Len(S.xs[1]) = 2
NumBu  == Len(S.bub) + 1
Single == Len(S.bub) = 0 /\ Len(S.tb) = 0

(* ---------- environment groups ---------- *)
\* 0-based index of the first upper bound with x <= bound; the group above all bounds is Len(bounds)
FirstLeq(x, bounds) == LET ok == {g \in 1..Len(bounds) : RLeq(x, RInt(bounds[g]))}
                       IN IF ok = {} THEN Len(bounds) ELSE Min(ok) - 1
BuGroup(b)   == FirstLeq(RInt(b.bu), S.bub)
\* iso = the temperature isotope (nuclide index) of the settings that apply to the block, 0 = none
TempGroup(b, iso) == IF Len(S.tb) = 0 \/ iso = 0 THEN 0 ELSE FirstLeq(NucTemp(<<b>>, "Average", iso), S.tb)
EnvNum(b, iso)    == TempGroup(b, iso) * NumBu + BuGroup(b)

(* ---------- keys, groups, settings ---------- *)
\* a key is a pair of alphabet indices: (type letter, environment letter) or the two letters of the type
IdOf(i, e)   == IF Two THEN blk[i].xs ELSE <<blk[i].xs[1], EnvLetterIdx(e[i])>>
IdText(id)   == Alphabet[id[1]] \o Alphabet[id[2]]
IdLess(a, b) == a[1] < b[1] \/ (a[1] = b[1] /\ a[2] < b[2])
Default      == Opt(S.grep, S.gfilter, FALSE)
\* the settings record that applies to a key: its own, else the one of the same type with the lowest lower letter, else the defaults
CtlFor(id) ==
    LET exact == {c \in ctl : c.id = id}
        lower == {c \in ctl : c.id[1] = id[1] /\ c.id[2] < id[2]}
    IN IF exact # {} THEN CHOOSE c \in exact : TRUE
       ELSE IF lower = {} THEN [id |-> id, opt |-> Default, iso |-> TempNuc]
       ELSE CHOOSE c \in lower : \A d \in lower : c.id[2] <= d.id[2]
OptFor(id) == CtlFor(id).opt
\* the environment number of block i depends on the block alone: its burnup, its temperature, and (through the settings
\* looked up with its current key) its type and current environment letter
EnvOf(i)   == EnvNum(blk[i], CtlFor(IdOf(i, env)).iso)
Refresh    == IF enabled /\ ~Single THEN Concrete([i \in 1..N |-> EnvOf(i)]) ELSE env
GroupSeq(e) ==
    LET order == SetToSortSeq({IdOf(i, e) : i \in 1..N}, IdLess)
    IN Concrete([g \in Idx(order) |-> [id  |-> order[g],
                                       mem |-> SelectSeq([i \in 1..N |-> i], LAMBDA i : IdOf(i, e) = order[g]),
                                       opt |-> OptFor(order[g])]])
MembersOf(G) == Concrete([j \in Idx(G.mem) |-> blk[G.mem[j]]])

(* ---------- actions ---------- *)
NoTemps == [known |-> TRUE, tab |-> <<>>]
SeqProduct(sets) == FoldLeft(LAMBDA acc, X : {Append(a, x) : a \in acc, x \in X}, {<<>>}, sets)
MkBlock(s, i, ch) == [xs |-> s.xs[i], kind |-> s.fixed[i].kind, alt |-> s.fixed[i].alt, h |-> s.fixed[i].h, hm |-> s.fixed[i].hm,
                      n |-> s.fixed[i].n, t |-> <<ch[2], s.fixed[i].t2>>, bu |-> ch[1], w |-> ch[3], ord |-> <<1, 2>>, lfp |-> FALSE, sym |-> 1, wd |-> 1]
Init == /\ scn \in Scenarios
        /\ blk \in {[i \in 1..Len(ScnOf(scn).xs) |-> MkBlock(ScnOf(scn), i, c[i])] : c \in SeqProduct(ScnOf(scn).choices)}
        /\ env = [i \in 1..Len(ScnOf(scn).xs) |-> 0]
        /\ enabled = TRUE /\ ctl = ScnOf(scn).ctl /\ reps = <<>> /\ temps = NoTemps /\ unrep = <<>> /\ grp = <<>> /\ ret = <<>> /\ colls = <<>>
        /\ genv = [i \in 1..Len(ScnOf(scn).xs) |-> 0]
        /\ err = "" /\ act = [n |-> "Init"]
        /\ hist = <<[n |-> "Init", dyn |-> [i \in 1..Len(ScnOf(scn).xs) |-> <<blk[i].bu, blk[i].t[1], blk[i].w>>]]>>

Log   == hist' = Append(hist, act')
Frame == UNCHANGED <<scn, env, enabled, ctl, reps, temps, unrep, grp, genv, ret, colls>>
BurnTo(i, v) == blk[i].bu # v /\ blk' = [blk EXCEPT ![i].bu = v] /\ Frame /\ err' = "" /\ act' = [n |-> "Burn", i |-> i, v |-> v] /\ Log
HeatTo(i, v) == blk[i].t[1] # v /\ blk' = [blk EXCEPT ![i].t[1] = v] /\ Frame /\ err' = "" /\ act' = [n |-> "Heat", i |-> i, v |-> v] /\ Log
FluxTo(i, v) == blk[i].w # v /\ blk' = [blk EXCEPT ![i].w = v] /\ Frame /\ err' = "" /\ act' = [n |-> "Flux", i |-> i, v |-> v] /\ Log
Disable == enabled' = FALSE /\ UNCHANGED <<scn, blk, env, ctl, reps, temps, unrep, grp, genv, ret, colls>> /\ err' = "" /\ act' = [n |-> "Disable"] /\ Log
Enable  == enabled' = TRUE /\ UNCHANGED <<scn, blk, env, ctl, reps, temps, unrep, grp, genv, ret, colls>> /\ err' = "" /\ act' = [n |-> "Enable"] /\ Log

\* (the results are computed by state-level operators and bound once with \E: TLC does not cache LET definitions that
\*  sit directly in an action)
MakeGroups ==
    \E e1 \in {Refresh} :
       /\ env' = e1 /\ genv' = e1 /\ grp' = GroupSeq(e1)
       /\ UNCHANGED <<scn, blk, enabled, ctl, reps, temps, unrep, ret, colls>> /\ err' = "" /\ act' = [n |-> "Make"] /\ Log

CreateResult ==
    LET e1   == Refresh
        gs   == GroupSeq(e1)
        Rs   == Concrete([g \in Idx(gs) |-> RepOf(MembersOf(gs[g]), gs[g].opt)])
        okg  == SelectSeq([g \in Idx(gs) |-> g], LAMBDA g : Rs[g].out = "ok")
        new  == Concrete([k \in Idx(okg) |-> [id |-> gs[okg[k]].id, src |-> gs[okg[k]].mem[Rs[okg[k]].src], val |-> RepValues(Rs[okg[k]])]])
        un   == SelectSeq([g \in Idx(gs) |-> g], LAMBDA g : Rs[g].out = "none")
        unId == {gs[un[k]].id : k \in Idx(un)}
        okId == {gs[okg[k]].id : k \in Idx(okg)}
        alt(id) == LET same == {r \in okId : r[1] = id[1]} IN IF same = {} THEN 0 ELSE Min({r[2] : r \in same})
        e2   == Concrete([i \in 1..N |-> IF ~Two /\ IdOf(i, e1) \in unId /\ alt(IdOf(i, e1)) # 0
                                         THEN EnvNumOfIdx(alt(IdOf(i, e1))) ELSE e1[i]])
    IN [e1 |-> e1, gs |-> gs, refused |-> \E g \in Idx(gs) : Rs[g].out = "refused", new |-> new,
        unrep |-> Concrete([k \in Idx(un) |-> gs[un[k]].id]), e2 |-> e2]
CreateReps ==
    \E r \in {CreateResult} :
       /\ grp' = r.gs /\ genv' = r.e1
       /\ UNCHANGED <<scn, blk, enabled, ctl, ret, colls>>
       /\ act' = [n |-> "Create"] /\ Log
       /\ IF r.refused
          THEN env' = r.e1 /\ err' = "ValueError" /\ temps' = [known |-> FALSE, tab |-> <<>>] /\ UNCHANGED <<reps, unrep>>
          ELSE /\ env' = r.e2 /\ err' = "" /\ reps' = r.new /\ unrep' = r.unrep
               /\ temps' = [known |-> TRUE, tab |-> Concrete([k \in Idx(r.new) |-> [id |-> r.new[k].id, nt |-> r.new[k].val.ntemp]])]

(* createRepresentativeBlocksUsingExistingBlocks(listed blocks, representativeBlocks) and the filling of the new collections *)
Distinct(seq) == FoldLeft(LAMBDA acc, x : IF x \in ToSet(acc) THEN acc ELSE Append(acc, x), <<>>, seq)
PosIn(seq, x) == CHOOSE j \in Idx(seq) : seq[j] = x
UseResult(L) ==
    LET e1      == Refresh
        gs      == GroupSeq(e1)
        repIds  == {reps[k].id : k \in Idx(reps)}
        hit     == SelectSeq(L, LAMBDA i : IdOf(i, e1) \in repIds)             \* listed blocks whose key has a representative
        origIds == Distinct(Concrete([j \in Idx(hit) |-> IdOf(hit[j], e1)]))
        types   == Distinct(Concrete([j \in Idx(hit) |-> blk[hit[j]].xs[1]]))
        used    == {blk[i].xs[1] : i \in 1..N}                                 \* types allocated in the core
        avail   == SetToSortSeq((1..52) \ used, <)
        newType(t) == avail[PosIn(types, t)]
        newId(id)  == <<newType(id[1]), id[2]>>
        out     == Concrete([j \in Idx(origIds) |->
                       LET o == origIds[j]
                           r == reps[CHOOSE k \in Idx(reps) : reps[k].id = o]
                           G == gs[CHOOSE g \in Idx(gs) : gs[g].id = o]
                       IN [id |-> newId(o), orig |-> o, src |-> r.src, val |-> r.val, opt |-> G.opt,
                           mem |-> SelectSeq(hit, LAMBDA i : IdOf(i, e1) = o)]])
    IN [e1 |-> e1, gs |-> gs, out |-> out,
        blk |-> Concrete([i \in 1..N |-> IF i \in ToSet(hit) THEN [blk[i] EXCEPT !.xs = <<newType(blk[i].xs[1])>>] ELSE blk[i]]),
        \* the settings of the old key are stored under the new key (replacing what a freed type may have left there)
        ctl |-> {c \in ctl : c.id \notin {newId(o) : o \in ToSet(origIds)}}
                \cup {[id |-> newId(o), opt |-> CtlFor(o).opt, iso |-> CtlFor(o).iso] : o \in ToSet(origIds)}]
UseExisting(L) ==
    /\ ~Two /\ reps # <<>> /\ L # <<>>
    /\ \E r \in {UseResult(L)} :
          /\ env' = r.e1 /\ genv' = r.e1 /\ grp' = r.gs /\ blk' = r.blk /\ ctl' = r.ctl
          /\ ret' = Concrete([j \in Idx(r.out) |-> [id |-> r.out[j].id, orig |-> r.out[j].orig, src |-> r.out[j].src, val |-> r.out[j].val]])
          /\ colls' = Concrete([j \in Idx(r.out) |-> [id |-> r.out[j].id, opt |-> r.out[j].opt, mem |-> r.out[j].mem]])
    /\ UNCHANGED <<scn, enabled, reps, temps, unrep>> /\ err' = "" /\ act' = [n |-> "Use", l |-> L] /\ Log

(* updateNuclideTemperatures *)
NoEmptyMedian(cseq) == \A g \in Idx(cseq) : cseq[g].opt.rep = "Median" => Len(Cand(MembersOf(cseq[g]), cseq[g].opt.filter)) > 0
TableOf(cseq) == [known |-> TRUE, tab |-> Concrete([g \in Idx(cseq) |-> [id |-> cseq[g].id, nt |-> NucTempsOf(MembersOf(cseq[g]), cseq[g].opt)]])]
UpdateCore ==
    \E e1 \in {Refresh} : \E gs \in {GroupSeq(e1)} :
       /\ NoEmptyMedian(gs)
       /\ env' = e1 /\ genv' = e1 /\ grp' = gs /\ temps' = TableOf(gs)
       /\ UNCHANGED <<scn, blk, enabled, ctl, reps, unrep, ret, colls>> /\ err' = "" /\ act' = [n |-> "UpdCore"] /\ Log
UpdateHeld(cseq, name) ==
    /\ cseq # <<>> /\ NoEmptyMedian(cseq)
    /\ temps' = TableOf(cseq)
    /\ UNCHANGED <<scn, blk, env, enabled, ctl, reps, unrep, grp, genv, ret, colls>> /\ err' = "" /\ act' = [n |-> name] /\ Log

Next == \/ \E m \in S.burn : BurnTo(m[1], m[2])
        \/ \E m \in S.heat : HeatTo(m[1], m[2])
        \/ \E m \in S.flux : FluxTo(m[1], m[2])
        \/ "Disable" \in S.acts /\ Disable
        \/ "Enable" \in S.acts /\ Enable
        \/ "Make" \in S.acts /\ MakeGroups
        \/ "Create" \in S.acts /\ CreateReps
        \/ \E L \in S.lists : UseExisting(L)
        \/ "UpdCore" \in S.acts /\ UpdateCore
        \/ "UpdGrp" \in S.acts /\ UpdateHeld(grp, "UpdGrp")
        \/ "UpdNew" \in S.acts /\ UpdateHeld(colls, "UpdNew")
Spec == Init /\ [][Next]_vars

(* ---------- the clauses ---------- *)
TypeOK == /\ \A i \in 1..N : env[i] \in EnvNums
          /\ enabled \in BOOLEAN /\ err \in {"", "ValueError"}
Grouped == act.n \in {"Make", "Create"}
\* "assigns every block to exactly one group"
Partition ==
    grp # <<>> => \A i \in 1..N : Cardinality({<<g, j>> \in Idx(grp) \X (1..N) : j \in Idx(grp[g].mem) /\ grp[g].mem[j] = i}) = 1
\* "determined by its cross-section type and environment group": same group iff same type and same environment number
KeyDetermines ==
    Grouped => /\ \A g \in Idx(grp) : \A j \in Idx(grp[g].mem) : IdOf(grp[g].mem[j], genv) = grp[g].id
               /\ \A g, k \in Idx(grp) : grp[g].id = grp[k].id => g = k
               /\ \A i, j \in 1..N : (\E g \in Idx(grp) : \E a, b \in Idx(grp[g].mem) : grp[g].mem[a] = i /\ grp[g].mem[b] = j)
                                      <=> (blk[i].xs = blk[j].xs /\ (Two \/ genv[i] = genv[j]))
\* the environment number is the (temperature group, burnup group) of the block: monotone in the burnup, one number per pair
EnvironmentRule ==
    LET bg == Concrete([i \in 1..N |-> BuGroup(blk[i])])
        tg == Concrete([i \in 1..N |-> TempGroup(blk[i], TempNuc)])           \* with the default isotope; without one it is 0
        num(i, x) == (IF x = 0 THEN 0 ELSE tg[i]) * NumBu + bg[i]
    IN /\ \A i, j \in 1..N : blk[i].bu <= blk[j].bu => bg[i] <= bg[j]
       /\ \A i, j \in 1..N : \A x, y \in {0, TempNuc} :
              (num(i, x) = num(j, y)) <=> (bg[i] = bg[j] /\ (IF x = 0 THEN 0 ELSE tg[i]) = (IF y = 0 THEN 0 ELSE tg[j]))
       /\ \A i \in 1..N : \A g \in 1..Len(S.bub) : (bg[i] < g) <=> (blk[i].bu <= S.bub[g])
       /\ \A i \in 1..N : EnvNum(blk[i], TempNuc) = num(i, TempNuc) /\ EnvNum(blk[i], 0) = num(i, 0) /\ num(i, TempNuc) \in EnvNums
\* "determined by ITS cross-section type and environment": blocks in the same own state (type, burnup, composition, temperatures,
\* current environment letter) get the same environment number, whatever their neighbours in the core are
OwnState(i) == <<blk[i].xs, blk[i].bu, blk[i].n, blk[i].t, env[i]>>
NeighboursIrrelevant ==
    [][act'.n \in {"Make", "Create"} =>
          \A i, j \in 1..N : OwnState(i) = OwnState(j) => genv'[i] = genv'[j]]_vars
\* "built only from the group's eligible members", at the level of the manager
RepsFromEligibleOnly ==
    (act.n = "Create" /\ err = "") =>
        \A k \in Idx(reps) :
            LET G  == grp[CHOOSE g \in Idx(grp) : grp[g].id = reps[k].id]
                ms == MembersOf(G)
            IN /\ reps[k].val = RepValues(RepOf(Cand(ms, G.opt.filter), [G.opt EXCEPT !.filter = "all"]))
               /\ Elig(blk[reps[k].src], G.opt.filter)
\* every group is either represented or listed as unrepresented; the representatives are sorted by key
GroupsAccounted ==
    (act.n = "Create" /\ err = "") =>
        /\ {grp[g].id : g \in Idx(grp)} = {reps[k].id : k \in Idx(reps)} \cup {unrep[k] : k \in Idx(unrep)}
        /\ {reps[k].id : k \in Idx(reps)} \cap {unrep[k] : k \in Idx(unrep)} = {}
        /\ \A k \in 1..(Len(reps) - 1) : IdLess(reps[k].id, reps[k + 1].id)
\* after the call every block whose type is represented anywhere carries the key of a represented group
RelabelRule ==
    (act.n = "Create" /\ err = "" /\ ~Two) =>
        \A i \in 1..N :
            LET id0 == IdOf(i, genv)
                ok  == {reps[k].id : k \in Idx(reps)}
            IN IF id0 \in ok THEN env[i] = genv[i]
               ELSE IF \E r \in ok : r[1] = id0[1] THEN IdOf(i, env) \in ok /\ \A r \in ok : r[1] = id0[1] => env[i] <= EnvNumOfIdx(r[2])
               ELSE env[i] = genv[i]
\* createRepresentativeBlocksUsingExistingBlocks: original type -> new type is injective and avoids every type in use; one new
\* key per original key; the new collections hold listed blocks only, each listed block with a representative in exactly one, under
\* its new key; the copied representatives are those of the original keys
ExistingBlocksRule ==
    act.n = "Use" =>
        /\ \A a, b \in Idx(ret) : (ret[a].id = ret[b].id) <=> (ret[a].orig = ret[b].orig)
        /\ \A a, b \in Idx(ret) : (ret[a].id[1] = ret[b].id[1]) <=> (ret[a].orig[1] = ret[b].orig[1])
        /\ \A a \in Idx(ret) : /\ ret[a].id[2] = ret[a].orig[2]
                                 /\ (\E k \in Idx(reps) : reps[k].id = ret[a].orig /\ reps[k].val = ret[a].val)
        /\ Len(colls) = Len(ret)
        /\ \A a \in Idx(colls) : /\ colls[a].id = ret[a].id
                                   /\ \A j \in Idx(colls[a].mem) : colls[a].mem[j] \in ToSet(act.l) /\ IdOf(colls[a].mem[j], env) = colls[a].id
        /\ \A i \in ToSet(act.l) : Cardinality({a \in Idx(colls) : i \in ToSet(colls[a].mem)}) <= 1
        /\ \A i \in 1..N : i \notin ToSet(act.l) => \A a \in Idx(ret) : blk[i].xs[1] # ret[a].id[1]
\* "Creating representatives never changes the blocks of the core" (all but the environment-group bookkeeping)
RefreshIsEnvOf   == [][(act'.n \in {"Make", "Create"} /\ enabled /\ ~Single) => \A i \in 1..N : genv'[i] = EnvOf(i)]_vars
BlocksUntouched  == [][/\ (act'.n \in {"Create", "Make", "Disable", "Enable", "UpdCore", "UpdGrp", "UpdNew"} => blk' = blk)
                        /\ (act'.n = "Use" => \A i \in 1..N : /\ [blk'[i] EXCEPT !.xs = <<>>] = [blk[i] EXCEPT !.xs = <<>>]
                                                                /\ (i \notin ToSet(act'.l) => blk'[i] = blk[i]))]_vars
DisabledFreezes  == [][(act'.n = "Make" /\ ~enabled) => env' = env]_vars
RefusalKeepsReps == [][err' # "" => reps' = reps]_vars

(* ---------- observation (what the adapter projects from the real manager and core) ---------- *)
RepObs(r) == [id |-> IdText(r.id), src |-> r.src, dens |-> r.val.dens, cdens |-> r.val.cdens, ctemp |-> r.val.ctemp, bu |-> r.val.bu]
CollObs(c) == [id |-> IdText(c.id), mem |-> c.mem, rep |-> c.opt.rep, filter |-> c.opt.filter, byComp |-> c.opt.byComp]
Obs == [envn |-> env,
        envl |-> [i \in 1..N |-> EnvLetter(env[i])],
        xs |-> [i \in 1..N |-> IF Two THEN IdText(blk[i].xs) ELSE Alphabet[blk[i].xs[1]]],
        reps |-> [k \in Idx(reps) |-> RepObs(reps[k])],
        temps |-> IF temps.known THEN [k \in Idx(temps.tab) |-> [id |-> IdText(temps.tab[k].id), nt |-> temps.tab[k].nt]] ELSE <<"?">>,
        ret |-> [k \in Idx(ret) |-> [RepObs(ret[k]) EXCEPT !.src = 0] @@ [orig |-> IdText(ret[k].orig)]],
        colls |-> [k \in Idx(colls) |-> CollObs(colls[k])],
        ctl |-> {IdText(c.id) : c \in ctl},
        unrep |-> IF err = "" THEN [k \in Idx(unrep) |-> IdText(unrep[k])] ELSE <<"?">>,
        grp |-> [g \in Idx(grp) |-> CollObs(grp[g])],
        enabled |-> enabled, err |-> err]
\* the discrete part, for trace validation
DObs == [envn |-> env,
         xs |-> [i \in 1..N |-> IF Two THEN IdText(blk[i].xs) ELSE Alphabet[blk[i].xs[1]]],
         ret |-> [k \in Idx(ret) |-> [id |-> IdText(ret[k].id), orig |-> IdText(ret[k].orig)]],
         colls |-> [k \in Idx(colls) |-> [id |-> IdText(colls[k].id), mem |-> colls[k].mem]],
         reps |-> [k \in Idx(reps) |-> [id |-> IdText(reps[k].id), src |-> reps[k].src]],
         unrep |-> IF err = "" THEN [k \in Idx(unrep) |-> IdText(unrep[k])] ELSE <<"?">>,
         grp |-> [g \in Idx(grp) |-> [id |-> IdText(grp[g].id), mem |-> grp[g].mem]],
         enabled |-> enabled, err |-> err]
=====================================================================================================
