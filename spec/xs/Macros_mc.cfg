\* exhaustive: 2 table variants x 2 suffixes x 3^4 compositions; every law for every case
CONSTANTS NG = 3  NGam = 2  Variants = {1, 2}
CONSTANT DensSeq <- DensQuick
CONSTANT PairSet <- PairQuick
INIT Init
NEXT Next
INVARIANT TypeOK
INVARIANT ZeroForEmpty
INVARIANT AdditiveOverNuclides
INVARIANT AdditiveOverSelections
INVARIANT GammaAdditive
INVARIANT Homogeneous
INVARIANT AdditiveOverCompositions
INVARIANT MissingZeroIsHarmless
INVARIANT DerivedCommute
CHECK_DEADLOCK FALSE
