-------------------------------------- MODULE XsGroupsLabels_mc --------------------------------------
EXTENDS XsGroupsLabels
AllLetters == 1..52
\* quick emission: every single letter and every pair (52 + 2704 cases); one JSON line per case
EmitCase == PrintT(ToJson(Case))
\* the 52 environment-group cases are printed once (from the state of label "A")
EmitEnv == label = <<1>> => \A n \in EnvNums : PrintT(ToJson(EnvCase(n)))
=====================================================================================================
