\* exhaustive: 3 table variants x 2 suffixes x 4^4 compositions, 3 groups; 16 second operands of additivity; every law for every case
CONSTANTS NG = 3  NGam = 2  Variants = {1, 2, 3}
CONSTANT DensSeq <- DensMcThorough
CONSTANT PairSet <- PairThorough
INIT Init
NEXT Next
INVARIANT TypeOK
INVARIANT ZeroForEmpty
INVARIANT AdditiveOverNuclides
INVARIANT AdditiveOverSelections
INVARIANT GammaAdditive
INVARIANT Homogeneous
INVARIANT AdditiveOverCompositions
INVARIANT MissingZeroIsHarmless
INVARIANT DerivedCommute
CHECK_DEADLOCK FALSE
