----------------------------------------- MODULE XsGroups_trace -----------------------------------------
(* code -> spec: every recorded history of a real CrossSectionGroupManager (environment edits, enable/disable,
   makeCrossSectionGroups, createRepresentativeBlocks) must be a behaviour of XsGroups, event by event, with the
   discrete observation after each event (environment numbers of the blocks, keys and members of the collections,
   keys and source blocks of the representatives, unrepresented keys, refusal) equal to the specification's.
   The numbers of the representatives are compared in the other direction (spec -> code), where TLC prints them.
   A trace carries its scenario name and the initial <<bu, t1, w>> of every block (any values, not only the ones the
   emission config starts from). *)
EXTENDS XsGroups_mc, IOUtils, TLCExt
Traces == ndJsonDeserialize(IOEnv.TRACE_FILE)
NT     == Len(Traces)
VARIABLES tid, l
ASSUME \A t \in 1..NT : TLCSet(t, 0)
TInit == /\ tid \in 1..NT /\ l = 1
         /\ scn = Traces[tid].scn
         /\ blk = [i \in 1..Len(ScnOf(scn).xs) |-> MkBlock(ScnOf(scn), i, Traces[tid].dyn[i])]
         /\ env = [i \in 1..Len(ScnOf(scn).xs) |-> 0]
         /\ enabled = TRUE /\ ctl = ScnOf(scn).ctl /\ reps = <<>> /\ temps = NoTemps /\ unrep = <<>> /\ grp = <<>> /\ ret = <<>> /\ colls = <<>>
         /\ genv = [i \in 1..Len(ScnOf(scn).xs) |-> 0]
         /\ err = "" /\ act = [n |-> "Init"] /\ hist = <<>>
Ev == Traces[tid].ev[l]
TA == Ev.a
Step ==
    \/ TA.n = "Burn" /\ BurnTo(TA.i, TA.v)
    \/ TA.n = "Heat" /\ HeatTo(TA.i, TA.v)
    \/ TA.n = "Flux" /\ FluxTo(TA.i, TA.v)
    \/ TA.n = "Disable" /\ Disable
    \/ TA.n = "Enable" /\ Enable
    \/ TA.n = "Make" /\ MakeGroups
    \/ TA.n = "Create" /\ CreateReps
    \/ TA.n = "Use" /\ UseExisting(TA.l)
ObsMatch == \/ DObs' = Ev.post
            \/ /\ DObs' # Ev.post
               /\ PrintT(ToJson([mismatch |-> Traces[tid].id, at |-> l, expected |-> DObs']))
               /\ FALSE
TNext == /\ l <= Len(Traces[tid].ev) /\ l' = l + 1 /\ tid' = tid
         /\ Step
         /\ ObsMatch
TSpec == TInit /\ [][TNext]_<<vars, tid, l>>
Progress == IF TLCGet(tid) < l THEN TLCSet(tid, l) ELSE TRUE
Report == LET bad == {t \in 1..NT : TLCGet(t) # Len(Traces[t].ev) + 1} IN
          /\ \A t \in bad : PrintT(ToJson([rejected |-> Traces[t].id, matched |-> TLCGet(t) - 1]))
          /\ PrintT(ToJson([accepted |-> NT - Cardinality(bad), of |-> NT]))
=====================================================================================================
