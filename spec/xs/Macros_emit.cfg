\* spec -> code: every case printed with its expected arrays
CONSTANTS NG = 3  NGam = 2  Variants = {1, 2}
CONSTANT DensSeq <- DensQuick
CONSTANT PairSet <- PairQuick
INIT Init
NEXT Next
INVARIANT EmitCase
CHECK_DEADLOCK FALSE
