\* emission: every edge of the histories of up to 3 actions, every state with its observation; laws checked as well
CONSTANTS CompArea <- McCompArea  Holds <- McHolds  NNuc = 4  AW <- McAW  NameRev = FALSE  TempNuc = 2
  Scenarios <- McScenarios  ScnOf <- McScnOf  MaxLevel = 4
INIT Init
NEXT Next
CONSTRAINT Bound
VIEW View
CHECK_DEADLOCK FALSE
