-------------------------------------- MODULE LibraryMergeDir_mc --------------------------------------
(* Bounded instances of LibraryMergeDir.  Labels: 1 U235AA  2 U235NA  3 NA23AA  4 PU39NA  5 FE56AA  6 FE56AC  7 DMP1AA  8 DMP1NA.
   Sources 1..3 = ISOAA, AA.gamiso, AA.pmatrx; 4..6 = ISONA, NA.gamiso, NA.pmatrx; 7 = a library that is not in the directory. *)
EXTENDS LibraryMergeDir
N(labs, ngs, meta, fw)        == [kind |-> "n", labs |-> labs, ngs |-> ngs, ggs |-> 0, nd |-> 0, gd |-> 0, meta |-> meta, fw |-> fw]
G(labs, ggs, meta)            == [kind |-> "g", labs |-> labs, ngs |-> 0, ggs |-> ggs, nd |-> 0, gd |-> 0, meta |-> meta, fw |-> FALSE]
P(labs, ngs, ggs, dose, meta) == [kind |-> "p", labs |-> labs, ngs |-> ngs, ggs |-> ggs, nd |-> dose, gd |-> dose, meta |-> meta, fw |-> FALSE]
E(n, g, p, dl, has)           == [n |-> n, g |-> g, p |-> p, dl |-> dl, has |-> has]
AA == {1, 3}
AB == {2, 4}
D(b, l) == IF b THEN {l} ELSE {}
\* aaDummy / abDummy: the ISOxx file holds its dummy nuclide; model: dummies are modelled at all; abGs: neutron structure of
\* the AB files; fwAA: ISOAA has a file-wide chi; extra: the library outside the directory
Scen(model, aaDummy, abDummy, abGs, fwAA, extra) ==
    [src |-> <<N(AA \cup D(aaDummy, 7), 1, 1, fwAA), G(AA, 1, 1), P(AA, 1, 1, 0, 1),
               N(AB \cup D(abDummy, 8), abGs, 1, FALSE), G(AB, 1, 1), P(AB, abGs, 1, 0, 1), extra>>,
     dir |-> <<E(1, 2, 3, IF model THEN 7 ELSE 0, aaDummy), E(4, 5, 6, IF model THEN 8 ELSE 0, abDummy)>>]
ScenQuick == <<
    Scen(FALSE, FALSE, FALSE, 1, FALSE, N({6}, 1, 1, FALSE)),     \* plain; the outsider holds another id
    Scen(TRUE, TRUE, FALSE, 1, FALSE, G({5}, 1, 1)),              \* the first id has the dummy: the second gets it
    Scen(TRUE, FALSE, TRUE, 1, TRUE, P({5}, 1, 1, 0, 1))          \* the reference comes too late; file-wide chi in ISOAA
>>
ScenThorough == ScenQuick \o <<
    Scen(TRUE, TRUE, TRUE, 1, FALSE, N({5}, 1, 1, FALSE)),
    Scen(FALSE, FALSE, FALSE, 2, FALSE, G({1, 3}, 1, 1)),         \* the AB files have another neutron structure: refused
    Scen(TRUE, FALSE, FALSE, 1, FALSE, N({1}, 1, 1, FALSE))       \* no dummy anywhere although modelled; the outsider overlaps ISOAA
>>
IdOf8 == <<1, 2, 1, 2, 1, 3, 1, 2>>
Bound == TLCGet("level") <= MaxLevel
View  == dvars
Emit  == PrintT(ToJson([lvl |-> TLCGet("level"), from |-> DVars, act |-> act', to |-> DVars', err |-> err', asb |-> AsBuiltOf(act', err')]))
=====================================================================================================
