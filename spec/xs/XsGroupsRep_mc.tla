---------------------------------------- MODULE XsGroupsRep_mc ----------------------------------------
EXTENDS XsGroupsRep
(* Fixed data of the generated blocks (see XsGroupsAvg header): two components with areas 2 and 3 (block area 5);
   component 1 holds nuclides 1, 2; component 2 holds nuclides 2, 3; nuclide 4 is in the problem but held nowhere.
   Atomic weights are small integers that the adapter sets on the real nuclides while by-component options run. *)
McCompArea == <<2, 3>>
McHolds    == <<{1, 2}, {2, 3}>>
McAW       == <<2, 3, 5, 7>>
Blk(kd, al, h, w, bu, hm, n11, n12, n22, n23, t1, t2) ==
    [kind |-> kd, alt |-> al, h |-> h, w |-> w, bu |-> bu, hm |-> hm,
     n |-> <<<<n11, n12, 0, 0>>, <<0, n22, n23, 0>>>>, t |-> <<t1, t2>>, ord |-> <<1, 2>>, lfp |-> FALSE, sym |-> 1, wd |-> 1]
FR  == {"fuel", "reflector"}
FCR == {"fuel", "control", "reflector"}

(* ---- block domains: each family varies the attributes its clauses depend on, the others are fixed ---- *)
\* densities and weights: block type, height (volume), flux, density of nuclide 1 in component 1 (and of nuclide 2 in component 2)
DensX == {Blk(kd, FALSE, h, w, 0, 1, a, 1, 1, 2, 600, 400) : kd \in FR, h \in {1, 2}, w \in {0, 2}, a \in {0, 2}}
DensS == {Blk(kd, FALSE, h, w, 0, 1, a, 1, 1, 2, 600, 400) : kd \in FR, h \in {1, 2}, w \in {0, 1, 2}, a \in {0, 2}}
DensM == {Blk(kd, FALSE, h, w, 0, 1, a, 1, 1, 2, 600, 400) : kd \in FR, h \in {1, 2}, w \in {0, 1, 2}, a \in {0, 1, 2}}
DensL == {Blk(kd, FALSE, h, w, 0, 1, a, 1, b, 2, 600, 400) : kd \in FR, h \in {1, 2, 3}, w \in {0, 1, 2}, a \in {0, 1, 2}, b \in {0, 2}}
\* temperatures: height, flux, both component temperatures, densities of the shared nuclide 2 in both components
TempS == {Blk("fuel", FALSE, h, 1, 0, 1, 1, a, 2, 1, t1, t2) : h \in {1, 2}, a \in {0, 1}, t1 \in {400, 700}, t2 \in {300, 500}}
TempM == {Blk("fuel", FALSE, h, w, 0, 1, 1, a, 2, 1, t1, t2) : h \in {1, 2}, w \in {1, 2}, a \in {0, 1}, t1 \in {400, 700}, t2 \in {300, 500}}
TempL == {Blk("fuel", FALSE, h, w, 0, 1, 1, a, b, 1, t1, t2) : h \in {1, 2}, w \in {0, 1, 2}, a \in {0, 1}, b \in {0, 2}, t1 \in {400, 700}, t2 \in {300, 500}}
\* burnup and the median: block type, height, flux, burnup, heavy-metal mass
BurnX == {Blk(kd, FALSE, h, 1, bu, hm, 1, 1, 1, 1, 600, 400) : kd \in FR, h \in {1, 2}, bu \in {0, 3}, hm \in {0, 2}}
BurnS == {Blk(kd, FALSE, h, 1, bu, hm, 1, 1, 1, 1, 600, 400) : kd \in FR, h \in {1, 2}, bu \in {0, 3, 8}, hm \in {0, 2}}
BurnM == {Blk(kd, FALSE, h, w, bu, hm, 1, 1, 1, 1, 600, 400) : kd \in FR, h \in {1, 2}, w \in {0, 2}, bu \in {0, 3, 8}, hm \in {0, 1, 2}}
BurnL == {Blk(kd, FALSE, h, w, bu, hm, 1, 1, 1, 1, 600, 400) : kd \in FR, h \in {1, 2}, w \in {0, 2}, bu \in {0, 3, 6, 8}, hm \in {0, 1, 2}}
\* block types and component flags: three types, matching / non-matching components, a component without mass
KindX == {Blk(kd, al, 1, 1, 2, 1, 2, 1, 0, b, 700, 400) : kd \in FCR, al \in {FALSE, TRUE}, b \in {0, 1}}
KindS == {Blk(kd, al, 1, 1, 2, 1, a, 1, 0, b, 700, 400) : kd \in FCR, al \in {FALSE, TRUE}, a \in {0, 2}, b \in {0, 1}}
KindM == {Blk(kd, al, h, 1, 2, 1, a, 1, 0, b, t1, 400) : kd \in FCR, al \in {FALSE, TRUE}, h \in {1, 2}, a \in {0, 2}, b \in {0, 1}, t1 \in {400, 700}}
KindL == {Blk(kd, al, h, 1, bu, 1, a, 1, 0, b, t1, 400) : kd \in FCR, al \in {FALSE, TRUE}, h \in {1, 2}, bu \in {2, 5}, a \in {0, 2}, b \in {0, 1}, t1 \in {400, 700}}
\* the 1-D cylinder option: block type (ineligible members in every position), height, density of nuclide 1, both temperatures
\* (no two different temperature pairs have the same block average: the copied candidate is decided by a float comparison)
CylS  == {Blk(kd, FALSE, h, 1, bu, 1, a, 1, 1, 2, t1, 300) : kd \in FR, h \in {1, 3}, bu \in {2}, a \in {0, 2}, t1 \in {400, 700}}
CylM  == {Blk(kd, FALSE, h, 1, a + 1, 1, a, 1, 1, 2, t1, t2) : kd \in FR, h \in {1, 3}, a \in {0, 1, 2}, t1 \in {400, 700}, t2 \in {300, 520}}
CylQ  == {Blk(kd, FALSE, h, 1, a + 1, 1, a, 1, 1, 2, t1, t2) : kd \in FR, h \in {1, 3}, a \in {0, 2}, t1 \in {400, 700}, t2 \in {300, 520}}
CylL  == {Blk(kd, FALSE, h, 1, a + 1, 1, a, 1, 1, 2, t1, t2) : kd \in FR, h \in {1, 2, 3}, a \in {0, 1, 2}, t1 \in {400, 700}, t2 \in {300, 520}}
CylTriX == {Blk(kd, FALSE, 1 + a, 1, a, 1, a, 1, 1, 2, 400 + 100 * a, 300) : kd \in FR, a \in {0, 2}}
CylTri == {Blk(kd, FALSE, h, 1, a, 1, a, 1, 1, 2, 400 + 100 * a, 300) : kd \in FR, h \in {1, 3}, a \in {0, 2}}
\* blocks that carry a lumped-fission-product collection (what depletion models put on fuel blocks)
LfpS  == {[Blk("fuel", FALSE, h, 1, bu, 1, 1, 1, 1, 1, 600, 400) EXCEPT !.lfp = l] : h \in {1, 2}, bu \in {0, 3}, l \in BOOLEAN}
\* components stored in a different order than the sorted one (two components: both orders)
OrdS  == {[Blk("fuel", FALSE, h, 1, 2, 1, a, 1, 1, 2, 600, 400) EXCEPT !.ord = o] : h \in {1, 2}, a \in {0, 2}, o \in {<<1, 2>>, <<2, 1>>}}
\* three components (areas 1, 2, 4; holding nuclides {1,2}, {2,3}, {3,4}) stored in every one of the six orders; used with the
\* constants of XsGroupsRep_perm.cfg only
McCompArea3 == <<1, 2, 4>>
McHolds3    == <<{1, 2}, {2, 3}, {3, 4}>>
Blk3(kd, h, a, o) == [kind |-> kd, alt |-> FALSE, h |-> h, w |-> 1, bu |-> a, hm |-> 1,
                      n |-> <<<<a, 1, 0, 0>>, <<0, 1, 2, 0>>, <<0, 0, 1, a>>>>, t |-> <<700, 500, 400>>, ord |-> o, lfp |-> FALSE, sym |-> 1, wd |-> 1]
Perms3 == {<<1, 2, 3>>, <<1, 3, 2>>, <<2, 1, 3>>, <<2, 3, 1>>, <<3, 1, 2>>, <<3, 2, 1>>}
PermS == {Blk3("fuel", 1 + a \div 2, a, o) : a \in {0, 2}, o \in Perms3}
FamsPerm == {"perm"}
\* symmetry-cut blocks: the same block at the centre of a third core (factor 3), on a symmetry line (2) or inside (1); height,
\* burnup (with it the density of nuclide 1 and the fuel temperature), heavy metal
SymS  == {[Blk("fuel", FALSE, h, 1, bu, hm, bu \div 3, 1, 1, 2, 400 + 50 * bu, 300) EXCEPT !.sym = sy] : sy \in {1, 2, 3}, h \in {1, 2}, bu \in {0, 3, 8}, hm \in {1, 2}}
SymQ  == {[Blk("fuel", FALSE, h, 1, bu, 1 + bu \div 8, bu \div 3, 1, 1, 2, 400 + 50 * bu, 300) EXCEPT !.sym = sy] : sy \in {1, 2, 3}, h \in {1, 2}, bu \in {0, 3, 8}}
SymX  == {[Blk("fuel", FALSE, 1 + bu \div 8, 1, bu, 1, bu \div 3, 1, 1, 2, 400 + 50 * bu, 300) EXCEPT !.sym = sy] : sy \in {1, 2, 3}, bu \in {0, 3, 8}}
\* by-component averaging with a member of different component flags in every position of three (first / middle / last)
\* (nuclide 2 sits in both components with different densities, so that per-component and block-level averaging differ)
Sim3S == {Blk("fuel", al, 1 + a \div 2, 1, 2, 1, a, 1 + a \div 2, 0, 2, t1, 400) : al \in BOOLEAN, a \in {0, 2}, t1 \in {400, 700}}
Sim3X == {Blk("fuel", al, 1 + a \div 2, 1, 2, 1, a, 1 + a \div 2, 0, 2, 400 + 150 * a, 400) : al \in BOOLEAN, a \in {0, 2}}
\* members that hold different nuclide sets: component 1 of some members also holds nuclide 4 (density 2), in every order of three
WithN4(b, x) == [b EXCEPT !.n[1][4] = x]
NucsS == {WithN4(Blk("fuel", FALSE, h, 1, 2, 1, a, 1, 1, 2, 600, 400), x) : h \in {1, 2}, a \in {0, 2}, x \in {0, 2}}
NucsX == {WithN4(Blk("fuel", FALSE, 1 + a \div 2, 1, 2, 1, a, 1, 1, 2, 600, 400), x) : a \in {0, 2}, x \in {0, 2}}
\* flux values below 1 (1/4, 1/2, 3/4), 1, large (8) and 0
WithFlux(b, f) == [b EXCEPT !.w = f[1], !.wd = f[2]]
FluxVals == {<<0, 1>>, <<1, 4>>, <<1, 2>>, <<3, 4>>, <<1, 1>>, <<8, 1>>}
FluxS == {WithFlux(Blk("fuel", FALSE, h, 1, a, 1 + a \div 2, a, 1, 1, 2, 500 + 100 * a, 400), f) : h \in {1, 2}, a \in {0, 1, 2}, f \in FluxVals}
FluxQ == {WithFlux(Blk("fuel", FALSE, h, 1, a, 1 + a \div 2, a, 1, 1, 2, 500 + 100 * a, 400), f) : h \in {1, 2}, a \in {0, 2}, f \in FluxVals \ {<<1, 2>>}}
FluxX == {WithFlux(Blk("fuel", FALSE, 1 + a \div 2, 1, a, 1 + a \div 2, a, 1, 1, 2, 500 + 100 * a, 400), f) : a \in {0, 2}, f \in {<<0, 1>>, <<1, 4>>, <<3, 4>>, <<1, 1>>, <<8, 1>>}}
\* collections of three and four: everything varies a little
TriX  == {Blk(kd, FALSE, 1 + p[1] \div 2, p[1], p[3], p[2], p[2], 1, 1, 1, 600 + 50 * p[1], 400) : kd \in FR, p \in {<<0, 0, 0>>, <<2, 2, 3>>, <<1, 1, 8>>}}
TriS  == {Blk(kd, FALSE, h, p[1], p[3], p[2], p[2], 1, 1, 1, 600 + 50 * p[1], 400) : kd \in FR, h \in {1, 2}, p \in {<<0, 0, 0>>, <<2, 2, 3>>}}
TriM  == {Blk(kd, FALSE, h, p[1], p[3], p[2], p[2], 1, 1, 1, 600 + 50 * p[1], 400) : kd \in FR, h \in {1, 2}, p \in {<<0, 0, 0>>, <<2, 2, 3>>, <<1, 1, 8>>}}

\* ---- option sets ----
OptsDens == {Opt("Average", "fuel", FALSE), Opt("Average", "all", TRUE), Opt("FluxWeightedAverage", "fuel", FALSE), Opt("FluxWeightedAverage", "all", TRUE)}
OptsTemp == {Opt("Average", "fuel", TRUE), Opt("FluxWeightedAverage", "all", FALSE), Opt("Median", "fuel", FALSE)}
OptsBurn == {Opt("Average", "fuel", FALSE), Opt("FluxWeightedAverage", "fuel", FALSE), Opt("Median", "fuel", FALSE), Opt("Median", "all", FALSE)}
OptsKind == {Opt("Average", "fuelcontrol", TRUE), Opt("Average", "fuel", TRUE), Opt("Median", "fuelcontrol", FALSE)}
OptsCyl  == {Opt("ComponentAverage1DCylinder", "fuel", FALSE), Opt("ComponentAverage1DCylinder", "all", FALSE), Opt("ComponentAverage1DSlab", "fuel", FALSE)}
OptsLfp  == {Opt("Median", "fuel", FALSE), Opt("Average", "fuel", FALSE), Opt("ComponentAverage1DCylinder", "fuel", FALSE)}
OptsOrd  == {Opt("Average", "fuel", TRUE), Opt("ComponentAverage1DCylinder", "fuel", FALSE), Opt("Median", "fuel", FALSE)}
OptsSym  == {Opt("Average", "fuel", FALSE), Opt("Average", "fuel", TRUE), Opt("Median", "fuel", FALSE), Opt("ComponentAverage1DCylinder", "fuel", FALSE)}
OptsSim3 == {Opt("Average", "fuel", TRUE), Opt("FluxWeightedAverage", "all", TRUE)}
OptsNucs == {Opt("Average", "fuel", FALSE), Opt("Average", "fuel", TRUE), Opt("ComponentAverage1DCylinder", "fuel", FALSE), Opt("Median", "fuel", FALSE)}
OptsFlux == {Opt("FluxWeightedAverage", "fuel", FALSE), Opt("FluxWeightedAverage", "fuel", TRUE)}
OptsTri  == {Opt("Average", "fuel", FALSE), Opt("FluxWeightedAverage", "fuel", TRUE), Opt("Median", "fuel", FALSE), Opt("Median", "all", FALSE), Opt("Average", "all", TRUE)}

Fams == {"dens", "temp", "burn", "kind", "tri", "cyl", "cyl3", "lfp", "ord", "sym", "sim3", "nucs", "flux"}
OptsFor(f) == CASE f = "dens" -> OptsDens [] f = "temp" -> OptsTemp [] f = "burn" -> OptsBurn [] f = "kind" -> OptsKind [] f = "tri" -> OptsTri
                [] f \in {"cyl", "cyl3"} -> OptsCyl [] f = "lfp" -> OptsLfp [] f \in {"ord", "perm"} -> OptsOrd [] f = "sym" -> OptsSym [] f = "sim3" -> OptsSim3 [] f = "nucs" -> OptsNucs [] f = "flux" -> OptsFlux
\* laws, quick: small domains, pairs (triples for "tri")
Extra(f) == CASE f = "cyl3" -> CylTri [] f = "lfp" -> LfpS [] f = "ord" -> OrdS [] f = "perm" -> PermS [] f = "sym" -> SymS [] f = "sim3" -> Sim3S [] f = "nucs" -> NucsS [] f = "flux" -> FluxS
DomMcQ(f) == CASE f = "dens" -> DensX [] f = "temp" -> TempS [] f = "burn" -> BurnX [] f = "kind" -> KindX [] f = "tri" -> TriX
               [] f = "cyl" -> CylS [] f = "cyl3" -> CylTriX [] f = "sym" -> SymX [] f = "sim3" -> Sim3X [] f = "nucs" -> NucsX [] f = "flux" -> FluxX [] OTHER -> Extra(f)
MaxMcQ(f) == IF f \in {"tri", "cyl3", "sim3", "nucs"} THEN 3 ELSE 2
\* laws, thorough: medium domains; triples of the small ones would be 10^5 states each, so "tri" carries the triples/quadruples
DomMcT(f) == CASE f = "dens" -> DensM [] f = "temp" -> TempM [] f = "burn" -> BurnM [] f = "kind" -> KindM [] f = "tri" -> TriS
               [] f = "cyl" -> CylM [] OTHER -> Extra(f)
MaxMcT(f) == IF f \in {"tri", "cyl3"} THEN 4 ELSE IF f \in {"sim3", "nucs"} THEN 3 ELSE 2
\* cases for the real code, quick / thorough
DomEmQ(f) == CASE f = "dens" -> DensM [] f = "temp" -> TempM [] f = "burn" -> BurnS [] f = "kind" -> KindS [] f = "tri" -> TriM
               [] f = "cyl" -> CylQ [] f = "sym" -> SymQ [] f = "flux" -> FluxQ [] OTHER -> Extra(f)
MaxEmQ(f) == IF f \in {"tri", "cyl3", "sim3", "nucs"} THEN 3 ELSE 2
DomEmT(f) == CASE f = "dens" -> DensL [] f = "temp" -> TempL [] f = "burn" -> BurnL [] f = "kind" -> KindL [] f = "tri" -> TriS
               [] f = "cyl" -> CylL [] OTHER -> Extra(f)
MaxEmT(f) == IF f \in {"tri", "cyl3"} THEN 4 ELSE IF f \in {"sim3", "nucs"} THEN 3 ELSE 2

View == <<fam, members>>
\* one JSON line per explored CreateRepresentative edge = one case for the real code
Emit == IF last' # NoLast THEN PrintT(ToJson([fam |-> fam, ms |-> members, opt |-> last'.opt, rep |-> last'.rep])) ELSE TRUE
=====================================================================================================
