\* exhaustive: all 52 + 52*52 admissible labels; all laws
CONSTANTS Letters <- AllLetters
INIT Init
NEXT Next
INVARIANT TypeOK
INVARIANT NoCollision
INVARIANT RoundTrip
INVARIANT DocExamples
INVARIANT EnvCodecInverse
INVARIANT EnvCodecInjective
CHECK_DEADLOCK FALSE
