\* emission (quick): one printed case per (collection, option)
CONSTANTS CompArea <- McCompArea  Holds <- McHolds  NNuc = 4  AW <- McAW  Families <- Fams  OptsOf <- OptsFor  NameRev = TRUE
  DomOf <- DomEmQ  MaxOf <- MaxEmQ
INIT Init
NEXT Next
VIEW View
ACTION_CONSTRAINT Emit
CHECK_DEADLOCK FALSE
