------------------------------------------ MODULE LibraryMerge ------------------------------------------
(* C10, first half -- merging cross-section libraries (armi/nuclearDataIO/xsLibraries.py IsotxsLibrary.merge).

   A *source* is what one nuclear-data file gives after armi's reader: a library of ONE kind of data
       "n"  ISOTXS  neutron micros    + neutron group structure + neutron velocity (+ optionally a file-wide chi)
       "g"  GAMISO  gamma micros      + gamma group structure
       "p"  PMATRX  production data   + both group structures (+ optionally dose-conversion factors)
   for a set of nuclide labels (label = nuclide + cross-section-id suffix).  Libraries are merged into each other in
   any order; lib[0] starts empty (the documented idiom  lib = IsotxsLibrary(); lib.merge(a); lib.merge(b)).

   Abstract library (ids, not values: the harness recognises whose values a real library holds)
     alive            FALSE once the library has been merged into another one ("other.__dict__ = {}")
     ngs, ggs         id of the neutron / gamma energy structure   (0 = not set)      _XSLibrary immutable properties
     nd, gd           id of the neutron / gamma dose factors       (0 = not set)
     vel              source whose neutron velocity the library carries (0 = none)
     meta[k]          variant of the file-level metadata of kind k (0 = none)         NuclideXSMetadata
     pdose            what the PMATRX file metadata say about dose factors: 0 = no PMATRX metadata, 1 = "has none",
                      2 = "has them" (hasDoseConversionFactor is one of the compared metadata values)
     files[k]         sources of kind k merged in (metadata.fileNames, as a set)
     fw               the ISOTXS metadata still carries a file-wide chi
     nucs[l]          n, g, p = source of the neutron / gamma / production data of label l (0 = none);
                      cf = the nuclide writes its own chi (isotxsMetadata.chiFlag = 1)

   Actions -- one per outcome of the one public mutator  target.merge(other):
     Merge(t, o)         no conflict: target := union, other := consumed.  Transcribes, field by field,
                         _mergeProperties (first value that is set wins; both set => must be equal),
                         _Metadata.merge (one side empty => copy; else equal values, fileNames concatenated;
                         NuclideXSMetadata._getSkippedKeys: a file-wide chi does not survive the meeting of two ISOTXS
                         metadata, the fissile nuclides of both sides switch to their own chi),
                         _mergeNuclides / XSNuclide.merge / XSCollection.merge / _mergeAttributes (a label new to the
                         target is adopted, a known label takes the kinds it lacks).
     MergeRefused(t, o)  a conflict: the call raises and both libraries keep their state (the code's own comment: "nothing
                         has been modified in two objects"; the conformance check names a divergence after the target, which
                         is what the property's statement constrains, before the bystanders and `other`).  Conflicts, in the order the
                         code looks for them:  "Property"  two different energy structures / dose factors
                         (ImmutablePropertyError), "Metadata"  two different file-metadata variants of one kind, or a PMATRX
                         file with dose factors meeting one without (OSError),
                         "Overlap"  some label carries the same kind of data in both (AttributeError).

   Interpretation choices
     * "content does not depend on merge order" is stated as MergedIsUnion: the content of every library is a
       function UnionOf(From) of the SET of sources merged into it, defined without reference to any order.
       The order of nuclideLabels and of fileNames follows the merge order in the code and is compared as a set.
     * neutron velocity: the code documents "neutron velocity changes, but just use the first one"; the model keeps
       the velocity of the first merged source THAT HAS ONE.  Which source it is may depend on the order (documented),
       that there is one may not: VelocityKept.
     * the file metadata's free-text libraryLabel (first one wins) is not content.
     * a library is merged at most once (the code empties it), and never into itself.
     * the chi rule looks at every nuclide of both libraries; a nuclide without ISOTXS data (gamma / production data only)
       has no fission flag and is not fissile for this purpose (the code compares None > 0 there).
     * sources of one scenario are interchangeable, so Init takes multisets of SrcList; all merge orders are explored.
*)
EXTENDS Integers, Sequences, FiniteSets, TLC, Json, FiniteSetsExt, SequencesExt

CONSTANTS NSrc,       \* number of source libraries
          NLab,       \* labels are 1..NLab
          Fissile,    \* labels of fissile nuclides
          SrcList,    \* sequence of source descriptors to choose from
          IdOf,       \* label -> cross-section id (1 = AA, 2 = NA, 3 = AC): the last two characters of the label
          MaxLevel

Kinds  == {"n", "g", "p"}
NId    == 3
Labels == 1..NLab
Srcs   == 1..NSrc
LibIx  == 0..NSrc

VARIABLES src,   \* Srcs -> descriptor        (chosen in Init, constant afterwards)
          lib,   \* LibIx -> abstract library
          err, act
vars == <<src, lib>>

NoNuc    == [n |-> 0, g |-> 0, p |-> 0, cf |-> FALSE]
EmptyLib == [alive |-> TRUE, ngs |-> 0, ggs |-> 0, nd |-> 0, gd |-> 0, vel |-> 0, pdose |-> 0,
             meta |-> [k \in Kinds |-> 0], files |-> [k \in Kinds |-> {}], fw |-> FALSE,
             nucs |-> [l \in Labels |-> NoNuc]]
Dead     == [EmptyLib EXCEPT !.alive = FALSE]

\* what the reader of a file of kind d.kind produces
PDoseOf(d) == IF d.kind # "p" THEN 0 ELSE IF d.nd # 0 THEN 2 ELSE 1
LibOf(d, s) ==
    [alive |-> TRUE, ngs |-> d.ngs, ggs |-> d.ggs, nd |-> d.nd, gd |-> d.gd,
     vel   |-> IF d.kind = "n" THEN s ELSE 0,
     pdose |-> PDoseOf(d),
     meta  |-> [k \in Kinds |-> IF k = d.kind THEN d.meta ELSE 0],
     files |-> [k \in Kinds |-> IF k = d.kind THEN {s} ELSE {}],
     fw    |-> d.kind = "n" /\ d.fw,
     nucs  |-> [l \in Labels |->
                  IF l \in d.labs
                  THEN [NoNuc EXCEPT ![d.kind] = s, !.cf = (d.kind = "n" /\ l \in Fissile /\ ~d.fw)]
                  ELSE NoNuc]]

WellFormed(d) ==
    /\ d.kind \in Kinds /\ d.labs # {} /\ d.labs \subseteq Labels /\ d.meta \in 1..2
    /\ d.kind = "n" => d.ngs > 0 /\ d.ggs = 0 /\ d.nd = 0 /\ d.gd = 0
    /\ d.kind = "g" => d.ngs = 0 /\ d.ggs > 0 /\ d.nd = 0 /\ d.gd = 0 /\ ~d.fw
    /\ d.kind = "p" => d.ngs > 0 /\ d.ggs > 0 /\ ((d.nd = 0) = (d.gd = 0)) /\ ~d.fw

Present(L, l) == L.nucs[l].n # 0 \/ L.nucs[l].g # 0 \/ L.nucs[l].p # 0
LabelsOf(L)   == {l \in Labels : Present(L, l)}
First(a, b)   == IF a # 0 THEN a ELSE b
Differ(a, b)  == a # 0 /\ b # 0 /\ a # b

(* ---------- conflicts, in the order IsotxsLibrary.merge meets them ---------- *)
PropConflict(T, O) == Differ(T.nd, O.nd) \/ Differ(T.ngs, O.ngs) \/ Differ(T.ggs, O.ggs) \/ Differ(T.gd, O.gd)
MetaConflict(T, O) == (\E k \in Kinds : Differ(T.meta[k], O.meta[k])) \/ Differ(T.pdose, O.pdose)
Overlap(T, O)      == \E l \in Labels : \E k \in Kinds : T.nucs[l][k] # 0 /\ O.nucs[l][k] # 0
Conflict(T, O) == IF PropConflict(T, O) THEN "Property"
                  ELSE IF MetaConflict(T, O) THEN "Metadata"
                  ELSE IF Overlap(T, O) THEN "Overlap" ELSE ""

(* ---------- the merged library ---------- *)
\* two ISOTXS metadata meet and one of them has a file-wide chi: it is dropped, fissile nuclides write their own chi
ChiRule(T, O) == T.meta["n"] # 0 /\ O.meta["n"] # 0 /\ (T.fw \/ O.fw)
Merged(T, O) ==
    [alive |-> TRUE,
     ngs |-> First(T.ngs, O.ngs), ggs |-> First(T.ggs, O.ggs), nd |-> First(T.nd, O.nd), gd |-> First(T.gd, O.gd),
     vel |-> First(T.vel, O.vel), pdose |-> First(T.pdose, O.pdose),
     meta  |-> [k \in Kinds |-> First(T.meta[k], O.meta[k])],
     files |-> [k \in Kinds |-> T.files[k] \cup O.files[k]],
     fw    |-> IF T.meta["n"] # 0 /\ O.meta["n"] # 0 THEN FALSE ELSE T.fw \/ O.fw,
     nucs  |-> [l \in Labels |->
                  LET a == T.nucs[l]  b == O.nucs[l]
                      nn == First(a.n, b.n)
                  IN [n |-> nn, g |-> First(a.g, b.g), p |-> First(a.p, b.p),
                      cf |-> a.cf \/ b.cf \/ (ChiRule(T, O) /\ nn # 0 /\ l \in Fissile)]]]

Ok(a)        == err' = "" /\ act' = a
Refuse(e, a) == UNCHANGED vars /\ err' = e /\ act' = a

Merge(t, o) ==
    /\ t # o /\ lib[t].alive /\ lib[o].alive
    /\ Conflict(lib[t], lib[o]) = ""
    /\ lib' = [lib EXCEPT ![t] = Merged(lib[t], lib[o]), ![o] = Dead]
    /\ UNCHANGED src
    /\ Ok([n |-> "Merge", t |-> t, o |-> o])

MergeRefused(t, o) ==
    /\ t # o /\ lib[t].alive /\ lib[o].alive
    /\ Conflict(lib[t], lib[o]) # ""
    /\ Refuse(Conflict(lib[t], lib[o]), [n |-> "MergeRefused", t |-> t, o |-> o])

\* scenarios: every multiset of NSrc descriptors of SrcList (sources are interchangeable: all orders are explored anyway)
Init ==
    /\ \E ix \in [Srcs -> 1..Len(SrcList)] :
          /\ \A i \in Srcs : i < NSrc => ix[i] <= ix[i + 1]
          /\ src = [s \in Srcs |-> SrcList[ix[s]]]
    /\ lib = [i \in LibIx |-> IF i = 0 THEN EmptyLib ELSE LibOf(src[i], i)]
    /\ err = "" /\ act = [n |-> "Init"]

Next == \E t, o \in LibIx : Merge(t, o) \/ MergeRefused(t, o)
Spec == Init /\ [][Next]_<<vars, err, act>>

(* ==================================== properties ==================================== *)
From(L)      == UNION {L.files[k] : k \in Kinds}              \* the sources merged into L
OfKind(C, k) == {s \in C : src[s].kind = k}
Holder(C, l, k) == {s \in OfKind(C, k) : l \in src[s].labs}    \* sources of C that bring data of kind k for label l
Vals(C, f)   == {src[s][f] : s \in C} \ {0}
TheOne(S)    == IF S = {} THEN 0 ELSE CHOOSE x \in S : TRUE

\* the union of a SET of sources, defined without any order (vel is treated by VelocityKept)
UnionOf(C) ==
    [alive |-> TRUE,
     ngs |-> TheOne(Vals(C, "ngs")), ggs |-> TheOne(Vals(C, "ggs")),
     nd  |-> TheOne(Vals(C, "nd")),  gd  |-> TheOne(Vals(C, "gd")),
     pdose |-> TheOne({PDoseOf(src[s]) : s \in C} \ {0}),
     meta  |-> [k \in Kinds |-> TheOne({src[s].meta : s \in OfKind(C, k)})],
     files |-> [k \in Kinds |-> OfKind(C, k)],
     fw    |-> Cardinality(OfKind(C, "n")) = 1 /\ src[TheOne(OfKind(C, "n"))].fw,
     nucs  |-> [l \in Labels |->
                  LET hn == Holder(C, l, "n") IN
                  [n |-> TheOne(hn), g |-> TheOne(Holder(C, l, "g")), p |-> TheOne(Holder(C, l, "p")),
                   \* a fissile nuclide writes its own chi unless it still relies on its file's chi
                   cf |-> l \in Fissile /\ hn # {} /\ (~src[TheOne(hn)].fw \/ Cardinality(OfKind(C, "n")) >= 2)]]]
NoVel(L) == [x \in DOMAIN L \ {"vel"} |-> L[x]]

TypeOK ==
    /\ \A s \in Srcs : WellFormed(src[s])
    /\ \A i \in LibIx : lib[i].alive \in BOOLEAN /\ (~lib[i].alive => lib[i] = Dead)
    /\ err \in {"", "Property", "Metadata", "Overlap"}

\* the union, each datum from its source, independent of the order (confluence)
MergedIsUnion == \A i \in LibIx : lib[i].alive => NoVel(lib[i]) = UnionOf(From(lib[i]))
\* exactly the union of the nuclides
LabelsAreUnion == \A i \in LibIx : lib[i].alive => LabelsOf(lib[i]) = UNION {src[s].labs : s \in From(lib[i])}
\* the velocity is one of the merged neutron libraries', and there is one iff a neutron library was merged
VelocityKept == \A i \in LibIx : lib[i].alive =>
                    /\ (lib[i].vel = 0) = (OfKind(From(lib[i]), "n") = {})
                    /\ lib[i].vel # 0 => lib[i].vel \in OfKind(From(lib[i]), "n")
\* never silently combined: what lives in one library is pairwise compatible and no (label, kind) has two providers
NoSilentCombine == \A i \in LibIx : lib[i].alive =>
                    LET C == From(lib[i]) IN
                    /\ \A f \in {"ngs", "ggs", "nd", "gd"} : Cardinality(Vals(C, f)) <= 1
                    /\ \A k \in Kinds : Cardinality({src[s].meta : s \in OfKind(C, k)}) <= 1
                    /\ Cardinality({PDoseOf(src[s]) : s \in C} \ {0}) <= 1
                    /\ \A l \in Labels : \A k \in Kinds : Cardinality(Holder(C, l, k)) <= 1
\* no source is lost or duplicated, whatever was refused on the way
SourcesPartitioned ==
    /\ UNION {From(lib[i]) : i \in {j \in LibIx : lib[j].alive}} = Srcs
    /\ \A i, j \in LibIx : i # j /\ lib[i].alive /\ lib[j].alive => From(lib[i]) \cap From(lib[j]) = {}
\* refusals leave everything as it was
RefusalsChangeNothing == [][err' # "" => UNCHANGED vars]_<<vars, err, act>>
\* a refusal is justified by a pair of sources that really disagree (no spurious refusals)
RefusalJustified == [][err' # "" =>
        LET C == From(lib[act'.t]) \cup From(lib[act'.o]) IN
           \/ \E f \in {"ngs", "ggs", "nd", "gd"} : Cardinality(Vals(C, f)) > 1
           \/ \E k \in Kinds : Cardinality({src[s].meta : s \in OfKind(C, k)}) > 1
           \/ Cardinality({PDoseOf(src[s]) : s \in C} \ {0}) > 1
           \/ \E l \in Labels : \E k \in Kinds : Cardinality(Holder(C, l, k)) > 1]_<<vars, err, act>>

(* ---------- the known deviation (D1), stated exactly ---------- *)
\* IsotxsLibrary.merge is not atomic: _mergeProperties has assigned the library-level properties it examines BEFORE the one
\* that conflicts (order: neutron dose factors, neutron energies, velocity, gamma energies, gamma dose factors), and all of them
\* when the refusal comes later (metadata, nuclides).  A refused merge must leave these five either untouched (the property)
\* or exactly in this state (the known finding); anything else is a new violation.
PropOrder == <<"nd", "ngs", "vel", "ggs", "gd">>
AsBuiltProps(T, O, kind) ==
    LET stop == IF kind # "Property" THEN Len(PropOrder) + 1
                ELSE CHOOSE i \in 1..Len(PropOrder) :
                        /\ PropOrder[i] # "vel" /\ Differ(T[PropOrder[i]], O[PropOrder[i]])
                        /\ \A j \in 1..(i - 1) : PropOrder[j] = "vel" \/ ~Differ(T[PropOrder[j]], O[PropOrder[j]])
    IN [f \in {PropOrder[i] : i \in 1..Len(PropOrder)} |->
          LET i == CHOOSE k \in 1..Len(PropOrder) : PropOrder[k] = f IN
          IF i < stop THEN First(T[f], O[f]) ELSE T[f]]
AsBuiltOf(a, e) == IF e # "" /\ a.n = "MergeRefused" THEN AsBuiltProps(lib[a.t], lib[a.o], e) ELSE [none |-> 0]

(* ==================================== observation ==================================== *)
SortSet(S) == SetToSortSeq(S, <)
\* integers and sequences of integers only (booleans as 0 / 1): the projection of a real library reports what it cannot
\* name as a negative integer, and TLC must be able to compare the two
B(x) == IF x THEN 1 ELSE 0
LibObs(L) ==
    IF ~L.alive THEN [alive |-> FALSE]
    ELSE [alive |-> TRUE, ngs |-> L.ngs, ggs |-> L.ggs, nd |-> L.nd, gd |-> L.gd, vel |-> L.vel, pdose |-> L.pdose,
          meta |-> L.meta, files |-> [k \in Kinds |-> SortSet(L.files[k])], fw |-> B(L.fw),
          labels |-> SortSet(LabelsOf(L)),
          \* the per-id view of the library: getNuclides(id) = the labels whose LAST TWO characters are the id
          ids |-> [x \in 1..NId |-> SortSet({l \in LabelsOf(L) : IdOf[l] = x})],
          nucs |-> [l \in Labels |-> [n |-> L.nucs[l].n, g |-> L.nucs[l].g, p |-> L.nucs[l].p, cf |-> B(L.nucs[l].cf),
                                      owner |-> B(Present(L, l))]]]
Obs == [libs |-> [i \in 1..(NSrc + 1) |-> LibObs(lib[i - 1])]]
SrcJson(d) == [kind |-> d.kind, labs |-> SortSet(d.labs), ngs |-> d.ngs, ggs |-> d.ggs, nd |-> d.nd, gd |-> d.gd,
               meta |-> d.meta, fw |-> d.fw]
Vars == [src |-> [s \in Srcs |-> SrcJson(src[s])], lib |-> Obs.libs]
=====================================================================================================
