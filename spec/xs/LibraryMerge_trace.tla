--------------------------------------- MODULE LibraryMerge_trace ---------------------------------------
(* code -> spec: recorded merge histories (random source libraries, random merge attempts on the real code, the complete
   projection of every library after every call) must be behaviours of LibraryMerge, event by event.  The recorder logs
   only  target.merge(other)  and what it observed; whether that is a Merge or a MergeRefused is for the specification
   to say.  Each trace carries its own source descriptors. *)
EXTENDS LibraryMerge, IOUtils, TLCExt
IdOf5  == <<1, 2, 1, 2, 1>>
Traces == ndJsonDeserialize(IOEnv.TRACE_FILE)
NT     == Len(Traces)
VARIABLES tid, l
ASSUME \A t \in 1..NT : TLCSet(t, 0)
SeqSet(s) == {s[i] : i \in 1..Len(s)}
DescOf(j) == [kind |-> j.kind, labs |-> SeqSet(j.labs), ngs |-> j.ngs, ggs |-> j.ggs, nd |-> j.nd, gd |-> j.gd,
              meta |-> j.meta, fw |-> j.fw]
TInit == /\ tid \in 1..NT /\ l = 1
         /\ src = [s \in Srcs |-> DescOf(Traces[tid].src[s])]
         /\ lib = [i \in LibIx |-> IF i = 0 THEN EmptyLib ELSE LibOf(src[i], i)]
         /\ err = "" /\ act = [n |-> "Init"]
Ev == Traces[tid].ev[l]
A  == Ev.a
Step == A.n = "merge" /\ (Merge(A.t, A.o) \/ MergeRefused(A.t, A.o))
\* the outcome is compared as accepted / refused: which refusal class the code raises is logged (post.cls), not compared
\* every observed value is an integer, a sequence of integers or the boolean `alive` (diagnostics of the projection are
\* negative integers), so the comparison below never meets values of different types
Same == Obs'.libs = Ev.post.libs /\ ((err' = "") <=> (Ev.post.err = ""))
ObsMatch == \/ Same
            \/ /\ ~Same
               /\ PrintT(ToJson([mismatch |-> Traces[tid].id, at |-> l, expected |-> [libs |-> Obs'.libs, err |-> err',
                                                                                 asb |-> AsBuiltOf([n |-> IF err' = "" THEN "Merge" ELSE "MergeRefused", t |-> A.t, o |-> A.o], err')]]))
               /\ FALSE
TNext == /\ l <= Len(Traces[tid].ev) /\ l' = l + 1 /\ tid' = tid
         /\ Step
         /\ ObsMatch
TSpec == TInit /\ [][TNext]_<<vars, err, act, tid, l>>
Progress == IF TLCGet(tid) < l THEN TLCSet(tid, l) ELSE TRUE
Report == LET bad == {t \in 1..NT : TLCGet(t) # Len(Traces[t].ev) + 1} IN
          /\ \A t \in bad : PrintT(ToJson([rejected |-> Traces[t].id, matched |-> TLCGet(t) - 1]))
          /\ PrintT(ToJson([accepted |-> NT - Cardinality(bad), of |-> NT]))
=====================================================================================================
