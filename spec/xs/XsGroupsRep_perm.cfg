\* both tiers: blocks of three components stored in all six orders, collections of up to 2; all laws and one printed case per (collection, option)
CONSTANTS CompArea <- McCompArea3  Holds <- McHolds3  NNuc = 4  AW <- McAW  Families <- FamsPerm  OptsOf <- OptsFor  NameRev = TRUE
  DomOf <- DomEmQ  MaxOf <- MaxEmQ
INIT Init
NEXT Next
VIEW View
ACTION_CONSTRAINT Emit
INVARIANT TypeOK
INVARIANT EligibleOnly
INVARIANT BetweenMinMax
INVARIANT CommonValue
INVARIANT DuplicationInvariant
INVARIANT RescalingInvariant
INVARIANT WeightIsFluxTimesVolume
INVARIANT ByComponentAgreesWithBlockLevel
INVARIANT BurnupIgnoresVolume
INVARIANT MedianIsEligibleMember
INVARIANT MedianIsMiddle
INVARIANT CylinderSourceIsMiddle
INVARIANT StorageOrderIrrelevant
INVARIANT TemperaturesAgree
INVARIANT OutcomeRule
PROPERTY CreateLeavesMembers
CHECK_DEADLOCK FALSE
