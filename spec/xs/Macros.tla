---------------------------------------------- MODULE Macros ----------------------------------------------
(* C10, second half -- macroscopic constants are number-density-weighted sums of the microscopic ones
   (armi/nuclearDataIO/xsCollections.py: computeMacroscopicGroupConstants, compute*EnergyDepositionConstants,
   compute*EnergyGenerationConstants, MacroscopicCrossSectionCreator, XSCollection.getTotalScatterMatrix).

   A pure function over a discrete domain.  One complete state = one case  [v, sfx, comp]  (comp is filled in density by
   density, so that TLC's workers share the cases):
     v      variant of the generated micro table (which optional reactions / scatter matrices / heating data exist)
     sfx    cross-section-id suffix of the composition: "AA" or "NA"
     comp   nuclide -> number density (exact rational), nuclides 1..NNuc = U235, FE56, NA23, PU239
   The library (ISOTXS + GAMISO + PMATRX parts, merged) holds nuclides 1..3 under id AA and nuclides 1 and 3, with other
   numbers, under id NA -- the id "NA" is a substring of the label NA23AA of the OTHER id, so a suffix test that looks at the
   whole label instead of its last two characters picks up a foreign nuclide.  Nuclide 4 is in no library.
   Micros are small dyadic rationals, a function of (radiation, variant, nuclide, suffix, reaction, group) -- the harness
   builds the real library from the table this module prints (TableJson) and calls the real functions once per case printed
   by CaseJson; every expected array is evaluated by TLC.

   What the code does, transcribed
     - computeMacroscopicGroupConstants(r, libType):  sum over the nuclides of the composition with a non-zero density of
       N_n times sigma_{n,sfx,r} of the NEUTRON ("micros") or GAMMA ("gammaXS") collection, times a per-nuclide multiplier
       where asked for (nu per group, efiss, ecapt) which is read from multLib when one is given, else from the same library;
       a nuclide with a non-zero density that the library does not hold under this suffix is refused (ValueError, documented:
       "an error is raised"); a zero density is skipped, so a missing nuclide with density 0 is harmless.
     - an optional reaction the file does not carry is the zero vector (the ISOTXS reader fills zeros); heating data a
       PMATRX nuclide does not carry contribute nothing.
     - MacroscopicCrossSectionCreator.createMacrosFromMicros(lib, block, nucNames, libType) with minimumNuclideDensity: the
       composition is the block's, restricted to nucNames and to densities ABOVE the minimum; every field -- vectors and
       scatter matrices alike -- is the weighted sum over that restricted composition, of the collection libType names;
       scatter matrices are summed over the LIBRARY's nuclides of that suffix (density 0 when not selected);
       absorption = sum of the seven absorption reactions; totalScatter = elastic + inelastic + 2 x n2n matrices;
       removal = absorption - n2n + column sums of totalScatter - its diagonal, i.e. absorption plus everything scattered
       OUT of the group, to lower and to higher energies alike (the tables have up-scatter entries).
     - multipliers: nu per group from the collection; efiss / ecapt from the nuclide's ISOTXS record, where 0.0 is a value.
     - XSCollection.getTotalScatterMatrix on one nuclide: the same sum over the matrices the nuclide HAS.

   Representation: a result is a record of indexed families of rationals (vectors indexed by group, matrices by <<to, from>>,
   the seven reactions by <<reaction, group>>), so that sums and multiples of whole results are one-liners.
   Laws checked in the specification (exact rationals) for every case: ZeroForEmpty, AdditiveOverNuclides,
   AdditiveOverSelections, Homogeneous, AdditiveOverCompositions, MissingZeroIsHarmless (neutron collection and the energy
   constants), GammaAdditive, DerivedCommute (both collections).
   Interpretation: "zero for an empty composition" = the zero vector of the group count (not None, not an exception).
*)
EXTENDS Integers, Sequences, FiniteSets, TLC, Json, FiniteSetsExt, SequencesExt, Rational

CONSTANTS NG,        \* neutron groups
          NGam,      \* gamma groups
          Variants,  \* set of table variants (1..k)
          DensSeq,   \* sequence of densities (rationals <<num, den>>) a composition may use
          PairSet    \* the second operands d of AdditiveOverCompositions (a set of compositions)
NNuc == 4
Nuc  == 1..NNuc
Sfxs == {"AA", "NA"}
Rads == {"n", "g"}
GrpOf(rad) == IF rad = "n" THEN 1..NG ELSE 1..NGam
RadIdx(rad) == IF rad = "n" THEN 0 ELSE 3

VARIABLES case
vars == <<case>>

InLib(n, s) == (s = "AA" /\ n \in 1..3) \/ (s = "NA" /\ n \in {1, 3})
LibNucs(s)  == {n \in Nuc : InLib(n, s)}
Fis(n)      == n = 1
SIdx(s)     == IF s = "AA" THEN 0 ELSE 1
\* the library whose multipliers are used in the multLib cases: the one of the next table variant
V2(v)       == IF v + 1 \in Variants THEN v + 1 ELSE 1

(* ---------- the micro tables (rad = "n": ISOTXS micros, rad = "g": GAMISO gammaXS) ---------- *)
AbsParts == <<"nGamma", "fission", "nalph", "np", "nd", "nt", "n2n">>     \* XSCollection.getAbsorptionXS order
NAbs     == Len(AbsParts)
Capture  == {"nGamma", "nalph", "np", "nd", "nt"}
RIdx(r)  == CHOOSE i \in 1..NAbs : AbsParts[i] = r
Has(rad, v, n, r) == CASE r = "nGamma" -> TRUE
                       [] r = "fission" -> Fis(n)
                       [] OTHER -> ((v + 2 * n + RIdx(r) + RadIdx(rad)) % 3) # 0
Sig(rad, v, n, s, r, g) ==
    IF Has(rad, v, n, r) THEN RFrac(1 + ((3 * n + 5 * RIdx(r) + 7 * g + 2 * SIdx(s) + v + RadIdx(rad)) % 8), 4) ELSE RZero
Nu(rad, v, n, g)     == IF Fis(n) THEN RFrac(9 + g + v + RadIdx(rad), 4) ELSE RZero
Tot(rad, v, n, s, g) == RFrac(40 + ((n + 3 * g + SIdx(s) + v + RadIdx(rad)) % 8), 4)
Trn(rad, v, n, s, g) == RFrac(32 + ((2 * n + g + SIdx(s) + v + RadIdx(rad)) % 8), 4)
\* energy per fission / per capture (ISOTXS efiss, ecapt: scalars of the nuclide record).  A file states them for every
\* nuclide; exactly 0 is a legal value and must act as 0, not as "absent"
EFiss(v, n) == IF Fis(n) /\ v # 2 THEN RFrac(3 + n + v, 2) ELSE RZero
ECapt(v, n) == IF ((v + n) % 3) = 0 THEN RZero ELSE RFrac(1 + n + v, 4)

ScatKinds == <<"elasticScatter", "inelasticScatter", "n2nScatter">>
MIdx(m)   == CHOOSE i \in 1..3 : ScatKinds[i] = m
HasScat(rad, v, n, m) == CASE m = "elasticScatter" -> TRUE
                           [] m = "inelasticScatter" -> ((v + n + RadIdx(rad)) % 2) = 0
                           [] OTHER -> ((v + n + RadIdx(rad)) % 3) # 0
\* [to, from].  Down-scatter (from < to) with some zeros inside the band (sparse); UP-scatter (from > to) in the elastic and
\* inelastic matrices of some nuclides; the (n,2n) matrix scatters down only
UpScat(v, n, m, to, from) == m # "n2nScatter" /\ ((v + n + MIdx(m) + to + 2 * from) % 2) = 0
Scat(rad, v, n, s, m, to, from) ==
    IF ~HasScat(rad, v, n, m) \/ (from > to /\ ~UpScat(v, n, m, to, from))
       \/ (from < to /\ ((to + from + n + MIdx(m) + v) % 3) = 0) THEN RZero
    ELSE RFrac(1 + ((n + 3 * MIdx(m) + 5 * to + 7 * from + SIdx(s) + v + RadIdx(rad)) % 6), 8)

HasGHeat(v, n) == ((v + n) % 2) = 1
NHeat(v, n, s, g) == RFrac(2 + ((n + g + SIdx(s) + v) % 4), 2)
GHeat(v, n, s, g) == IF HasGHeat(v, n) THEN RFrac(1 + ((n + 2 * g + SIdx(s) + v) % 4), 2) ELSE RZero

(* ---------- indexed families of rationals, records of them, records of records of them ---------- *)
FAdd(a, b)   == [i \in DOMAIN a |-> RAdd(a[i], b[i])]
FSub(a, b)   == [i \in DOMAIN a |-> RSub(a[i], b[i])]
FScale(k, a) == [i \in DOMAIN a |-> RMul(k, a[i])]
R2Add(A, B)   == [f \in DOMAIN A |-> FAdd(A[f], B[f])]
R2Scale(k, A) == [f \in DOMAIN A |-> FScale(k, A[f])]
R3Add(A, B)   == [p \in DOMAIN A |-> R2Add(A[p], B[p])]
R3Scale(k, A) == [p \in DOMAIN A |-> R2Scale(k, A[p])]

(* ---------- compositions ---------- *)
Dens   == {DensSeq[i] : i \in 1..Len(DensSeq)}
Comps  == [Nuc -> Dens]
CZero  == [n \in Nuc |-> RZero]
CScale(k, c) == [n \in Nuc |-> RMul(k, c[n])]
CPlus(c, d)  == [n \in Nuc |-> RAdd(c[n], d[n])]
COnly(c, S)  == [m \in Nuc |-> IF m \in S THEN c[m] ELSE RZero]
\* what createMacrosFromMicros keeps of a block's composition: the nuclides named, with a density above the minimum
Selected(c, names, thr) == [m \in Nuc |-> IF m \in names /\ RLt(thr, c[m]) THEN c[m] ELSE RZero]
Refused(c, s) == \E n \in Nuc : ~RIsZero(c[n]) /\ ~InLib(n, s)          \* ValueError: nuclide not in the library

(* ---------- per-nuclide (microscopic) derived quantities ---------- *)
MicroAbs(rad, v, n, s)     == [g \in GrpOf(rad) |-> RSumSet(1..NAbs, LAMBDA i : Sig(rad, v, n, s, AbsParts[i], g))]
\* XSCollection.getTotalScatterMatrix: the matrices that exist, n2n counted twice (reaction-based -> production-based)
MicroTotScat(rad, v, n, s) == [tf \in GrpOf(rad) \X GrpOf(rad) |->
        RAdd(RAdd(Scat(rad, v, n, s, "elasticScatter", tf[1], tf[2]), Scat(rad, v, n, s, "inelasticScatter", tf[1], tf[2])),
             RMul(RInt(2), Scat(rad, v, n, s, "n2nScatter", tf[1], tf[2])))]
OutScatter(rad, ts)        == [f \in GrpOf(rad) |-> RSumSet(GrpOf(rad) \ {f}, LAMBDA t : ts[<<t, f>>])]   \* everything leaving group f
MicroRemoval(rad, v, n, s) == [g \in GrpOf(rad) |->
        RAdd(RSub(MicroAbs(rad, v, n, s)[g], Sig(rad, v, n, s, "n2n", g)), OutScatter(rad, MicroTotScat(rad, v, n, s))[g])]

(* ---------- macroscopic quantities: density-weighted sums over the library's nuclides of the suffix ---------- *)
WSum(c, s, f(_, _), D) == [i \in D |-> RSumSet(LibNucs(s), LAMBDA n : RMul(c[n], f(n, i)))]
\* everything the creator produces for one radiation; the derived quantities are built from the macroscopic parts
XsOf(rad, v, c, s) ==
    LET G  == GrpOf(rad)
        rx == WSum(c, s, LAMBDA n, ig : Sig(rad, v, n, s, AbsParts[ig[1]], ig[2]), (1..NAbs) \X G)
        sc == WSum(c, s, LAMBDA n, mtf : Scat(rad, v, n, s, ScatKinds[mtf[1]], mtf[2], mtf[3]), (1..3) \X G \X G)
        ab == [g \in G |-> RSumSet(1..NAbs, LAMBDA i : rx[<<i, g>>])]
        ts == [tf \in G \X G |-> RAdd(RAdd(sc[<<1, tf[1], tf[2]>>], sc[<<2, tf[1], tf[2]>>]), RMul(RInt(2), sc[<<3, tf[1], tf[2]>>]))]
    IN [rx |-> rx,
        nuSigF |-> WSum(c, s, LAMBDA n, g : RMul(Sig(rad, v, n, s, "fission", g), Nu(rad, v, n, g)), G),
        total |-> WSum(c, s, LAMBDA n, g : Tot(rad, v, n, s, g), G),
        transport |-> WSum(c, s, LAMBDA n, g : Trn(rad, v, n, s, g), G),
        scat |-> sc, absorption |-> ab, totalScatter |-> ts,
        removal |-> [g \in G |-> RAdd(RSub(ab[g], rx[<<RIdx("n2n"), g>>]), OutScatter(rad, ts)[g])]]
\* energy deposition / generation (neutron library + PMATRX), and the multiplied sums with the multipliers of ANOTHER library
Extras(v, c, s) ==
    [nheat |-> WSum(c, s, LAMBDA n, g : NHeat(v, n, s, g), GrpOf("n")),
     gheat |-> WSum(c, s, LAMBDA n, g : GHeat(v, n, s, g), GrpOf("g")),
     fisE  |-> WSum(c, s, LAMBDA n, g : RMul(Sig("n", v, n, s, "fission", g), EFiss(v, n)), GrpOf("n")),
     capE  |-> WSum(c, s, LAMBDA n, g : RMul(RSumSet(Capture, LAMBDA r : Sig("n", v, n, s, r, g)), ECapt(v, n)), GrpOf("n")),
     nuSigFx |-> WSum(c, s, LAMBDA n, g : RMul(Sig("n", v, n, s, "fission", g), Nu("n", V2(v), n, g)), GrpOf("n")),
     fisEx   |-> WSum(c, s, LAMBDA n, g : RMul(Sig("n", v, n, s, "fission", g), EFiss(V2(v), n)), GrpOf("n")),
     capEx   |-> WSum(c, s, LAMBDA n, g : RMul(Sig("n", v, n, s, "nGamma", g), ECapt(V2(v), n)), GrpOf("n"))]
AllOf(v, c, s) == [n |-> XsOf("n", v, c, s), g |-> XsOf("g", v, c, s), x |-> Extras(v, c, s)]
\* the laws with many operands are evaluated on the neutron collection and the extras; the gamma collection is the same
\* operator XsOf with rad = "g" and has its own additivity and derived-quantity laws (GammaAdditive, DerivedCommute)
LawOf(v, c, s) == [n |-> XsOf("n", v, c, s), x |-> Extras(v, c, s)]
AllZero == R3Scale(RZero, LawOf(1, CZero, "AA"))

\* a case is built density by density; it is complete with NNuc densities
Init == case \in [v : Variants, sfx : Sfxs, d : {<<>>}]
Next == /\ Len(case.d) < NNuc
        /\ \E q \in Dens : case' = [case EXCEPT !.d = Append(@, q)]
Spec == Init /\ [][Next]_vars

Complete == Len(case.d) = NNuc
V == case.v
S == case.sfx
C == [n \in Nuc |-> case.d[n]]
Here == LawOf(V, C, S)
\* the selections of createMacrosFromMicros that are exercised besides "the whole block"
SelNames == Nuc \ {2}            \* nucNames = every nuclide but FE56
SelThr   == RFrac(1, 2)          \* minimumNuclideDensity = 1/2: densities of 1/2 and below are dropped

(* ==================================== laws ==================================== *)
ZeroForEmpty == Complete => ((\A n \in LibNucs(S) : RIsZero(C[n])) =>
                                Here = AllZero /\ XsOf("g", V, C, S) = R2Scale(RZero, XsOf("g", 1, CZero, "AA")))
AdditiveOverNuclides == Complete =>
    Here = FoldLeft(LAMBDA acc, n : R3Add(acc, LawOf(V, COnly(C, {n}), S)), AllZero, SetToSeq(Nuc))
GammaAdditive == Complete =>
    XsOf("g", V, C, S) = FoldLeft(LAMBDA acc, n : R2Add(acc, XsOf("g", V, COnly(C, {n}), S)),
                                  R2Scale(RZero, XsOf("g", 1, CZero, "AA")), SetToSeq(Nuc))
\* macros(A) + macros(B) = macros(A u B) for a split of the block's nuclides, and for the split made by the density threshold
AdditiveOverSelections == Complete =>
    /\ Here = R3Add(LawOf(V, Selected(C, SelNames, RInt(0 - 1)), S), LawOf(V, COnly(C, Nuc \ SelNames), S))
    /\ Here = R3Add(LawOf(V, Selected(C, Nuc, SelThr), S), LawOf(V, [m \in Nuc |-> IF RLt(SelThr, C[m]) THEN RZero ELSE C[m]], S))
Homogeneous == Complete =>
    LET H == Here IN \A k \in {RFrac(1, 2), RInt(3), RFrac(2, 3)} : LawOf(V, CScale(k, C), S) = R3Scale(k, H)
AdditiveOverCompositions == Complete =>
    LET H == Here IN \A d \in PairSet : LawOf(V, CPlus(C, d), S) = R3Add(H, LawOf(V, d, S))
\* a nuclide the library does not hold matters only through the refusal
MissingZeroIsHarmless == Complete => Here = LawOf(V, [n \in Nuc |-> IF InLib(n, S) THEN C[n] ELSE RZero], S)
\* derived quantities commute with the weighted sum
DerivedCommute == Complete =>
    \A rad \in Rads : LET H == [n |-> Here.n, g |-> XsOf("g", V, C, S)] IN
    /\ H[rad].absorption   = WSum(C, S, LAMBDA n, g : MicroAbs(rad, V, n, S)[g], GrpOf(rad))
    /\ H[rad].removal      = WSum(C, S, LAMBDA n, g : MicroRemoval(rad, V, n, S)[g], GrpOf(rad))
    /\ H[rad].totalScatter = WSum(C, S, LAMBDA n, tf : MicroTotScat(rad, V, n, S)[tf], GrpOf(rad) \X GrpOf(rad))
\* the domain really contains what the laws are about (checked once, on the constants)
ASSUME /\ \E v \in Variants : \E n \in 1..3 : RIsZero(ECapt(v, n)) /\ \E g \in GrpOf("n") : ~RIsZero(Sig("n", v, n, "AA", "nGamma", g))
       /\ \E v \in Variants : RIsZero(EFiss(v, 1)) /\ \E g \in GrpOf("n") : ~RIsZero(Sig("n", v, 1, "AA", "fission", g))
       /\ \A v \in Variants : \E n \in 1..3 : \E t, f \in GrpOf("n") : f > t /\ ~RIsZero(Scat("n", v, n, "AA", "elasticScatter", t, f))
       /\ \A v \in Variants : \E n \in 1..3 : \E t, f \in GrpOf("n") : f < t /\ ~RIsZero(Scat("n", v, n, "AA", "elasticScatter", t, f))
       /\ \A v \in Variants : \E g \in GrpOf("n") : Nu("n", v, 1, g) # Nu("n", V2(v), 1, g)
       /\ \A v \in Variants : \E g \in GrpOf("n") : Nu("n", v, 1, g) # Nu("g", v, 1, g)
TypeOK == case.v \in Variants /\ case.sfx \in Sfxs /\ Len(case.d) <= NNuc /\ \A i \in 1..Len(case.d) : case.d[i] \in Dens

(* ==================================== what is printed ==================================== *)
Q(v)  == <<v[1], v[2]>>
QVec(a, D)   == [g \in D |-> Q(a[g])]
QMat(a, D)   == [t \in D |-> [f \in D |-> Q(a[<<t, f>>])]]
QXs(X, rad) ==
    LET D == GrpOf(rad) IN
    [rx |-> [i \in 1..NAbs |-> [g \in D |-> Q(X.rx[<<i, g>>])]],
     nuSigF |-> QVec(X.nuSigF, D), total |-> QVec(X.total, D), transport |-> QVec(X.transport, D),
     scat |-> [i \in 1..3 |-> [t \in D |-> [f \in D |-> Q(X.scat[<<i, t, f>>])]]],
     absorption |-> QVec(X.absorption, D), totalScatter |-> QMat(X.totalScatter, D), removal |-> QVec(X.removal, D)]
RadEntry(rad, v, n, s) ==
    LET D == GrpOf(rad) IN
    [has   |-> [i \in 1..NAbs |-> Has(rad, v, n, AbsParts[i])],
     rx    |-> [i \in 1..NAbs |-> [g \in D |-> Q(Sig(rad, v, n, s, AbsParts[i], g))]],
     nu    |-> [g \in D |-> Q(Nu(rad, v, n, g))],
     total |-> [g \in D |-> Q(Tot(rad, v, n, s, g))], transport |-> [g \in D |-> Q(Trn(rad, v, n, s, g))],
     hasScat |-> [i \in 1..3 |-> HasScat(rad, v, n, ScatKinds[i])],
     scat    |-> [i \in 1..3 |-> [t \in D |-> [f \in D |-> Q(Scat(rad, v, n, s, ScatKinds[i], t, f))]]],
     totScat |-> QMat(MicroTotScat(rad, v, n, s), D)]
EntryJson(v, n, s) ==
    [nuc |-> n, sfx |-> s, fis |-> Fis(n), n |-> RadEntry("n", v, n, s), g |-> RadEntry("g", v, n, s),
     efiss |-> Q(EFiss(v, n)), ecapt |-> Q(ECapt(v, n)), hasGHeat |-> HasGHeat(v, n),
     nheat |-> [g \in GrpOf("n") |-> Q(NHeat(v, n, s, g))], gheat |-> [g \in GrpOf("g") |-> Q(GHeat(v, n, s, g))]]
TableJson(v) == [table |-> v, ng |-> NG, ngam |-> NGam, absParts |-> AbsParts, scatKinds |-> ScatKinds, multTable |-> V2(v),
                 entries |-> <<EntryJson(v, 1, "AA"), EntryJson(v, 2, "AA"), EntryJson(v, 3, "AA"),
                               EntryJson(v, 1, "NA"), EntryJson(v, 3, "NA")>>]
SelJson(tag, names, thr) ==
    LET eff == Selected(C, names, thr) IN
    [tag |-> tag, names |-> SetToSortSeq(names, <), thr |-> Q(thr), refused |-> Refused(eff, S), exp |-> QXs(XsOf("n", V, eff, S), "n")]
CaseJson ==
    LET H == AllOf(V, C, S) IN
    [v |-> V, sfx |-> S, comp |-> [n \in Nuc |-> Q(C[n])],
     refused |-> Refused(C, S),
     empty   |-> \A n \in Nuc : RIsZero(C[n]),
     n |-> QXs(H.n, "n"), g |-> QXs(H.g, "g"),
     x |-> [nheat |-> QVec(H.x.nheat, GrpOf("n")), gheat |-> QVec(H.x.gheat, GrpOf("g")), fisE |-> QVec(H.x.fisE, GrpOf("n")),
            capE |-> QVec(H.x.capE, GrpOf("n")), nuSigFx |-> QVec(H.x.nuSigFx, GrpOf("n")), fisEx |-> QVec(H.x.fisEx, GrpOf("n")),
            capEx |-> QVec(H.x.capEx, GrpOf("n"))],
     sel |-> <<SelJson("names", SelNames, RInt(0 - 1)), SelJson("minimum", Nuc, SelThr)>>]
=====================================================================================================
