---------------------------------------------- MODULE Macros ----------------------------------------------
(* C10, second half -- macroscopic constants are number-density-weighted sums of the microscopic ones
   (armi/nuclearDataIO/xsCollections.py: computeMacroscopicGroupConstants, compute*EnergyDepositionConstants,
   compute*EnergyGenerationConstants, MacroscopicCrossSectionCreator, XSCollection.getTotalScatterMatrix).

   A pure function over a discrete domain.  One complete state = one case  [v, sfx, comp]  (comp is filled in density by
   density, so that TLC's workers share the cases):
     v      variant of the generated micro table (which optional reactions / scatter matrices / heating data exist)
     sfx    cross-section-id suffix of the composition ("AA" or "AB")
     comp   nuclide -> number density (exact rational), nuclides 1..NNuc
   The library holds nuclides 1..3 under suffix AA and nuclide 1 (with other numbers) under suffix AB; nuclide 4 is in no
   library.  Micros are small dyadic rationals, a function of (variant, nuclide, suffix, reaction, group) -- the harness
   builds the real library from the table this module prints (TableJson) and calls the real functions once per case
   printed by CaseJson; every expected array below is evaluated by TLC.

   What the code does, transcribed
     - computeMacroscopicGroupConstants(r):  sum over the nuclides of the composition with a non-zero density of
       N_n times sigma_{n,sfx,r}, times a per-nuclide multiplier where asked for (nu per group, efiss, ecapt); a nuclide
       with a non-zero density that the library does not hold under this suffix is refused (ValueError, documented:
       "an error is raised"); a zero density is skipped, so a missing nuclide with density 0 is harmless.
     - an optional reaction the file does not carry is the zero vector (the ISOTXS reader fills zeros); heating data a
       PMATRX nuclide does not carry contribute nothing.
     - MacroscopicCrossSectionCreator: the vector reactions as above; scatter matrices summed over the LIBRARY's nuclides
       of that suffix with the composition's density (0 when not in the composition); absorption = sum of the seven
       absorption reactions; totalScatter = elastic + inelastic + 2 x n2n matrices; removal = absorption - n2n +
       column sums of totalScatter - its diagonal, i.e. absorption plus everything scattered OUT of the group, to lower
       and to higher energies alike (the tables have up-scatter entries, so the two sides of the diagonal both count).
     - multipliers: nu per group from the micros; efiss / ecapt from the nuclide's ISOTXS record, where 0.0 is a value.
     - XSCollection.getTotalScatterMatrix on one nuclide: the same sum over the matrices the nuclide HAS ("if a specific
       scattering matrix does not exist ... it is skipped").

   Laws checked in the specification (over exact rationals) for every case
     ZeroForEmpty, AdditiveOverNuclides, Homogeneous (k x comp), AdditiveOverCompositions (comp + d for every d of PairSet), MissingZeroIsHarmless, and DerivedCommute: absorption / totalScatter / removal computed from the
     macroscopic parts equal the density-weighted sums of the same quantities computed per nuclide.
   Interpretation: "zero for an empty composition" = the zero vector of the group count (not None, not an exception).
*)
EXTENDS Integers, Sequences, FiniteSets, TLC, Json, FiniteSetsExt, SequencesExt, Rational

CONSTANTS NG,        \* neutron groups
          NGam,      \* gamma groups
          Variants,  \* set of table variants
          DensSeq,   \* sequence of densities (rationals <<num, den>>) a composition may use
          PairSet    \* the second operands d of AdditiveOverCompositions (a set of compositions)
NNuc == 4
Nuc  == 1..NNuc
Sfxs == {"AA", "AB"}
Grp  == 1..NG
GGrp == 1..NGam

VARIABLES case
vars == <<case>>

InLib(n, s) == (s = "AA" /\ n \in 1..3) \/ (s = "AB" /\ n = 1)
LibNucs(s)  == {n \in Nuc : InLib(n, s)}
Fis(n)      == n = 1
SIdx(s)     == IF s = "AA" THEN 0 ELSE 1

(* ---------- the micro table ---------- *)
AbsParts == <<"nGamma", "fission", "nalph", "np", "nd", "nt", "n2n">>     \* XSCollection.getAbsorptionXS order
Capture  == {"nGamma", "nalph", "np", "nd", "nt"}
RIdx(r)  == CHOOSE i \in 1..Len(AbsParts) : AbsParts[i] = r
Has(v, n, r) == CASE r = "nGamma" -> TRUE
                  [] r = "fission" -> Fis(n)
                  [] OTHER -> ((v + 2 * n + RIdx(r)) % 3) # 0
Sig(v, n, s, r, g) == IF Has(v, n, r) THEN RFrac(1 + ((3 * n + 5 * RIdx(r) + 7 * g + 2 * SIdx(s) + v) % 8), 4) ELSE RZero
Nu(n, g)        == IF Fis(n) THEN RFrac(9 + g, 4) ELSE RZero
Tot(v, n, s, g) == RFrac(40 + ((n + 3 * g + SIdx(s) + v) % 8), 4)
Trn(v, n, s, g) == RFrac(32 + ((2 * n + g + SIdx(s) + v) % 8), 4)
\* energy per fission / per capture (ISOTXS efiss, ecapt: scalars of the nuclide record).  A file states them for every
\* nuclide; exactly 0 is a legal value (a nuclide whose captures / fissions release nothing) and must act as 0, not as
\* "absent": some (variant, nuclide) pairs carry a zero with non-zero cross sections
EFiss(v, n) == IF Fis(n) /\ v # 2 THEN RFrac(3 + n, 2) ELSE RZero
ECapt(v, n) == IF ((v + n) % 3) = 0 THEN RZero ELSE RFrac(1 + n, 4)

ScatKinds == <<"elasticScatter", "inelasticScatter", "n2nScatter">>
MIdx(m)   == CHOOSE i \in 1..3 : ScatKinds[i] = m
HasScat(v, n, m) == CASE m = "elasticScatter" -> TRUE
                      [] m = "inelasticScatter" -> ((v + n) % 2) = 0
                      [] OTHER -> ((v + n) % 3) # 0
\* [to][from].  Down-scatter (from < to, to a lower energy) with some zeros inside the band (sparse); UP-scatter (from > to)
\* in the elastic and inelastic matrices of some nuclides, so that "what leaves a group" (a column of the matrix without its
\* diagonal term) has entries on both sides of the diagonal; the (n,2n) matrix scatters down only
UpScat(v, n, m, to, from) == m # "n2nScatter" /\ ((v + n + MIdx(m) + to + 2 * from) % 2) = 0
Scat(v, n, s, m, to, from) ==
    IF ~HasScat(v, n, m) \/ (from > to /\ ~UpScat(v, n, m, to, from))
       \/ (from < to /\ ((to + from + n + MIdx(m) + v) % 3) = 0) THEN RZero
    ELSE RFrac(1 + ((n + 3 * MIdx(m) + 5 * to + 7 * from + SIdx(s) + v) % 6), 8)

HasGHeat(v, n) == ((v + n) % 2) = 1
NHeat(v, n, s, g) == RFrac(2 + ((n + g + SIdx(s) + v) % 4), 2)
GHeat(v, n, s, g) == IF HasGHeat(v, n) THEN RFrac(1 + ((n + 2 * g + SIdx(s) + v) % 4), 2) ELSE RZero

(* ---------- vectors and matrices of rationals ---------- *)
VZero(D)      == [g \in D |-> RZero]
VAdd(a, b)    == [g \in DOMAIN a |-> RAdd(a[g], b[g])]
VSub(a, b)    == [g \in DOMAIN a |-> RSub(a[g], b[g])]
VScale(k, a)  == [g \in DOMAIN a |-> RMul(k, a[g])]
MAdd(a, b)    == [t \in Grp |-> [f \in Grp |-> RAdd(a[t][f], b[t][f])]]
MScale(k, a)  == [t \in Grp |-> [f \in Grp |-> RMul(k, a[t][f])]]
ColSum(a)     == [f \in Grp |-> RSumSet(Grp, LAMBDA t : a[t][f])]      \* everything scattered out of group f
Diag(a)       == [f \in Grp |-> a[f][f]]

(* ---------- compositions ---------- *)
Dens   == {DensSeq[i] : i \in 1..Len(DensSeq)}
Comps  == [Nuc -> Dens]
CZero  == [n \in Nuc |-> RZero]
CScale(k, c) == [n \in Nuc |-> RMul(k, c[n])]
CPlus(c, d)  == [n \in Nuc |-> RAdd(c[n], d[n])]
COnly(c, n)  == [m \in Nuc |-> IF m = n THEN c[n] ELSE RZero]
Refused(c, s) == \E n \in Nuc : ~RIsZero(c[n]) /\ ~InLib(n, s)          \* ValueError: nuclide not in the library

(* ---------- per-nuclide (microscopic) quantities ---------- *)
MicroVec(v, n, s, r)  == [g \in Grp |-> Sig(v, n, s, r, g)]
MicroAbs(v, n, s)     == FoldLeft(LAMBDA acc, r : VAdd(acc, MicroVec(v, n, s, r)), VZero(Grp), AbsParts)
MicroScat(v, n, s, m) == [t \in Grp |-> [f \in Grp |-> Scat(v, n, s, m, t, f)]]
\* XSCollection.getTotalScatterMatrix: the matrices that exist, n2n counted twice (reaction-based -> production-based)
MicroTotScat(v, n, s) == MAdd(MAdd(MicroScat(v, n, s, "elasticScatter"), MicroScat(v, n, s, "inelasticScatter")),
                              MScale(RInt(2), MicroScat(v, n, s, "n2nScatter")))
MicroRemoval(v, n, s) == LET ts == MicroTotScat(v, n, s) IN
                         VAdd(VSub(MicroAbs(v, n, s), MicroVec(v, n, s, "n2n")), VSub(ColSum(ts), Diag(ts)))

(* ---------- macroscopic quantities: density-weighted sums over the library's nuclides of the suffix ---------- *)
WSum(c, s, f(_, _), D)  == [g \in D |-> RSumSet(LibNucs(s), LAMBDA n : RMul(c[n], f(n, g)))]
MacroVec(v, c, s, r)    == WSum(c, s, LAMBDA n, g : Sig(v, n, s, r, g), Grp)
MacroNuSigF(v, c, s)    == WSum(c, s, LAMBDA n, g : RMul(Sig(v, n, s, "fission", g), Nu(n, g)), Grp)
MacroTot(v, c, s)       == WSum(c, s, LAMBDA n, g : Tot(v, n, s, g), Grp)
MacroTrn(v, c, s)       == WSum(c, s, LAMBDA n, g : Trn(v, n, s, g), Grp)
MacroNHeat(v, c, s)     == WSum(c, s, LAMBDA n, g : NHeat(v, n, s, g), Grp)
MacroGHeat(v, c, s)     == WSum(c, s, LAMBDA n, g : GHeat(v, n, s, g), GGrp)
MacroFisE(v, c, s)      == WSum(c, s, LAMBDA n, g : RMul(Sig(v, n, s, "fission", g), EFiss(v, n)), Grp)
MacroCapE(v, c, s)      == WSum(c, s, LAMBDA n, g : RMul(RSumSet(Capture, LAMBDA r : Sig(v, n, s, r, g)), ECapt(v, n)), Grp)
MacroScat(v, c, s, m)   == [t \in Grp |-> [f \in Grp |-> RSumSet(LibNucs(s), LAMBDA n : RMul(c[n], Scat(v, n, s, m, t, f)))]]

\* everything one case is asked about, as one record; the derived quantities are built from the macroscopic parts
\* (the way MacroscopicCrossSectionCreator builds them)
AllOf(v, c, s) ==
    LET rx == [i \in 1..Len(AbsParts) |-> MacroVec(v, c, s, AbsParts[i])]
        sc == [i \in 1..3 |-> MacroScat(v, c, s, ScatKinds[i])]
        ab == FoldLeft(LAMBDA acc, i : VAdd(acc, rx[i]), VZero(Grp), [i \in 1..Len(AbsParts) |-> i])
        ts == MAdd(MAdd(sc[1], sc[2]), MScale(RInt(2), sc[3]))
    IN [rx      |-> rx,
        nuSigF  |-> MacroNuSigF(v, c, s), total |-> MacroTot(v, c, s), transport |-> MacroTrn(v, c, s),
        nheat   |-> MacroNHeat(v, c, s), gheat |-> MacroGHeat(v, c, s),
        fisE    |-> MacroFisE(v, c, s), capE |-> MacroCapE(v, c, s),
        scat    |-> sc,
        absorption |-> ab, totalScatter |-> ts,
        removal |-> VAdd(VSub(ab, rx[RIdx("n2n")]), VSub(ColSum(ts), Diag(ts)))]
\* field-wise sum / scaling of such records
AllPlus(A, B) ==
    [rx |-> [i \in DOMAIN A.rx |-> VAdd(A.rx[i], B.rx[i])],
     nuSigF |-> VAdd(A.nuSigF, B.nuSigF), total |-> VAdd(A.total, B.total), transport |-> VAdd(A.transport, B.transport),
     nheat |-> VAdd(A.nheat, B.nheat), gheat |-> VAdd(A.gheat, B.gheat), fisE |-> VAdd(A.fisE, B.fisE), capE |-> VAdd(A.capE, B.capE),
     scat |-> [i \in DOMAIN A.scat |-> MAdd(A.scat[i], B.scat[i])],
     absorption |-> VAdd(A.absorption, B.absorption), totalScatter |-> MAdd(A.totalScatter, B.totalScatter),
     removal |-> VAdd(A.removal, B.removal)]
AllScale(k, A) ==
    [rx |-> [i \in DOMAIN A.rx |-> VScale(k, A.rx[i])],
     nuSigF |-> VScale(k, A.nuSigF), total |-> VScale(k, A.total), transport |-> VScale(k, A.transport),
     nheat |-> VScale(k, A.nheat), gheat |-> VScale(k, A.gheat), fisE |-> VScale(k, A.fisE), capE |-> VScale(k, A.capE),
     scat |-> [i \in DOMAIN A.scat |-> MScale(k, A.scat[i])],
     absorption |-> VScale(k, A.absorption), totalScatter |-> MScale(k, A.totalScatter), removal |-> VScale(k, A.removal)]
AllZero == AllScale(RZero, AllOf(CHOOSE v \in Variants : TRUE, CZero, "AA"))

\* a case is built density by density; it is complete with NNuc densities
Init == case \in [v : Variants, sfx : Sfxs, d : {<<>>}]
Next == /\ Len(case.d) < NNuc
        /\ \E q \in Dens : case' = [case EXCEPT !.d = Append(@, q)]
Spec == Init /\ [][Next]_vars

Complete == Len(case.d) = NNuc
V == case.v
S == case.sfx
C == [n \in Nuc |-> case.d[n]]
Here == AllOf(V, C, S)

(* ==================================== laws ==================================== *)
ZeroForEmpty == Complete => ((\A n \in LibNucs(S) : RIsZero(C[n])) => Here = AllZero)
AdditiveOverNuclides == Complete =>
    Here = FoldLeft(LAMBDA acc, n : AllPlus(acc, AllOf(V, COnly(C, n), S)), AllZero, SetToSeq(Nuc))
Homogeneous == Complete =>
    LET H == Here IN \A k \in {RFrac(1, 2), RInt(2), RInt(3), RFrac(2, 3)} : AllOf(V, CScale(k, C), S) = AllScale(k, H)
AdditiveOverCompositions == Complete =>
    LET H == Here IN \A d \in PairSet : AllOf(V, CPlus(C, d), S) = AllPlus(H, AllOf(V, d, S))
\* a nuclide the library does not hold matters only through the refusal
MissingZeroIsHarmless == Complete => Here = AllOf(V, [n \in Nuc |-> IF InLib(n, S) THEN C[n] ELSE RZero], S)
\* derived quantities commute with the weighted sum
DerivedCommute == Complete =>
    LET H == Here IN
    /\ H.absorption   = WSum(C, S, LAMBDA n, g : MicroAbs(V, n, S)[g], Grp)
    /\ H.removal      = WSum(C, S, LAMBDA n, g : MicroRemoval(V, n, S)[g], Grp)
    /\ H.totalScatter = [t \in Grp |-> [f \in Grp |-> RSumSet(LibNucs(S), LAMBDA n : RMul(C[n], MicroTotScat(V, n, S)[t][f]))]]
\* the domain really contains what the laws are about: a zero energy-per-capture and a zero energy-per-fission next to
\* non-zero cross sections, and scatter entries on both sides of the diagonal (checked once, on the constants)
ASSUME /\ \E v \in Variants : \E n \in 1..3 : RIsZero(ECapt(v, n)) /\ \E g \in Grp : ~RIsZero(Sig(v, n, "AA", "nGamma", g))
       /\ \E v \in Variants : RIsZero(EFiss(v, 1)) /\ \E g \in Grp : ~RIsZero(Sig(v, 1, "AA", "fission", g))
       /\ \A v \in Variants : \E n \in 1..3 : \E t, f \in Grp : f > t /\ ~RIsZero(Scat(v, n, "AA", "elasticScatter", t, f))
       /\ \A v \in Variants : \E n \in 1..3 : \E t, f \in Grp : f < t /\ ~RIsZero(Scat(v, n, "AA", "elasticScatter", t, f))
TypeOK == case.v \in Variants /\ case.sfx \in Sfxs /\ Len(case.d) <= NNuc /\ \A i \in 1..Len(case.d) : case.d[i] \in Dens

(* ==================================== what is printed ==================================== *)
Q(v)  == <<v[1], v[2]>>
QV(a) == [g \in DOMAIN a |-> Q(a[g])]
QM(a) == [t \in DOMAIN a |-> QV(a[t])]
EntryJson(v, n, s) ==
    [nuc |-> n, sfx |-> s, fis |-> Fis(n),
     has   |-> [i \in 1..Len(AbsParts) |-> Has(v, n, AbsParts[i])],
     rx    |-> [i \in 1..Len(AbsParts) |-> QV(MicroVec(v, n, s, AbsParts[i]))],
     nu    |-> QV([g \in Grp |-> Nu(n, g)]),
     total |-> QV([g \in Grp |-> Tot(v, n, s, g)]), transport |-> QV([g \in Grp |-> Trn(v, n, s, g)]),
     efiss |-> Q(EFiss(v, n)), ecapt |-> Q(ECapt(v, n)),
     hasScat |-> [i \in 1..3 |-> HasScat(v, n, ScatKinds[i])],
     scat    |-> [i \in 1..3 |-> QM(MicroScat(v, n, s, ScatKinds[i]))],
     totScat |-> QM(MicroTotScat(v, n, s)),
     hasGHeat |-> HasGHeat(v, n),
     nheat |-> QV([g \in Grp |-> NHeat(v, n, s, g)]), gheat |-> QV([g \in GGrp |-> GHeat(v, n, s, g)])]
TableJson(v) == [table |-> v, ng |-> NG, ngam |-> NGam, absParts |-> AbsParts, scatKinds |-> ScatKinds,
                 entries |-> <<EntryJson(v, 1, "AA"), EntryJson(v, 2, "AA"), EntryJson(v, 3, "AA"), EntryJson(v, 1, "AB")>>]
CaseJson ==
    LET H == Here IN
    [v |-> V, sfx |-> S, comp |-> [n \in Nuc |-> Q(C[n])],
     refused |-> Refused(C, S),
     empty   |-> \A n \in Nuc : RIsZero(C[n]),
     exp |-> [rx |-> [i \in 1..Len(AbsParts) |-> QV(H.rx[i])],
              nuSigF |-> QV(H.nuSigF), total |-> QV(H.total), transport |-> QV(H.transport),
              nheat |-> QV(H.nheat), gheat |-> QV(H.gheat), fisE |-> QV(H.fisE), capE |-> QV(H.capE),
              scat |-> [i \in 1..3 |-> QM(H.scat[i])],
              absorption |-> QV(H.absorption), totalScatter |-> QM(H.totalScatter), removal |-> QV(H.removal)]]
=====================================================================================================
