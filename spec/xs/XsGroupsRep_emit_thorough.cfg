\* emission (thorough)
CONSTANTS CompArea <- McCompArea  Holds <- McHolds  NNuc = 4  AW <- McAW  Families <- Fams  OptsOf <- OptsFor  NameRev = TRUE
  DomOf <- DomEmT  MaxOf <- MaxEmT
INIT Init
NEXT Next
VIEW View
ACTION_CONSTRAINT Emit
CHECK_DEADLOCK FALSE
