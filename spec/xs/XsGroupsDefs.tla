------------------------------------------ MODULE XsGroupsDefs ------------------------------------------
(* Letters shared by the C20 modules: the 52 admissible cross-section-type / environment-group letters in the
   order of their character codes (crossSectionGroupManager._ALLOWABLE_XS_TYPE_LIST = ascii_uppercase + ascii_lowercase;
   blockParameters envGroup/envGroupNum: 0 -> 'A' ... 25 -> 'Z', 26 -> 'a' ... 51 -> 'z'). *)
EXTENDS Integers, Sequences
Alphabet == <<"A","B","C","D","E","F","G","H","I","J","K","L","M","N","O","P","Q","R","S","T","U","V","W","X","Y","Z",
              "a","b","c","d","e","f","g","h","i","j","k","l","m","n","o","p","q","r","s","t","u","v","w","x","y","z">>
\* character code (ord) of the i-th letter: 'A' = 65 ... 'Z' = 90, 'a' = 97 ... 'z' = 122
Code(i) == IF i <= 26 THEN 64 + i ELSE 70 + i
\* environment group number <-> letter
EnvNums == 0..51
EnvLetterIdx(n) == n + 1
EnvLetter(n)    == Alphabet[EnvLetterIdx(n)]
EnvNumOfIdx(i)  == i - 1
=====================================================================================================
