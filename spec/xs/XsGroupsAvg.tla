------------------------------------------ MODULE XsGroupsAvg ------------------------------------------
(* C20, the clauses about the representative block of ONE cross-section group:

     "The representative block of a group is built only from the group's eligible members: with averaging, each
      nuclide density (per block or per matching component) and each nuclide temperature is the weight-normalised
      mean of the members' values - hence between their minimum and maximum, equal to the common value when members
      agree, unchanged by duplicating every member or rescaling all weights - and the averaged burnup is the
      heavy-metal-weighted mean; with the median option it is a copy of an actual member holding the median
      weighted burnup.  Creating representatives never changes the blocks of the core."

   Code transcribed (armi/physics/neutronics/crossSectionGroupManager.py)
     blockCollectionFactory(xsSettings, nuclides)            -> an option  [rep, filter, byComp]
     BlockCollection.getCandidateBlocks                      -> Cand       (hasFlags(validBlockTypes); None = all)
     BlockCollection.getWeight                               -> Wt         ((p[weightingParam] or 1) * volume)
     BlockCollection._checkValidWeightingFactors             -> Refused    (zero and non-zero flux mixed -> ValueError)
     BlockCollection.createRepresentativeBlock               -> RepOf      (the one operation; a state = one collection)
     AverageBlockCollection._getAverageNumberDensities       -> AvgDens    (homogenised block densities)
       + Block.setNumberDensities (composites.updateNumberDensities) -> Spread (block mode: same density in every holder)
       ._getAverageComponentNumberDensities                  -> AvgCompDens
       ._getAverageComponentTemperature                      -> AvgCompTemp (weights W/height, times component mass)
       ._performAverageByComponent/_checkBlockSimilarity     -> ByComp     (same component flags in every candidate)
       ._getNucTempHelper + calcAvgNuclideTemperatures
         + getBlockNuclideTemperatureAvgTerms                -> NucTemp
       ._calcWeightedBurnup                                  -> Burnup
     FluxWeightedAverageBlockCollection                      -> rep = "FluxWeightedAverage" (weightingParam "flux")
     MedianBlockCollection._getMedianBlock                   -> MedianIdx  (sorted by (burnup*weight, name); index n div 2)
     MedianBlockCollection._makeRepresentativeBlock          -> the copy carries a duplicate of the member's lumped-fission-product
                                                                collection when the member has one (field lfp)
     CylindricalComponentsAverageBlockCollection             -> rep = "ComponentAverage1DCylinder"
       ._selectCandidateBlock/_getNewBlock                   -> CylSourceIdx (candidate at index n div 2 of (block-average temperature, name))
     SlabComponentsAverageBlockCollection                    -> rep = "ComponentAverage1DSlab": the same component averages on blocks of
                                                                rectangles stored in one order; copy of the first candidate; it computes
                                                                no nuclide temperatures (ntemp = <<>>)
       ._makeRepresentativeBlock/_getAverageComponentNucs    -> per sorted component, weights W * component area = AvgCompDens with volume
                                                                weights (the areas agree between blocks); burnup and nuclide temperatures
                                                                as for Average; component temperatures stay those of the copied candidate

   A block is a record
     kind  block type ("fuel", "control", "reflector"); the valid-block-type filter selects on it
     alt   FALSE: components flagged fuel/clad, TRUE: fuel/bond  (by-component averaging needs equal flags)
     h     height; every block has the same components with hot areas CompArea, so volume = Area*h, component volume a_c*h
     w, wd the weighting parameter value (flux) is the fraction w / wd, wd in {1, 2, 4} (values below 1 matter: "or 1.0" replaces
           a zero only);  bu  percentBu;  hm  massHmBOL
     n     n[c][k] number density of nuclide k in component c; the component holds (has a key for) the nuclides of Holds[c] and
           any other nuclide of positive density, so members of one collection may hold different nuclide sets
     t     t[c] component temperature
     ord   the order in which the components are stored in the block (a permutation of the sorted order; nothing may depend on it)
     lfp   the block carries a lumped-fission-product collection
     sym   symmetry factor of the block's position (HexBlock.getSymmetryFactor: 3 at the centre of a third core, 2 on its
           symmetry lines when both edges are filled, else 1): getVolume() and Component.getMass() are divided by it

   Interpretation choices
   * "weight" of a member = (flux or 1) * volume for the flux-weighted option, volume otherwise (getWeight);
     an all-zero flux vector therefore means volume weighting, a mixed one is refused (outcome "refused").
   * nuclide temperature: atoms-weighted (n*v) mean of the temperatures of the components holding the nuclide,
     block contributions multiplied by the block weight.  The code counts a held nuclide of density 0 as a trace
     of 1e-50: if the nuclide has atoms anywhere the traces are below any tolerance (ignored here); if it has atoms
     nowhere the traces make it the weight*volume mean over the components holding it; held nowhere -> 0.
   * by-component temperature: weights (W/height) * component mass; a component without mass in every candidate gets
     the plain arithmetic mean (documented in _getAverageComponentTemperature: "do a regular average").
   * averaged burnup: weights massHmBOL * (W/volume), i.e. heavy-metal mass, times the flux for the flux-weighted
     option; 0 when no candidate has heavy metal.  Over the CANDIDATES ("built only from the eligible members").
   * median: the candidate at 0-based position n div 2 of the candidates sorted by (burnup*weight, name) - the upper
     median for even n.  MedianIsMiddle states the order-statistic property that makes it "the median".
   * a collection without candidates has no representative (outcome "none"; the manager never asks for one).
   Rationals are exact (spec/common/Rational.tla); the adapter compares floats with rtol 1e-9.
*)
EXTENDS Integers, Sequences, FiniteSets, TLC, Json, SequencesExt, FiniteSetsExt, Rational

CONSTANTS CompArea,      \* <<a_1, .., a_C>>  component areas, ascending (sorted(b.getComponents()) order)
          Holds,         \* <<H_1, .., H_C>>  nuclides each component holds
          NNuc,          \* allNuclidesInProblem = 1..NNuc
          AW,            \* <<A_1, .., A_NNuc>> atomic weights (the adapter sets these on the real nuclides)
          NameRev        \* FALSE: block names ascend with the position in the collection, TRUE: descend

Comps == 1..Len(CompArea)
Nucs  == 1..NNuc
Area  == FoldLeft(LAMBDA acc, a : acc + a, 0, CompArea)
\* volumes in units of 1/6 (so that the symmetry factors 1, 2, 3 divide them): only ratios of volumes matter anywhere
SW(b)      == 6 \div b.sym
Vol(b)     == Area * b.h * SW(b)
CVol(b, c) == CompArea[c] * b.h * SW(b)

Reps    == {"Median", "Average", "FluxWeightedAverage", "ComponentAverage1DCylinder", "ComponentAverage1DSlab"}
Filters == {"all", "fuel", "fuelcontrol"}
FilterKinds(f) == CASE f = "fuel" -> {"fuel"} [] f = "fuelcontrol" -> {"fuel", "control"} [] OTHER -> {"fuel", "control", "reflector"}
Opt(r, f, c) == [rep |-> r, filter |-> f, byComp |-> c]

ISum(s)  == FoldLeft(LAMBDA acc, x : acc + x, 0, s)
\* TLC keeps [i \in S |-> e] as an unevaluated lambda and re-evaluates e at every application; concatenating the empty
\* sequence turns it into an explicit tuple, evaluated once
Concrete(s) == s \o <<>>
Idx(s)   == 1..Len(s)

(* ---------- eligibility and weights ---------- *)
Elig(b, f)  == b.kind \in FilterKinds(f)
CandPos(ms, f) == SelectSeq([i \in Idx(ms) |-> i], LAMBDA i : Elig(ms[i], f))     \* positions of the candidates
Cand(ms, f) == LET ps == CandPos(ms, f) IN Concrete([j \in Idx(ps) |-> ms[ps[j]]])
\* p[weightingParam] or 1.0, in units of 1/4 for the flux-weighted option (all its weights scale alike); 1 for the others
WP(b, rep)  == IF rep = "FluxWeightedAverage" THEN (IF b.w # 0 THEN b.w * (4 \div b.wd) ELSE 4) ELSE 1
Wt(b, rep)  == WP(b, rep) * Vol(b)
Refused(cs, rep) == rep = "FluxWeightedAverage" /\ (\E i \in Idx(cs) : cs[i].w # 0) /\ (\E i \in Idx(cs) : cs[i].w = 0)

\* weight-normalised mean of the integer-valued val over the sequence cs with integer weights wt, divided by `over`:
\*      sum_i wt(cs[i]) * val(cs[i])  /  (over * sum_i wt(cs[i]))          (one exact fraction, normalised once)
WMean(cs, wt(_), val(_), over) ==
    RFrac(ISum([i \in Idx(cs) |-> wt(cs[i]) * val(cs[i])]), over * ISum([i \in Idx(cs) |-> wt(cs[i])]))

(* ---------- members' own values ---------- *)
DensNum(b, k)   == ISum([c \in Comps |-> b.n[c][k] * CompArea[c]])
BlockDens(b, k) == RFrac(DensNum(b, k), Area)                                              \* homogenised over the block
CompMass(b, c)  == CVol(b, c) * ISum([k \in Nucs |-> b.n[c][k] * AW[k]])                  \* up to Avogadro's constant
Held(b, c, k)   == k \in Holds[c] \/ b.n[c][k] > 0
AtomsT(b, k)    == ISum([c \in Comps |-> IF Held(b, c, k) THEN b.n[c][k] * CVol(b, c) * b.t[c] ELSE 0])
Atoms(b, k)     == ISum([c \in Comps |-> IF Held(b, c, k) THEN b.n[c][k] * CVol(b, c) ELSE 0])
HoldVT(b, k)    == ISum([c \in Comps |-> IF Held(b, c, k) THEN CVol(b, c) * b.t[c] ELSE 0])
HoldV(b, k)     == ISum([c \in Comps |-> IF Held(b, c, k) THEN CVol(b, c) ELSE 0])

(* ---------- the averages ---------- *)
AvgDens(cs, rep, k)        == WMean(cs, LAMBDA b : Wt(b, rep), LAMBDA b : DensNum(b, k), Area)
AvgCompDens(cs, rep, c, k) == WMean(cs, LAMBDA b : Wt(b, rep), LAMBDA b : b.n[c][k], 1)
AvgCompTemp(cs, rep, c) ==
    LET wt(b) == WP(b, rep) * Area * SW(b) * CompMass(b, c)               \* (W / height) * mass
        tot   == ISum([i \in Idx(cs) |-> wt(cs[i])])
    IN IF tot = 0 THEN RFrac(ISum([i \in Idx(cs) |-> cs[i].t[c]]), Len(cs))
       ELSE RFrac(ISum([i \in Idx(cs) |-> wt(cs[i]) * cs[i].t[c]]), tot)
NucTemp(cs, rep, k) ==
    LET nv  == ISum([i \in Idx(cs) |-> Wt(cs[i], rep) * Atoms(cs[i], k)])
        nvt == ISum([i \in Idx(cs) |-> Wt(cs[i], rep) * AtomsT(cs[i], k)])
        hv  == ISum([i \in Idx(cs) |-> Wt(cs[i], rep) * HoldV(cs[i], k)])
        hvt == ISum([i \in Idx(cs) |-> Wt(cs[i], rep) * HoldVT(cs[i], k)])
    IN IF nv > 0 THEN RFrac(nvt, nv) ELSE IF hv > 0 THEN RFrac(hvt, hv) ELSE RZero
Burnup(cs, rep) ==
    LET wt(b) == b.hm * WP(b, rep)
        tot   == ISum([i \in Idx(cs) |-> wt(cs[i])])
    IN IF tot = 0 THEN RZero ELSE RFrac(ISum([i \in Idx(cs) |-> wt(cs[i]) * cs[i].bu]), tot)
Similar(cs) == \A i \in Idx(cs) : cs[i].alt = cs[1].alt
ByComp(cs, opt) == opt.byComp /\ Similar(cs)

(* ---------- the median ---------- *)
\* candidates are named by their position p in the collection; names ascend with p unless NameRev
NameRank(p) == IF NameRev THEN 0 - p ELSE p
MedKey(b)   == b.bu * Vol(b)                                  \* the median option has no weighting parameter
MedBefore(cs, ps, i, j) == \/ MedKey(cs[i]) < MedKey(cs[j])
                           \/ MedKey(cs[i]) = MedKey(cs[j]) /\ NameRank(ps[i]) < NameRank(ps[j])
\* index (in cs) of the element with exactly (n div 2) elements before it in the sorted order
MedianIdx(cs, ps) == CHOOSE j \in Idx(cs) : Cardinality({i \in Idx(cs) : MedBefore(cs, ps, i, j)}) = Len(cs) \div 2

(* ---------- the 1-D cylinder option: which candidate is copied ---------- *)
AvgTempNum(b) == ISum([c \in Comps |-> CompArea[c] * b.t[c]])            \* block-average temperature * Area
CylBefore(cs, ps, i, j) == \/ AvgTempNum(cs[i]) < AvgTempNum(cs[j])
                           \/ AvgTempNum(cs[i]) = AvgTempNum(cs[j]) /\ NameRank(ps[i]) < NameRank(ps[j])
CylSourceIdx(cs, ps) == CHOOSE j \in Idx(cs) : Cardinality({i \in Idx(cs) : CylBefore(cs, ps, i, j)}) = Len(cs) \div 2

(* ---------- createRepresentativeBlock ---------- *)
NoRep(out) == [out |-> out, mode |-> "", src |-> 0, lfp |-> FALSE, dens |-> <<>>, cdens |-> <<>>, ctemp |-> <<>>, ntemp |-> <<>>, bu |-> RZero]
\* block-level averaging writes the homogenised average back with Block.setNumberDensities, which gives every component
\* that holds the nuclide the same density (composites.updateNumberDensities: "evenly across all components that contain it")
\* (src = the copied first candidate, whose components decide where the nuclide goes; a nuclide no component of it holds is put
\*  into every component: "This nuc doesn't exist in any children but is to be set. Evenly distribute it everywhere.")
Spread(src, c, k, avg) ==
    LET holders == {d \in Comps : Held(src, d, k)}
    IN IF holders = {} THEN avg
       ELSE IF c \in holders THEN RDiv(RMul(avg, RInt(Area)), RInt(ISum([d \in Comps |-> IF d \in holders THEN CompArea[d] ELSE 0])))
       ELSE RZero
RepOf(ms, opt) ==
    LET ps == CandPos(ms, opt.filter)
        cs == Cand(ms, opt.filter)
        r  == opt.rep
    IN IF Len(cs) = 0 THEN NoRep("none")
       ELSE IF Refused(cs, r) THEN NoRep("refused")
       ELSE IF r = "Median" THEN
            LET m == MedianIdx(cs, ps)
                one == <<cs[m]>>
            IN [out |-> "ok", mode |-> "median", src |-> ps[m], lfp |-> cs[m].lfp,  \* a deep copy of member ps[m]
                dens  |-> [k \in Nucs |-> BlockDens(cs[m], k)],
                cdens |-> [c \in Comps |-> [k \in Nucs |-> RInt(cs[m].n[c][k])]],
                ctemp |-> [c \in Comps |-> RInt(cs[m].t[c])],
                ntemp |-> [k \in Nucs |-> NucTemp(one, r, k)],
                bu    |-> RInt(cs[m].bu)]
       ELSE IF r = "ComponentAverage1DCylinder" THEN
            LET m == CylSourceIdx(cs, ps)
            IN [out |-> "ok", mode |-> "cylinder", src |-> ps[m], lfp |-> cs[m].lfp,
                dens  |-> [k \in Nucs |-> AvgDens(cs, r, k)],
                cdens |-> [c \in Comps |-> [k \in Nucs |-> AvgCompDens(cs, r, c, k)]],
                ctemp |-> [c \in Comps |-> RInt(cs[m].t[c])],
                ntemp |-> [k \in Nucs |-> NucTemp(cs, r, k)],
                bu    |-> Burnup(cs, r)]
       ELSE IF r = "ComponentAverage1DSlab" THEN                                   \* copy of the first candidate; no nuclide temperatures
            [out |-> "ok", mode |-> "slab", src |-> ps[1], lfp |-> cs[1].lfp,
             dens  |-> [k \in Nucs |-> AvgDens(cs, r, k)],
             cdens |-> [c \in Comps |-> [k \in Nucs |-> AvgCompDens(cs, r, c, k)]],
             ctemp |-> [c \in Comps |-> RInt(cs[1].t[c])],
             ntemp |-> <<>>,
             bu    |-> Burnup(cs, r)]
       ELSE IF ByComp(cs, opt) THEN
            [out |-> "ok", mode |-> "component", src |-> ps[1], lfp |-> cs[1].lfp,  \* geometry copied from the first candidate
             dens  |-> [k \in Nucs |-> AvgDens(cs, r, k)],                       \* = the homogenised by-component result
             cdens |-> [c \in Comps |-> [k \in Nucs |-> AvgCompDens(cs, r, c, k)]],
             ctemp |-> [c \in Comps |-> AvgCompTemp(cs, r, c)],
             ntemp |-> [k \in Nucs |-> NucTemp(cs, r, k)],
             bu    |-> Burnup(cs, r)]
       ELSE [out |-> "ok", mode |-> "block", src |-> ps[1], lfp |-> cs[1].lfp,
             dens  |-> [k \in Nucs |-> AvgDens(cs, r, k)],
             cdens |-> [c \in Comps |-> [k \in Nucs |-> Spread(cs[1], c, k, AvgDens(cs, r, k))]],
             ctemp |-> <<>>,
             ntemp |-> [k \in Nucs |-> NucTemp(cs, r, k)],
             bu    |-> Burnup(cs, r)]
\* calcAvgNuclideTemperatures of a collection (what updateNuclideTemperatures stores): over the candidates, for the median
\* option of the median member alone; a collection without candidates contributes nothing (all temperatures 0)
NucTempsOf(ms, opt) ==
    LET ps == CandPos(ms, opt.filter)
        cs == Cand(ms, opt.filter)
    IN IF opt.rep = "Median" /\ Len(cs) > 0
       THEN [k \in Nucs |-> NucTemp(<<cs[MedianIdx(cs, ps)]>>, opt.rep, k)]
       ELSE [k \in Nucs |-> NucTemp(cs, opt.rep, k)]
\* the numbers of a representative (without the position of its source in the collection)
RepValues(R) == [out |-> R.out, lfp |-> R.lfp, dens |-> R.dens, cdens |-> R.cdens, ctemp |-> R.ctemp, ntemp |-> R.ntemp, bu |-> R.bu]
=====================================================================================================
