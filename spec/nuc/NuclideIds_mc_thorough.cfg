\* encodings: all 118 elements x mass numbers 1..299 x 4 states; laws on six windows
CONSTANTS ZSet <- ZAll  ASet <- AThorough  Windows <- WinThorough
INIT Init
NEXT Next
CHECK_DEADLOCK FALSE
INVARIANT EmitCases
INVARIANT LawsHold
INVARIANT GlobalLaws
