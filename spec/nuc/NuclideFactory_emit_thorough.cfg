\* emission, thorough: at most 3 nuclides, histories of 6 operations
CONSTANTS Cand <- CandAll  NatZ <- NatH  Spec <- SpecDump  MccData <- MccAll  NewLabels <- Labels1
          MaxInst = 3  MaxLevel = 7  WithDestroy = FALSE
ACTION_CONSTRAINT Emit
INVARIANT EmitState
INIT Init
NEXT Next
CONSTRAINT Bound
VIEW View
CHECK_DEADLOCK FALSE
