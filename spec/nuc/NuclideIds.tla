----------------------------------------------------- MODULE NuclideIds -----------------------------------------------------
(* C19 -- the identifiers of a nuclide as functions of (Z, A, isomeric state).

   Everything here is a constant-level definition: the periodic table and the encoding rules, written down independently
   of armi's data files and dictionaries.  TLC evaluates them (a) for every row of the exported live directory
   (NuclideTable), (b) for every candidate of the small factory model (NuclideFactory) and (c) over a discrete domain of
   (Z, A, S) triples whose expected identifiers are printed and compared with what the real encoders return (NuclideIds_mc).

   Transcribed code (armi/nucDirectory/nuclideBases.py):
     RawNameOf   NuclideBase._createName      symbol ++ A ++ ["", "M", "M2", "M3"][S]      (NameOf: after the special cases)
     LabelOf     NuclideBase._createLabel     symbol ++ ((A mod 10^(4-len(symbol))) div 10) ++ "0..9A..JK..TU..d"[(A mod 10) + 10 S]
     RawDbNameOf INuclide.getDatabaseName     "n" ++ name.capitalize()                     (DbNameOf: after the special cases)
     McnpOf      NuclideBase.getMcnpId        Z ++ 3-digit A', A' = A + 300 + 100 S for isomers; Am-242: the isomer S=1 is 95242,
                                              every other state of Am-242 is A + 300 + 100 max(S,1)  (ground state 95642)
     AzsOf       NuclideBase.getAAAZZZSId     A ++ 3-digit Z ++ S
     NatMcnpOf   NaturalNuclideBase.getMcnpId Z ++ "000"
   Interpretation choices:
     * name of the Am-242 ground state is "AM242G" (updateNuclideBasesForSpecialCases, I_ARMI_ND_ISOTOPES6); "AM242" and
       "nAm242" are aliases of the isomer AM242M -- the only keys of any index that are not an identifier of the nuclide
       they return (Aliases).
     * MC2-2 identifiers are opaque library names read from mcc-nuclides.yaml (HYDRGN, ZIRCSV, "FE  SV"): no encoding rule
       exists in the code or in the data, only retrievability / agreement / uniqueness are required of them.
     * MC2-3 identifiers follow the ANL naming convention visible in mcc-nuclides.yaml (ANL/NE-11/41 App. B): the body
       symbol ++ A ++ ("M" for an isomer), shortened to symbol ++ last two digits of A ++ "M" when longer than five
       characters, padded with "_" to five characters, then the library digit "7".  Mcc3Of states it; a nuclide has either
       no MC2-3 identifier or this one.  Dummy nuclides carry the library's single placeholder "DUMMY".
     * "the identifiers encode Z, A and the state" is read as: each identifier is the stated function of (Z, A, S), and the
       functions are injective on the domains stated by the laws at the end of this module (label: A is encoded modulo 100 or
       1000 -- the format has four characters --, hence injective per element on any window of 100 mass numbers; MCNP:
       per element on any window of 100 mass numbers). *)
EXTENDS Integers, Sequences, FiniteSets, TLC

CapSym == <<
    "H", "He", "Li", "Be", "B", "C", "N", "O", "F", "Ne", "Na", "Mg", "Al", "Si", "P", "S",
    "Cl", "Ar", "K", "Ca", "Sc", "Ti", "V", "Cr", "Mn", "Fe", "Co", "Ni", "Cu", "Zn", "Ga", "Ge",
    "As", "Se", "Br", "Kr", "Rb", "Sr", "Y", "Zr", "Nb", "Mo", "Tc", "Ru", "Rh", "Pd", "Ag", "Cd",
    "In", "Sn", "Sb", "Te", "I", "Xe", "Cs", "Ba", "La", "Ce", "Pr", "Nd", "Pm", "Sm", "Eu", "Gd",
    "Tb", "Dy", "Ho", "Er", "Tm", "Yb", "Lu", "Hf", "Ta", "W", "Re", "Os", "Ir", "Pt", "Au", "Hg",
    "Tl", "Pb", "Bi", "Po", "At", "Rn", "Fr", "Ra", "Ac", "Th", "Pa", "U", "Np", "Pu", "Am", "Cm",
    "Bk", "Cf", "Es", "Fm", "Md", "No", "Lr", "Rf", "Db", "Sg", "Bh", "Hs", "Mt", "Ds", "Rg", "Cn",
    "Nh", "Fl", "Mc", "Lv", "Ts", "Og", "Dp", "Lp" >>

Sym == <<
    "H", "HE", "LI", "BE", "B", "C", "N", "O", "F", "NE", "NA", "MG", "AL", "SI", "P", "S",
    "CL", "AR", "K", "CA", "SC", "TI", "V", "CR", "MN", "FE", "CO", "NI", "CU", "ZN", "GA", "GE",
    "AS", "SE", "BR", "KR", "RB", "SR", "Y", "ZR", "NB", "MO", "TC", "RU", "RH", "PD", "AG", "CD",
    "IN", "SN", "SB", "TE", "I", "XE", "CS", "BA", "LA", "CE", "PR", "ND", "PM", "SM", "EU", "GD",
    "TB", "DY", "HO", "ER", "TM", "YB", "LU", "HF", "TA", "W", "RE", "OS", "IR", "PT", "AU", "HG",
    "TL", "PB", "BI", "PO", "AT", "RN", "FR", "RA", "AC", "TH", "PA", "U", "NP", "PU", "AM", "CM",
    "BK", "CF", "ES", "FM", "MD", "NO", "LR", "RF", "DB", "SG", "BH", "HS", "MT", "DS", "RG", "CN",
    "NH", "FL", "MC", "LV", "TS", "OG", "DP", "LP" >>

ZReal   == 118          \* chemical elements; armi adds two pseudo elements:
ZDummy  == 119          \*   "DP"  Dummy                  (DummyNuclideBase)
ZLump   == 120          \*   "LP"  LumpedFissionProduct   (LumpNuclideBase)
MaxState == 3

MetaUp  == <<"", "M", "M2", "M3">>
MetaLow == <<"", "m", "m2", "m3">>
LabelChars == << "0","1","2","3","4","5","6","7","8","9",  "A","B","C","D","E","F","G","H","I","J",
                 "K","L","M","N","O","P","Q","R","S","T",  "U","V","W","X","Y","Z","a","b","c","d" >>

Pad3(n) == IF n < 10 THEN "00" \o ToString(n) ELSE IF n < 100 THEN "0" \o ToString(n) ELSE ToString(n)
Pad2(n) == IF n < 10 THEN "0" \o ToString(n) ELSE ToString(n)
Pow10(k) == IF k = 3 THEN 1000 ELSE IF k = 2 THEN 100 ELSE IF k = 1 THEN 10 ELSE 1
Underscores == <<"", "_", "__", "___", "____", "_____">>

IsAm242(z, a) == z = 95 /\ a = 242

(* what the constructor computes (_createName, getDatabaseName on that name) ... *)
RawNameOf(z, a, s) == Sym[z] \o ToString(a) \o MetaUp[s + 1]
RawDbNameOf(z, a, s) == "n" \o CapSym[z] \o ToString(a) \o MetaLow[s + 1]
(* ... and the names of the finished directory, after updateNuclideBasesForSpecialCases renamed the Am-242 ground state *)
NameOf(z, a, s) == IF IsAm242(z, a) /\ s = 0 THEN "AM242G" ELSE RawNameOf(z, a, s)
DbNameOf(z, a, s) == IF IsAm242(z, a) /\ s = 0 THEN "nAm242g" ELSE RawDbNameOf(z, a, s)
LabelOf(z, a, s) == Sym[z] \o ToString((a % Pow10(4 - Len(Sym[z]))) \div 10) \o LabelChars[(a % 10) + 10 * s + 1]
McnpA(z, a, s) == IF IsAm242(z, a) THEN (IF s # 1 THEN a + 300 + 100 * (IF s > 1 THEN s ELSE 1) ELSE a)
                  ELSE IF s > 0 THEN a + 300 + 100 * s ELSE a
McnpOf(z, a, s) == ToString(z) \o Pad3(McnpA(z, a, s))
AzsOf(z, a, s) == ToString(a) \o Pad3(z) \o ToString(s)

NatNameOf(z) == Sym[z]
NatDbNameOf(z) == "n" \o CapSym[z]
NatMcnpOf(z) == ToString(z) \o "000"

Mcc3Body(z, a, s) == LET m == IF s > 0 THEN "M" ELSE ""
                         long == Sym[z] \o ToString(a) \o m
                     IN  IF a = 0 THEN Sym[z] ELSE IF Len(long) > 5 THEN Sym[z] \o Pad2(a % 100) \o m ELSE long
Mcc3Of(z, a, s) == LET b == Mcc3Body(z, a, s) IN b \o Underscores[5 - Len(b) + 1] \o "7"

(* the fictitious nuclides the factory always adds (__addDummyNuclideBases, __addLumpedFissionProductNuclideBases):
   name, label = "DMP" ++ name[4] resp. name[1:], database name = "n" ++ name.capitalize() *)
Specials == {
    [kind |-> "dummy", z |-> ZDummy, name |-> "DUMP1", label |-> "DMP1", db |-> "nDump1"],
    [kind |-> "dummy", z |-> ZDummy, name |-> "DUMP2", label |-> "DMP2", db |-> "nDump2"],
    [kind |-> "lump",  z |-> ZLump,  name |-> "LFP35", label |-> "FP35", db |-> "nLfp35"],
    [kind |-> "lump",  z |-> ZLump,  name |-> "LFP38", label |-> "FP38", db |-> "nLfp38"],
    [kind |-> "lump",  z |-> ZLump,  name |-> "LFP39", label |-> "FP39", db |-> "nLfp39"],
    [kind |-> "lump",  z |-> ZLump,  name |-> "LFP40", label |-> "FP40", db |-> "nLfp40"],
    [kind |-> "lump",  z |-> ZLump,  name |-> "LFP41", label |-> "FP41", db |-> "nLfp41"],
    [kind |-> "lump",  z |-> ZLump,  name |-> "LREGN", label |-> "REGN", db |-> "nLregn"] }
DummyMcc3 == "DUMMY"

(* the only keys of an index that are not an identifier of the nuclide they return: <<identifier column, key, name of the nuclide>> *)
Aliases == { <<"name", "AM242", "AM242M">>, <<"db", "nAm242", "AM242M">> }

(* ---------------------------------------------------------------------------------------------------------------------
   Laws: the encodings determine (Z, A, S).  Checked by TLC over  Z in ZSet,  A in a window of 100 mass numbers,  S in 0..3.
   --------------------------------------------------------------------------------------------------------------------- *)
Triples(ZSet, ASet) == { <<z, a, s>> : z \in ZSet, a \in ASet, s \in 0..MaxState }
Injective(Op(_, _, _), T) == Cardinality({ Op(t[1], t[2], t[3]) : t \in T }) = Cardinality(T)
NameInjective(ZSet, ASet)  == Injective(NameOf, Triples(ZSet, ASet))
DbInjective(ZSet, ASet)    == Injective(DbNameOf, Triples(ZSet, ASet))
AzsInjective(ZSet, ASet)   == Injective(AzsOf, Triples(ZSet, ASet))
LabelInjective(ZSet, ASet) == Injective(LabelOf, Triples(ZSet, ASet))   \* ASet within a window of 100
McnpInjective(ZSet, ASet)  == Injective(McnpOf, Triples(ZSet, ASet))    \* ASet within a window of 100
(* AAAZZZS can be decoded arithmetically: the string is the decimal numeral of  A * 10000 + Z * 10 + S *)
AzsNumber(z, a, s) == a * 10000 + z * 10 + s
AzsDecodes(z, a, s) == LET n == AzsNumber(z, a, s) IN n \div 10000 = a /\ (n % 10000) \div 10 = z /\ n % 10 = s
(* the MCNP identifier of a ground state is the numeral of  Z * 1000 + A  (except Am-242) *)
McnpGroundNumber(z, a) == z * 1000 + a
================================================================================================================================
