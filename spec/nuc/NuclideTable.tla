----------------------------------------------------- MODULE NuclideTable -----------------------------------------------------
(* C19 -- the live nuclide directory, exported at every run by harness/gen_nuctable.py, against NuclideDirectory.

   The table (about 4 700 rows, nine indices, 120 elements, the burn chain) is the recorded observation of the one big state
   the real factory produced at import (plus imposeBurnChain).  It is read from the JSON file named by the environment
   variable C19_TABLE.  TLC evaluates every clause of NuclideDirectory on it.  The work is cut into CASES, which are the
   (initial) states of this module: one case per clause and chunk of ChunkSize rows, per clause and identifier column, per
   global clause.  Each named invariant is the clause restricted to its own cases; it prints one tally record per case
   (non-vacuity: the harness adds up what TLC says it checked) and one record per failure, and is FALSE iff its failure set
   is not empty.  TLC runs with -continue, so that every failing case is evaluated and reported, not only the first. *)
EXTENDS NuclideDirectory, Json, IOUtils

CONSTANT ChunkSize

(* a fresh process: the special cases are applied by the factory, changeLabel has not been called *)
D == JsonDeserialize(IOEnv.C19_TABLE) @@ [special |-> TRUE, stale |-> {}, relabelled |-> {}]
NRows == Len(D.rows)
NChunks == (NRows + ChunkSize - 1) \div ChunkSize
Lo(k) == (k - 1) * ChunkSize + 1
Hi(k) == IF k * ChunkSize < NRows THEN k * ChunkSize ELSE NRows

RowClauseNames == {"Retrievable", "LookupSame", "HasIds", "Encodes", "Membership"}
ColClauseNames == {"NoShared", "KeysOwned"}
GlobalClauseNames == {"Mcc3IsV1", "ElementsIndexed", "MembersOK", "Abundance", "BurnChain"}
Cases == { [clause |-> cl, k |-> k, col |-> ""] : cl \in RowClauseNames, k \in 1..NChunks }
         \cup { [clause |-> cl, k |-> 0, col |-> c] : cl \in ColClauseNames, c \in ColSet }
         \cup { [clause |-> cl, k |-> 0, col |-> ""] : cl \in GlobalClauseNames }

VARIABLE case
Init == case \in Cases
Next == UNCHANGED case
Spec == Init /\ [][Next]_case

Clean(F, checked) == /\ PrintT(ToJson([tally |-> case.clause, k |-> case.k, col |-> case.col, checked |-> checked, failed |-> Cardinality(F)]))
                     /\ \A f \in F : PrintT(ToJson([part |-> "nuc"] @@ f))
                     /\ F = {}
Rows(k) == Hi(k) - Lo(k) + 1

Retrievable_   == case.clause = "Retrievable" => Clean(Retrievable(D, Lo(case.k), Hi(case.k)), Rows(case.k))
LookupSame_    == case.clause = "LookupSame"  => Clean(LookupSame(D, Lo(case.k), Hi(case.k)), Rows(case.k))
HasIds_        == case.clause = "HasIds"      => Clean(HasIds(D, Lo(case.k), Hi(case.k)), Rows(case.k))
Encodes_       == case.clause = "Encodes"     => Clean(Encodes(D, Lo(case.k), Hi(case.k)), Rows(case.k))
Membership_    == case.clause = "Membership"  => Clean(Membership(D, Lo(case.k), Hi(case.k)), Rows(case.k))
NoShared_      == case.clause = "NoShared"    => Clean(NoShared(D, case.col), Cardinality(Owners(D, case.col)))
KeysOwned_     == case.clause = "KeysOwned"   => Clean(KeysOwned(D, case.col), Cardinality(DOMAIN Idx(D, case.col)))
Mcc3IsV1_      == case.clause = "Mcc3IsV1"    => Clean(Mcc3IsV1(D), 1)
ElementsIndexed_ == case.clause = "ElementsIndexed" => Clean(ElementsIndexed(D), Len(D.elements))
MembersOK_     == case.clause = "MembersOK"   => Clean(MembersOK(D) \cup MembersSorted(D), SumSeq([j \in 1..Len(D.elements) |-> Len(D.elements[j].members)]))
Abundance_     == case.clause = "Abundance"   => Clean(Abundance(D), Len(D.elements))
BurnChain_     == case.clause = "BurnChain"   => Clean(BurnChain(D), Len(D.chainFile) + Len(D.chainLive))
================================================================================================================================
