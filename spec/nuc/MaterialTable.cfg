\* C19: every material class against MaterialLibrary; run with -continue
INIT Init
NEXT Next
CHECK_DEADLOCK FALSE
INVARIANT Instantiable_
INVARIANT KnownNuclides_
INVARIANT FractionsInRange_
INVARIANT Normalised_
INVARIANT DensityPositive_
INVARIANT PseudoDensityPositive_
INVARIANT ExpansionFinite_
INVARIANT NominalDensityPositive_
INVARIANT NominalPseudoDensityPositive_
INVARIANT NominalExpansionFinite_
INVARIANT DerivedFinite_
INVARIANT NominalDerivedFinite_
INVARIANT UnitsAgree_
INVARIANT InstanceIndependent_
INVARIANT RangeCovered_
