\* what-if: destroyGlobalNuclides() is part of the history.  TLC refutes MembershipInv (Element.nuclides keep the destroyed objects).
CONSTANTS Cand <- CandAll  NatZ <- NatH  Spec <- SpecDump  MccData <- MccAll  NewLabels <- Labels1
          MaxInst = 2  MaxLevel = 4  WithDestroy = TRUE
INIT Init
NEXT Next
CONSTRAINT Bound
VIEW View
CHECK_DEADLOCK FALSE
INVARIANT TypeOK
INVARIANT RetrievableInv
INVARIANT LookupSameInv
INVARIANT HasIdsInv
INVARIANT EncodesInv
INVARIANT MembershipInv
INVARIANT NoSharedInv
INVARIANT KeysOwnedInv
INVARIANT ElementsIndexedInv
PROPERTY RefusalsChangeNothing
