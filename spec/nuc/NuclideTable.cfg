\* C19: live directory against NuclideDirectory; run with -continue
CONSTANT ChunkSize = 500
INIT Init
NEXT Next
CHECK_DEADLOCK FALSE
INVARIANT Retrievable_
INVARIANT LookupSame_
INVARIANT HasIds_
INVARIANT Encodes_
INVARIANT Membership_
INVARIANT NoShared_
INVARIANT KeysOwned_
INVARIANT Mcc3IsV1_
INVARIANT ElementsIndexed_
INVARIANT MembersOK_
INVARIANT Abundance_
INVARIANT BurnChain_
