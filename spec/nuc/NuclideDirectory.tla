--------------------------------------------------- MODULE NuclideDirectory ---------------------------------------------------
(* C19 -- what a well-formed nuclide directory is.

   A directory D is a record (the observation of armi.nucDirectory's module-level state):
     D.rows      sequence of nuclides, in the order of nuclideBases.instances; row
                 [kind, z, a, s, name, label, db, mcc2, mcc3, mcc3v0, mcc3v1, mcnp, azs, elemZ, abund]
                   kind   "nuclide" (NuclideBase) | "natural" (NaturalNuclideBase) | "dummy" | "lump"
                   name .. azs   the identifier the nuclide's own getter returns; "" = it has none
                   elemZ  atomic number of the Element object nuclide.element (0: not an element of elements.byZ)
                   abund  natural abundance, parts per billion
     D.idx       the nine dictionaries byName .. byAAAZZZSId as functions  identifier -> row number (0: the stored object is
                 not in instances)
     D.special   TRUE iff updateNuclideBasesForSpecialCases has been applied (always, for the finished directory)
     D.relabelled set of row numbers whose label changeLabel replaced (the label is then whatever the ISOTXS file called it)
     D.stale     set of <<identifier column, key>>: former identifiers that changeLabel left behind as keys (none in a fresh process)
     D.elements  sequence of [key, z, symbol, name, members, natural, bySymbol, byName]: elements.byZ in order; members =
                 Element.nuclides and natural = Element.getNaturalIsotopics() as row numbers; bySymbol / byName = position of
                 the element that elements.bySymbol[symbol] / elements.byName[name] return
   Each clause of the property is an operator that returns the SET OF FAILURES of the clause on part of D (rows lo..hi, one
   index, the elements, ...); a clause holds iff its set is empty.  Failure records carry the clause name and the culprit,
   so that a violation names the nuclide.  The same operators are the invariants of the factory model (NuclideFactory, all
   rows of its small state) and of the exported live table (NuclideTable, chunk by chunk).

   Clauses (statement of C19 -> operator):
     "can be retrieved through each identifier it has"          Retrievable      id # "" => id \in DOMAIN index
     "each lookup returns that same nuclide"                    LookupSame       index[id] = the row itself
                                                                KeysOwned        every key of an index returns a nuclide that has
                                                                                 this identifier (or is a documented alias)
     "no two nuclides share an identifier"                      NoShared         each identifier column is injective
     "identifiers encode Z, A and the isomeric state"           Encodes          each identifier = the function of NuclideIds;
                                                                                 which identifiers a kind has (HasIds)
     "each nuclide belongs to the element with its Z"           Membership       nuclide.element.z = z, the row is a member of that
                                                                                 element, members of an element have its z, once each
                                                                ElementsIndexed  byZ key = z, bySymbol / byName return the same
                                                                                 element, symbol = periodic table
     "natural abundances sum to one or the element has none"    Abundance        |sum over isotopes (a > 0) - 1e9| <= AbundTol or = 0
     "every burn-chain product exists, branching in [0,1]"      BurnChain        file entries and imposed entries *)
EXTENDS NuclideIds, SequencesExt, FiniteSetsExt, Functions

IdCols == <<"name", "db", "label", "mcc2", "mcc3", "mcc3v0", "mcc3v1", "mcnp", "azs">>
IndexOf == [name |-> "byName", db |-> "byDBName", label |-> "byLabel", mcc2 |-> "byMcc2Id", mcc3 |-> "byMcc3Id",
            mcc3v0 |-> "byMcc3IdEndfbVII0", mcc3v1 |-> "byMcc3IdEndfbVII1", mcnp |-> "byMcnpId", azs |-> "byAAAZZZSId"]
ColSet == { IdCols[j] : j \in 1..Len(IdCols) }

(* The abundances of nuclides.dat are single-precision renderings (9.99850010000e-01 is float32(0.99985)) of values tabulated
   to 1e-6 or finer (He-3: 1.37e-06): each carries a relative error of at most 2^-24 = 6e-8, an element has at most ten natural
   isotopes, so a correctly normalised element is within 6e-7 of one.  The shipped table confirms it: 83 of the 84 natural
   elements are within 4e-8.  AbundTol = 1e-6 is the tolerance the data support.  (armi's own tests accept 5e-5; calcium, whose
   six wallet-card percentages sum to 100.003, is 3.0e-5 off and is reported for what it is, a defect of the data.) *)
AbundTol == 1000
Unit == 1000000000

(* detail is rendered as a string: failure records of different clauses live in one set and must be comparable *)
Fail(clause, col, who, detail) == [clause |-> clause, col |-> col, who |-> who, detail |-> ToString(detail)]

N(D) == Len(D.rows)
Idx(D, c) == D.idx[IndexOf[c]]

(* ---- row clauses ------------------------------------------------------------------------------------------------------ *)
RetrievableCol(D, lo, hi, c) ==
    LET dom == DOMAIN Idx(D, c)
    IN  { Fail("Retrievable", c, D.rows[i].name, D.rows[i][c]) : i \in { j \in lo..hi : D.rows[j][c] # "" /\ D.rows[j][c] \notin dom } }
Retrievable(D, lo, hi) == UNION { RetrievableCol(D, lo, hi, c) : c \in ColSet }

LookupSameCol(D, lo, hi, c) ==
    LET f == Idx(D, c)
        dom == DOMAIN f
    IN  { Fail("LookupSame", c, D.rows[i].name,
               [id |-> D.rows[i][c], returns |-> IF f[D.rows[i][c]] \in 1..N(D) THEN D.rows[f[D.rows[i][c]]].name ELSE "?"]) :
          i \in { j \in lo..hi : D.rows[j][c] # "" /\ D.rows[j][c] \in dom /\ f[D.rows[j][c]] # j } }
LookupSame(D, lo, hi) == UNION { LookupSameCol(D, lo, hi, c) : c \in ColSet }

(* which identifiers a nuclide of each kind has: every nuclide a name, a database name and a label; isotopes and natural
   elements an MCNP identifier; isotopes an AAAZZZS identifier (IMcnpNuclide is implemented by NuclideBase and NaturalNuclideBase,
   addGlobalNuclide registers AAAZZZS for NuclideBase only) *)
MustHave(kind) == CASE kind = "nuclide" -> {"name", "db", "label", "mcnp", "azs"}
                    [] kind = "natural" -> {"name", "db", "label", "mcnp"}
                    [] OTHER -> {"name", "db", "label"}
MustNotHave(kind) == CASE kind = "nuclide" -> {}
                       [] kind = "natural" -> {"azs"}
                       [] OTHER -> {"mcnp", "azs"}
HasIds(D, lo, hi) ==
    { Fail("HasIds", c, D.rows[i].name, D.rows[i][c]) : <<i, c>> \in
        { p \in (lo..hi) \X ColSet : \/ p[2] \in MustHave(D.rows[p[1]].kind) /\ D.rows[p[1]][p[2]] = ""
                                     \/ p[2] \in MustNotHave(D.rows[p[1]].kind) /\ D.rows[p[1]][p[2]] # "" } }

(* the identifiers a row must carry, from (kind, z, a, s) alone; "" in the result = no requirement on that column *)
SpecialOf(r) == { sp \in Specials : sp.name = r.name /\ sp.kind = r.kind }
KindOK(r) == \/ r.kind = "nuclide" /\ r.z \in 1..ZReal /\ r.a \in 1..999 /\ r.s \in 0..MaxState
             \/ r.kind = "natural" /\ r.z \in 1..ZReal /\ r.a = 0 /\ r.s = 0
             \/ r.kind \in {"dummy", "lump"} /\ r.a = 0 /\ r.s = 0 /\ SpecialOf(r) # {} /\ \A sp \in SpecialOf(r) : sp.z = r.z
Expected(D, r) ==
    CASE r.kind = "nuclide" -> [name |-> IF D.special THEN NameOf(r.z, r.a, r.s) ELSE RawNameOf(r.z, r.a, r.s),
                                db |-> IF D.special THEN DbNameOf(r.z, r.a, r.s) ELSE RawDbNameOf(r.z, r.a, r.s), label |-> LabelOf(r.z, r.a, r.s),
                                mcnp |-> McnpOf(r.z, r.a, r.s), azs |-> AzsOf(r.z, r.a, r.s), mcc3 |-> Mcc3Of(r.z, r.a, r.s)]
      [] r.kind = "natural" -> [name |-> NatNameOf(r.z), db |-> NatDbNameOf(r.z), label |-> NatNameOf(r.z),
                                mcnp |-> NatMcnpOf(r.z), azs |-> "", mcc3 |-> Mcc3Of(r.z, 0, 0)]
      [] OTHER -> LET sp == CHOOSE sp \in SpecialOf(r) : TRUE
                  IN [name |-> sp.name, db |-> sp.db, label |-> sp.label, mcnp |-> "", azs |-> "",
                      mcc3 |-> IF r.kind = "dummy" THEN DummyMcc3 ELSE ""]
EncodedCols == {"name", "db", "label", "mcnp", "azs"}
Mcc3Cols == {"mcc3", "mcc3v0", "mcc3v1"}
Encodes(D, lo, hi) ==
    { Fail("Encodes", "kind", D.rows[i].name, [kind |-> D.rows[i].kind, z |-> D.rows[i].z, a |-> D.rows[i].a, s |-> D.rows[i].s]) :
        i \in { j \in lo..hi : ~KindOK(D.rows[j]) } }
    \cup
    { Fail("Encodes", c, D.rows[i].name, [got |-> D.rows[i][c], expected |-> Expected(D, D.rows[i])[c]]) : <<i, c>> \in
        { p \in (lo..hi) \X EncodedCols : /\ KindOK(D.rows[p[1]]) /\ ~(p[2] = "label" /\ p[1] \in D.relabelled)
                                          /\ D.rows[p[1]][p[2]] # Expected(D, D.rows[p[1]])[p[2]] } }
    \cup
    { Fail("Encodes", c, D.rows[i].name, [got |-> D.rows[i][c], expected |-> Expected(D, D.rows[i]).mcc3]) : <<i, c>> \in
        { p \in (lo..hi) \X Mcc3Cols : KindOK(D.rows[p[1]]) /\ D.rows[p[1]][p[2]] \notin {"", Expected(D, D.rows[p[1]]).mcc3} } }

ElemAt(D, z) == { j \in 1..Len(D.elements) : D.elements[j].z = z }
Membership(D, lo, hi) ==
    { Fail("Membership", "element", D.rows[i].name, [z |-> D.rows[i].z, elementZ |-> D.rows[i].elemZ]) :
        i \in { j \in lo..hi : D.rows[j].elemZ # D.rows[j].z } }
    \cup
    { Fail("Membership", "members", D.rows[i].name, [z |-> D.rows[i].z]) :
        i \in { j \in lo..hi : ~ \E e \in ElemAt(D, D.rows[j].z) : \E m \in 1..Len(D.elements[e].members) : D.elements[e].members[m] = j } }

(* ---- clauses over one identifier column / one index --------------------------------------------------------------------- *)
Owners(D, c) == { i \in 1..N(D) : D.rows[i][c] # "" }
NoShared(D, c) ==
    LET own == Owners(D, c)
        ids == { D.rows[i][c] : i \in own }
    IN  IF Cardinality(ids) = Cardinality(own) THEN {}
        ELSE { Fail("NoShared", c, D.rows[i].name, D.rows[i][c]) : i \in
                 { j \in own : \E k \in own \ {j} : D.rows[k][c] = D.rows[j][c] } }

KeysOwned(D, c) ==
    LET f == Idx(D, c)
    IN  { Fail("KeysOwned", c, k, IF f[k] \in 1..N(D) THEN D.rows[f[k]].name ELSE "not a nuclide of the directory") :
            k \in { key \in DOMAIN f : \/ f[key] \notin 1..N(D)
                                       \/ /\ D.rows[f[key]][c] # key
                                          /\ ~(D.special /\ <<c, key, D.rows[f[key]].name>> \in Aliases)
                                          /\ <<c, key>> \notin D.stale } }

(* byMcc3Id is documented as "identical to byMcc3IdEndfbVII1" *)
Mcc3IsV1(D) == IF D.idx.byMcc3Id = D.idx.byMcc3IdEndfbVII1 THEN {} ELSE { Fail("KeysOwned", "mcc3", "byMcc3Id", "differs from byMcc3IdEndfbVII1") }

(* ---- elements ------------------------------------------------------------------------------------------------------------- *)
SumSeq(s) == FoldLeft(LAMBDA acc, x : acc + x, 0, s)
AbundSum(D, e) == SumSeq([m \in 1..Len(e.members) |->
                            IF e.members[m] \in 1..N(D) /\ D.rows[e.members[m]].a > 0 THEN D.rows[e.members[m]].abund ELSE 0])
ElementsIndexed(D) ==
    { Fail("ElementsIndexed", f, D.elements[j].symbol, [z |-> D.elements[j].z, key |-> D.elements[j].key]) : <<j, f>> \in
        { p \in (1..Len(D.elements)) \X {"key", "bySymbol", "byName", "symbol"} :
            LET e == D.elements[p[1]] IN
              \/ p[2] = "key" /\ e.key # e.z
              \/ p[2] = "bySymbol" /\ e.bySymbol # p[1]
              \/ p[2] = "byName" /\ e.byName # p[1]
              \/ p[2] = "symbol" /\ (e.z \notin 1..Len(Sym) \/ (e.z \in 1..Len(Sym) /\ Sym[e.z] # e.symbol)) } }
    \cup (IF Len(D.elements) = D.nElemSymbol /\ Len(D.elements) = D.nElemName /\ Cardinality({ D.elements[j].z : j \in 1..Len(D.elements) }) = Len(D.elements)
          THEN {} ELSE { Fail("ElementsIndexed", "count", "elements", [byZ |-> Len(D.elements), bySymbol |-> D.nElemSymbol, byName |-> D.nElemName]) })
MembersOK(D) ==
    { Fail("Membership", "foreign", D.elements[j].symbol, [member |-> D.elements[j].members[m]]) : <<j, m>> \in
        { p \in UNION { {j} \X (1..Len(D.elements[j].members)) : j \in 1..Len(D.elements) } :
            LET e == D.elements[p[1]] IN \/ e.members[p[2]] \notin 1..N(D)
                                         \/ D.rows[e.members[p[2]]].z # e.z } }
    \cup
    { Fail("Membership", "duplicate", D.elements[j].symbol, [members |-> D.elements[j].members]) :
        j \in { k \in 1..Len(D.elements) : Cardinality({ D.elements[k].members[m] : m \in 1..Len(D.elements[k].members) }) # Len(D.elements[k].members) } }
(* Element.append "assigns and sorts the nuclide to the element": members are listed by increasing (A, state) *)
MembersSorted(D) ==
    { Fail("Membership", "order", D.elements[j].symbol, [members |-> D.elements[j].members]) :
        j \in { k \in 1..Len(D.elements) : LET mm == D.elements[k].members IN
                  \E q \in 1..(Len(mm) - 1) : /\ mm[q] \in 1..N(D) /\ mm[q + 1] \in 1..N(D)
                                              /\ \/ D.rows[mm[q]].a > D.rows[mm[q + 1]].a
                                                 \/ D.rows[mm[q]].a = D.rows[mm[q + 1]].a /\ D.rows[mm[q]].s > D.rows[mm[q + 1]].s } }
Abundance(D) ==
    { Fail("Abundance", "sum", D.elements[j].symbol, [ppb |-> AbundSum(D, D.elements[j])]) :
        j \in { k \in 1..Len(D.elements) : LET t == AbundSum(D, D.elements[k]) IN t # 0 /\ (t - Unit > AbundTol \/ Unit - t > AbundTol) } }
    \cup
    { Fail("Abundance", "range", D.rows[i].name, [ppb |-> D.rows[i].abund]) : i \in { k \in 1..N(D) : D.rows[k].abund < 0 \/ D.rows[k].abund > Unit } }
    \cup  \* the elemental (natural) nuclide exists exactly for the elements that have natural isotopes (__addNaturalNuclideBases)
    { Fail("Abundance", "elemental", D.elements[j].symbol, [natural |-> D.elements[j].natural]) :
        j \in { k \in 1..Len(D.elements) : LET e == D.elements[k] IN
                  (Len(e.natural) > 0) # (\E m \in 1..Len(e.members) : e.members[m] \in 1..N(D) /\ D.rows[e.members[m]].kind = "natural") } }
    \cup  \* getNaturalIsotopics returns exactly the members with a positive abundance and a mass number
    { Fail("Abundance", "naturalIsotopics", D.elements[j].symbol, [natural |-> D.elements[j].natural]) :
        j \in { k \in 1..Len(D.elements) : LET e == D.elements[k] IN
                  { e.natural[m] : m \in 1..Len(e.natural) } #
                  { e.members[m] : m \in { q \in 1..Len(e.members) : e.members[q] \in 1..N(D) /\ D.rows[e.members[q]].a > 0 /\ D.rows[e.members[q]].abund > 0 } } } }

(* ---- burn chain ------------------------------------------------------------------------------------------------------------
   chainFile : the entries the burn-chain file names   [parent, cat, type, products, branch]
   chainLive : the Transmutation / DecayMode objects on the nuclides after imposeBurnChain, same record
   chainStatus : "ok" if imposeBurnChain returned, else the exception it raised (a parent the directory does not have) *)
TransTypes == {"n2n", "fission", "nGamma", "nalph", "np", "nd", "nt"}
DecayTypes == {"bmd", "bpd", "ad", "ec", "sf"}
ChainEntryFailures(D, tag, e) ==
    (IF e.parent \in DOMAIN D.idx.byName THEN {} ELSE { Fail("BurnChain", tag \o ":parent", e.parent, e.type) })
    \cup { Fail("BurnChain", tag \o ":product", e.parent, [type |-> e.type, product |-> e.products[p]]) :
             p \in { q \in 1..Len(e.products) : e.products[q] \notin DOMAIN D.idx.byName } }
    \cup (IF Len(e.products) > 0 THEN {} ELSE { Fail("BurnChain", tag \o ":noproduct", e.parent, e.type) })
    \cup (IF e.branch >= 0 /\ e.branch <= Unit THEN {} ELSE { Fail("BurnChain", tag \o ":branch", e.parent, [type |-> e.type, ppb |-> e.branch]) })
    \cup (IF (e.cat = "transmutation" /\ e.type \in TransTypes) \/ (e.cat = "decay" /\ e.type \in DecayTypes) THEN {}
          ELSE { Fail("BurnChain", tag \o ":type", e.parent, [cat |-> e.cat, type |-> e.type]) })
BurnChain(D) ==
    (IF D.chainStatus = "ok" THEN {} ELSE { Fail("BurnChain", "impose", "chain", D.chainStatus) })   \* imposeBurnChain returned
    \cup UNION { ChainEntryFailures(D, "file", D.chainFile[j]) : j \in 1..Len(D.chainFile) }
    \cup UNION { ChainEntryFailures(D, "live", D.chainLive[j]) : j \in 1..Len(D.chainLive) }
    \cup  \* what hangs on the nuclides is what the file names (as multisets: the order of parents differs)
    (IF \A e \in ToSet(D.chainFile) \cup ToSet(D.chainLive) :
            Cardinality({ j \in 1..Len(D.chainFile) : D.chainFile[j] = e }) = Cardinality({ j \in 1..Len(D.chainLive) : D.chainLive[j] = e })
     THEN {} ELSE { Fail("BurnChain", "imposed", "chain",
                         [onlyFile |-> ToSet(D.chainFile) \ ToSet(D.chainLive), onlyLive |-> ToSet(D.chainLive) \ ToSet(D.chainFile)]) })

(* ---- everything, for a small directory (the factory model evaluates all clauses on every state) ------------------------------ *)
RowClauses(D, lo, hi) == Retrievable(D, lo, hi) \cup LookupSame(D, lo, hi) \cup HasIds(D, lo, hi) \cup Encodes(D, lo, hi) \cup Membership(D, lo, hi)
ColumnClauses(D) == UNION { NoShared(D, c) \cup KeysOwned(D, c) : c \in ColSet }
================================================================================================================================
