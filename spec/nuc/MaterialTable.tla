----------------------------------------------------- MODULE MaterialTable -----------------------------------------------------
(* C19 -- every class of armi.materials, exported at every run (same JSON document as NuclideTable), against MaterialLibrary.
   Cases (= initial states): one per material.  Each named invariant evaluates its clause on the material of the case,
   prints a tally and the failures, and is FALSE iff there are failures; TLC runs with -continue. *)
EXTENDS MaterialLibrary, Json, IOUtils

T == JsonDeserialize(IOEnv.C19_TABLE)
Mats == T.materials
Known == DOMAIN T.idx.byName

VARIABLE m
Init == m \in 1..Len(Mats)
Next == UNCHANGED m
Spec == Init /\ [][Next]_m
M == Mats[m]

Clean(clause, F, checked) == /\ PrintT(ToJson([tally |-> clause, k |-> m, col |-> M.name, checked |-> checked, failed |-> Cardinality(F)]))
                             /\ \A f \in F : PrintT(ToJson([part |-> "mat"] @@ f))
                             /\ F = {}
Lib == IF IsLibrary(M) /\ M.inst = "ok" THEN 1 ELSE 0
Instantiable_     == Clean("Instantiable", Instantiable(M), 1)
KnownNuclides_    == Clean("KnownNuclides", KnownNuclides(M, Known), Len(M.entries))
FractionsInRange_ == Clean("FractionsInRange", FractionsInRange(M), Len(M.entries))
Normalised_       == Clean("Normalised", Normalised(M), IF IsLibrary(M) \/ Len(M.entries) > 0 THEN 1 ELSE 0)
DensityPositive_  == Clean("DensityPositive", DensityPositive(M), Lib * Samples(M, DensityFns, TRUE))
PseudoDensityPositive_ == Clean("PseudoDensityPositive", PseudoDensityPositive(M), Lib * Samples(M, PseudoFns, TRUE))
ExpansionFinite_  == Clean("ExpansionFinite", ExpansionFinite(M), Lib * Samples(M, ExpansionFns, TRUE))
NominalDensityPositive_ == Clean("NominalDensityPositive", NominalDensityPositive(M), Lib * Samples(M, DensityFns, FALSE))
NominalPseudoDensityPositive_ == Clean("NominalPseudoDensityPositive", NominalPseudoDensityPositive(M), Lib * Samples(M, PseudoFns, FALSE))
NominalExpansionFinite_ == Clean("NominalExpansionFinite", NominalExpansionFinite(M), Lib * Samples(M, ExpansionFns, FALSE))
DerivedFinite_    == Clean("DerivedFinite", DerivedFinite(M), Lib * Samples(M, FactorFns \cup ReductionFns, TRUE))
NominalDerivedFinite_ == Clean("NominalDerivedFinite", NominalDerivedFinite(M), Lib * Samples(M, FactorFns \cup ReductionFns, FALSE))
UnitsAgree_       == Clean("UnitsAgree", UnitsAgree(M), Lib * SumSeq([r \in 1..Len(M.ranges) |-> IF M.ranges[r].both THEN Len(M.ranges[r].samples) ELSE 0]))
InstanceIndependent_ == Clean("InstanceIndependent", InstanceIndependent(M), Len(M.instances))
RangeCovered_     == Clean("RangeCovered", RangeCovered(M), Len(M.ranges))
================================================================================================================================
