----------------------------------------------------- MODULE NuclideIds_mc -----------------------------------------------------
(* C19 -- the identifier encodings as pure functions over a discrete domain.
   One case (= initial state) per atomic number z.  For every mass number in ASet and every isomeric state 0..3 the module
   prints the identifiers the specification expects (EmitCases); the harness calls the real encoders once per case
   (NuclideBase._createName, _createLabel, INuclide.getDatabaseName, NuclideBase.getMcnpId, getAAAZZZSId,
   NaturalNuclideBase.getMcnpId) and compares.  LawsHold checks in the specification itself that the encodings determine
   (Z, A, S): injective per element on each window of 100 mass numbers (label, MCNP), on the whole domain (name, database
   name, AAAZZZS), and that AAAZZZS is the decimal numeral of A*10000 + Z*10 + S, which decodes arithmetically. *)
EXTENDS NuclideIds, Json, SequencesExt

CONSTANTS ZSet, ASet, Windows
ZAll == 1..ZReal
AQuick == {1, 3, 9, 10, 56, 99, 100, 142, 235, 242, 299}
AThorough == 1..299
WinQuick == { 1..100, 143..242, 200..299 }
WinThorough == { lo..(lo + 99) : lo \in {1, 50, 100, 143, 150, 200} }

VARIABLE z
Init == z \in ZSet
Next == UNCHANGED z

CaseOf(a, s) == [a |-> a, s |-> s, name |-> RawNameOf(z, a, s), db |-> RawDbNameOf(z, a, s), label |-> LabelOf(z, a, s),
                 mcnp |-> McnpOf(z, a, s), azs |-> AzsOf(z, a, s)]
EmitCases == PrintT(ToJson([z |-> z, sym |-> Sym[z], natName |-> NatNameOf(z), natDb |-> NatDbNameOf(z), natMcnp |-> NatMcnpOf(z),
                            cases |-> SetToSeq({ CaseOf(a, s) : a \in ASet, s \in 0..MaxState })]))

LawsHold == /\ NameInjective({z}, ASet) /\ DbInjective({z}, ASet) /\ AzsInjective({z}, ASet)
            /\ \A W \in Windows : LabelInjective({z}, W) /\ McnpInjective({z}, W)
            /\ \A a \in ASet, s \in 0..MaxState : AzsDecodes(z, a, s) /\ AzsOf(z, a, s) = ToString(AzsNumber(z, a, s))
            /\ \A a \in ASet : ~IsAm242(z, a) => McnpOf(z, a, 0) = ToString(McnpGroundNumber(z, a))
            \* names never collide with the names of natural nuclides or aliases of another element
            /\ \A a \in ASet, s \in 0..MaxState : RawNameOf(z, a, s) # NatNameOf(z) /\ LabelOf(z, a, s) # NatNameOf(z)
(* all elements together: names, database names and AAAZZZS never collide across elements either *)
GlobalLaws == (z = 1)
              => /\ NameInjective(ZSet, AQuick) /\ DbInjective(ZSet, AQuick) /\ AzsInjective(ZSet, AQuick)
                 /\ LabelInjective(ZSet, 1..100) /\ McnpInjective(ZSet, 200..299)
                 /\ Cardinality({ Sym[e] : e \in 1..Len(Sym) }) = Len(Sym) /\ Cardinality({ CapSym[e] : e \in 1..Len(CapSym) }) = Len(Sym)
================================================================================================================================
