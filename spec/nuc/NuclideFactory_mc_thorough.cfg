\* exhaustive, thorough: at most 4 nuclides, histories of 7 operations (about 30 000 states)
CONSTANTS Cand <- CandAll  NatZ <- NatH  Spec <- SpecDump  MccData <- MccAll  NewLabels <- Labels1
          MaxInst = 4  MaxLevel = 8  WithDestroy = FALSE
INIT Init
NEXT Next
CONSTRAINT Bound
VIEW View
CHECK_DEADLOCK FALSE
INVARIANT TypeOK
INVARIANT RetrievableInv
INVARIANT LookupSameInv
INVARIANT HasIdsInv
INVARIANT EncodesInv
INVARIANT MembershipInv
INVARIANT NoSharedInv
INVARIANT KeysOwnedInv
INVARIANT ElementsIndexedInv
PROPERTY RefusalsChangeNothing
