---------------------------------------------------- MODULE NuclideFactory ----------------------------------------------------
(* C19 -- how the directory is built: the module-level state of armi/nucDirectory/nuclideBases.py and elements.py and the
   public operations that change it, over a small universe of candidate nuclides.  The invariants are the clauses of
   NuclideDirectory evaluated on the directory of the current state (Dir): whatever history of legal operations the
   factory runs, the directory it leaves behind is well formed.  TLC explores all histories up to MaxLevel exhaustively;
   every explored edge is replayed on the real constructors / functions inside a sandboxed copy of the module state.
   Not modelled: imposeBurnChain (the burn chain is checked on the live table only), the MC2 file's shared "DUMMY" identifier
   (reported by NuclideTable), natural abundances (data, not mechanism).

   State (one variable per module-level object; a nuclide object is an integer `oid', never reused):
     inst                 nuclideBases.instances                        sequence of oids
     obj                  attributes of every object ever created        function oid -> [kind, z, a, s, ab, name, label, mcc2, mcc3v0, mcc3v1, w]
     byName byDb byLabel byMcnp byAzs byMcc2 byMcc3v0 byMcc3v1           the dictionaries, identifier -> oid
                          (byMcc3Id is the same dictionary object as byMcc3IdEndfbVII1 after readMCCNuclideData)
     members              Element.nuclides of every element              z -> set of oids
     relabelled, stale    bookkeeping of changeLabel for the clauses     (not state of the code)
     act, err, dir        last action, its outcome, the derived directory (hidden by the VIEW)

   Actions = public operations, transcribed:
     Add(c)          NuclideBase(element, a, weight, abundance, state, halflife)  ->  INuclide.__init__ -> addGlobalNuclide:
                       name / database name / label already a key  =>  ValueError, nothing changed        (disjunct Refusal)
                       else append to instances, byName, byDBName, byLabel, byMcnpId, byAAAZZZSId; Element.append
     AddNatural(z)   NaturalNuclideBase(symbol, element): name = label = symbol, byMcnpId "Z000", no AAAZZZS   (same refusal)
     AddSpecial(sp)  DummyNuclideBase / LumpNuclideBase: three name indices only                                (same refusal)
     SpecialCases    updateNuclideBasesForSpecialCases(), the seven assignments in order
     ReadMcc         readMCCNuclideData(): for every listed nuclide set the three attributes that are not null and index them
     ChangeLabel     changeLabel(nuclide, newLabel): label attribute and byLabel[newLabel]; the old key stays
     Destroy         destroyGlobalNuclides(): instances and the dictionaries are emptied -- Element.nuclides are NOT
                     (only explored when WithDestroy; see NuclideFactory_destroy.cfg, which TLC refutes)
   addGlobalNuclide tests the MCNP identifier only AFTER it has inserted the nuclide into instances and three dictionaries:
   a collision on that identifier alone raises ValueError and leaves a half-registered nuclide behind (HalfRegistered
   below, transcribed as it is).  Two nuclides with different names and labels share an MCNP identifier only if their mass
   numbers differ by a multiple of 100 in one element with a one-letter symbol (K-438 and K-38m): no physical candidate
   does, the default configurations cannot reach the branch, NuclideFactory_mcnp.cfg does and TLC refutes it there.
   Element.append compares nuclides by hash((a, z, state)) (dummy / lump: plus the weight): an object equal to a member is
   not appended. *)
EXTENDS NuclideDirectory

CONSTANTS Cand,        \* candidate isotopes   [z, a, s, ab]   (ab: abundance in ppb)
          NatZ,        \* elements whose natural nuclide may be added
          Spec,        \* subset of Specials that may be added
          MccData,     \* what mcc-nuclides.yaml says: set of [name, v2, v70, v71]  ("" = null)
          NewLabels,   \* labels an ISOTXS file may impose through changeLabel
          MaxInst, MaxLevel, WithDestroy

VARIABLES inst, obj, byName, byDb, byLabel, byMcnp, byAzs, byMcc2, byMcc3v0, byMcc3v1, members, relabelled, stale, act, err,
          dir      \* = Dir, the directory record of the state (kept as a variable only so that TLC computes it once per state)
vars == <<inst, obj, byName, byDb, byLabel, byMcnp, byAzs, byMcc2, byMcc3v0, byMcc3v1, members, relabelled, stale>>

Empty == [x \in {} |-> 0]
Put(f, k, v) == (k :> v) @@ f                      \* dict[k] = v
ZUsed == { c.z : c \in Cand } \cup NatZ \cup { sp.z : sp \in Spec }
NextOid == Cardinality(DOMAIN obj) + 1

(* database name: "n" ++ name.capitalize() -- a function of the current name *)
DbOf(r) == CASE r.kind = "nuclide" -> (IF r.name = "AM242G" THEN "nAm242g" ELSE RawDbNameOf(r.z, r.a, r.s))
             [] r.kind = "natural" -> NatDbNameOf(r.z)
             [] OTHER -> (CHOOSE sp \in Specials : sp.name = r.name).db
McnpOfObj(r) == CASE r.kind = "nuclide" -> McnpOf(r.z, r.a, r.s) [] r.kind = "natural" -> NatMcnpOf(r.z) [] OTHER -> ""
AzsOfObj(r) == IF r.kind = "nuclide" THEN AzsOf(r.z, r.a, r.s) ELSE ""
SameKey(r, q) == r.z = q.z /\ r.a = q.a /\ r.s = q.s /\ r.w = q.w     \* INuclide.__eq__ (w = 0 except dummy / lump)

(* the model's MC2 data give every nuclide its own identifiers (the real file's shared "DUMMY" is reported by NuclideTable) *)
ASSUME \A d, e \in MccData : \A col \in {"v2", "v70", "v71"} : d[col] # "" /\ d[col] = e[col] => d = e

Init0 == /\ inst = <<>> /\ obj = Empty
        /\ byName = Empty /\ byDb = Empty /\ byLabel = Empty /\ byMcnp = Empty /\ byAzs = Empty
        /\ byMcc2 = Empty /\ byMcc3v0 = Empty /\ byMcc3v1 = Empty
        /\ members = [z \in ZUsed |-> {}] /\ relabelled = {} /\ stale = {}
        /\ act = [n |-> "Init"] /\ err = ""

(* INuclide.__init__ + addGlobalNuclide + Element.append for a new object r *)
Register(r, a) ==
    LET o == NextOid
        db == DbOf(r)
    IN  IF r.name \in DOMAIN byName \/ db \in DOMAIN byDb \/ r.label \in DOMAIN byLabel
        THEN /\ err' = "ValueError" /\ act' = a /\ UNCHANGED vars
        ELSE IF McnpOfObj(r) # "" /\ McnpOfObj(r) \in DOMAIN byMcnp
        THEN \* HalfRegistered: ValueError after instances, byName, byDBName, byLabel were updated; no MCNP / AAAZZZS key, no Element.append
             /\ err' = "ValueError" /\ act' = a
             /\ Len(inst) < MaxInst
             /\ obj' = obj @@ (o :> r) /\ inst' = Append(inst, o)
             /\ byName' = Put(byName, r.name, o) /\ byDb' = Put(byDb, db, o) /\ byLabel' = Put(byLabel, r.label, o)
             /\ UNCHANGED <<byMcnp, byAzs, byMcc2, byMcc3v0, byMcc3v1, members, relabelled, stale>>
        ELSE /\ err' = "" /\ act' = a
             /\ Len(inst) < MaxInst
             /\ obj' = obj @@ (o :> r)
             /\ inst' = Append(inst, o)
             /\ byName' = Put(byName, r.name, o) /\ byDb' = Put(byDb, db, o) /\ byLabel' = Put(byLabel, r.label, o)
             /\ byMcnp' = IF McnpOfObj(r) # "" THEN Put(byMcnp, McnpOfObj(r), o) ELSE byMcnp
             /\ byAzs' = IF AzsOfObj(r) # "" THEN Put(byAzs, AzsOfObj(r), o) ELSE byAzs
             /\ members' = [members EXCEPT ![r.z] = IF \E q \in @ : SameKey(obj[q], r) THEN @ ELSE @ \cup {o}]
             /\ UNCHANGED <<byMcc2, byMcc3v0, byMcc3v1, relabelled, stale>>

NewObj(kind, z, a, s, ab, name, label, w) ==
    [kind |-> kind, z |-> z, a |-> a, s |-> s, ab |-> ab, name |-> name, label |-> label, mcc2 |-> "", mcc3v0 |-> "", mcc3v1 |-> "", w |-> w]

Add(c) == Register(NewObj("nuclide", c.z, c.a, c.s, c.ab, RawNameOf(c.z, c.a, c.s), LabelOf(c.z, c.a, c.s), 0),
                   [n |-> "Add", z |-> c.z, a |-> c.a, s |-> c.s, ab |-> c.ab])
AddNatural(z) == Register(NewObj("natural", z, 0, 0, 0, NatNameOf(z), NatNameOf(z), 0), [n |-> "AddNatural", z |-> z])
AddSpecial(sp) == Register(NewObj(sp.kind, sp.z, 0, 0, 0, sp.name, sp.label, IF sp.name = "DUMP1" THEN 10 ELSE IF sp.name = "DUMP2" THEN 240 ELSE 233),
                           [n |-> "AddSpecial", kind |-> sp.kind, name |-> sp.name])

SpecialCases ==
    /\ "AM242" \in DOMAIN byName /\ "AM242M" \in DOMAIN byName /\ "AM242G" \notin DOMAIN byName
    /\ LET g == byName["AM242"]                                            \* am242g = byName["AM242"]
           obj1 == [obj EXCEPT ![g].name = "AM242G"]                       \* am242g.name = "AM242G"
           bn1 == Put(byName, "AM242G", g)                                 \* byName["AM242G"] = am242g
           bd1 == Put(byDb, DbOf(obj1[bn1["AM242G"]]), g)                  \* byDBName[byName["AM242G"].getDatabaseName()] = am242g
           m == bn1["AM242M"]                                              \* am242m = byName["AM242M"]
           bn2 == Put(bn1, "AM242", m)                                     \* byName["AM242"] = am242m
           bd2 == Put(bd1, "nAm242", m)                                    \* byDBName["nAm242"] = am242m
           bd3 == Put(bd2, DbOf(obj1[bn2["AM242"]]), m)                    \* byDBName[byName["AM242"].getDatabaseName()] = am242m
       IN  /\ obj' = obj1 /\ byName' = bn2 /\ byDb' = bd3
    /\ act' = [n |-> "SpecialCases"] /\ err' = ""
    /\ UNCHANGED <<inst, byLabel, byMcnp, byAzs, byMcc2, byMcc3v0, byMcc3v1, members, relabelled, stale>>

(* readMCCNuclideData: the file lists nuclides by (final) name; a listed nuclide that does not exist is a KeyError, so the
   action takes the listed nuclides that exist (the real file lists existing nuclides only) *)
Listed == { d \in MccData : d.name \in DOMAIN byName }
SetAll(f, L, col) == [k \in DOMAIN f \cup { d[col] : d \in { x \in L : x[col] # "" } } |->
                        IF \E d \in L : d[col] = k THEN byName[(CHOOSE d \in L : d[col] = k).name] ELSE f[k]]
ReadMcc ==
    /\ Listed # {}
    /\ \E d \in Listed : obj[byName[d.name]].mcc3v1 = "" /\ obj[byName[d.name]].mcc2 = "" /\ obj[byName[d.name]].mcc3v0 = ""
    /\ obj' = [o \in DOMAIN obj |->
                 IF \E d \in Listed : byName[d.name] = o
                 THEN LET d == CHOOSE d \in Listed : byName[d.name] = o
                      IN  [obj[o] EXCEPT !.mcc2 = IF d.v2 # "" THEN d.v2 ELSE @, !.mcc3v0 = IF d.v70 # "" THEN d.v70 ELSE @,
                                         !.mcc3v1 = IF d.v71 # "" THEN d.v71 ELSE @]
                 ELSE obj[o]]
    /\ byMcc2' = SetAll(byMcc2, Listed, "v2") /\ byMcc3v0' = SetAll(byMcc3v0, Listed, "v70") /\ byMcc3v1' = SetAll(byMcc3v1, Listed, "v71")
    /\ act' = [n |-> "ReadMcc", data |-> SetToSeq(Listed)] /\ err' = ""
    /\ UNCHANGED <<inst, byName, byDb, byLabel, byMcnp, byAzs, members, relabelled, stale>>

ChangeLabel(k, l) ==
    /\ k \in 1..Len(inst) /\ l \notin DOMAIN byLabel
    /\ LET o == inst[k] IN
         /\ obj' = [obj EXCEPT ![o].label = l]                              \* nuclideBase.label = newLabel
         /\ byLabel' = Put(byLabel, l, o)                                   \* byLabel[newLabel] = nuclideBase
         /\ relabelled' = relabelled \cup {o}
         /\ stale' = stale \cup { <<"label", obj[o].label>> }
    /\ act' = [n |-> "ChangeLabel", k |-> k, l |-> l] /\ err' = ""
    /\ UNCHANGED <<inst, byName, byDb, byMcnp, byAzs, byMcc2, byMcc3v0, byMcc3v1, members>>

Destroy ==
    /\ WithDestroy /\ Len(inst) > 0
    /\ inst' = <<>>
    /\ byName' = Empty /\ byDb' = Empty /\ byLabel' = Empty /\ byMcnp' = Empty /\ byAzs' = Empty
    /\ byMcc2' = Empty /\ byMcc3v0' = Empty /\ byMcc3v1' = Empty
    /\ stale' = {}
    /\ act' = [n |-> "Destroy"] /\ err' = ""
    /\ UNCHANGED <<obj, members, relabelled>>                                \* Element.nuclides keep the destroyed objects

AddAny == \/ \E c \in Cand : Add(c)
          \/ \E z \in NatZ : AddNatural(z)
          \/ \E sp \in Spec : AddSpecial(sp)
Relabel == \E k \in 1..MaxInst, l \in NewLabels : ChangeLabel(k, l)

(* ---- the directory of the current state, as the exporter would see it -------------------------------------------------------- *)
Pos(o) == IF \E k \in 1..Len(inst) : inst[k] = o THEN CHOOSE k \in 1..Len(inst) : inst[k] = o ELSE 0
RowOf(o) == LET r == obj[o] IN
    [kind |-> r.kind, z |-> r.z, a |-> r.a, s |-> r.s, name |-> r.name, label |-> r.label, db |-> DbOf(r),
     mcc2 |-> r.mcc2, mcc3 |-> r.mcc3v1, mcc3v0 |-> r.mcc3v0, mcc3v1 |-> r.mcc3v1, mcnp |-> McnpOfObj(r), azs |-> AzsOfObj(r),
     elemZ |-> r.z, abund |-> r.ab]
ToRows(f) == [k \in DOMAIN f |-> Pos(f[k])]
ZSeq == SetToSortSeq(ZUsed, <)
Dir == [rows |-> [k \in 1..Len(inst) |-> RowOf(inst[k])],
        idx |-> [byName |-> ToRows(byName), byDBName |-> ToRows(byDb), byLabel |-> ToRows(byLabel), byMcc2Id |-> ToRows(byMcc2),
                 byMcc3Id |-> ToRows(byMcc3v1), byMcc3IdEndfbVII0 |-> ToRows(byMcc3v0), byMcc3IdEndfbVII1 |-> ToRows(byMcc3v1),
                 byMcnpId |-> ToRows(byMcnp), byAAAZZZSId |-> ToRows(byAzs)],
        elements |-> [j \in 1..Len(ZSeq) |->
                        LET mem == SetToSortSeq({ Pos(o) : o \in members[ZSeq[j]] }, <)
                            ghosts == Cardinality({ o \in members[ZSeq[j]] : Pos(o) = 0 })
                        IN [key |-> ZSeq[j], z |-> ZSeq[j], symbol |-> Sym[ZSeq[j]], name |-> CapSym[ZSeq[j]],
                            members |-> IF ghosts > 1 THEN mem \o [g \in 1..(ghosts - 1) |-> 0] ELSE mem,
                            natural |-> SelectSeq(mem, LAMBDA p : p > 0 /\ obj[inst[p]].a > 0 /\ obj[inst[p]].ab > 0),
                            bySymbol |-> j, byName |-> j]],
        nElemSymbol |-> Len(ZSeq), nElemName |-> Len(ZSeq),
        special |-> "AM242G" \in DOMAIN byName, relabelled |-> { Pos(o) : o \in relabelled } \ {0}, stale |-> stale]

Init == Init0 /\ dir = Dir
(* named disjuncts (TLC reports coverage per disjunct); each recomputes the derived directory *)
Registration == AddAny /\ err' = "" /\ dir' = Dir'
Refusal      == AddAny /\ err' = "ValueError" /\ dir' = Dir'
Special      == SpecialCases /\ dir' = Dir'
Mcc          == ReadMcc /\ dir' = Dir'
Relabelling  == Relabel /\ dir' = Dir'
Destruction  == Destroy /\ dir' = Dir'
Next == Registration \/ Refusal \/ Special \/ Mcc \/ Relabelling \/ Destruction

(* ---- invariants: the clauses of the property on every reachable directory ---------------------------------------------------- *)
NR == Len(inst)
TypeOK == /\ \A k \in 1..Len(inst) : inst[k] \in DOMAIN obj
          /\ \A f \in {byName, byDb, byLabel, byMcnp, byAzs, byMcc2, byMcc3v0, byMcc3v1} : \A k \in DOMAIN f : f[k] \in DOMAIN obj
          /\ err \in {"", "ValueError"}
RetrievableInv      == Retrievable(dir, 1, NR) = {}
LookupSameInv       == LookupSame(dir, 1, NR) = {}
HasIdsInv           == HasIds(dir, 1, NR) = {}
EncodesInv          == Encodes(dir, 1, NR) = {}
MembershipInv       == Membership(dir, 1, NR) \cup MembersOK(dir) = {}
NoSharedInv         == UNION { NoShared(dir, c) : c \in ColSet } = {}
KeysOwnedInv        == UNION { KeysOwned(dir, c) : c \in ColSet } = {}
ElementsIndexedInv  == ElementsIndexed(dir) = {}
(* a refused registration changes nothing *)
RefusalsChangeNothing == [][err' = "ValueError" => UNCHANGED vars]_<<vars, act, err, dir>>
================================================================================================================================
