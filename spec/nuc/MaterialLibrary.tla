---------------------------------------------------- MODULE MaterialLibrary ----------------------------------------------------
(* C19 -- what a well-formed material library is.

   A material M is a record exported from one class of armi.materials (harness/gen_nuctable.py: export_materials):
     M.name, M.module        class and module name
     M.kind                  "library" | "base" | "custom" | "mixture" | "void"
     M.inst                  "ok" if cls() returned, else "exception:<type>"
     M.entries               sequence of [nuc, ppb]: massFrac after construction; ppb = mass fraction in parts per billion
     M.instances             sequence of [inst, entries, probes]: the class is instantiated three times, round robin over all classes
                             (instance k of every class exists before instance k+1 of any class); entries = [nuc, ppb, x] with x the
                             exact decimal rendering of the fraction; probes = <<fn, status, q, x>> of density, pseudoDensity and
                             linearExpansionPercent at the middle of the first range, taken after everything else has been evaluated.
                             M.inst / M.entries are those of the first instance; the ranges are evaluated on the first instance.
     M.ranges                sequence of [label, stated, unit, fn, both, lo, hi, samples]: fn evaluated at temperatures from lo to hi
                             (both end points exactly as stated, in the stated unit, thousandths of a degree);
                             samples = sequence of <<t, status, q, status2, q2>>: status "ok" | "none" | "complex" | "nonfinite" |
                             "type:.." | "exception:..", q = value in millionths rounded away from zero (q > 0 <=> value > 0);
                             status, q: asked in the stated unit (Tk= or Tc=); status2, q2: the same temperature asked through
                             the other entry point (both = TRUE).  both = FALSE: fn is one of the derived functions that only take
                             Celsius, linearExpansionFactor(Tc = t, T0 = lo) and getThermalExpansionDensityReduction(lo, t).
                             stated = TRUE: the range is an entry of the class' propertyValidTemperature that concerns
                             density or expansion; FALSE: the class states no such range and a nominal 25..600 C is probed.
   Interpretation choices:
     * library material = every class of armi.materials except the abstract bases (Material, Fluid, SimpleSolid, FuelMaterial, Water),
       Custom (user-supplied composition), _Mixture (homogenised blocks) and Void (zero density by definition).  For those only
       Instantiable / KnownNuclides / FractionsInRange (and Normalised when they do carry a composition) are required.
     * "mass fractions summing to one within data precision": |sum - 1| <= MassFracTol = 1e-5.  The finest hand-typed composition
       of the library has six decimals (MOX, nine entries summing to 0.999999); 1e-5 is ten units of that last decimal.
     * "density" is Material.density (g/cm3, what Component number densities are built from) and Material.pseudoDensity (the 2-D
       density of the base class, identical to density for fluids); both must be finite and positive.  "expansion" is
       linearExpansionPercent (and volumetricExpansion where the class states a range for it); it must be a finite real.
     * all functions are probed over every stated density / expansion range of the class: a solid's density is derived from its
       expansion, so the range stated for one is the range over which the other is used.
     * "can be instantiated" is read for every instantiation, not only the first one in a process: every further instance must be
       the same material as the first (InstanceIndependent: same composition, digit for digit, same probed values); since the
       first instance satisfies the composition and density clauses, so do the others.
     * "at every temperature in its stated range" does not depend on whether the caller holds the temperature in Kelvin or in
       Celsius: both entry points of every property must answer, and agree within one millionth (UnitsAgree); the functions
       components call with Celsius only -- linearExpansionFactor, getThermalExpansionDensityReduction -- must return finite
       reals, the density reduction a positive one (DerivedFinite).
     * a class that states no range is still required to have a finite positive density somewhere: the nominal range is a
       separate clause family (Nominal...), so that the two can be told apart. *)
EXTENDS Integers, Sequences, FiniteSets, TLC, SequencesExt

Unit == 1000000000
MassFracTol == 10000
MFail(clause, col, who, detail) == [clause |-> clause, col |-> col, who |-> who, detail |-> ToString(detail)]
SumSeq(s) == FoldLeft(LAMBDA acc, x : acc + x, 0, s)
IsLibrary(M) == M.kind = "library"

Instantiable(M) == IF M.inst = "ok" THEN {} ELSE { MFail("Instantiable", "", M.name, M.inst) }

KnownNuclides(M, Known) ==
    { MFail("KnownNuclides", M.entries[j].nuc, M.name, M.entries[j].nuc) : j \in { k \in 1..Len(M.entries) : M.entries[k].nuc \notin Known } }

FractionsInRange(M) ==
    { MFail("FractionsInRange", M.entries[j].nuc, M.name, M.entries[j].ppb) :
        j \in { k \in 1..Len(M.entries) : M.entries[k].ppb < 0 \/ M.entries[k].ppb > Unit } }

Total(M) == SumSeq([j \in 1..Len(M.entries) |-> M.entries[j].ppb])
Normalised(M) ==
    IF M.inst # "ok" THEN {}
    ELSE IF Len(M.entries) = 0
         THEN (IF IsLibrary(M) THEN { MFail("Normalised", "empty", M.name, "no mass fractions") } ELSE {})
         ELSE IF Total(M) - Unit > MassFracTol \/ Unit - Total(M) > MassFracTol
              THEN { MFail("Normalised", "sum", M.name, [sumPpb |-> Total(M), tolerancePpb |-> MassFracTol]) } ELSE {}

(* one failure per (function, range): the first offending temperature and how many there are *)
Bad(R, positive) == { j \in 1..Len(R.samples) : R.samples[j][2] # "ok" \/ (positive /\ R.samples[j][3] <= 0) }
RangeFailures(M, clause, fns, stated, positive) ==
    { MFail(clause, M.ranges[r].fn, M.name,
            LET b == Bad(M.ranges[r], positive)
                j == CHOOSE x \in b : \A y \in b : x <= y
            IN  [range |-> M.ranges[r].label, unit |-> M.ranges[r].unit, firstAtMilliDeg |-> M.ranges[r].samples[j][1],
                 status |-> M.ranges[r].samples[j][2], micro |-> M.ranges[r].samples[j][3], of |-> Len(M.ranges[r].samples), bad |-> Cardinality(b)]) :
        r \in { k \in 1..Len(M.ranges) : /\ M.ranges[k].fn \in fns /\ M.ranges[k].stated = stated
                                         /\ Bad(M.ranges[k], positive) # {} } }

(* both entry points answer alike: same status, values within one millionth (the conversion t -+ 273.15 costs an ulp) *)
Differ(R) == { j \in 1..Len(R.samples) : \/ R.samples[j][2] # R.samples[j][4]
                                         \/ R.samples[j][3] - R.samples[j][5] > 1 \/ R.samples[j][5] - R.samples[j][3] > 1 }
UnitsAgree(M) ==
    IF ~(IsLibrary(M) /\ M.inst = "ok") THEN {} ELSE
    { MFail("UnitsAgree", M.ranges[r].fn, M.name,
            LET b == Differ(M.ranges[r])
                j == CHOOSE x \in b : \A y \in b : x <= y
            IN  [range |-> M.ranges[r].label, statedUnit |-> M.ranges[r].unit, firstAtMilliDeg |-> M.ranges[r].samples[j][1],
                 inStatedUnit |-> <<M.ranges[r].samples[j][2], M.ranges[r].samples[j][3]>>,
                 status |-> M.ranges[r].samples[j][4], micro |-> M.ranges[r].samples[j][5], of |-> Len(M.ranges[r].samples), bad |-> Cardinality(b)]) :
        r \in { k \in 1..Len(M.ranges) : M.ranges[k].both /\ Differ(M.ranges[k]) # {} } }

(* every further instance is the first one again *)
InstanceIndependent(M) ==
    { MFail("InstanceIndependent", what, M.name,
            [instance |-> k, inst |-> M.instances[k].inst,
             sumPpb |-> SumSeq([j \in 1..Len(M.instances[k].entries) |-> M.instances[k].entries[j].ppb]),
             entries |-> Len(M.instances[k].entries), firstHas |-> Len(M.instances[1].entries), probes |-> M.instances[k].probes]) :
        <<k, what>> \in { p \in (2..Len(M.instances)) \X {"inst", "composition", "probe"} :
                            \/ p[2] = "inst" /\ M.instances[p[1]].inst # M.instances[1].inst
                            \/ p[2] = "composition" /\ M.instances[p[1]].entries # M.instances[1].entries
                            \/ p[2] = "probe" /\ M.instances[p[1]].probes # M.instances[1].probes } }
    \cup (IF Len(M.instances) >= 3 THEN {} ELSE { MFail("InstanceIndependent", "count", M.name, Len(M.instances)) })

DensityFns == {"density"}
PseudoFns == {"pseudoDensity"}
ExpansionFns == {"linearExpansionPercent", "volumetricExpansion"}
FactorFns == {"linearExpansionFactor"}
ReductionFns == {"getThermalExpansionDensityReduction"}
DensityPositive(M)              == IF IsLibrary(M) /\ M.inst = "ok" THEN RangeFailures(M, "DensityPositive", DensityFns, TRUE, TRUE) ELSE {}
PseudoDensityPositive(M)        == IF IsLibrary(M) /\ M.inst = "ok" THEN RangeFailures(M, "PseudoDensityPositive", PseudoFns, TRUE, TRUE) ELSE {}
ExpansionFinite(M)              == IF IsLibrary(M) /\ M.inst = "ok" THEN RangeFailures(M, "ExpansionFinite", ExpansionFns, TRUE, FALSE) ELSE {}
NominalDensityPositive(M)       == IF IsLibrary(M) /\ M.inst = "ok" THEN RangeFailures(M, "NominalDensityPositive", DensityFns, FALSE, TRUE) ELSE {}
NominalPseudoDensityPositive(M) == IF IsLibrary(M) /\ M.inst = "ok" THEN RangeFailures(M, "NominalPseudoDensityPositive", PseudoFns, FALSE, TRUE) ELSE {}
NominalExpansionFinite(M)       == IF IsLibrary(M) /\ M.inst = "ok" THEN RangeFailures(M, "NominalExpansionFinite", ExpansionFns, FALSE, FALSE) ELSE {}
DerivedFinite(M)                == IF IsLibrary(M) /\ M.inst = "ok"
                                   THEN RangeFailures(M, "DerivedFinite", FactorFns, TRUE, FALSE) \cup RangeFailures(M, "DerivedFinite", ReductionFns, TRUE, TRUE) ELSE {}
NominalDerivedFinite(M)         == IF IsLibrary(M) /\ M.inst = "ok"
                                   THEN RangeFailures(M, "NominalDerivedFinite", FactorFns, FALSE, FALSE) \cup RangeFailures(M, "NominalDerivedFinite", ReductionFns, FALSE, TRUE) ELSE {}

(* the samples really span the stated range: first sample at lo, last at hi (the export cannot quietly skip the end points) *)
RangeCovered(M) ==
    { MFail("RangeCovered", M.ranges[r].fn, M.name, M.ranges[r].label) :
        r \in { k \in 1..Len(M.ranges) : LET R == M.ranges[k] IN
                  \/ Len(R.samples) < 2 \/ R.samples[1][1] # R.lo \/ R.samples[Len(R.samples)][1] # R.hi \/ R.lo >= R.hi } }
Samples(M, fns, stated) == SumSeq([r \in 1..Len(M.ranges) |-> IF M.ranges[r].fn \in fns /\ M.ranges[r].stated = stated THEN Len(M.ranges[r].samples) ELSE 0])
================================================================================================================================
