---------------------------------------------------- MODULE MaterialLibrary ----------------------------------------------------
(* C19 -- what a well-formed material library is.

   A material M is a record exported from one class of armi.materials (harness/gen_nuctable.py: export_materials):
     M.name, M.module        class and module name
     M.kind                  "library" | "base" | "custom" | "mixture" | "void"
     M.inst                  "ok" if cls() returned, else "exception:<type>"
     M.entries               sequence of [nuc, ppb]: massFrac after construction; ppb = mass fraction in parts per billion
     M.ranges                sequence of [label, stated, unit, fn, lo, hi, samples]: fn evaluated at temperatures from lo to hi
                             (both end points exactly as stated, in the stated unit, thousandths of a degree);
                             samples = sequence of <<t, status, q>>: status "ok" | "none" | "complex" | "nonfinite" | "type:.." |
                             "exception:..", q = value in millionths rounded away from zero (q > 0 <=> value > 0).
                             stated = TRUE: the range is an entry of the class' propertyValidTemperature that concerns
                             density or expansion; FALSE: the class states no such range and a nominal 25..600 C is probed.
   Interpretation choices:
     * library material = every class of armi.materials except the abstract bases (Material, Fluid, SimpleSolid, FuelMaterial, Water),
       Custom (user-supplied composition), _Mixture (homogenised blocks) and Void (zero density by definition).  For those only
       Instantiable / KnownNuclides / FractionsInRange (and Normalised when they do carry a composition) are required.
     * "mass fractions summing to one within data precision": |sum - 1| <= MassFracTol = 1e-5.  The finest hand-typed composition
       of the library has six decimals (MOX, nine entries summing to 0.999999); 1e-5 is ten units of that last decimal.
     * "density" is Material.density (g/cm3, what Component number densities are built from) and Material.pseudoDensity (the 2-D
       density of the base class, identical to density for fluids); both must be finite and positive.  "expansion" is
       linearExpansionPercent (and volumetricExpansion where the class states a range for it); it must be a finite real.
     * all functions are probed over every stated density / expansion range of the class: a solid's density is derived from its
       expansion, so the range stated for one is the range over which the other is used.
     * a class that states no range is still required to have a finite positive density somewhere: the nominal range is a
       separate clause family (Nominal...), so that the two can be told apart. *)
EXTENDS Integers, Sequences, FiniteSets, TLC, SequencesExt

Unit == 1000000000
MassFracTol == 10000
MFail(clause, col, who, detail) == [clause |-> clause, col |-> col, who |-> who, detail |-> ToString(detail)]
SumSeq(s) == FoldLeft(LAMBDA acc, x : acc + x, 0, s)
IsLibrary(M) == M.kind = "library"

Instantiable(M) == IF M.inst = "ok" THEN {} ELSE { MFail("Instantiable", "", M.name, M.inst) }

KnownNuclides(M, Known) ==
    { MFail("KnownNuclides", M.entries[j].nuc, M.name, M.entries[j].nuc) : j \in { k \in 1..Len(M.entries) : M.entries[k].nuc \notin Known } }

FractionsInRange(M) ==
    { MFail("FractionsInRange", M.entries[j].nuc, M.name, M.entries[j].ppb) :
        j \in { k \in 1..Len(M.entries) : M.entries[k].ppb < 0 \/ M.entries[k].ppb > Unit } }

Total(M) == SumSeq([j \in 1..Len(M.entries) |-> M.entries[j].ppb])
Normalised(M) ==
    IF M.inst # "ok" THEN {}
    ELSE IF Len(M.entries) = 0
         THEN (IF IsLibrary(M) THEN { MFail("Normalised", "empty", M.name, "no mass fractions") } ELSE {})
         ELSE IF Total(M) - Unit > MassFracTol \/ Unit - Total(M) > MassFracTol
              THEN { MFail("Normalised", "sum", M.name, [sumPpb |-> Total(M), tolerancePpb |-> MassFracTol]) } ELSE {}

(* one failure per (function, range): the first offending temperature and how many there are *)
Bad(R, positive) == { j \in 1..Len(R.samples) : R.samples[j][2] # "ok" \/ (positive /\ R.samples[j][3] <= 0) }
RangeFailures(M, clause, fns, stated, positive) ==
    { MFail(clause, M.ranges[r].fn, M.name,
            LET b == Bad(M.ranges[r], positive)
                j == CHOOSE x \in b : \A y \in b : x <= y
            IN  [range |-> M.ranges[r].label, unit |-> M.ranges[r].unit, firstAtMilliDeg |-> M.ranges[r].samples[j][1],
                 status |-> M.ranges[r].samples[j][2], micro |-> M.ranges[r].samples[j][3], of |-> Len(M.ranges[r].samples), bad |-> Cardinality(b)]) :
        r \in { k \in 1..Len(M.ranges) : /\ M.ranges[k].fn \in fns /\ M.ranges[k].stated = stated
                                         /\ Bad(M.ranges[k], positive) # {} } }

DensityFns == {"density"}
PseudoFns == {"pseudoDensity"}
ExpansionFns == {"linearExpansionPercent", "volumetricExpansion"}
DensityPositive(M)              == IF IsLibrary(M) /\ M.inst = "ok" THEN RangeFailures(M, "DensityPositive", DensityFns, TRUE, TRUE) ELSE {}
PseudoDensityPositive(M)        == IF IsLibrary(M) /\ M.inst = "ok" THEN RangeFailures(M, "PseudoDensityPositive", PseudoFns, TRUE, TRUE) ELSE {}
ExpansionFinite(M)              == IF IsLibrary(M) /\ M.inst = "ok" THEN RangeFailures(M, "ExpansionFinite", ExpansionFns, TRUE, FALSE) ELSE {}
NominalDensityPositive(M)       == IF IsLibrary(M) /\ M.inst = "ok" THEN RangeFailures(M, "NominalDensityPositive", DensityFns, FALSE, TRUE) ELSE {}
NominalPseudoDensityPositive(M) == IF IsLibrary(M) /\ M.inst = "ok" THEN RangeFailures(M, "NominalPseudoDensityPositive", PseudoFns, FALSE, TRUE) ELSE {}
NominalExpansionFinite(M)       == IF IsLibrary(M) /\ M.inst = "ok" THEN RangeFailures(M, "NominalExpansionFinite", ExpansionFns, FALSE, FALSE) ELSE {}

(* the samples really span the stated range: first sample at lo, last at hi (the export cannot quietly skip the end points) *)
RangeCovered(M) ==
    { MFail("RangeCovered", M.ranges[r].fn, M.name, M.ranges[r].label) :
        r \in { k \in 1..Len(M.ranges) : LET R == M.ranges[k] IN
                  \/ Len(R.samples) < 2 \/ R.samples[1][1] # R.lo \/ R.samples[Len(R.samples)][1] # R.hi \/ R.lo >= R.hi } }
Samples(M, fns, stated) == SumSeq([r \in 1..Len(M.ranges) |-> IF M.ranges[r].fn \in fns /\ M.ranges[r].stated = stated THEN Len(M.ranges[r].samples) ELSE 0])
================================================================================================================================
