--------------------------------------------------- MODULE NuclideFactory_mc ---------------------------------------------------
(* constants, bound, view and emission for NuclideFactory *)
EXTENDS NuclideFactory, Json

(* candidates: two hydrogen isotopes (one-letter symbol, zero-padded label), americium 241 / 242 / 242m (special cases, MCNP
   exception) and the unphysical Am-142 whose label collides with Am-242's (four-character label keeps A modulo 100) *)
CandAll == { [z |-> 1, a |-> 1, s |-> 0, ab |-> 999850010], [z |-> 1, a |-> 3, s |-> 0, ab |-> 0],
             [z |-> 95, a |-> 241, s |-> 0, ab |-> 0], [z |-> 95, a |-> 242, s |-> 0, ab |-> 0],
             [z |-> 95, a |-> 242, s |-> 1, ab |-> 0], [z |-> 95, a |-> 142, s |-> 0, ab |-> 0] }
CandSmall == { c \in CandAll : ~(c.z = 95 /\ c.a = 241) }
(* what-if: potassium-38m and the unphysical potassium-438 share the MCNP identifier 19438 and nothing else *)
CandMcnp == { [z |-> 19, a |-> 38, s |-> 1, ab |-> 0], [z |-> 19, a |-> 438, s |-> 0, ab |-> 0], [z |-> 19, a |-> 39, s |-> 0, ab |-> 932581000] }
NoZ == {}
NoSpec == {}
NoMcc == {}
NatH == {1}
SpecDump == { sp \in Specials : sp.name \in {"DUMP1"} }
MccAll == { [name |-> "H1", v2 |-> "HYDRGN", v70 |-> "H1___7", v71 |-> "H1___7"],
            [name |-> "H", v2 |-> "", v70 |-> "", v71 |-> "H____7"],
            [name |-> "AM242G", v2 |-> "AM2425", v70 |-> "AM2427", v71 |-> "AM2427"],
            [name |-> "AM242M", v2 |-> "AM242M", v70 |-> "AM42M7", v71 |-> "AM42M7"],
            [name |-> "AM241", v2 |-> "AM2415", v70 |-> "", v71 |-> "AM2417"] }
Labels1 == {"ZZ9A"}
NoLabels == {}

Bound == TLCGet("level") <= MaxLevel
View == vars
(* what the replay compares after every operation: the whole directory as the exporter sees it, plus the number of keys of
   every index (a key the specification does not know about must not exist) *)
Obs == [rows |-> dir.rows, idx |-> dir.idx,
        nkeys |-> [c \in DOMAIN dir.idx |-> Cardinality(DOMAIN dir.idx[c])],
        members |-> [j \in 1..Len(dir.elements) |-> [z |-> dir.elements[j].z, members |-> dir.elements[j].members]]]
(* a compact key that identifies the state (without Destroy: the attributes of the live objects in order, and the stale keys) *)
Vars == [rows |-> [k \in 1..Len(inst) |-> <<obj[inst[k]].name, obj[inst[k]].label, obj[inst[k]].mcc2, obj[inst[k]].mcc3v0, obj[inst[k]].mcc3v1>>],
         stale |-> stale]
Emit == PrintT(ToJson([lvl |-> TLCGet("level"), from |-> Vars, act |-> act', to |-> Vars', err |-> err']))
EmitState == PrintT(ToJson([st |-> Vars, obs |-> Obs]))
================================================================================================================================
