\* what-if: two candidates that collide on the MCNP identifier only.  TLC refutes RefusalsChangeNothing / HasIds / Membership:
\* addGlobalNuclide raises after it has half-registered the nuclide.
CONSTANTS Cand <- CandMcnp  NatZ <- NoZ  Spec <- NoSpec  MccData <- NoMcc  NewLabels <- NoLabels
          MaxInst = 3  MaxLevel = 4  WithDestroy = FALSE
INIT Init
NEXT Next
CONSTRAINT Bound
VIEW View
CHECK_DEADLOCK FALSE
INVARIANT TypeOK
INVARIANT LookupSameInv
INVARIANT NoSharedInv
INVARIANT KeysOwnedInv
INVARIANT MembershipInv
