\* what-if, emission: the edges of the MCNP-collision model, replayed on the real code by the selftest (it conforms: the defect is real)
CONSTANTS Cand <- CandMcnp  NatZ <- NoZ  Spec <- NoSpec  MccData <- NoMcc  NewLabels <- NoLabels
          MaxInst = 3  MaxLevel = 4  WithDestroy = FALSE
ACTION_CONSTRAINT Emit
INVARIANT EmitState
INIT Init
NEXT Next
CONSTRAINT Bound
VIEW View
CHECK_DEADLOCK FALSE
