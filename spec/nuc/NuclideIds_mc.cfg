\* encodings: all 118 elements x 11 mass numbers x 4 states; laws on three windows
CONSTANTS ZSet <- ZAll  ASet <- AQuick  Windows <- WinQuick
INIT Init
NEXT Next
CHECK_DEADLOCK FALSE
INVARIANT EmitCases
INVARIANT LawsHold
INVARIANT GlobalLaws
