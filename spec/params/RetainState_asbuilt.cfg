\* the mechanism AS BUILT (single grid backup slot, pickle keeps the serial): TLC must refute it (used by selftest only)
CONSTANTS N = 4  Par = {"p", "q"}  NVal = 2  NGrid = 2  MaxDepth = 2  MaxLevel = 5
          GridSlot = "single"  PickleSerial = "kept"
CONSTANTS Keeps <- KeepsNone  Acts <- ActsAsBuilt  Parent0 <- ParentD  Cls0 <- ClsD
          ParOf <- McParOf  GridCls <- McGridCls  MatCls <- McMatCls
INIT Init
NEXT Next
CONSTRAINT Bound
VIEW View
INVARIANT TypeOK
INVARIANT StacksAligned
INVARIANT BackupsAreSnapshots
INVARIANT GridBackupsAreSnapshots
INVARIANT GateSound
INVARIANT CacheNoLeak
INVARIANT SerialsUnique
INVARIANT SerialsBelowNext
INVARIANT ExitRestores
INVARIANT ExitRestoresGrid
INVARIANT EnterKeepsValues
INVARIANT CopyEqual
INVARIANT OnlyTargetChanges
INVARIANT SerialFresh
INVARIANT ReadOnlyRefuses
INVARIANT ReadOnlyForever
INVARIANT RefusalsChangeNoValue
CHECK_DEADLOCK FALSE
