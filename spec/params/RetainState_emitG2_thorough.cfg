\* edge emission, grid focus with Block.setHeight: assembly > block, deeper (thorough)
CONSTANTS N = 2  Par = {"p", "q"}  NVal = 2  NGrid = 3  MaxDepth = 2  MaxLevel = 6
          GridSlot = "stack"  PickleSerial = "fresh"  DbSerial = "max"
CONSTANTS Keeps <- KeepsNone  Acts <- ActsGrid  Parent0 <- ParentE  Cls0 <- ClsE
          ParOf <- McParOf  GridCls <- McGridCls  MatCls <- McMatCls
          DbCls <- McDbCls  CopyCls <- McAllCls  CallsOf <- McCallsOf  Unset0 <- NoUnset  Link0 <- LinkNone
ACTION_CONSTRAINT Emit
INIT Init
NEXT Next
CONSTRAINT Bound
VIEW View
INVARIANT TypeOK
INVARIANT StacksAligned
INVARIANT BackupsAreSnapshots
INVARIANT GridBackupsAreSnapshots
INVARIANT GateSound
INVARIANT CacheNoLeak
INVARIANT SerialsUnique
INVARIANT SerialsBelowNext
INVARIANT ExitRestores
INVARIANT ExitRestoresGrid
INVARIANT EnterKeepsValues
INVARIANT CopyEqual
INVARIANT OnlyTargetChanges
INVARIANT SerialFresh
INVARIANT ReadOnlyRefuses
INVARIANT ReadOnlyForever
INVARIANT RefusalsChangeNoValue
CHECK_DEADLOCK FALSE
