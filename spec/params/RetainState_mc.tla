-------------------------------------- MODULE RetainState_mc --------------------------------------
(* Model-checking instances of RetainState: trees, keep-sets, state constraint, view, edge emission. *)
EXTENDS RetainState

\* tree A: one block (grid) with two components of the same class (shared definitions, materials)
ParentA == <<0, 1, 1>>
ClsA    == <<"blk", "cmp", "cmp">>
\* tree B: assembly (axial grid) > block (hex grid) > component : scopes nested over different roots
ParentB == <<0, 1, 2>>
ClsB    == <<"asm", "blk", "cmp">>
\* tree C: assembly > block > two components
ParentC == <<0, 1, 2, 2>>
ClsC    == <<"asm", "blk", "cmp", "cmp">>

\* tree D: block > component
ParentD == <<0, 1>>
ClsD    == <<"blk", "cmp">>
\* tree E: assembly (axial bounds) > block (hex pitch)
ParentE == <<0, 1>>
ClsE    == <<"asm", "blk">>
\* tree R: the smallest test reactor (reactor, core, spent fuel pool, assembly, block, 7 components)
ParentR == <<0, 1, 1, 2, 4, 5, 5, 5, 5, 5, 5, 5>>
ClsR    == <<"r", "core", "sfp", "asm", "blk", "cmp", "cmp", "cmp", "cmp", "cmp", "cmp", "cmp">>
\* tree F: block > fuel, clad, bond ; the bond's inner diameter is LINKED to the fuel's outer diameter
ParentF == <<0, 1, 1, 1>>
ClsF    == <<"blk", "cmp", "cmp", "cmp">>
LinkF   == <<0, 0, 0, 2>>
LinkNone == <<>>
KeepsNone == {{}}
\* exactly ONE of two same-named / same-role definitions
KeepsOne  == {{}, {<<"cmp", "q">>}, {<<"blk", "q">>}}
KeepsLink == {{}, {<<"cmp", "q">>}}
NoUnset   == {}
McUnset   == {<<"cmp", "q">>}       \* built value of cmp.q = unset (or a link): never assigned back

McParOf   == [c \in {"r", "core", "sfp", "asm", "blk", "cmp"} |-> Par]
QOnly     == [c \in {"r", "core", "sfp", "asm", "blk", "cmp"} |-> {"q"}]
McAllCls  == {"r", "core", "sfp", "asm", "blk", "cmp"}
McDbCls   == {"asm", "blk", "cmp"}      \* small instances: any detached root stands for the reactor
RDbCls    == {"r"}
RCopyCls  == {"asm"}
BlkOnly   == {"blk"}
\* the read-only family: public mutators that route through parameters (the adapter implements each name)
McCallsOf == [c \in {"asm", "blk", "cmp"} |->
                IF c = "cmp" THEN {"changeNDensByFactor", "setNumberDensities", "updateNumberDensities",
                                   "clearNumberDensities", "setTemperature", "setDimension", "setMass", "addMass",
                                   "setMasses", "setType", "p.update", "p[]=", "del p[]", "copyParamsFrom"}
                ELSE IF c = "blk" THEN {"changeNDensByFactor", "setNumberDensity", "setNumberDensities",
                                        "updateNumberDensities", "clearNumberDensities", "setMass", "addMass",
                                        "setHeight", "setType", "adjustUEnrich", "del p[]", "copyParamsFrom"}
                ELSE {"changeNDensByFactor", "setNumberDensity", "clearNumberDensities", "setType", "setMass",
                      "calculateZCoords", "del p[]", "copyParamsFrom"}]
NoCalls   == [c \in {} |-> {}]
McGridCls == {"asm", "blk"}
McMatCls  == {"cmp"}
\* keep-sets: nothing; one parameter of one class; the same abstract parameter on two classes; mixed
KeepsSmall == {{}, {<<"cmp", "p">>}, {<<"blk", "q">>, <<"cmp", "q">>}}
KeepsTwo   == {{}, {<<"blk", "q">>, <<"cmp", "q">>, <<"cmp", "p">>}}
KeepsFull  == {{}, {<<"cmp", "p">>}, {<<"cmp", "q">>}, {<<"blk", "p">>}, {<<"blk", "q">>, <<"cmp", "q">>},
               {<<"asm", "p">>, <<"blk", "p">>, <<"cmp", "p">>}, {<<"asm", "q">>, <<"cmp", "p">>, <<"cmp", "q">>}}
ActsAll    == {"Enter", "Exit", "Assign", "AssignRO", "SetCache", "SetGrid", "DeepCopy", "Pickle", "MakeReadOnly",
               "CallRO", "WriteDb", "LoadDb", "LoadDbRO", "ReadGrid", "SetHeight", "SetDFlag", "FreezeInScope"}
ActsRO     == {"MakeReadOnly", "AssignRO", "CallRO", "DeepCopy", "Assign"}
ActsDb     == {"WriteDb", "LoadDb", "LoadDbRO", "DeepCopy", "Pickle", "Assign", "AssignRO"}
ActsDbR    == {"WriteDb", "LoadDb", "LoadDbRO", "DeepCopy"}
ActsParams == {"Enter", "Exit", "Assign"}
ActsGrid   == {"Enter", "Exit", "SetGrid", "SetCache", "ReadGrid", "SetHeight", "SetDFlag"}
ActsGridQ  == {"Enter", "Exit", "SetGrid", "ReadGrid", "SetHeight", "SetDFlag"}
ActsFreeze == {"Enter", "Exit", "Assign", "AssignRO", "MakeReadOnly", "FreezeInScope"}
ActsLink   == {"Enter", "Exit", "Assign", "DeepCopy", "Pickle"}
ActsLinkQ  == {"Enter", "Exit", "Assign", "DeepCopy"}
ActsAsBuilt == {"Enter", "Exit", "SetGrid", "Pickle"}
ActsCopy   == {"Enter", "Exit", "Assign", "AssignRO", "DeepCopy", "Pickle", "MakeReadOnly", "SetCache"}

Bound == TLCGet("level") <= MaxLevel
\* the snapshots inside the frames are determined by the backups (BackupsAreSnapshots) and never read by Next
\* -- except the snapshot of dflag, which the mechanism does not back up and Exit (statement's view) reads
View  == <<tree, pvars, cvars, gvars, [i \in 1..Len(frames) |-> <<frames[i].root, frames[i].keep, frames[i].sdflag>>], ro, svars, bad>>
\* database family on the real reactor: parameter values of loaded objects are property C04's business
ObsDb == [k \in {"parent", "cls", "sameSerialAs", "ro", "err"} |-> Obs[k]]
VarsDb == [parent |-> Vars.parent, ro |-> Vars.ro, serial |-> Vars.serial, next |-> Vars.next, ident |-> Vars.ident,
           db |-> [has |-> db.has, objs |-> db.objs, max |-> db.max, serial |-> Vars.db.serial]]
EmitDb == PrintT(ToJson([lvl |-> TLCGet("level"), from |-> VarsDb, act |-> act', to |-> VarsDb', obs |-> ObsDb']))
\* linked dimensions: Component.backUp / restoreBackup take the links out of the collection and put them back, which
\* flags the DEFINITIONS of the linked dimensions (class-level bookkeeping, not modelled): dass is not observed there
ObsL  == [k \in (DOMAIN Obs) \ {"dass"} |-> Obs[k]]
EmitL == PrintT(ToJson([lvl |-> TLCGet("level"), from |-> Vars, act |-> act', to |-> Vars', obs |-> ObsL']))
Emit  == PrintT(ToJson([lvl |-> TLCGet("level"), from |-> Vars, act |-> act', to |-> Vars', obs |-> Obs']))
=====================================================================================================
