-------------------------------------- MODULE RetainState_mc --------------------------------------
(* Model-checking instances of RetainState: trees, keep-sets, state constraint, view, edge emission. *)
EXTENDS RetainState

\* tree A: one block (grid) with two components of the same class (shared definitions, materials)
ParentA == <<0, 1, 1>>
ClsA    == <<"blk", "cmp", "cmp">>
\* tree B: assembly (axial grid) > block (hex grid) > component : scopes nested over different roots
ParentB == <<0, 1, 2>>
ClsB    == <<"asm", "blk", "cmp">>
\* tree C: assembly > block > two components
ParentC == <<0, 1, 2, 2>>
ClsC    == <<"asm", "blk", "cmp", "cmp">>

\* tree D: block > component
ParentD == <<0, 1>>
ClsD    == <<"blk", "cmp">>
\* tree E: assembly (axial bounds) > block (hex pitch)
ParentE == <<0, 1>>
ClsE    == <<"asm", "blk">>
KeepsNone == {{}}

McParOf   == [c \in {"asm", "blk", "cmp"} |-> Par]
McGridCls == {"asm", "blk"}
McMatCls  == {"cmp"}
\* keep-sets: nothing; one parameter of one class; the same abstract parameter on two classes; mixed
KeepsSmall == {{}, {<<"cmp", "p">>}, {<<"blk", "q">>, <<"cmp", "q">>}}
KeepsTwo   == {{}, {<<"blk", "q">>, <<"cmp", "q">>, <<"cmp", "p">>}}
KeepsFull  == {{}, {<<"cmp", "p">>}, {<<"cmp", "q">>}, {<<"blk", "p">>}, {<<"blk", "q">>, <<"cmp", "q">>},
               {<<"asm", "p">>, <<"blk", "p">>, <<"cmp", "p">>}, {<<"asm", "q">>, <<"cmp", "p">>, <<"cmp", "q">>}}
ActsAll    == {"Enter", "Exit", "Assign", "AssignRO", "SetCache", "SetGrid", "DeepCopy", "Pickle", "MakeReadOnly"}
ActsParams == {"Enter", "Exit", "Assign"}
ActsGrid   == {"Enter", "Exit", "SetGrid", "SetCache"}
ActsAsBuilt == {"Enter", "Exit", "SetGrid", "Pickle"}
ActsCopy   == {"Enter", "Exit", "Assign", "AssignRO", "DeepCopy", "Pickle", "MakeReadOnly", "SetCache"}

Bound == TLCGet("level") <= MaxLevel
\* the snapshots inside the frames are determined by the backups (BackupsAreSnapshots) and never read by Next
View  == <<tree, pvars, cvars, gvars, [i \in 1..Len(frames) |-> <<frames[i].root, frames[i].keep>>], ro, svars, bad>>
Emit  == PrintT(ToJson([lvl |-> TLCGet("level"), from |-> Vars, act |-> act', to |-> Vars', obs |-> Obs']))
=====================================================================================================
