------------------------------------- MODULE RetainState_trace -------------------------------------
(* code -> spec: every recorded history (nested scopes on any object of a real reactor, assignments of every
   kind, mutators with side effects, caches, grid changes, deep copies, pickles, read-only) must be a behaviour
   of RetainState, event by event, with the complete projected post-state equal to the specification's.

   A trace is  {"id":.., "init":{parent,cls,val,rest,cass,grid}, "ev":[{"a":{n,..}, "post":{..}}, ..]}.
   Values are small integers: the recorder numbers the distinct concrete values it sees (equal value <=> equal
   number), so "restored exactly" is equality of numbers.  `rest` numbers the digest of ALL parameters of the
   object that are not modelled individually.  The class-level flags (dass) are not compared here (the reactor's
   families share definitions in ways the small instances do not); everything else is.                       *)
EXTENDS RetainState, IOUtils, TLCExt
Traces == ndJsonDeserialize(IOEnv.TRACE_FILE)
NT     == Len(Traces)
VARIABLES tid, l
ASSUME \A t \in 1..NT : TLCSet(t, 0)

TrCls0    == <<"r", "core", "sfp", "asm", "blk", "cmp">>
TrParent0 == <<0, 0, 0, 0, 0, 0>>
TrLink0   == <<>>
TrParOf   == [c \in {"r", "core", "sfp", "asm", "blk", "cmp"} |-> Par]
TrGridCls == {"core", "sfp", "asm", "blk"}
TrMatCls  == {"cmp"}
TrActs    == {"Enter", "Exit", "Assign", "AssignRO", "SetCache", "SetGrid", "DeepCopy", "Pickle", "MakeReadOnly",
              "CallRO", "WriteDb", "LoadDb", "LoadDbRO", "ReadGrid", "FreezeInScope"}
TrFamilies == {"r", "core", "sfp", "asm", "blk", "cmp"}
\* the recorder names the call; any name is accepted, the effect (none) is what is checked
TrCalls   == [c \in TrFamilies |-> {"call"}]

TInit ==
    /\ tid \in 1..NT /\ l = 1
    /\ \E T \in {Traces[tid].init} : \E n0 \in {Len(Traces[tid].init.parent)} :
        /\ parent = [o \in Node |-> IF o <= n0 THEN T.parent[o] ELSE 0]
        /\ cls    = [o \in Node |-> IF o <= n0 THEN T.cls[o] ELSE "cmp"]
        /\ live   = 1..n0
        /\ linkto = [o \in Node |-> IF o <= n0 THEN T.link[o] ELSE 0]
        /\ val    = [o \in Node |-> IF o <= n0 THEN T.val[o] ELSE Zero]
        /\ rest   = [o \in Node |-> IF o <= n0 THEN T.rest[o] ELSE 0]
        /\ cass   = [o \in Node |-> IF o <= n0 THEN T.cass[o] ELSE ALL]
        /\ grid   = [o \in Node |-> IF o <= n0 THEN T.grid[o] ELSE 0]
        /\ serial = [o \in Node |-> IF o <= n0 THEN o ELSE 0] /\ nextSerial = n0 + 1
    /\ db = NoDb /\ ident = [o \in Node |-> o]
    /\ cbak = [o \in Node |-> <<>>]
    /\ dass = [c \in Classes |-> [p \in Par |-> NEVER]] /\ dbak = [c \in Classes |-> [p \in Par |-> <<>>]]
    /\ cache = [o \in Node |-> 0] /\ cachebak = [o \in Node |-> <<>>]
    /\ mcache = [o \in Node |-> 0] /\ mcachebak = [o \in Node |-> <<>>]
    /\ dflag = [o \in Node |-> IF o <= Len(Traces[tid].init.dflag) THEN Traces[tid].init.dflag[o] ELSE 0]
    /\ gbak = [o \in Node |-> <<>>]
    /\ frames = <<>> /\ ro = [o \in Node |-> FALSE]
    /\ err = "" /\ act = [n |-> "Init"] /\ bad = {}

Ev == Traces[tid].ev[l]
A  == Ev.a
SeqRange(s) == {s[i] : i \in 1..Len(s)}
KeepOf(a) == {<<a.keep[i][1], a.keep[i][2]>> : i \in 1..Len(a.keep)}
PostFn(f) == [x \in Node |-> IF x <= Len(f) THEN f[x] ELSE 0]
PostVal   == [x \in Node |-> IF x <= Len(Ev.post.val) THEN Ev.post.val[x] ELSE Zero]

TStep ==
    \/ A.n = "Enter" /\ EnterK(A.r, KeepOf(A))
    \/ A.n = "Exit" /\ (Exit \/ ExitRefused)
    \/ A.n \in {"CopyParams", "UpdateParams"} /\ ParamsFrom(A.n, A.o, A.src, PostVal, PostFn(Ev.post.rest), PostFn(Ev.post.cass), PostFn(Ev.post.link))
    \/ A.n = "Assign" /\ AssignV(A.o, A.p, A.v)
    \/ A.n = "AssignRO" /\ AssignROV(A.o, A.p, A.v)
    \/ A.n = "SetCache" /\ SetCacheV(A.o, A.w, A.tag)
    \/ A.n = "SetGrid" /\ SetGridV(A.o, A.g)
    \/ A.n = "ReadGrid" /\ ReadGrid(A.o)
    \/ A.n \in {"DeepCopy", "Pickle"} /\ Copy(A.x, A.n) /\ act'.ids = A.ids
    \/ A.n = "MakeReadOnly" /\ MakeReadOnly(A.r)
    \/ A.n = "CallRO" /\ CallRO(A.o, "call")
    \/ A.n = "WriteDb" /\ WriteDb(A.r)
    \/ A.n \in {"LoadDb", "LoadDbRO"} /\ LoadDbV(A.n, FALSE, PostVal, PostFn(Ev.post.rest), PostFn(Ev.post.cass),
                                                 PostFn(Ev.post.grid), PostFn(Ev.post.dflag)) /\ act'.ids = A.ids
    \/ A.n = "Havoc" /\ Havoc(A.o, SeqRange(A.touched), PostVal, PostFn(Ev.post.rest), PostFn(Ev.post.cass),
                                 PostFn(Ev.post.cache), PostFn(Ev.post.mcache), PostFn(Ev.post.grid), PostFn(Ev.post.dflag))

TObs == [k \in (DOMAIN Obs) \ {"dass"} |-> Obs[k]]
\* `serial` is read by no action, so a disagreement about who shares a serial number cannot cascade: it is printed
\* (the harness reports it) and the history goes on; any other disagreement ends the history
NonBlocking == {"sameSerialAs", "dflag"}     \* (dflag: Block.derivedMustUpdate is read by no action either)
CoreOf(o) == [k \in (DOMAIN o) \ NonBlocking |-> o[k]]
ObsMatch == \/ /\ CoreOf(TObs') = CoreOf(Ev.post)
               /\ \/ TObs'.sameSerialAs = Ev.post.sameSerialAs
                  \/ PrintT(ToJson([serial |-> Traces[tid].id, at |-> l, expected |-> TObs']))
               /\ \/ TObs'.dflag = Ev.post.dflag
                  \/ PrintT(ToJson([serial |-> Traces[tid].id, at |-> l, field |-> "dflag", expected |-> TObs']))
            \/ /\ CoreOf(TObs') # CoreOf(Ev.post)
               /\ PrintT(ToJson([mismatch |-> Traces[tid].id, at |-> l, expected |-> TObs']))
               /\ FALSE
TNext == /\ l <= Len(Traces[tid].ev) /\ l' = l + 1 /\ tid' = tid
         /\ TStep
         /\ ObsMatch
TSpec == TInit /\ [][TNext]_<<allvars, tid, l>>
Progress == IF TLCGet(tid) < l THEN TLCSet(tid, l) ELSE TRUE
Report == LET rej == {t \in 1..NT : TLCGet(t) # Len(Traces[t].ev) + 1} IN
          /\ \A t \in rej : PrintT(ToJson([rejected |-> Traces[t].id, matched |-> TLCGet(t) - 1]))
          /\ PrintT(ToJson([accepted |-> NT - Cardinality(rej), of |-> NT]))
=====================================================================================================
