\* pickle AS BUILT (the copy keeps the serial): TLC must refute SerialsUnique (selftest only)
CONSTANTS N = 4  Par = {"p", "q"}  NVal = 2  NGrid = 2  MaxDepth = 1  MaxLevel = 3
          GridSlot = "stack"  PickleSerial = "kept"  DbSerial = "max"
CONSTANTS Keeps <- KeepsNone  Acts <- ActsAsBuilt  Parent0 <- ParentD  Cls0 <- ClsD
          ParOf <- McParOf  GridCls <- McGridCls  MatCls <- McMatCls
          DbCls <- McDbCls  CopyCls <- McAllCls  CallsOf <- McCallsOf  Unset0 <- NoUnset  Link0 <- LinkNone
INIT Init
NEXT Next
CONSTRAINT Bound
INVARIANT SerialsUnique
CHECK_DEADLOCK FALSE
