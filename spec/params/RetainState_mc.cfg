\* exhaustive, all actions: block + 2 components + 1 pool id, 2 parameters x 2 values, nesting <= 2
CONSTANTS N = 4  Par = {"p", "q"}  NVal = 2  NGrid = 2  MaxDepth = 2  MaxLevel = 6
          GridSlot = "stack"  PickleSerial = "fresh"
CONSTANTS Keeps <- KeepsSmall  Acts <- ActsAll  Parent0 <- ParentA  Cls0 <- ClsA
          ParOf <- McParOf  InPlace <- McInPlace  GridCls <- McGridCls  MatCls <- McMatCls
INIT Init
NEXT Next
CONSTRAINT Bound
VIEW View
INVARIANT TypeOK
INVARIANT StacksAligned
INVARIANT BackupsAreSnapshots
INVARIANT GridBackupsAreSnapshots
INVARIANT GateSound
INVARIANT CacheNoLeak
INVARIANT SerialsUnique
INVARIANT SerialsBelowNext
PROPERTY ExitRestores
PROPERTY ExitRestoresGrid
PROPERTY EnterKeepsValues
PROPERTY CopyEqual
PROPERTY OnlyTargetChanges
PROPERTY SerialFresh
PROPERTY ReadOnlyRefuses
PROPERTY ReadOnlyForever
PROPERTY RefusalsChangeNoValue
CHECK_DEADLOCK FALSE
