\* edge emission, read-only family: assembly > block > component made read-only, every mutator (quick + thorough)
CONSTANTS N = 3  Par = {"p", "q"}  NVal = 2  NGrid = 2  MaxDepth = 1  MaxLevel = 3
          GridSlot = "stack"  PickleSerial = "fresh"  DbSerial = "max"
CONSTANTS Keeps <- KeepsNone  Acts <- ActsRO  Parent0 <- ParentB  Cls0 <- ClsB
          ParOf <- McParOf  GridCls <- McGridCls  MatCls <- McMatCls
          DbCls <- McDbCls  CopyCls <- McAllCls  CallsOf <- McCallsOf  Unset0 <- NoUnset  Link0 <- LinkNone
ACTION_CONSTRAINT Emit
INIT Init
NEXT Next
CONSTRAINT Bound
VIEW View
INVARIANT TypeOK
INVARIANT StacksAligned
INVARIANT BackupsAreSnapshots
INVARIANT GridBackupsAreSnapshots
INVARIANT GateSound
INVARIANT CacheNoLeak
INVARIANT SerialsUnique
INVARIANT SerialsBelowNext
INVARIANT ExitRestores
INVARIANT ExitRestoresGrid
INVARIANT EnterKeepsValues
INVARIANT CopyEqual
INVARIANT OnlyTargetChanges
INVARIANT SerialFresh
INVARIANT ReadOnlyRefuses
INVARIANT ReadOnlyForever
INVARIANT RefusalsChangeNoValue
CHECK_DEADLOCK FALSE
