\* exhaustive: linked dimensions + unset start, copies and scopes (quick)
CONSTANTS N = 8  Par = {"p", "q"}  NVal = 2  NGrid = 2  MaxDepth = 2  MaxLevel = 4
          GridSlot = "stack"  PickleSerial = "fresh"  DbSerial = "max"
CONSTANTS Keeps <- KeepsLink  Acts <- ActsLink  Parent0 <- ParentF  Cls0 <- ClsF
          ParOf <- McParOf  GridCls <- McGridCls  MatCls <- McMatCls
          DbCls <- McDbCls  CopyCls <- McAllCls  CallsOf <- McCallsOf  Unset0 <- McUnset  Link0 <- LinkF
INIT Init
NEXT Next
CONSTRAINT Bound
VIEW View
INVARIANT TypeOK
INVARIANT StacksAligned
INVARIANT BackupsAreSnapshots
INVARIANT GridBackupsAreSnapshots
INVARIANT GateSound
INVARIANT CacheNoLeak
INVARIANT SerialsUnique
INVARIANT SerialsBelowNext
INVARIANT ExitRestores
INVARIANT ExitRestoresGrid
INVARIANT EnterKeepsValues
INVARIANT CopyEqual
INVARIANT OnlyTargetChanges
INVARIANT SerialFresh
INVARIANT ReadOnlyRefuses
INVARIANT ReadOnlyForever
INVARIANT RefusalsChangeNoValue
CHECK_DEADLOCK FALSE
