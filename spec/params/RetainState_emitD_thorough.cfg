\* edge emission, database family on the smallest test reactor, deeper (thorough)
CONSTANTS N = 54  Par = {"p", "q"}  NVal = 2  NGrid = 2  MaxDepth = 1  MaxLevel = 6
          GridSlot = "stack"  PickleSerial = "fresh"  DbSerial = "max"
CONSTANTS Keeps <- KeepsNone  Acts <- ActsDbR  Parent0 <- ParentR  Cls0 <- ClsR
          ParOf <- McParOf  GridCls <- McGridCls  MatCls <- McMatCls
          DbCls <- RDbCls  CopyCls <- RCopyCls  CallsOf <- NoCalls  Unset0 <- NoUnset  Link0 <- LinkNone
ACTION_CONSTRAINT EmitDb
INIT Init
NEXT Next
CONSTRAINT Bound
VIEW View
INVARIANT TypeOK
INVARIANT StacksAligned
INVARIANT BackupsAreSnapshots
INVARIANT GridBackupsAreSnapshots
INVARIANT GateSound
INVARIANT CacheNoLeak
INVARIANT SerialsUnique
INVARIANT SerialsBelowNext
INVARIANT ExitRestores
INVARIANT ExitRestoresGrid
INVARIANT EnterKeepsValues
INVARIANT CopyEqual
INVARIANT OnlyTargetChanges
INVARIANT SerialFresh
INVARIANT ReadOnlyRefuses
INVARIANT ReadOnlyForever
INVARIANT RefusalsChangeNoValue
CHECK_DEADLOCK FALSE
