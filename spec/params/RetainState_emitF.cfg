\* edge emission: a tree made read-only INSIDE an open scope; the exit is refused and nothing is restored (quick + thorough)
CONSTANTS N = 2  Par = {"p", "q"}  NVal = 2  NGrid = 2  MaxDepth = 2  MaxLevel = 5
          GridSlot = "stack"  PickleSerial = "fresh"  DbSerial = "max"
CONSTANTS Keeps <- KeepsNone  Acts <- ActsFreeze  Parent0 <- ParentD  Cls0 <- ClsD
          ParOf <- QOnly  GridCls <- McGridCls  MatCls <- McMatCls
          DbCls <- McDbCls  CopyCls <- McAllCls  CallsOf <- McCallsOf  Unset0 <- NoUnset  Link0 <- LinkNone
ACTION_CONSTRAINT Emit
INIT Init
NEXT Next
CONSTRAINT Bound
VIEW View
INVARIANT TypeOK
INVARIANT StacksAligned
INVARIANT BackupsAreSnapshots
INVARIANT GridBackupsAreSnapshots
INVARIANT GateSound
INVARIANT CacheNoLeak
INVARIANT SerialsUnique
INVARIANT SerialsBelowNext
INVARIANT ExitRestores
INVARIANT ExitRestoresGrid
INVARIANT EnterKeepsValues
INVARIANT CopyEqual
INVARIANT OnlyTargetChanges
INVARIANT SerialFresh
INVARIANT ReadOnlyRefuses
INVARIANT ReadOnlyForever
INVARIANT RefusalsChangeNoValue
CHECK_DEADLOCK FALSE
