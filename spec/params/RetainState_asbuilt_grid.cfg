\* the grid backup AS BUILT (one slot): TLC must refute ExitRestoresGrid (selftest only; no VIEW: as built the snapshots are not determined by the backups)
CONSTANTS N = 2  Par = {"p", "q"}  NVal = 2  NGrid = 2  MaxDepth = 2  MaxLevel = 7
          GridSlot = "single"  PickleSerial = "fresh"  DbSerial = "max"
CONSTANTS Keeps <- KeepsNone  Acts <- ActsAsBuilt  Parent0 <- ParentD  Cls0 <- ClsD
          ParOf <- McParOf  GridCls <- McGridCls  MatCls <- McMatCls
          DbCls <- McDbCls  CopyCls <- McAllCls  CallsOf <- McCallsOf  Unset0 <- NoUnset  Link0 <- LinkNone
INIT Init
NEXT Next
CONSTRAINT Bound
INVARIANT ExitRestoresGrid
CHECK_DEADLOCK FALSE
