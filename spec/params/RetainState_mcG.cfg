\* exhaustive, grid/cache focus: assembly > block > component, nesting 3 (quick)
CONSTANTS N = 3  Par = {"p", "q"}  NVal = 2  NGrid = 2  MaxDepth = 3  MaxLevel = 6
          GridSlot = "stack"  PickleSerial = "fresh"  DbSerial = "max"
CONSTANTS Keeps <- KeepsNone  Acts <- ActsGrid  Parent0 <- ParentB  Cls0 <- ClsB
          ParOf <- McParOf  GridCls <- McGridCls  MatCls <- McMatCls
          DbCls <- McDbCls  CopyCls <- McAllCls  CallsOf <- McCallsOf  Unset0 <- NoUnset  Link0 <- LinkNone
INIT Init
NEXT Next
CONSTRAINT Bound
VIEW View
INVARIANT TypeOK
INVARIANT StacksAligned
INVARIANT BackupsAreSnapshots
INVARIANT GridBackupsAreSnapshots
INVARIANT GateSound
INVARIANT CacheNoLeak
INVARIANT SerialsUnique
INVARIANT SerialsBelowNext
INVARIANT ExitRestores
INVARIANT ExitRestoresGrid
INVARIANT EnterKeepsValues
INVARIANT CopyEqual
INVARIANT OnlyTargetChanges
INVARIANT SerialFresh
INVARIANT ReadOnlyRefuses
INVARIANT ReadOnlyForever
INVARIANT RefusalsChangeNoValue
CHECK_DEADLOCK FALSE
