\* batch trace validation on the smallest test reactor (12 objects) plus copies and loaded reactors
CONSTANTS N = 64  Par = {"s", "a", "d", "n", "u"}  NVal = 2  NGrid = 2  MaxDepth = 99  MaxLevel = 9999
          GridSlot = "stack"  PickleSerial = "fresh"  Keeps = {}  DbSerial = "max"  DbCls = {"r"}
          CopyCls = {"r", "core", "sfp", "asm", "blk", "cmp"}  Unset0 = {}
CONSTANTS Acts <- TrActs  Parent0 <- TrParent0  Cls0 <- TrCls0
          ParOf <- TrParOf  GridCls <- TrGridCls  MatCls <- TrMatCls  CallsOf <- TrCalls  Link0 <- TrLink0
SPECIFICATION TSpec
CONSTRAINT Progress
POSTCONDITION Report
INVARIANT StacksAligned
INVARIANT BackupsAreSnapshots
INVARIANT GridBackupsAreSnapshots
INVARIANT GateSound
INVARIANT SerialsUnique
INVARIANT SerialsBelowNext
INVARIANT ExitRestores
INVARIANT ExitRestoresGrid
INVARIANT EnterKeepsValues
INVARIANT CopyEqual
INVARIANT OnlyTargetChanges
INVARIANT SerialFresh
INVARIANT ReadOnlyRefuses
INVARIANT ReadOnlyForever
INVARIANT RefusalsChangeNoValue
CHECK_DEADLOCK FALSE
