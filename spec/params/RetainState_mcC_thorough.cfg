\* exhaustive, copy/read-only focus: block > 2 components + 3 pool ids (thorough)
CONSTANTS N = 6  Par = {"p", "q"}  NVal = 2  NGrid = 2  MaxDepth = 1  MaxLevel = 5
          GridSlot = "stack"  PickleSerial = "fresh"  DbSerial = "max"
CONSTANTS Keeps <- KeepsSmall  Acts <- ActsCopy  Parent0 <- ParentA  Cls0 <- ClsA
          ParOf <- McParOf  GridCls <- McGridCls  MatCls <- McMatCls
          DbCls <- McDbCls  CopyCls <- McAllCls  CallsOf <- McCallsOf  Unset0 <- NoUnset  Link0 <- LinkNone
INIT Init
NEXT Next
CONSTRAINT Bound
VIEW View
INVARIANT TypeOK
INVARIANT StacksAligned
INVARIANT BackupsAreSnapshots
INVARIANT GridBackupsAreSnapshots
INVARIANT GateSound
INVARIANT CacheNoLeak
INVARIANT SerialsUnique
INVARIANT SerialsBelowNext
INVARIANT ExitRestores
INVARIANT ExitRestoresGrid
INVARIANT EnterKeepsValues
INVARIANT CopyEqual
INVARIANT OnlyTargetChanges
INVARIANT SerialFresh
INVARIANT ReadOnlyRefuses
INVARIANT ReadOnlyForever
INVARIANT RefusalsChangeNoValue
CHECK_DEADLOCK FALSE
