\* exhaustive, parameters focus: block > component, scopes and assignments only (quick)
CONSTANTS N = 2  Par = {"p", "q"}  NVal = 2  NGrid = 2  MaxDepth = 2  MaxLevel = 6
          GridSlot = "stack"  PickleSerial = "fresh"  DbSerial = "max"
CONSTANTS Keeps <- KeepsTwo  Acts <- ActsParams  Parent0 <- ParentD  Cls0 <- ClsD
          ParOf <- McParOf  GridCls <- McGridCls  MatCls <- McMatCls
          DbCls <- McDbCls  CopyCls <- McAllCls  CallsOf <- McCallsOf  Unset0 <- NoUnset  Link0 <- LinkNone
INIT Init
NEXT Next
CONSTRAINT Bound
VIEW View
INVARIANT TypeOK
INVARIANT StacksAligned
INVARIANT BackupsAreSnapshots
INVARIANT GridBackupsAreSnapshots
INVARIANT GateSound
INVARIANT CacheNoLeak
INVARIANT SerialsUnique
INVARIANT SerialsBelowNext
INVARIANT ExitRestores
INVARIANT ExitRestoresGrid
INVARIANT EnterKeepsValues
INVARIANT CopyEqual
INVARIANT OnlyTargetChanges
INVARIANT SerialFresh
INVARIANT ReadOnlyRefuses
INVARIANT ReadOnlyForever
INVARIANT RefusalsChangeNoValue
CHECK_DEADLOCK FALSE
