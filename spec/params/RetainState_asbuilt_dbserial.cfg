\* Database.load setting the counter to the largest STORED serial (a seeded change): TLC must refute SerialsBelowNext (selftest only)
CONSTANTS N = 8  Par = {"p", "q"}  NVal = 2  NGrid = 2  MaxDepth = 1  MaxLevel = 6
          GridSlot = "stack"  PickleSerial = "fresh"  DbSerial = "db"
CONSTANTS Keeps <- KeepsNone  Acts <- ActsDb  Parent0 <- ParentD  Cls0 <- ClsD
          ParOf <- McParOf  GridCls <- McGridCls  MatCls <- McMatCls
          DbCls <- McDbCls  CopyCls <- McAllCls  CallsOf <- McCallsOf  Unset0 <- NoUnset  Link0 <- LinkNone
INIT Init
NEXT Next
CONSTRAINT Bound
INVARIANT SerialsBelowNext
INVARIANT SerialFresh
INVARIANT SerialsUnique
CHECK_DEADLOCK FALSE
