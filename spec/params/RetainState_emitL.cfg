\* edge emission: block > fuel, clad, bond with LINKED dimensions; copies, scopes, assignments to the linked-to and the linked dimension (quick)
CONSTANTS N = 8  Par = {"p", "q"}  NVal = 2  NGrid = 2  MaxDepth = 1  MaxLevel = 4
          GridSlot = "stack"  PickleSerial = "fresh"  DbSerial = "max"
CONSTANTS Keeps <- KeepsLink  Acts <- ActsLinkQ  Parent0 <- ParentF  Cls0 <- ClsF
          ParOf <- QOnly  GridCls <- McGridCls  MatCls <- McMatCls
          DbCls <- McDbCls  CopyCls <- BlkOnly  CallsOf <- McCallsOf  Unset0 <- McUnset  Link0 <- LinkF
ACTION_CONSTRAINT EmitL
INIT Init
NEXT Next
CONSTRAINT Bound
VIEW View
INVARIANT TypeOK
INVARIANT StacksAligned
INVARIANT BackupsAreSnapshots
INVARIANT GridBackupsAreSnapshots
INVARIANT GateSound
INVARIANT CacheNoLeak
INVARIANT SerialsUnique
INVARIANT SerialsBelowNext
INVARIANT ExitRestores
INVARIANT ExitRestoresGrid
INVARIANT EnterKeepsValues
INVARIANT CopyEqual
INVARIANT OnlyTargetChanges
INVARIANT SerialFresh
INVARIANT ReadOnlyRefuses
INVARIANT ReadOnlyForever
INVARIANT RefusalsChangeNoValue
CHECK_DEADLOCK FALSE
