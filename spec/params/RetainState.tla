---------------------------------------- MODULE RetainState ----------------------------------------
(* C16 -- retained state is restored exactly; parameter copies are equal and independent; read-only
   reactors refuse every parameter assignment.

   WHAT IS TRANSCRIBED (one action per public mutator / linearization point)
     Enter(r,K)      StateRetainer.__enter__ (composites.py): for r and every descendant (and material)
                     Composite.backUp = push cache, cache:={}, ParameterCollection.backUp (pickle of the state
                     list INCLUDING the outer _backup and `assigned`; then assigned &= ~SINCE_BACKUP),
                     StructuredGrid.backUp; then Parameter.backUp for every definition of the classes met.
     Exit            StateRetainer.__exit__: ParameterCollection.restoreBackup(K) transcribed literally:
                       if assigned & SINCE_BACKUP: current := values of the definitions of K owned by this class
                       __setstate__(unpickled backup)      (values, `assigned`, outer _backup)
                       for kept pd: if restored # current: set current; pd.assigned = coll.assigned = SINCE_ANYTHING
                     pop cache, Material.restoreBackup, StructuredGrid.restoreBackup, Parameter.restoreBackup(K)
                     (kept definitions keep their `assigned`, the others get the backed-up one).
     Assign(o,p,v)   the parameter setter (parameterDefinitions.py paramSetter): pd.assigned = coll.assigned =
                     SINCE_ANYTHING, value stored.  Component.setNumberDensity -> updateNumberDensities updates
                     the stored dict in place and then sets the two flags by hand: same post-state, same action.
     AssignRO(o,p,v) the same call on a read-only collection: ParameterCollection.__setattr__ raises RuntimeError
                     before the setter runs; NOTHING changes (no value, no flag) -- also for the in-place mutators.
     SetCache(o,w)   ArmiObject._setCache / Material._setCache.
     SetHeight(b,g)  Block.setHeight -> Assembly.calculateZCoords: block height/z parameters + the parent's axial bounds.
     SetDFlag(o,v)   Block.derivedMustUpdate (validity of the derived shapes' stored volume): cache state.
     ExitRefused     __exit__ of a scope whose objects were frozen inside it: RuntimeError, nothing restored.
     ReadGrid(o)     the public grid getters (HexGrid.pitch / Core.getAssemblyPitch ...): no effect -- stated as an action
                     because a getter may memoise, and the observation of the grid includes what the getters answer.
     SetGrid(o,g)    HexGrid.changePitch / CartesianGrid.changePitch / assignment of axial bounds
                     (Assembly.reestablishBlockOrder style `grid._bounds = ...`).
     Copy(o,how)     copy.deepcopy / pickle round trip of the subtree of o: ParameterCollection.__deepcopy__
                     (new collection through __init__(_state): fresh serial, whose assignment leaves
                     assigned = SINCE_ANYTHING), __reduce__/__setstate__ (assigned and everything else copied).
     MakeReadOnly(r) reactorParameters.makeParametersReadOnly (r and all descendants).
     CallRO(o,m)     every other public mutator that routes through parameters, called on a read-only (sub)tree:
                     refused with RuntimeError and NO value of ANY parameter changes (compared on array contents).
     WriteDb(r)      Database.writeToDB: stores the serial numbers (layout) -- nothing in the reactor changes.
     LoadDb / LoadDbRO   Database.load / loadReadOnly: new objects carrying the STORED serial numbers; the global
                     counter becomes max(counter, largest stored serial) (bookkeeping/db/database.py load()).
     Havoc(o,T,..)   only used by trace validation: a public mutator with side effects on several parameters of
                     several objects (Component.setTemperature): whatever it does to the objects in T is accepted,
                     nothing else may change, and the scope rules must still undo it.

   STATE.  The specification carries BOTH the statement's view and the mechanism:
     frames          the open scopes, each with root, keep-set and a snapshot of everything (statement's view)
     cbak,dbak,cachebak,mcachebak,gbak   the backups the code keeps per object / per definition (mechanism)
     cass[o]         ParameterCollection.assigned as the integer the code stores (NEVER=32, SINCE_ANYTHING=29,
                     SINCE_BACKUP=16); dass[c][p] Parameter.assigned of class c (shared by all objects of c).
   The properties tie the two together: ExitRestores (result of the transcribed algorithm = snapshot except
   keep-set), BackupsAreSnapshots (LIFO: the k-th backup of an object is the snapshot of the k-th covering scope,
   i.e. the backup contains the outer backup), GateSound (the `assigned & SINCE_BACKUP` shortcut never loses a
   kept value), CacheNoLeak, CopyEqual / OnlyTargetChanges (independence), SerialsUnique / SerialFresh,
   ReadOnlyRefuses / ReadOnlyForever.

   INTERPRETATION CHOICES
     * keep-sets are sets of <<class, parameter>>: the code takes Parameter objects, which belong to one class
       family (all component shapes share the definitions made on Component).
     * "assignment" = a call of the setter or of a public mutator; writing into a stored array/dict behind the
       parameter system's back is not an assignment (it is undone by Exit, but is not retained by a keep-set).
     * a grid is restored LIFO like everything else (GridSlot = "stack").  GridSlot = "single" is the mechanism
       as built (one _backup slot, structuredGrid.py) and is only used to show that TLC refutes it.
     * "serial numbers are never shared by two live objects" is read literally: a pickle round trip made while
       the original is alive must not share the serial (PickleSerial = "fresh").  "kept" = as built.
       The one sharing that is the very purpose of the stored serial is allowed: a reactor loaded from a database
       carries the serials of the objects it was written from (`ident`); what is forbidden is that anything made
       AFTER a load (deep copy, new object) collides with any live object -- SerialFresh, SerialsUnique,
       SerialsBelowNext (the counter never falls behind a live serial).
     * scopes are not opened over read-only objects and MakeReadOnly is not called inside a scope (the backup
       itself is an assignment to the collection and is refused); grids are not parameters: SetGrid is not
       offered on read-only objects, so nothing is claimed about it.
     * copies start with empty backup stacks (as built they inherit a copy of the source's; it is never popped
       because a StateRetainer belongs to the object it was opened on) and are writeable (readOnly is not part of
       the copied state).
     * Enter empties the caches of everything it covers (Composite.backUp / Material.backUp do); the statement only
       asks that nothing cached inside survives Exit.  The component a scope is opened ON owns a material too.

   TLC IDIOMS.  Step properties are evaluated by every action on its own step and their names collected in `bad`
   (invariant form  "X" \notin bad ; cheaper than [][..]_v and independent of the VIEW).  `\E x \in {e} : ...`
   binds e once (TLC re-evaluates LET definitions at every use).  LevelOK stops the search at MaxLevel without
   computing successors that the level constraint would discard.
*)
EXTENDS Integers, Sequences, FiniteSets, TLC, Json, SequencesExt, FiniteSetsExt

CONSTANTS N,            \* object ids 1..N : originals 1..Len(Parent0), the rest is the pool for copies
          Par,          \* abstract parameter names
          NVal,         \* parameter values 0..NVal-1 ; 0 = the value the object is built with
          NGrid,        \* grid values 0..NGrid-1
          Keeps,        \* keep-sets a scope may be opened with (subsets of class \X Par)
          MaxDepth, MaxLevel,
          Acts,         \* names of the enabled actions
          GridSlot,     \* "stack" | "single"
          PickleSerial, \* "fresh" | "kept"
          Parent0, Cls0,\* the original tree: parent id (0 = root) and class per original
          ParOf,        \* class -> parameters that class has
          GridCls, MatCls, \* classes whose objects own a grid / a material
          DbSerial,     \* "max" (Database.load keeps the serial counter above every stored AND every live serial) |
                        \* "db" (counter := largest stored serial; only to show that TLC refutes it)
          DbCls,        \* classes whose detached roots can be written to / loaded from a database (Reactor)
          CopyCls,      \* classes whose objects are copied (model-checking bound; all classes in the small instances)
          CallsOf,      \* class -> names of the public mutators of the read-only family (CallRO)
          Unset0,       \* <<class, param>> whose built value 0 means UNSET: a parameter without default that nobody has
                        \* assigned yet.  It can be left (Assign v # 0) but not re-entered by an assignment; Exit and
                        \* copies must reproduce it (the backup stores "nothing" for it and must put "nothing" back)
          Link0         \* per original: the object its linked dimension resolves through (0 = no linked dimension)

Node   == 1..N
NOrig  == Len(Parent0)
Val    == 0..(NVal - 1)
NEVER  == 32
ALL    == 29          \* SINCE_ANYTHING
HasBk(x)   == (x \div 16) % 2 = 1              \* x & SINCE_BACKUP
ClearBk(x) == IF HasBk(x) THEN x - 16 ELSE x    \* x & ~SINCE_BACKUP
Classes == {Cls0[i] : i \in 1..NOrig}

Hidden == 99     \* a link that leaves the tree of its owner (as built: to a private copy, when a component is copied alone)
VARIABLES parent, cls, live,
          linkto,   \* the object a component's linked dimension (bond id = "fuel.od") resolves through; 0 = none
          val, rest, cass, cbak, dass, dbak,
          cache, cachebak, mcache, mcachebak, grid, gbak,
          dflag,    \* Block.derivedMustUpdate: 1 = the derived shapes' stored volume is pending recomputation, 0 = valid.
                    \* The validity of a cached quantity is cache state: what is settled inside a scope must not be
                    \* what holds after it (as built nothing backs it up; the statement's view restores it)
          frames, ro, serial, nextSerial,
          db,       \* the database snapshot last written: objects, tree, stored serials and values
          ident,    \* which object an object is an incarnation of (itself, or what a loaded object was written from)
          err, act,
          bad       \* names of the step properties the last step violated (always {} in a correct design)
tree  == <<parent, cls, live, linkto>>
pvars == <<val, rest, cass, cbak, dass, dbak>>
cvars == <<cache, cachebak, mcache, mcachebak, dflag>>
gvars == <<grid, gbak>>
svars == <<serial, nextSerial, db, ident>>
vars  == <<tree, pvars, cvars, gvars, frames, ro, svars>>
allvars == <<vars, err, act, bad>>

(* ---------- tree helpers ---------- *)
RECURSIVE AncSelf(_)
AncSelf(o) == IF parent[o] = 0 THEN {o} ELSE {o} \cup AncSelf(parent[o])
Under(r)   == {o \in live : r \in AncSelf(o)}
HasGrid(o) == cls[o] \in GridCls
HasMat(o)  == cls[o] \in MatCls
Kept(o, K) == {p \in Par : <<cls[o], p>> \in K}
CoverIdx(o) == SelectSeq([i \in 1..Len(frames) |-> i], LAMBDA i : frames[i].root \in AncSelf(o))
Covering(o) == Len(CoverIdx(o))
SortedSeq(S) == SortSeq(SetToSeq(S), LAMBDA a, b : a < b)
Zero == [p \in Par |-> 0]

\* no successors are computed for states at the last level (instead of computing and discarding them)
LevelOK      == TLCGet("level") < MaxLevel
Ok(a)        == err' = "" /\ act' = a
Refused(e,a) == err' = e /\ act' = a

(* =====================  STEP PROPERTIES (stated first: every action records which ones it violated)  ===================== *)
\* Exit: every value under the root equals the snapshot of the scope being closed, except the kept parameters,
\* which retain their current value; caches and grids equal the snapshot; nothing outside the scope changes
ExitRestoresStep ==
    act'.n = "Exit" /\ err' = "" =>
        LET F == frames[Len(frames)]
            U == Under(F.root)
        IN /\ \A o \in U : dflag'[o] = F.sdflag[o]
           /\ \A o \in U : \A p \in Par : val'[o][p] = IF <<cls[o], p>> \in F.keep THEN val[o][p] ELSE F.sval[o][p]
           /\ \A o \in U : rest'[o] = F.srest[o] /\ cache'[o] = F.scache[o] /\ mcache'[o] = F.smcache[o]
           /\ \A o \in live \ U : val'[o] = val[o] /\ rest'[o] = rest[o] /\ cache'[o] = cache[o]
                                  /\ mcache'[o] = mcache[o] /\ grid'[o] = grid[o]
ExitRestoresGridStep ==
    act'.n = "Exit" /\ err' = "" => LET F == frames[Len(frames)] IN \A o \in Under(F.root) : grid'[o] = F.sgrid[o]

\* Enter changes no value (and empties the caches inside the scope)
EnterKeepsValuesStep == act'.n = "Enter" => val' = val /\ rest' = rest /\ grid' = grid
                                           /\ \A o \in Under(act'.r) : cache'[o] = 0 /\ mcache'[o] = 0

\* copies: equal to the source at the moment of the copy, source untouched, copy root detached
CopyEqualStep ==
    act'.n \in {"DeepCopy", "Pickle"} =>
        /\ \A i \in 1..Len(act'.ids) :
              LET s == act'.ids[i][1]
                  d == act'.ids[i][2]
              IN val'[d] = val[s] /\ rest'[d] = rest[s] /\ grid'[d] = grid[s] /\ cls'[d] = cls[s] /\ ~ro'[d]
        /\ \A o \in live : val'[o] = val[o] /\ rest'[o] = rest[o] /\ grid'[o] = grid[o] /\ cache'[o] = cache[o]
                           /\ cass'[o] = cass[o] /\ serial'[o] = serial[o] /\ parent'[o] = parent[o]
        /\ \A i \in 1..Len(act'.ids) : act'.ids[i][1] = act'.x => parent'[act'.ids[i][2]] = 0
        \* no link of the copy resolves through an object of the original (and none of the original through the copy)
        /\ \A i \in 1..Len(act'.ids) : linkto'[act'.ids[i][2]] \notin live
        /\ \A o \in live : linkto'[o] = linkto[o]

\* independence: an assignment / grid change / cache write on one object shows on no other object
OnlyTargetChangesStep ==
    act'.n \in {"Assign", "AssignRO", "SetGrid", "SetCache"} =>
        \A o \in live \ {act'.o} : val'[o] = val[o] /\ rest'[o] = rest[o] /\ grid'[o] = grid[o]
                                    /\ cache'[o] = cache[o] /\ mcache'[o] = mcache[o] /\ cass'[o] = cass[o]

\* a deep copy (and, PickleSerial = "fresh", an unpickled copy) gets serial numbers nobody holds
SerialFreshStep ==
    act'.n = "DeepCopy" =>
        \A i \in 1..Len(act'.ids) : serial'[act'.ids[i][2]] \notin {serial[o] : o \in live} /\ serial'[act'.ids[i][2]] >= nextSerial

\* read-only: values of a read-only object never change again, whatever is called; never writeable again
ReadOnlyRefusesStep == \A o \in live : ro[o] => val'[o] = val[o] /\ rest'[o] = rest[o]
ReadOnlyForeverStep == \A o \in live : ro[o] => ro'[o]
RefusalsChangeNoValueStep == err' # "" => val' = val /\ rest' = rest /\ grid' = grid /\ cache' = cache /\ mcache' = mcache
                                         /\ cass' = cass /\ dflag' = dflag /\ UNCHANGED <<tree, ro, svars>>
                                         /\ (act'.n # "Exit" => frames' = frames)

StepProps == {"ExitRestores", "ExitRestoresGrid", "EnterKeepsValues", "CopyEqual", "OnlyTargetChanges",
              "SerialFresh", "ReadOnlyRefuses", "ReadOnlyForever", "RefusalsChangeNoValue"}
Violated ==
    {n \in StepProps :
        \/ n = "ExitRestores" /\ ~ExitRestoresStep
        \/ n = "ExitRestoresGrid" /\ ~ExitRestoresGridStep
        \/ n = "EnterKeepsValues" /\ ~EnterKeepsValuesStep
        \/ n = "CopyEqual" /\ ~CopyEqualStep
        \/ n = "OnlyTargetChanges" /\ ~OnlyTargetChangesStep
        \/ n = "SerialFresh" /\ ~SerialFreshStep
        \/ n = "ReadOnlyRefuses" /\ ~ReadOnlyRefusesStep
        \/ n = "ReadOnlyForever" /\ ~ReadOnlyForeverStep
        \/ n = "RefusalsChangeNoValue" /\ ~RefusalsChangeNoValueStep}
Rec == bad' = Violated

(* ---------- scopes ---------- *)
EnterK(r, K) ==
    /\ LevelOK
    /\ "Enter" \in Acts /\ r \in live /\ Len(frames) < MaxDepth
    /\ \A o \in Under(r) : ~ro[o]
    /\ \E U \in {Under(r)} : \E C \in {{cls[o] : o \in Under(r)}} :   \* (singleton \E: evaluated once)
          /\ frames' = Append(frames, [root |-> r, keep |-> K, sval |-> val, srest |-> rest,
                                       scache |-> cache, smcache |-> mcache, sgrid |-> grid, sdflag |-> dflag])
          /\ dflag' = dflag
          /\ cbak' = [o \in Node |-> IF o \in U THEN <<[val |-> val[o], rest |-> rest[o], ass |-> cass[o]]>> \o cbak[o]
                                     ELSE cbak[o]]
          /\ cass' = [o \in Node |-> IF o \in U THEN ClearBk(cass[o]) ELSE cass[o]]
          /\ cachebak' = [o \in Node |-> IF o \in U THEN <<cache[o]>> \o cachebak[o] ELSE cachebak[o]]
          /\ cache' = [o \in Node |-> IF o \in U THEN 0 ELSE cache[o]]
          /\ mcachebak' = [o \in Node |-> IF o \in U /\ HasMat(o) THEN <<mcache[o]>> \o mcachebak[o] ELSE mcachebak[o]]
          /\ mcache' = [o \in Node |-> IF o \in U THEN 0 ELSE mcache[o]]
          /\ gbak' = [o \in Node |-> IF o \in U /\ HasGrid(o)
                                     THEN (IF GridSlot = "stack" THEN <<grid[o]>> \o gbak[o] ELSE <<grid[o]>>)
                                     ELSE gbak[o]]
          /\ dbak' = [c \in Classes |-> IF c \in C THEN [p \in Par |-> <<dass[c][p]>> \o dbak[c][p]] ELSE dbak[c]]
    /\ UNCHANGED <<tree, val, rest, dass, grid, ro, svars>>
    /\ Ok([n |-> "Enter", r |-> r, keep |-> K])
    /\ Rec

Enter(r, K) == K \in Keeps /\ EnterK(r, K)

\* the result of ParameterCollection.restoreBackup for one object
KeptNow(o, K)  == IF HasBk(cass[o]) THEN Kept(o, K) ELSE {}
DiffNow(o, K)  == {p \in KeptNow(o, K) : val[o][p] # Head(cbak[o]).val[p]}

\* __exit__ on a scope whose objects were made read-only while it was open: ParameterCollection.restoreBackup of the
\* first object (the root) is refused by __setattr__ at its first field -- RuntimeError leaves __exit__, the scope is
\* over, NOTHING has been restored (values stay as they were frozen; the backups are simply never used again)
ExitRefused ==
    /\ LevelOK
    /\ "Exit" \in Acts /\ frames # <<>> /\ ro[frames[Len(frames)].root]
    /\ frames' = SubSeq(frames, 1, Len(frames) - 1)
    /\ UNCHANGED <<tree, pvars, cvars, gvars, ro, svars>>
    /\ Refused("RuntimeError", [n |-> "Exit", r |-> frames[Len(frames)].root, keep |-> frames[Len(frames)].keep])
    /\ Rec

Exit ==
    /\ LevelOK
    /\ "Exit" \in Acts /\ frames # <<>> /\ ~ro[frames[Len(frames)].root]
    /\ \E F \in {frames[Len(frames)]} : \E U \in {Under(frames[Len(frames)].root)} :
       \E C \in {{cls[o] : o \in U}} : \E diff \in {[o \in U |-> DiffNow(o, F.keep)]} :
          /\ frames' = SubSeq(frames, 1, Len(frames) - 1)
          /\ val'  = [o \in Node |-> IF o \in U THEN [p \in Par |-> IF p \in diff[o] THEN val[o][p] ELSE Head(cbak[o]).val[p]]
                                     ELSE val[o]]
          /\ rest' = [o \in Node |-> IF o \in U THEN Head(cbak[o]).rest ELSE rest[o]]
          /\ cass' = [o \in Node |-> IF o \in U THEN (IF diff[o] # {} THEN ALL ELSE Head(cbak[o]).ass) ELSE cass[o]]
          /\ cbak' = [o \in Node |-> IF o \in U THEN Tail(cbak[o]) ELSE cbak[o]]
          /\ dass' = [c \in Classes |-> IF c \in C
                        THEN [p \in Par |-> IF \E o \in U : cls[o] = c /\ p \in diff[o] THEN ALL
                                            ELSE IF <<c, p>> \in F.keep THEN dass[c][p] ELSE Head(dbak[c][p])]
                        ELSE dass[c]]
          /\ dbak' = [c \in Classes |-> IF c \in C THEN [p \in Par |-> Tail(dbak[c][p])] ELSE dbak[c]]
          /\ cache' = [o \in Node |-> IF o \in U THEN Head(cachebak[o]) ELSE cache[o]]
          /\ cachebak' = [o \in Node |-> IF o \in U THEN Tail(cachebak[o]) ELSE cachebak[o]]
          /\ mcache' = [o \in Node |-> IF o \in U /\ HasMat(o) THEN Head(mcachebak[o]) ELSE mcache[o]]
          /\ mcachebak' = [o \in Node |-> IF o \in U /\ HasMat(o) THEN Tail(mcachebak[o]) ELSE mcachebak[o]]
          /\ grid' = [o \in Node |-> IF o \in U /\ HasGrid(o) THEN Head(gbak[o]) ELSE grid[o]]
          /\ gbak' = [o \in Node |-> IF o \in U /\ HasGrid(o) /\ GridSlot = "stack" THEN Tail(gbak[o]) ELSE gbak[o]]
          /\ dflag' = [o \in Node |-> IF o \in U THEN F.sdflag[o] ELSE dflag[o]]
          /\ Ok([n |-> "Exit", r |-> F.root, keep |-> F.keep])
    /\ UNCHANGED <<tree, ro, svars>>
    /\ Rec

(* ---------- assignments ---------- *)
AssignV(o, p, v) ==
    /\ LevelOK
    /\ "Assign" \in Acts /\ o \in live /\ ~ro[o] /\ p \in ParOf[cls[o]]
    /\ (<<cls[o], p>> \in Unset0 => v # 0)
    /\ val'  = [val EXCEPT ![o][p] = v]
    /\ cass' = [cass EXCEPT ![o] = ALL]
    /\ dass' = [dass EXCEPT ![cls[o]][p] = ALL]
    /\ UNCHANGED <<tree, rest, cbak, dbak, cvars, gvars, frames, ro, svars>>
    /\ Ok([n |-> "Assign", o |-> o, p |-> p, v |-> v])
    /\ Rec
Assign(o, p, v) == v \in Val /\ AssignV(o, p, v)

AssignROV(o, p, v) ==
    /\ LevelOK
    /\ "AssignRO" \in Acts /\ o \in live /\ ro[o] /\ p \in ParOf[cls[o]]
    /\ UNCHANGED vars
    /\ Refused("RuntimeError", [n |-> "AssignRO", o |-> o, p |-> p, v |-> v])
    /\ Rec
AssignRO(o, p, v) == v \in Val /\ AssignROV(o, p, v)

\* trace validation only: a mutator with side effects confined to the objects in T (all writeable)
Havoc(o, T, nval, nrest, ncass, ncache, nmcache, ngrid, ndflag) ==
    /\ o \in T /\ T \subseteq live /\ \A x \in T : ~ro[x]
    /\ val'  = [x \in Node |-> IF x \in T THEN nval[x] ELSE val[x]]
    /\ rest' = [x \in Node |-> IF x \in T THEN nrest[x] ELSE rest[x]]
    /\ cass' = [x \in Node |-> IF x \in T THEN ncass[x] ELSE cass[x]]
    /\ cache'  = [x \in Node |-> IF x \in T THEN ncache[x] ELSE cache[x]]      \* mutators may drop caches
    /\ mcache' = [x \in Node |-> IF x \in T THEN nmcache[x] ELSE mcache[x]]
    /\ grid'   = [x \in Node |-> IF x \in T THEN ngrid[x] ELSE grid[x]]          \* Block.setHeight re-derives the axial mesh
    /\ dflag'  = [x \in Node |-> IF x \in T THEN ndflag[x] ELSE dflag[x]]
    /\ UNCHANGED <<tree, cbak, dass, dbak, cachebak, mcachebak, gbak, frames, ro, svars>>
    /\ Ok([n |-> "Havoc", o |-> o])
    /\ Rec

(* ---------- caches and grids ---------- *)
SetCacheV(o, w, tag) ==
    /\ LevelOK
    /\ "SetCache" \in Acts /\ o \in live /\ w \in {"obj", "mat"} /\ (w = "mat" => HasMat(o))
    /\ cache'  = IF w = "obj" THEN [cache EXCEPT ![o] = tag] ELSE cache
    /\ mcache' = IF w = "mat" THEN [mcache EXCEPT ![o] = tag] ELSE mcache
    /\ Ok([n |-> "SetCache", o |-> o, w |-> w, tag |-> tag])
    /\ UNCHANGED <<tree, pvars, cachebak, mcachebak, dflag, gvars, frames, ro, svars>>
    /\ Rec
\* model checking: the cached value is tagged with the nesting level it was computed at
SetCache(o, w) ==
    /\ o \in live
    /\ \E tag \in {1 + Covering(o)} : (IF w = "obj" THEN cache[o] ELSE mcache[o]) # tag /\ SetCacheV(o, w, tag)

SetGridV(o, g) ==
    /\ LevelOK
    /\ "SetGrid" \in Acts /\ o \in live /\ HasGrid(o) /\ ~ro[o]
    /\ grid' = [grid EXCEPT ![o] = g]
    /\ UNCHANGED <<tree, pvars, cvars, gbak, frames, ro, svars>>
    /\ Ok([n |-> "SetGrid", o |-> o, g |-> g])
    /\ Rec
SetGrid(o, g) == g \in 0..(NGrid - 1) /\ o \in live /\ g # grid[o] /\ SetGridV(o, g)

\* reading the public getters of a grid (HexGrid.pitch, Core.getAssemblyPitch, ...): changes nothing -- but a getter may
\* remember what it computed, and what it remembers inside a scope must not be what it answers after the scope
ReadGrid(o) ==
    /\ LevelOK
    /\ "ReadGrid" \in Acts /\ o \in live /\ HasGrid(o)
    /\ UNCHANGED vars
    /\ Ok([n |-> "ReadGrid", o |-> o])
    /\ Rec

\* Block.setHeight(h): the block's height / z parameters change (part of `rest`: HeightTok) and Assembly.calculateZCoords
\* re-derives the k-bounds of the PARENT's axial grid
HeightTok(g) == IF g = 0 THEN 0 ELSE 100 + g
SetHeight(b, g) ==
    /\ LevelOK
    /\ "SetHeight" \in Acts /\ b \in live /\ parent[b] # 0 /\ HasGrid(parent[b]) /\ HasGrid(b)
    /\ ~ro[b] /\ ~ro[parent[b]] /\ g \in 0..(NGrid - 1) /\ g # grid[parent[b]]
    /\ \A x \in Under(b) : ~HasMat(x)     \* (with components below, their lazily stored volumes are dropped too: Havoc)
    /\ grid' = [grid EXCEPT ![parent[b]] = g]
    /\ rest' = [rest EXCEPT ![b] = HeightTok(g)]
    /\ cass' = [cass EXCEPT ![b] = ALL]
    /\ cache' = [x \in Node |-> IF x \in Under(b) THEN 0 ELSE cache[x]]     \* setHeight ends with clearCache()
    /\ UNCHANGED <<tree, val, cbak, dass, dbak, cachebak, mcache, mcachebak, dflag, gbak, frames, ro, svars>>
    /\ Ok([n |-> "SetHeight", o |-> b, g |-> g])
    /\ Rec

\* Block.derivedMustUpdate: set by any change below the block that invalidates the derived shapes (Touch), cleared when
\* a derived shape recomputes its volume (Derive)
SetDFlag(o, v) ==
    /\ LevelOK
    /\ "SetDFlag" \in Acts /\ o \in live /\ HasGrid(o) /\ parent[o] # 0 /\ v \in {0, 1} /\ dflag[o] # v
    /\ dflag' = [dflag EXCEPT ![o] = v]
    /\ UNCHANGED <<tree, pvars, cache, cachebak, mcache, mcachebak, gvars, frames, ro, svars>>
    /\ Ok([n |-> "SetDFlag", o |-> o, v |-> v])
    /\ Rec

\* trace validation only: ArmiObject.copyParamsFrom / updateParamsFrom (dst takes the parameter values of src): whatever
\* values dst ends up with, it stays the object it was -- its serial number is its own
ParamsFrom(how, dst, src, nval, nrest, ncass, nlink) ==
    /\ dst \in live /\ src \in live /\ dst # src /\ ~ro[dst] /\ cls[dst] = cls[src]
    /\ val'  = [val EXCEPT ![dst] = nval[dst]]
    /\ rest' = [rest EXCEPT ![dst] = nrest[dst]]
    /\ cass' = [cass EXCEPT ![dst] = ncass[dst]]
    /\ linkto' = [linkto EXCEPT ![dst] = nlink[dst]]     \* (a linked dimension is a value like any other: it is taken over)
    /\ UNCHANGED <<parent, cls, live, cbak, dass, dbak, cvars, gvars, frames, ro, svars>>
    /\ Ok([n |-> how, o |-> dst, src |-> src])
    /\ Rec

(* ---------- copies ---------- *)
FreeIds == Node \ live
Copy(o, how) ==
    /\ LevelOK
    /\ how \in Acts /\ o \in live /\ cls[o] \in CopyCls /\ Cardinality(Under(o)) <= Cardinality(FreeIds)
    /\ \E src \in {SortedSeq(Under(o))} : \E free \in {SortedSeq(FreeIds)} :
       LET k    == Len(src)
           new  == {free[i] : i \in 1..k}
           ix(x) == CHOOSE i \in 1..k : src[i] = x
           to(x) == free[ix(x)]
           from(y) == src[CHOOSE i \in 1..k : free[i] = y]
       IN /\ live'   = live \cup new
          /\ parent' = [y \in Node |-> IF y \in new THEN (IF from(y) = o THEN 0 ELSE to(parent[from(y)])) ELSE parent[y]]
          /\ cls'    = [y \in Node |-> IF y \in new THEN cls[from(y)] ELSE cls[y]]
          \* links are re-made inside the copy: the copy's bond resolves through the COPY's fuel ("later changes to
          \* one do not show in the other"); a link that leaves the copied subtree cannot point into the original
          /\ linkto' = [y \in Node |-> IF y \in new
                                       THEN (IF linkto[from(y)] = 0 THEN 0
                                             ELSE IF linkto[from(y)] \in Under(o) THEN to(linkto[from(y)]) ELSE Hidden)
                                       ELSE linkto[y]]
          /\ val'    = [y \in Node |-> IF y \in new THEN val[from(y)] ELSE val[y]]
          /\ rest'   = [y \in Node |-> IF y \in new THEN rest[from(y)] ELSE rest[y]]
          /\ cass'   = [y \in Node |-> IF y \in new THEN (IF how = "DeepCopy" THEN ALL ELSE cass[from(y)]) ELSE cass[y]]
          /\ cache'  = [y \in Node |-> IF y \in new THEN cache[from(y)] ELSE cache[y]]
          /\ mcache' = [y \in Node |-> IF y \in new THEN mcache[from(y)] ELSE mcache[y]]
          /\ dflag'  = [y \in Node |-> IF y \in new THEN dflag[from(y)] ELSE dflag[y]]
          /\ grid'   = [y \in Node |-> IF y \in new THEN grid[from(y)] ELSE grid[y]]
          /\ serial' = [y \in Node |-> IF y \in new
                                       THEN (IF how = "Pickle" /\ PickleSerial = "kept" THEN serial[from(y)]
                                             ELSE nextSerial + ix(from(y)) - 1)
                                       ELSE serial[y]]
          /\ nextSerial' = nextSerial + k
          /\ ident' = [y \in Node |-> IF y \in new THEN y ELSE ident[y]]
          /\ Ok([n |-> how, x |-> o, ids |-> [i \in 1..k |-> <<src[i], free[i]>>]])
    /\ UNCHANGED <<cbak, dass, dbak, cachebak, mcachebak, gbak, frames, ro, db>>
    /\ Rec

(* ---------- read-only ---------- *)
MakeReadOnly(r) ==
    /\ LevelOK
    /\ "MakeReadOnly" \in Acts /\ r \in live /\ parent[r] = 0 /\ (frames = <<>> \/ "FreezeInScope" \in Acts)
    /\ \E o \in Under(r) : ~ro[o]
    /\ ro' = [o \in Node |-> ro[o] \/ o \in Under(r)]
    /\ UNCHANGED <<tree, pvars, cvars, gvars, frames, svars>>
    /\ Ok([n |-> "MakeReadOnly", r |-> r])
    /\ Rec

\* any other public mutator that routes through the parameters (changeNDensByFactor, setNumberDensities,
\* updateNumberDensities, clearNumberDensities, setTemperature, setDimension, setMass/addMass, setType, setHeight,
\* p.update, del p[..], copyParamsFrom ...; component and composite level) called on an object that is read-only
\* together with everything beneath it: refused, and nothing changes -- no value of any parameter of any object
CallRO(o, m) ==
    /\ LevelOK
    /\ "CallRO" \in Acts /\ o \in live /\ \A x \in Under(o) : ro[x]
    /\ cls[o] \in DOMAIN CallsOf /\ m \in CallsOf[cls[o]]
    /\ UNCHANGED vars
    /\ Refused("RuntimeError", [n |-> "CallRO", o |-> o, m |-> m])
    /\ Rec

(* ---------- database (only what matters for serial numbers and read-only loading) ---------- *)
NoDb == [has |-> FALSE, root |-> 0, objs |-> <<>>, parent |-> [o \in Node |-> 0], cls |-> [o \in Node |-> Cls0[1]],
         linkto |-> [o \in Node |-> 0],
         serial |-> [o \in Node |-> 0], ident |-> [o \in Node |-> 0], val |-> [o \in Node |-> Zero],
         rest |-> [o \in Node |-> 0], grid |-> [o \in Node |-> 0], max |-> 0]
\* Database.writeToDB(r): the layout stores the serial number of every object; the reactor is not changed
WriteDb(r) ==
    /\ LevelOK
    /\ "WriteDb" \in Acts /\ r \in live /\ parent[r] = 0 /\ cls[r] \in DbCls
    /\ db' = [has |-> TRUE, root |-> r, objs |-> SortedSeq(Under(r)), parent |-> parent, cls |-> cls, serial |-> serial,
              linkto |-> linkto,
              ident |-> ident, val |-> val, rest |-> rest, grid |-> grid, max |-> Max({serial[o] : o \in Under(r)})]
    /\ UNCHANGED <<tree, pvars, cvars, gvars, frames, ro, serial, nextSerial, ident>>
    /\ Ok([n |-> "WriteDb", r |-> r])
    /\ Rec
\* Database.load / loadReadOnly: NEW objects are built (each constructor draws a serial), they then receive the STORED
\* serial numbers -- so a loaded object legitimately shares its serial with the object it was written from, if that
\* is still alive (same `ident`) -- and the global counter is moved to max(counter, largest stored serial), so that
\* nothing created afterwards can collide with ANY live object.  loadReadOnly = load + makeParametersReadOnly.
\* useDb: the parameter values of the loaded objects are the stored ones (model checking) / those given (traces:
\* the database round trip itself is property C04's business)
LoadDbV(how, useDb, nval, nrest, ncass, ngrid, ndflag) ==
    /\ LevelOK
    /\ how \in Acts /\ how \in {"LoadDb", "LoadDbRO"} /\ db.has /\ Len(db.objs) <= Cardinality(FreeIds)
    /\ \E src \in {db.objs} : \E free \in {SortedSeq(FreeIds)} :
       LET k    == Len(src)
           new  == {free[i] : i \in 1..k}
           ix(x) == CHOOSE i \in 1..k : src[i] = x
           to(x) == free[ix(x)]
           from(y) == src[CHOOSE i \in 1..k : free[i] = y]
       IN /\ live'   = live \cup new
          /\ parent' = [y \in Node |-> IF y \in new THEN (IF from(y) = db.root THEN 0 ELSE to(db.parent[from(y)])) ELSE parent[y]]
          /\ cls'    = [y \in Node |-> IF y \in new THEN db.cls[from(y)] ELSE cls[y]]
          /\ linkto' = [y \in Node |-> IF y \in new
                                       THEN (IF db.linkto[from(y)] \in {0, Hidden} THEN db.linkto[from(y)] ELSE to(db.linkto[from(y)]))
                                       ELSE linkto[y]]
          /\ val'    = [y \in Node |-> IF y \in new THEN (IF useDb THEN db.val[from(y)] ELSE nval[y]) ELSE val[y]]
          /\ rest'   = [y \in Node |-> IF y \in new THEN (IF useDb THEN db.rest[from(y)] ELSE nrest[y]) ELSE rest[y]]
          /\ cass'   = [y \in Node |-> IF y \in new THEN (IF useDb THEN ALL ELSE ncass[y]) ELSE cass[y]]
          /\ grid'   = [y \in Node |-> IF y \in new THEN (IF useDb THEN db.grid[from(y)] ELSE ngrid[y]) ELSE grid[y]]
          /\ cache'  = [y \in Node |-> IF y \in new THEN 0 ELSE cache[y]]
          /\ mcache' = [y \in Node |-> IF y \in new THEN 0 ELSE mcache[y]]
          /\ dflag'  = [y \in Node |-> IF y \in new THEN (IF useDb THEN 0 ELSE ndflag[y]) ELSE dflag[y]]
          /\ serial' = [y \in Node |-> IF y \in new THEN db.serial[from(y)] ELSE serial[y]]
          /\ ident'  = [y \in Node |-> IF y \in new THEN db.ident[from(y)] ELSE ident[y]]
          /\ nextSerial' = IF DbSerial = "max" THEN Max({nextSerial + k, db.max + 1}) ELSE db.max + 1
          /\ ro'     = [y \in Node |-> IF y \in new THEN how = "LoadDbRO" ELSE ro[y]]
          /\ Ok([n |-> how, ids |-> [i \in 1..k |-> <<src[i], free[i]>>]])
    /\ UNCHANGED <<cbak, dass, dbak, cachebak, mcachebak, gbak, frames, db>>
    /\ Rec
LoadDb(how) == LoadDbV(how, TRUE, val, rest, cass, grid, dflag)

(* ---------- initial state ---------- *)
InitWith(p0, c0) ==
    LET n0 == Len(p0) IN
    /\ parent = [o \in Node |-> IF o <= n0 THEN p0[o] ELSE 0]
    /\ cls    = [o \in Node |-> IF o <= n0 THEN c0[o] ELSE c0[1]]
    /\ live   = 1..n0
    /\ linkto = [o \in Node |-> IF o <= Len(Link0) THEN Link0[o] ELSE 0]
    /\ val = [o \in Node |-> Zero] /\ rest = [o \in Node |-> 0]
    /\ cass = [o \in Node |-> ALL] /\ cbak = [o \in Node |-> <<>>]
    /\ dass = [c \in Classes |-> [p \in Par |-> NEVER]] /\ dbak = [c \in Classes |-> [p \in Par |-> <<>>]]
    /\ cache = [o \in Node |-> 0] /\ cachebak = [o \in Node |-> <<>>]
    /\ mcache = [o \in Node |-> 0] /\ mcachebak = [o \in Node |-> <<>>] /\ dflag = [o \in Node |-> 0]
    /\ grid = [o \in Node |-> 0] /\ gbak = [o \in Node |-> <<>>]
    /\ frames = <<>> /\ ro = [o \in Node |-> FALSE]
    /\ serial = [o \in Node |-> IF o <= n0 THEN o ELSE 0] /\ nextSerial = n0 + 1
    /\ db = NoDb /\ ident = [o \in Node |-> o]
    /\ err = "" /\ act = [n |-> "Init"] /\ bad = {}
Init == InitWith(Parent0, Cls0)

Step ==
    \/ \E r \in Node : \E K \in Keeps : Enter(r, K)
    \/ Exit \/ ExitRefused
    \/ \E o \in Node : \E p \in Par : \E v \in Val : Assign(o, p, v) \/ AssignRO(o, p, v)
    \/ \E o \in Node : \E w \in {"obj", "mat"} : SetCache(o, w)
    \/ \E o \in Node : \E g \in 0..(NGrid - 1) : SetGrid(o, g)
    \/ \E o \in Node : ReadGrid(o)
    \/ \E o \in Node : \E g \in 0..(NGrid - 1) : SetHeight(o, g)
    \/ \E o \in Node : \E v \in {0, 1} : SetDFlag(o, v)
    \/ \E o \in Node : Copy(o, "DeepCopy") \/ Copy(o, "Pickle")
    \/ \E r \in Node : MakeReadOnly(r)
    \/ \E o \in Node : \E m \in UNION {CallsOf[c] : c \in DOMAIN CallsOf} : CallRO(o, m)
    \/ \E r \in Node : WriteDb(r)
    \/ LoadDb("LoadDb") \/ LoadDb("LoadDbRO")

(* =====================================  PROPERTIES  ===================================== *)
TypeOK ==
    /\ live \subseteq Node
    /\ \A o \in live : parent[o] \in live \cup {0} /\ cls[o] \in Classes
    /\ \A o \in live : \A p \in Par : p \notin ParOf[cls[o]] => val[o][p] = 0
    /\ \A o \in Node \ live : cbak[o] = <<>> /\ ~ro[o]

\* mechanism depth = number of open scopes that cover the object (all kinds of backup, except the single grid slot)
\* (\A x \in {e} : ... binds e once; TLC re-evaluates LET definitions at every use)
\* (objects frozen inside a scope keep backups that are never used again: ExitRefused)
StacksAligned ==
    \A o \in live : ~ro[o] => \A k \in {Covering(o)} :
        /\ Len(cbak[o]) = k /\ Len(cachebak[o]) = k
        /\ HasMat(o) => Len(mcachebak[o]) = k
        /\ HasGrid(o) /\ GridSlot = "stack" => Len(gbak[o]) = k

\* LIFO / "the backup contains the outer backup": the j-th covering scope (outermost first) is backed by the
\* (k-j+1)-th entry of the object's stack and that entry is exactly what the scope saw when it was opened
BackupsAreSnapshots ==
    \A o \in live : ~ro[o] => \A ci \in {CoverIdx(o)} : \A k \in {Len(ci)} :
        \A j \in 1..k : \A F \in {frames[ci[j]]} :
              /\ k - j + 1 <= Len(cbak[o]) => /\ cbak[o][k - j + 1].val = F.sval[o]
                                              /\ cbak[o][k - j + 1].rest = F.srest[o]
              /\ k - j + 1 <= Len(cachebak[o]) => cachebak[o][k - j + 1] = F.scache[o]
              /\ HasMat(o) /\ k - j + 1 <= Len(mcachebak[o]) => mcachebak[o][k - j + 1] = F.smcache[o]
GridBackupsAreSnapshots ==
    \A o \in live : HasGrid(o) /\ ~ro[o] =>
        \A ci \in {CoverIdx(o)} : \A k \in {Len(ci)} :
            \A j \in 1..k : k - j + 1 <= Len(gbak[o]) /\ gbak[o][k - j + 1] = frames[ci[j]].sgrid[o]

\* the `assigned & SINCE_BACKUP` shortcut is sound: a collection whose values differ from its innermost backup
\* has the bit set (so a kept value is never thrown away)
GateSound ==
    \A o \in live : ~ro[o] /\ cbak[o] # <<>> /\ val[o] # Head(cbak[o]).val => HasBk(cass[o])

\* a cached value that is present was computed at a nesting level that is still open around the object
\* (originals only: a copy made inside a scope legitimately carries the source's cache with it)
CacheNoLeak ==
    \A o \in live : o <= NOrig /\ ~ro[o] => \A k \in {Covering(o)} : cache[o] <= 1 + k /\ mcache[o] <= 1 + k

\* two live objects hold the same serial number only if they are incarnations of the same object (a reactor loaded
\* from a database next to the reactor it was written from); in particular nothing created later collides with them
SerialsUnique == \A a, b \in live : a # b /\ serial[a] = serial[b] => ident[a] = ident[b]
SerialsBelowNext == \A a \in live : serial[a] < nextSerial

ExitRestores          == "ExitRestores" \notin bad
ExitRestoresGrid      == "ExitRestoresGrid" \notin bad
EnterKeepsValues      == "EnterKeepsValues" \notin bad
CopyEqual             == "CopyEqual" \notin bad
OnlyTargetChanges     == "OnlyTargetChanges" \notin bad
SerialFresh           == "SerialFresh" \notin bad
ReadOnlyRefuses       == "ReadOnlyRefuses" \notin bad
ReadOnlyForever       == "ReadOnlyForever" \notin bad
RefusalsChangeNoValue == "RefusalsChangeNoValue" \notin bad

Next == Step
Spec == Init /\ [][Next]_allvars

(* ---------- observation ---------- *)
SameSerialAs(o) == CHOOSE m \in live : serial[m] = serial[o] /\ \A x \in live : serial[x] = serial[o] => m <= x
Obs == [val    |-> [o \in live |-> val[o]],
        rest   |-> [o \in live |-> rest[o]],
        cass   |-> [o \in live |-> cass[o]],
        dass   |-> dass,
        cache  |-> [o \in live |-> cache[o]],
        mcache |-> [o \in live |-> mcache[o]],
        grid   |-> [o \in live |-> grid[o]],
        dflag  |-> [o \in live |-> dflag[o]],
        ro     |-> [o \in live |-> ro[o]],
        parent |-> [o \in live |-> parent[o]],
        cls    |-> [o \in live |-> cls[o]],
        link   |-> [o \in live |-> linkto[o]],
        sameSerialAs |-> [o \in live |-> SameSerialAs(o)],
        depth  |-> Len(frames),
        err    |-> err]
\* identity of a state for the edge graph (everything but err/act)
Vars == [parent |-> [o \in live |-> parent[o]], cls |-> [o \in live |-> cls[o]], link |-> [o \in live |-> linkto[o]],
         val |-> [o \in live |-> val[o]], rest |-> [o \in live |-> rest[o]], cass |-> [o \in live |-> cass[o]],
         cbak |-> [o \in live |-> cbak[o]],
         dass |-> dass, dbak |-> dbak,
         cache |-> [o \in live |-> cache[o]], cachebak |-> [o \in live |-> cachebak[o]],
         mcache |-> [o \in live |-> mcache[o]], mcachebak |-> [o \in live |-> mcachebak[o]],
         grid |-> [o \in live |-> grid[o]], gbak |-> [o \in live |-> gbak[o]], dflag |-> [o \in live |-> dflag[o]],
         \* (dflag has no backup in the mechanism: its snapshot is part of the state's identity)
         frames |-> [i \in 1..Len(frames) |-> [root |-> frames[i].root, keep |-> frames[i].keep,
                                               sdflag |-> [o \in live |-> frames[i].sdflag[o]]]],
         ro |-> [o \in live |-> ro[o]], serial |-> [o \in live |-> serial[o]], next |-> nextSerial,
         ident |-> [o \in live |-> ident[o]],
         db |-> [has |-> db.has, root |-> db.root, objs |-> db.objs, max |-> db.max,
                 serial |-> [i \in 1..Len(db.objs) |-> db.serial[db.objs[i]]],
                 val |-> [i \in 1..Len(db.objs) |-> db.val[db.objs[i]]],
                 grid |-> [i \in 1..Len(db.objs) |-> db.grid[db.objs[i]]]]]
=====================================================================================================
