--------------------------------------- MODULE ThermalExpansion ---------------------------------------
(* C03 -- thermal expansion of two-dimensional (extruded) components.

   Code transcribed (armi/reactor/components/component.py, armi/materials/material.py):

     Material.linearExpansionFactor(Tc, T0)    dLL = (L(Tc) - L(T0)) / (100 + L(T0)),  L = linearExpansionPercent
                                               hence  1 + dLL = f(Tc) / f(T0)  with  f(T) = 1 + L(T)/100
     Material.getThermalExpansionDensityReduction(prev, new) = 1 / (1 + dLL(new, prev))^2
     Fluid.getThermalExpansionDensityReduction(prev, new)    = rho(new) / rho(prev)   (1.0 when rho(prev) is 0)
     Component.getThermalExpansionFactor(Tc=None, T0=None)   1.0 for Fluid and Custom materials; otherwise
                                               1 + dLL(Tc or current T, T0 or input T), and RuntimeError when
                                               dLL is exactly 0 although the two temperatures differ
                                               ("linear expansion percent may not be implemented")
     Component.setTemperature(t)     action SetTemperature : T := t ; numberDensities *= reduction(prevT, t)
     Component.setDimension(key, val, retainLink, cold)      action SetDim (with its refusal)
     Component.setLink(key, other, otherKey)                 action SetLink
     Component.__copy__  (copy.copy(component))              action Copy : the links are taken off, the component is
                                               deep-copied (parent dropped by __getstate__), and the SAME link objects are
                                               put back on the original and on the duplicate -- the duplicate follows the
                                               same live neighbours; everything else (temperatures, dimensions, densities,
                                               a private copy of the material) is duplicated and then independent
     a ramp: many setTemperature calls through temperatures that are not in the table, ending at a table
     temperature                                             action Ramp (see Composes)
     Component.getDimension(key, Tc=None, cold=False)        operator Q  (links are resolved at read time,
                                               _DimensionLink.resolveDimension passes Tc and cold through)
     getArea(Tc=None) / getVolume / getMass / getNumberDensities   observation operators AreaAt, AreaQ, MPH, nd

   Exact arithmetic.  Every observable is  base * product of integer powers of the material factors
   f[c,t] (solids) or rho[c,t] (fluids), c a component, t a temperature index.  The model carries only the
   integer exponent vector (module Monomial: packed into one integer, atom (c,t) = index (c-1)*NT+t) and a symbolic base
   <<bc, bd, b>> = "the b-th table value of dimension bd of component bc" (b = 0: the constructor input).
   The adapter measures f[c,t] once per (material, temperature) from material.linearExpansionPercent and
   evaluates the printed monomials; the laws themselves are integer-vector equalities decided here by TLC.

   Interpretation choices
   * kind[c]:  "solid"  = non-fluid, non-Custom material whose correlation distinguishes the temperatures used;
               "inert"  = non-fluid, non-Custom material whose linearExpansionPercent is identically 0 (no correlation
                          implemented: Material base default).  The code documents the refusal: reading a
                          thermally expanding dimension (and hot-setting one) at T # Tinput raises RuntimeError;
                          setTemperature itself succeeds with reduction factor 1.  Modelled as refusals.
               "fluid"  = Fluid with non-zero density;   "void" = Fluid with zero density (factor 1.0);
               "custom" = armi.materials.custom.Custom.
   * "the end state depends only on the final temperature" is read as path independence from a fixed
     constructed component: for given (Tinput, Thot at construction, dimensions) the state after any sequence
     of setTemperature calls equals the state after the direct jump (PathIndependent).
   * Dimensions: "e0","e1","e2" are lengths (thermally expanding), "n0","n" are counts (mult, nHoles).  "e0" and
     "n0" stand for all dimensions of a shape that a behaviour does not touch -- including dimensions a class inherits
     and its own area formula does not use (a Square keeps Rectangle's lengthOuter / lengthInner: they are lengths and
     must read hot like any other); actions act on MutDim only.
   * The area of an extruded shape is homogeneous of degree 2 in its lengths.  When all lengths of a component
     grow by one common factor the area is coldArea * factor^2 (AreaQ "ok"); when a linked length follows a
     different component the area is not a monomial ("mixed") and only the identities
     volume = area * height and mass = density * volume are observed there.
   * Links: only the pairs in LinkPairs are created, never cyclically (a cyclic link is infinite recursion in
     the code and cannot come out of a blueprint).  SetLink stands for setLink() followed by clearLinkedCache():
     setLink alone leaves a previously cached volume in place (armi links dimensions while blocks are built or
     converted, before volumes are asked for); getVolume() after a bare setLink is not part of the statement.
   * Temperature tables contain exact range ends, exactly 0.0 degC where that is inside the range, and pairs that
     are only a few hundredths of a degree apart ("T and T + epsilon"); to the model they are just distinct indices
     (the code's own tolerance for "same temperature" is 1e-10 degC).  Ramp(c, t, k) stands for k calls of
     setTemperature in steps of 0.05-0.09 degC through temperatures outside the table, ending at table temperature
     t: every intermediate temperature is one more abstract atom, and Composes (checked by TLC for arbitrary atoms)
     is the algebraic reason why all of them cancel, so the modelled effect is that of the direct jump; the adapter
     really performs the k calls and the end state must equal the model's.
   * The duplicate made by Copy is component 3; it has the material of its source (same atoms), it is put into the same
     block (as armi does when it splits a component), one duplicate per behaviour.  Nothing is linked TO the duplicate.
   * Temperatures: both components use one table of NT distinct temperatures (index t means the same number of
     degrees for both), because a temperature passed explicitly to getDimension travels through a link to the
     other component; the table lies in the intersection of the two materials' valid ranges.
   * Zero-valued dimensions (getDimension returns a falsy dimension unscaled) give 0 on both sides and are
     not exercised.
*)
EXTENDS Integers, Sequences, FiniteSets, TLC, Json, Monomial

CONSTANTS NT,            \* temperature indices 1..NT (distinct temperatures inside the materials' valid ranges)
          NV,            \* alternative table values 1..NV per dimension (0 = constructor input)
          MaxLevel,
          KindChoices,   \* set of <<kind of component 1, kind of component 2>>
          TempChoices,   \* set of <<Tin1, Thot1, Tin2, Thot2>> at construction
          LinkPairs,     \* set of <<c, d, c2, d2>> : dimension d of c may be linked to dimension d2 of c2
          RampSteps,     \* numbers of tiny steps a Ramp may take
          AuxChoices(_)  \* kind pair -> set of <<aux of component 1, aux of component 2>> at construction

Base      == 1..2                                \* the two constructed components
Comp      == 1..3                                \* 3 = the duplicate made by Copy (exists iff src # 0)
Temp      == 1..NT
Dim       == {"e0", "e1", "e2", "n0", "n"}
Expanding == {"e0", "e1", "e2"}                 \* THERMAL_EXPANSION_DIMS: every length of the shape
MutDim    == {"e1", "e2", "n"}
Kinds     == {"solid", "inert", "fluid", "void", "custom"}
NA        == 2 * NT
Zero      == MZero

\* aux[c] = which auxiliary density vectors the component carries besides numberDensities: p.detailedNDens (d) and
\* p.pinNDens (p), each set or None; an[c] = the factor accumulated on them (changeNDensByFactor ->
\* _changeOtherDensParamsByFactor multiplies every vector that is not None by the same factor as numberDensities)
VARIABLES kind, Tin, T0, T, p, nd, src, aux, an, act, err
state == <<kind, Tin, T0, T, p, nd, src, aux, an>>
Vars  == [kind |-> kind, Tin |-> Tin, T0 |-> T0, T |-> T, p |-> p, nd |-> nd, src |-> src, aux |-> aux, an |-> an]
NoAux == [d |-> FALSE, p |-> FALSE]
AuxAll == {[d |-> a, p |-> b] : a, b \in BOOLEAN}
Live  == IF src = 0 THEN Base ELSE Comp
Orig(c) == IF c = 3 THEN (IF src = 0 THEN 1 ELSE src) ELSE c     \* whose material / table values a component has
Atom(c, t) == (Orig(c) - 1) * NT + t
U(c, t)   == MUnit(Atom(c, t))

(* ---------------------------------- material.py ---------------------------------- *)
\* exponent vector of 1 + linearExpansionFactor(Tc = tc, T0 = t0)
OnePlusDLL(c, tc, t0) == IF kind[c] = "solid" THEN MSub(U(c, tc), U(c, t0)) ELSE Zero
\* linearExpansionFactor returns exactly 0.0
DLLIsZero(c, tc, t0)  == tc = t0 \/ kind[c] # "solid"
\* getThermalExpansionDensityReduction(prevTempInC = t0, newTempInC = t1)
DensityReduction(c, t0, t1) ==
    CASE kind[c] = "fluid" -> MSub(U(c, t1), U(c, t0))            \* rho1 / rho0
      [] kind[c] = "void"  -> Zero                                 \* if not rho0: return 1.0
      [] OTHER             -> MScale(0 - 2, OnePlusDLL(c, t1, t0)) \* 1 / (1 + dLL)^2

(* ---------------------------------- component.py: reads ---------------------------------- *)
NoExpansion(c) == kind[c] \in {"fluid", "void", "custom"}     \* isinstance(material, (Fluid, Custom)) -> 1.0
\* getThermalExpansionFactor(Tc = tc, T0 = t0) raises RuntimeError
TEFRefused(c, tc, t0) == ~NoExpansion(c) /\ DLLIsZero(c, tc, t0) /\ tc # t0
TEF(c, tc, t0) == IF NoExpansion(c) THEN Zero ELSE OnePlusDLL(c, tc, t0)

Refused == [r |-> "RuntimeError"]
Nominal(c, d) == [k |-> "v", bc |-> c, bd |-> d, b |-> 0, e |-> Zero]
P(c, d) == IF d \in MutDim THEN p[c][d] ELSE Nominal(Orig(c), d)

\* getDimension(d, Tc = tc (0 = None), cold)
RECURSIVE Q(_, _, _, _)
Q(c, d, tc, cold) ==
    LET x == P(c, d) IN
    IF x.k = "l" THEN Q(x.c, x.d, tc, cold)                          \* dimension.resolveDimension(Tc=Tc, cold=cold)
    ELSE IF cold \/ d \notin Expanding
         THEN [r |-> "ok", bc |-> x.bc, bd |-> x.bd, b |-> x.b, e |-> x.e]
         ELSE LET t == IF tc = 0 THEN T[c] ELSE tc IN                \* Tc is None -> the component's own temperature
              IF TEFRefused(c, t, Tin[c]) THEN Refused
              ELSE [r |-> "ok", bc |-> x.bc, bd |-> x.bd, b |-> x.b, e |-> MAdd(x.e, TEF(c, t, Tin[c]))]
Hot(c, d)  == Q(c, d, 0, FALSE)
Cold(c, d) == Q(c, d, 0, TRUE)
TEFQ(c) == IF TEFRefused(c, T[c], Tin[c]) THEN Refused ELSE [r |-> "ok", e |-> TEF(c, T[c], Tin[c])]

\* getArea(Tc = tc (0 = None)) relative to getArea(cold=True): degree-2 homogeneous in the lengths; every shape reads its
\* lengths with getDimension(..., Tc=Tc), UnshapedComponent multiplies its cold area by getThermalExpansionFactor(Tc)^2
AreaAt(c, tc) ==
            LET h0 == Q(c, "e0", tc, FALSE)  h1 == Q(c, "e1", tc, FALSE)  h2 == Q(c, "e2", tc, FALSE)   \* (scalar LETs: evaluated once)
                g0 == MSub(h0.e, Cold(c, "e0").e)
                g1 == MSub(h1.e, Cold(c, "e1").e)
                g2 == MSub(h2.e, Cold(c, "e2").e)
            IN IF h0.r # "ok" \/ h1.r # "ok" \/ h2.r # "ok" THEN Refused
               ELSE IF g1 = g0 /\ g2 = g0
                    THEN [r |-> "ok", e |-> MScale(2, g0)]
                    ELSE [r |-> "mixed"]
AreaQ(c) == AreaAt(c, 0)
\* getMass() / height relative to (mass density of the constructed number densities) * getArea(cold=True)
MPHof(c, a) == IF a.r = "ok" THEN [r |-> "ok", e |-> MAdd(nd[c], a.e)] ELSE a
MPH(c) == LET a == AreaQ(c) IN MPHof(c, a)

\* printing: exponent vectors unpacked to arrays over the atoms (c,t) -> index (c-1)*NT+t
Pr(q) == IF q.r = "ok" THEN [q EXCEPT !.e = MVec(q.e, NA)] ELSE q
Obs == [c \in Comp |->
          IF c \notin Live THEN [live |-> FALSE] ELSE
          LET a == AreaQ(c) IN
          [live |-> TRUE,
           T    |-> T[c],
           tef  |-> Pr(TEFQ(c)),
           nd   |-> MVec(nd[c], NA),
           aux  |-> aux[c],
           an   |-> MVec(an[c], NA),
           hot  |-> [d \in Dim |-> Pr(Hot(c, d))],
           cold |-> [d \in Dim |-> Pr(Cold(c, d))],
           at   |-> [t \in Temp |-> [d \in Dim |-> Pr(Q(c, d, t, FALSE))]],
           link |-> [d \in MutDim |-> p[c][d].k = "l"],
           area |-> Pr(a),
           areaAt |-> [t \in Temp |-> Pr(AreaAt(c, t))],
           mph  |-> Pr(MPHof(c, a))]]

(* ---------------------------------- component.py: mutators ---------------------------------- *)
Ok(a)        == err' = "" /\ act' = a
Refuse(e, a) == UNCHANGED state /\ err' = e /\ act' = a

\* setTemperature: prevTemp, T = T, t ; changeNDensByFactor(reduction(prevTemp, t)) ; clearLinkedCache()
SetTemperature(c, t) ==
    /\ c \in Live
    /\ T'  = [T EXCEPT ![c] = t]
    /\ nd' = [nd EXCEPT ![c] = MAdd(@, DensityReduction(c, T[c], t))]
    /\ an' = [an EXCEPT ![c] = MAdd(@, DensityReduction(c, T[c], t))]     \* every density vector, the same factor
    /\ UNCHANGED <<kind, Tin, T0, p, src, aux>>
    /\ Ok([n |-> "SetTemperature", c |-> c, t |-> t])

\* k calls of setTemperature through temperatures outside the table, the last one to table temperature t (Composes)
Ramp(c, t, k) ==
    /\ c \in Live /\ k \in RampSteps
    /\ T'  = [T EXCEPT ![c] = t]
    /\ nd' = [nd EXCEPT ![c] = MAdd(@, DensityReduction(c, T[c], t))]
    /\ an' = [an EXCEPT ![c] = MAdd(@, DensityReduction(c, T[c], t))]     \* every density vector, the same factor
    /\ UNCHANGED <<kind, Tin, T0, p, src, aux>>
    /\ Ok([n |-> "Ramp", c |-> c, t |-> t, k |-> k])

\* setDimension(d, value(c,d,v), retainLink=retain, cold=cold)
SetDim(c, d, v, cold, retain) ==
    LET x   == p[c][d]
        fwd == retain /\ x.k = "l"                  \* linkedComp.setDimension(linkedDimName, val, cold=cold)
        tc  == IF fwd THEN x.c ELSE c
        td  == IF fwd THEN x.d ELSE d
        sc  == ~cold /\ td \in Expanding            \* val /= getThermalExpansionFactor() of the component written to
        a   == [n |-> "SetDim", c |-> c, d |-> d, v |-> v, cold |-> cold, retain |-> retain]
    IN /\ d \in MutDim /\ c \in Live
       /\ retain => x.k = "l"                       \* retainLink on an unlinked dimension is the plain call
       /\ IF sc /\ TEFRefused(tc, T[tc], Tin[tc])
          THEN Refuse("RuntimeError", a)            \* raised before self.p[key] = val
          ELSE /\ p' = [p EXCEPT ![tc][td] = [k |-> "v", bc |-> c, bd |-> d, b |-> v,
                                              e |-> IF sc THEN MNeg(TEF(tc, T[tc], Tin[tc])) ELSE Zero]]
               /\ UNCHANGED <<kind, Tin, T0, T, nd, src, aux, an>>
               /\ Ok(a)

RECURSIVE Reaches(_, _, _, _, _)
\* following links from (c,d) arrives at (c2,d2) within n steps
Reaches(c, d, c2, d2, n) ==
    \/ c = c2 /\ d = d2
    \/ n > 0 /\ d \in MutDim /\ p[c][d].k = "l" /\ Reaches(p[c][d].c, p[c][d].d, c2, d2, n - 1)

\* the duplicate may be linked where its source may; nothing links to the duplicate
SetLink(c, d, c2, d2) ==
    /\ c \in Live /\ c2 \in Base /\ <<Orig(c), d, c2, d2>> \in LinkPairs
    /\ ~Reaches(c2, d2, c, d, 2 * Cardinality(MutDim))
    /\ p' = [p EXCEPT ![c][d] = [k |-> "l", c |-> c2, d |-> d2]]
    /\ UNCHANGED <<kind, Tin, T0, T, nd, src, aux, an>>
    /\ Ok([n |-> "SetLink", c |-> c, d |-> d, c2 |-> c2, d2 |-> d2])

\* new = copy.copy(component c): __copy__ = unlink ; deepcopy ; put the same links back on both
Copy(c) ==
    /\ src = 0 /\ c \in Base
    /\ src' = c
    /\ kind' = [kind EXCEPT ![3] = kind[c]] /\ Tin' = [Tin EXCEPT ![3] = Tin[c]] /\ T0' = [T0 EXCEPT ![3] = T0[c]]
    /\ T' = [T EXCEPT ![3] = T[c]] /\ nd' = [nd EXCEPT ![3] = nd[c]]
    /\ aux' = [aux EXCEPT ![3] = aux[c]] /\ an' = [an EXCEPT ![3] = an[c]]      \* deepcopy duplicates the arrays
    /\ p' = [p EXCEPT ![3] = p[c]]          \* values duplicated; link entries are the same (component, dimension) pairs
    /\ Ok([n |-> "Copy", c |-> c])

Init ==
    /\ \E k \in KindChoices : /\ kind = [c \in Comp |-> IF c = 3 THEN "custom" ELSE k[c]]
                              /\ \E a \in AuxChoices(k) : aux = [c \in Comp |-> IF c = 3 THEN NoAux ELSE a[c]]
    /\ \E tc \in TempChoices : /\ Tin = [c \in Comp |-> IF c = 3 THEN 1 ELSE tc[2 * c - 1]]
                               /\ T0  = [c \in Comp |-> IF c = 3 THEN 1 ELSE tc[2 * c]]
    /\ T = T0
    /\ p = [c \in Comp |-> [d \in MutDim |-> Nominal(c, d)]]
    /\ nd = [c \in Comp |-> Zero] /\ an = [c \in Comp |-> Zero]
    /\ src = 0
    /\ act = [n |-> "Init"] /\ err = ""

Next ==
    \/ \E c \in Comp, t \in Temp : SetTemperature(c, t)
    \/ \E c \in Comp, t \in Temp, k \in RampSteps : Ramp(c, t, k)
    \/ \E c \in Comp, d \in MutDim, v \in 1..NV, cold \in BOOLEAN, retain \in BOOLEAN : SetDim(c, d, v, cold, retain)
    \/ \E c \in Comp, lp \in LinkPairs : SetLink(c, lp[2], lp[3], lp[4])
    \/ \E c \in Base : Copy(c)

Spec == Init /\ [][Next]_<<state, act, err>>

(* ---------------------------------- the property, clause by clause ---------------------------------- *)
IsEntry(x) == \/ /\ DOMAIN x = {"k", "bc", "bd", "b", "e"} /\ x.k = "v" /\ x.bc \in Comp /\ x.bd \in MutDim
                 /\ x.b \in 0..NV /\ MIsVec(x.e, NA, 1)
              \/ /\ DOMAIN x = {"k", "c", "d"} /\ x.k = "l" /\ x.c \in Base /\ x.d \in MutDim
TypeOK == /\ src \in 0..2
          /\ kind \in [Comp -> Kinds] /\ Tin \in [Comp -> Temp] /\ T0 \in [Comp -> Temp] /\ T \in [Comp -> Temp]
          /\ \A c \in Comp : \A d \in MutDim : IsEntry(p[c][d])
          /\ \A c \in Comp : MIsVec(nd[c], NA, 2) /\ MIsVec(an[c], NA, 2) /\ aux[c] \in AuxAll
          /\ err \in {"", "RuntimeError"}

\* no cyclic links: every read terminates
LinksAcyclic == \A c \in Live, d \in MutDim : p[c][d].k = "l" => ~Reaches(p[c][d].c, p[c][d].d, c, d, 2 * Cardinality(MutDim))

\* "through any sequence of intermediate temperatures ... the end state depends only on the final temperature":
\* the accumulated number-density factor equals the factor of the direct jump Thot(construction) -> T
PathIndependent == \A c \in Live : nd[c] = DensityReduction(c, T0[c], T[c])

\* mass conservation of every inventory the component carries: the auxiliary density vectors (detailed, pin-wise) are
\* scaled by exactly the factors numberDensities is scaled by, whichever of them are set
AuxScaleWithDensities == \A c \in Live : an[c] = nd[c]

\* "its number densities shrink by the same factor": relative to construction, nd = (f(T0)/f(T))^2 for solids
DensityShrinksBySquare ==
    \A c \in Live : kind[c] = "solid" => nd[c] = MScale(0 - 2, MSub(U(c, T[c]), U(c, T0[c])))

\* "every thermally expanding dimension equals its cold input value times the linear expansion factor from
\*  input to current temperature" (unlinked lengths of expanding solids), and counts do not change
DimensionLaw ==
    \A c \in Live : \A d \in Dim :
        LET x == P(c, d)  h == Hot(c, d)  cl == Cold(c, d)  own == MSub(U(c, T[c]), U(c, Tin[c])) IN
        x.k = "v" =>
            /\ cl = [r |-> "ok", bc |-> x.bc, bd |-> x.bd, b |-> x.b, e |-> x.e]
            /\ (d \notin Expanding => h = cl)
            /\ (d \in Expanding /\ kind[c] = "solid" =>
                    /\ h.r = "ok"
                    /\ MSub(h.e, cl.e) = own
                    /\ \A t \in Temp : Q(c, d, t, FALSE).e = MAdd(cl.e, MSub(U(c, t), U(c, Tin[c]))))

\* "its area grows by the square of the material's linear expansion factor"
AreaGrowsBySquare ==
    \A c \in Live : kind[c] = "solid" /\ (\A d \in MutDim : p[c][d].k = "v") =>
        /\ AreaQ(c) = [r |-> "ok", e |-> MScale(2, MSub(U(c, T[c]), U(c, Tin[c])))]
        \* ... at any requested temperature, whatever the current one is: getArea(Tc=t)
        /\ \A t \in Temp : AreaAt(c, t) = [r |-> "ok", e |-> MScale(2, MSub(U(c, t), U(c, Tin[c])))]

\* "conserves its mass per unit height": for a solid whose lengths all follow its own factor, the mass per unit
\* height (per unit cold area) does not depend on the current temperature -- it is the value at construction
MassPerHeightConserved ==
    \A c \in Live : kind[c] = "solid" =>
        LET m == MPH(c) IN m.r = "ok" => m.e = MScale(2, MSub(U(c, T0[c]), U(c, Tin[c])))

\* "(and setting a hot dimension reads back that value)" -- also through a retained link, and for cold sets
ReadBack ==
    act.n = "SetDim" /\ err = "" =>
        LET q == IF act.cold THEN Cold(act.c, act.d) ELSE Hot(act.c, act.d) IN
        q = [r |-> "ok", bc |-> act.c, bd |-> act.d, b |-> act.v, e |-> Zero]

\* "a dimension linked to another component always equals that component's current dimension"
LinkEquality ==
    \A c \in Live, d \in MutDim :
        LET x == p[c][d] IN
        x.k = "l" =>
            /\ Hot(c, d) = Hot(x.c, x.d)
            /\ Cold(c, d) = Cold(x.c, x.d)
            /\ \A t \in Temp : Q(c, d, t, FALSE) = Q(x.c, x.d, t, FALSE)

\* "fluids and custom materials keep their dimensions"
FluidsAndCustomKeepDimensions ==
    \A c \in Live : NoExpansion(c) =>
        /\ TEFQ(c) = [r |-> "ok", e |-> Zero]
        /\ \A d \in Dim : P(c, d).k = "v" => Hot(c, d) = Cold(c, d) /\ \A t \in Temp : Q(c, d, t, FALSE) = Cold(c, d)

\* a material without a correlation refuses exactly when the temperature differs from the input temperature
InertRefusesOffInput ==
    \A c \in Live : kind[c] = "inert" =>
        /\ (T[c] = Tin[c] => TEFQ(c) = [r |-> "ok", e |-> Zero])
        /\ (T[c] # Tin[c] => TEFQ(c) = Refused /\ AreaQ(c) = Refused)
        /\ nd[c] = Zero

\* a refused call leaves everything as it was
RefusalsChangeNothing == [][err' # "" => UNCHANGED state]_<<state, act, err>>
\* construction parameters never change, the duplicate stays the duplicate of its source
ConstructionFixed == [][/\ \A c \in Live : aux'[c] = aux[c] /\ kind'[c] = kind[c] /\ Tin'[c] = Tin[c] /\ T0'[c] = T0[c]
                        /\ (src # 0 => src' = src)]_<<state, act, err>>

\* why intermediate temperatures do not matter: for ARBITRARY temperatures a, m, b (atoms are abstract positive reals)
\* the reduction a -> m followed by m -> b is the reduction a -> b; by induction every ramp telescopes
Composes == \A c \in Live : \A a, m, b \in Temp :
                MAdd(DensityReduction(c, a, m), DensityReduction(c, m, b)) = DensityReduction(c, a, b)

\* "a dimension linked to another component always equals that component's current dimension" for a duplicate:
\* right after copy.copy the duplicate reads exactly what its source reads, its links point at the two constructed
\* components themselves (LinkEquality then makes it follow them for ever), and the source is untouched
CopyIsFaithful ==
    act.n = "Copy" =>
        /\ T[3] = T[src] /\ nd[3] = nd[src] /\ an[3] = an[src] /\ aux[3] = aux[src] /\ kind[3] = kind[src] /\ Tin[3] = Tin[src]
        /\ \A d \in Dim : Hot(3, d) = Hot(src, d) /\ Cold(3, d) = Cold(src, d)
CopyLeavesOthers == [][act'.n = "Copy" => \A c \in Base : T'[c] = T[c] /\ nd'[c] = nd[c] /\ p'[c] = p[c]]_<<state, act, err>>
=====================================================================================================
