\* emission (thorough): 4 temperatures, 10 kind pairs x 2 constructions, every behaviour of up to 3 calls
CONSTANTS NT = 4  NV = 1  MaxLevel = 3
  KindChoices <- McKindsEmit  TempChoices <- McTempsEmit4b  LinkPairs <- McLinks  RampSteps <- McRamp  AuxChoices <- McAuxByKind
ACTION_CONSTRAINT Emit
INVARIANT EmitState
INIT Init
NEXT NextB
CONSTRAINT Bound
VIEW View
INVARIANT TypeOK
INVARIANT LinksAcyclic
INVARIANT PathIndependent
INVARIANT AuxScaleWithDensities
INVARIANT DensityShrinksBySquare
INVARIANT DimensionLaw
INVARIANT AreaGrowsBySquare
INVARIANT MassPerHeightConserved
INVARIANT ReadBack
INVARIANT LinkEquality
INVARIANT FluidsAndCustomKeepDimensions
INVARIANT InertRefusesOffInput
INVARIANT Composes
INVARIANT CopyIsFaithful
PROPERTY RefusalsChangeNothing
PROPERTY ConstructionFixed
PROPERTY CopyLeavesOthers
CHECK_DEADLOCK FALSE
