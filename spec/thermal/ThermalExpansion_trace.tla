----------------------------------- MODULE ThermalExpansion_trace -----------------------------------
(* code -> spec: every recorded history of calls on real armi components must be a behaviour of ThermalExpansion.
   An event is {"a": <call>, "post": {"err": "" | "RuntimeError", "T": [T1, T2, T3], "link": [[..],[..],[..]], "src": s}}
   (component 3 = the duplicate made by copy.copy, src = 0 while there is none): TLC checks that
   the call is enabled, that it is refused exactly when the real call raised, and the discrete part of the post-state;
   for the real-valued part TLC prints the observables of the state it computed for each event (exponent
   vectors) and the harness compares the numbers recorded from the real objects with them.                    *)
EXTENDS ThermalExpansion, IOUtils, TLCExt
Traces == ndJsonDeserialize(IOEnv.TRACE_FILE)
NTr    == Len(Traces)
VARIABLES tid, l
TrLinks == {<<1, "e2", 2, "e1">>, <<2, "e2", 1, "e2">>}
TrNone  == {}
TrRamp  == 1..1000
TrAux(k) == {}
ASSUME \A t \in 1..NTr : TLCSet(t, 0)
TInit == /\ tid \in 1..NTr /\ l = 1
         /\ kind = [c \in Comp |-> IF c = 3 THEN "custom" ELSE Traces[tid].const.kind[c]]
         /\ Tin  = [c \in Comp |-> IF c = 3 THEN 1 ELSE Traces[tid].const.Tin[c]]
         /\ T0   = [c \in Comp |-> IF c = 3 THEN 1 ELSE Traces[tid].const.T0[c]]
         /\ T = T0 /\ src = 0
         /\ aux = [c \in Comp |-> IF c = 3 THEN NoAux ELSE [d |-> Traces[tid].const.aux[c][1], p |-> Traces[tid].const.aux[c][2]]]
         /\ an = [c \in Comp |-> Zero]
         /\ p = [c \in Comp |-> [d \in MutDim |-> Nominal(c, d)]]
         /\ nd = [c \in Comp |-> Zero]
         /\ act = [n |-> "Init"] /\ err = ""
Ev == Traces[tid].ev[l]
A  == Ev.a
Step ==
    \/ A.n = "SetTemperature" /\ SetTemperature(A.c, A.t)
    \/ A.n = "SetDim" /\ SetDim(A.c, A.d, A.v, A.cold, A.retain)
    \/ A.n = "SetLink" /\ SetLink(A.c, A.d, A.c2, A.d2)
    \/ A.n = "Ramp" /\ Ramp(A.c, A.t, A.k)
    \/ A.n = "Copy" /\ Copy(A.c)
Disc == [err |-> err, src |-> src, T |-> [c \in Comp |-> T[c]],
         link |-> [c \in Comp |-> [i \in 1..3 |-> p[c][<<"e1", "e2", "n">>[i]].k = "l"]]]
ObsMatch == \/ Disc' = Ev.post
            \/ /\ Disc' # Ev.post
               /\ PrintT(ToJson([mismatch |-> Traces[tid].id, at |-> l, expected |-> Disc']))
               /\ FALSE
TNext == /\ l <= Len(Traces[tid].ev) /\ l' = l + 1 /\ tid' = tid
         /\ Step
         /\ ObsMatch
TSpec == TInit /\ [][TNext]_<<state, err, act, tid, l>>
Progress == IF TLCGet(tid) < l THEN TLCSet(tid, l) ELSE TRUE
\* the observables of the state after event l-1 of trace tid (l = 1: the constructed components)
EmitT == PrintT(ToJson([tr |-> Traces[tid].id, k |-> l - 1, obs |-> Obs]))
Report == LET bad == {t \in 1..NTr : TLCGet(t) # Len(Traces[t].ev) + 1} IN
          /\ \A t \in bad : PrintT(ToJson([rejected |-> Traces[t].id, matched |-> TLCGet(t) - 1]))
          /\ PrintT(ToJson([accepted |-> NTr - Cardinality(bad), of |-> NTr]))
=====================================================================================================
