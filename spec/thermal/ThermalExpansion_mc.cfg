\* exhaustive (quick): 3 temperatures, 4 kind pairs (those not in the quick emission run) x 1 construction, every behaviour of up to 3 calls
CONSTANTS NT = 3  NV = 1  MaxLevel = 3
  KindChoices <- McKindsQuick  TempChoices <- McTempsOne  LinkPairs <- McLinks  RampSteps <- McRamp  AuxChoices <- McAuxFour
INIT Init
NEXT NextB
CONSTRAINT Bound
VIEW View
INVARIANT TypeOK
INVARIANT LinksAcyclic
INVARIANT PathIndependent
INVARIANT AuxScaleWithDensities
INVARIANT DensityShrinksBySquare
INVARIANT DimensionLaw
INVARIANT AreaGrowsBySquare
INVARIANT MassPerHeightConserved
INVARIANT ReadBack
INVARIANT LinkEquality
INVARIANT FluidsAndCustomKeepDimensions
INVARIANT InertRefusesOffInput
INVARIANT Composes
INVARIANT CopyIsFaithful
PROPERTY RefusalsChangeNothing
PROPERTY ConstructionFixed
PROPERTY CopyLeavesOthers
CHECK_DEADLOCK FALSE
