\* exhaustive (quick): 3 temperatures, 6 kind pairs x 2 constructions, every behaviour of up to 4 calls
CONSTANTS NT = 3  NV = 1  MaxLevel = 4
  KindChoices <- McKindsQuick  TempChoices <- McTempsTwo  LinkPairs <- McLinks
INIT Init
NEXT NextB
CONSTRAINT Bound
VIEW View
INVARIANT TypeOK
INVARIANT LinksAcyclic
INVARIANT PathIndependent
INVARIANT DensityShrinksBySquare
INVARIANT DimensionLaw
INVARIANT AreaGrowsBySquare
INVARIANT MassPerHeightConserved
INVARIANT ReadBack
INVARIANT LinkEquality
INVARIANT FluidsAndCustomKeepDimensions
INVARIANT InertRefusesOffInput
PROPERTY RefusalsChangeNothing
PROPERTY ConstructionFixed
CHECK_DEADLOCK FALSE
