\* emission (quick): 10 kind pairs x 2 constructions, every behaviour of up to 3 calls, all edges printed
CONSTANTS NT = 3  NV = 1  MaxLevel = 3
  KindChoices <- McKindsEmit  TempChoices <- McTempsTwo  LinkPairs <- McLinks
ACTION_CONSTRAINT Emit
INVARIANT EmitState
INIT Init
NEXT NextB
CONSTRAINT Bound
VIEW View
INVARIANT TypeOK
INVARIANT LinksAcyclic
INVARIANT PathIndependent
INVARIANT DensityShrinksBySquare
INVARIANT DimensionLaw
INVARIANT AreaGrowsBySquare
INVARIANT MassPerHeightConserved
INVARIANT ReadBack
INVARIANT LinkEquality
INVARIANT FluidsAndCustomKeepDimensions
INVARIANT InertRefusesOffInput
PROPERTY RefusalsChangeNothing
PROPERTY ConstructionFixed
CHECK_DEADLOCK FALSE
