\* emission (quick): 7 kind pairs x 1 construction, every behaviour of up to 3 calls, all edges printed
CONSTANTS NT = 3  NV = 1  MaxLevel = 3
  KindChoices <- McKindsEmitQuick  TempChoices <- McTempsOne  LinkPairs <- McLinks  RampSteps <- McRamp  AuxChoices <- McAuxByKind
ACTION_CONSTRAINT Emit
INVARIANT EmitState
INIT Init
NEXT NextB
CONSTRAINT Bound
VIEW View
INVARIANT TypeOK
INVARIANT LinksAcyclic
INVARIANT PathIndependent
INVARIANT AuxScaleWithDensities
INVARIANT DensityShrinksBySquare
INVARIANT DimensionLaw
INVARIANT AreaGrowsBySquare
INVARIANT MassPerHeightConserved
INVARIANT ReadBack
INVARIANT LinkEquality
INVARIANT FluidsAndCustomKeepDimensions
INVARIANT InertRefusesOffInput
INVARIANT Composes
INVARIANT CopyIsFaithful
PROPERTY RefusalsChangeNothing
PROPERTY ConstructionFixed
PROPERTY CopyLeavesOthers
CHECK_DEADLOCK FALSE
