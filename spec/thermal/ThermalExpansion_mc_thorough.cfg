\* exhaustive (thorough): 3 temperatures, all 15 kind pairs x 12 constructions, every behaviour of up to 3 calls
CONSTANTS NT = 3  NV = 1  MaxLevel = 3
  KindChoices <- McKindsAll  TempChoices <- McTempsHalf3  LinkPairs <- McLinks  RampSteps <- McRamp  AuxChoices <- McAuxByKind
INIT Init
NEXT NextB
CONSTRAINT Bound
VIEW View
INVARIANT TypeOK
INVARIANT LinksAcyclic
INVARIANT PathIndependent
INVARIANT AuxScaleWithDensities
INVARIANT DensityShrinksBySquare
INVARIANT DimensionLaw
INVARIANT AreaGrowsBySquare
INVARIANT MassPerHeightConserved
INVARIANT ReadBack
INVARIANT LinkEquality
INVARIANT FluidsAndCustomKeepDimensions
INVARIANT InertRefusesOffInput
INVARIANT Composes
INVARIANT CopyIsFaithful
PROPERTY RefusalsChangeNothing
PROPERTY ConstructionFixed
PROPERTY CopyLeavesOthers
CHECK_DEADLOCK FALSE
