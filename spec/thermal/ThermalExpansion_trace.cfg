\* batch validation of recorded histories: 4 temperatures, 2 alternative table values per dimension
CONSTANTS NT = 4  NV = 2  MaxLevel = 999
  KindChoices <- TrNone  TempChoices <- TrNone  LinkPairs <- TrLinks  RampSteps <- TrRamp  AuxChoices <- TrAux
SPECIFICATION TSpec
CONSTRAINT Progress
POSTCONDITION Report
INVARIANT EmitT
INVARIANT TypeOK
INVARIANT LinksAcyclic
INVARIANT PathIndependent
INVARIANT AuxScaleWithDensities
INVARIANT DensityShrinksBySquare
INVARIANT MassPerHeightConserved
INVARIANT ReadBack
INVARIANT LinkEquality
INVARIANT CopyIsFaithful
CHECK_DEADLOCK FALSE
