\* exhaustive (thorough, deep): 4 temperatures, 3 kind pairs, every behaviour of up to 4 calls
CONSTANTS NT = 4  NV = 1  MaxLevel = 4
  KindChoices <- McKindsDeep  TempChoices <- McTempsOne  LinkPairs <- McLinks  RampSteps <- McRamp  AuxChoices <- McAuxTwo
INIT Init
NEXT NextB
CONSTRAINT Bound
VIEW View
INVARIANT TypeOK
INVARIANT LinksAcyclic
INVARIANT PathIndependent
INVARIANT AuxScaleWithDensities
INVARIANT DensityShrinksBySquare
INVARIANT DimensionLaw
INVARIANT AreaGrowsBySquare
INVARIANT MassPerHeightConserved
INVARIANT ReadBack
INVARIANT LinkEquality
INVARIANT FluidsAndCustomKeepDimensions
INVARIANT InertRefusesOffInput
INVARIANT Composes
INVARIANT CopyIsFaithful
PROPERTY RefusalsChangeNothing
PROPERTY ConstructionFixed
PROPERTY CopyLeavesOthers
CHECK_DEADLOCK FALSE
