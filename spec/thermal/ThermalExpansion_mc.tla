------------------------------------ MODULE ThermalExpansion_mc ------------------------------------
EXTENDS ThermalExpansion
Bound == TLCGet("level") <= MaxLevel
View  == state
\* component 1 is the shape/material under test, component 2 a partner whose two lengths are unconstrained
McLinks == {<<1, "e2", 2, "e1">>, <<2, "e2", 1, "e2">>}
McKindsAll  == {<<k1, k2>> : k1 \in Kinds, k2 \in {"solid", "fluid", "inert"}}
McKindsEmit == {<<k1, k2>> : k1 \in Kinds, k2 \in {"solid", "fluid"}}
McKindsSolid == {<<"solid", "solid">>}
McKindsQuick == {<<k1, "solid">> : k1 \in Kinds} \cup {<<"solid", "fluid">>, <<"solid", "inert">>, <<"fluid", "fluid">>}
\* <<Tin1, Thot1, Tin2, Thot2>>
McTempsAll3 == {<<a, b, c, d>> : a \in 1..2, b \in 1..3, c \in 1..2, d \in 2..3}
McTempsEmit == {<<1, 2, 1, 3>>, <<2, 1, 1, 2>>, <<3, 3, 2, 2>>}
McTempsEmit4 == {<<1, 3, 1, 4>>, <<2, 1, 1, 2>>, <<4, 4, 2, 2>>, <<3, 2, 4, 1>>}
McTempsOne  == {<<1, 2, 1, 3>>}
\* one line per explored edge and one line per distinct state (with every observable)
Emit  == PrintT(ToJson([lvl |-> TLCGet("level"), from |-> Vars, act |-> act', to |-> Vars', err |-> err']))
EmitState == PrintT(ToJson([st |-> Vars, obs |-> Obs]))
=====================================================================================================
