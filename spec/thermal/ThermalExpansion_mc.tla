------------------------------------ MODULE ThermalExpansion_mc ------------------------------------
(* Model-checking harness for ThermalExpansion: bounds, constant sets, and the emission of every explored edge and
   every distinct state (with all observables) as JSON for the replay on real armi components.               *)
EXTENDS ThermalExpansion
\* Behaviours of up to MaxLevel calls.  The bound sits in the next-state relation (states at level MaxLevel + 1 have
\* no successors) and not only in the CONSTRAINT: TLC evaluates the invariants on every generated successor that
\* fails the constraint, without de-duplication, which made the boundary level dominate the run time.
Go    == TLCGet("level") <= MaxLevel
ATemp == Go /\ \E c \in Comp, t \in Temp : SetTemperature(c, t)
ARamp == Go /\ \E c \in Comp, t \in Temp, k \in RampSteps : Ramp(c, t, k)
ADim  == Go /\ \E c \in Comp, d \in MutDim, v \in 1..NV, cold \in BOOLEAN, retain \in BOOLEAN : SetDim(c, d, v, cold, retain)
ALink == Go /\ \E c \in Comp, lp \in LinkPairs : SetLink(c, lp[2], lp[3], lp[4])
ACopy == Go /\ \E c \in Base : Copy(c)
NextB == ATemp \/ ARamp \/ ADim \/ ALink \/ ACopy
McRamp == {60}
\* which auxiliary density vectors the two components carry.  Exhaustive runs: 4 (quick), 2 (deep) combinations covering every set/unset case on both sides, or by kind.  Emission runs: one
\* combination per kind pair (the choice never influences a transition), arranged so that component 1 of an expanding
\* solid meets pin-only and detailed-only, and all four combinations occur on both sides; traces draw all 16.
A(d, q) == [d |-> d, p |-> q]
McAuxAll(k) == {<<a, b>> : a, b \in AuxAll}
McAuxFour(k) == {<<A(FALSE, FALSE), A(TRUE, TRUE)>>, <<A(FALSE, TRUE), A(TRUE, FALSE)>>, <<A(TRUE, FALSE), A(FALSE, TRUE)>>, <<A(TRUE, TRUE), A(FALSE, FALSE)>>}
McAuxTwo(k)  == {<<A(FALSE, TRUE), A(TRUE, FALSE)>>, <<A(TRUE, TRUE), A(FALSE, FALSE)>>}
McAuxByKind(k) ==
    CASE k = <<"solid", "solid">> -> {<<A(FALSE, TRUE), A(TRUE, TRUE)>>}
      [] k = <<"solid", "fluid">> -> {<<A(TRUE, FALSE), A(FALSE, TRUE)>>}
      [] k[1] = "fluid"           -> {<<A(FALSE, TRUE), A(FALSE, FALSE)>>}
      [] k[1] = "inert"           -> {<<A(TRUE, TRUE), A(TRUE, FALSE)>>}
      [] k[1] = "custom"          -> {<<A(FALSE, TRUE), A(TRUE, FALSE)>>}
      [] OTHER                    -> {<<A(FALSE, FALSE), A(FALSE, TRUE)>>}
Bound == TLCGet("level") <= MaxLevel + 1
View  == state
\* component 1 is the shape/material under test, component 2 a partner whose two lengths are unconstrained:
\* 1.e2 <- 2.e1 is the classic "clad.id <- fuel.od"; 2.e2 <- 1.e2 makes chains 2.e2 -> 1.e2 -> 2.e1 possible
McLinks == {<<1, "e2", 2, "e1">>, <<2, "e2", 1, "e2">>}
McKindsAll   == {<<k1, k2>> : k1 \in Kinds, k2 \in {"solid", "fluid", "inert"}}
McKindsEmit  == {<<k1, k2>> : k1 \in Kinds, k2 \in {"solid", "fluid"}}
McKindsEmitQuick == {<<k1, "solid">> : k1 \in Kinds} \cup {<<"solid", "fluid">>, <<"fluid", "fluid">>}
McKindsDeep  == {<<"solid", "solid">>, <<"solid", "fluid">>, <<"inert", "solid">>}
\* quick exhaustive run: the kind pairs the quick emission run (which checks the same invariants) does not contain
McKindsQuick == {<<"solid", "inert">>, <<"fluid", "inert">>, <<"inert", "fluid">>, <<"custom", "fluid">>}
\* <<Tin1, Thot1, Tin2, Thot2>>
McTempsAll3  == {<<a, b, c, d>> : a \in 1..2, b \in 1..3, c \in 1..2, d \in 2..3}
McTempsHalf3 == {<<a, b, 1, d>> : a \in 1..2, b \in 1..3, d \in 2..3}
McTempsEmit4b == {<<1, 3, 1, 4>>, <<3, 2, 4, 1>>}
McTempsEmit  == {<<1, 2, 1, 3>>, <<2, 1, 1, 2>>, <<3, 3, 2, 2>>}
McTempsEmit4 == {<<1, 3, 1, 4>>, <<2, 1, 1, 2>>, <<4, 4, 2, 2>>, <<3, 2, 4, 1>>}
McTempsOne   == {<<1, 2, 1, 3>>}
McTempsTwo   == {<<1, 2, 1, 3>>, <<2, 1, 2, 2>>}
\* compact state key (a flat array of integers) for the edges; the full variables are printed once per state
DimIdx(d)  == CASE d = "e1" -> 1 [] d = "e2" -> 2 [] d = "n" -> 3
KindIdx(k) == CASE k = "solid" -> 1 [] k = "inert" -> 2 [] k = "fluid" -> 3 [] k = "void" -> 4 [] k = "custom" -> 5
EntryKey(x) == IF x.k = "v" THEN <<0, x.bc, DimIdx(x.bd), x.b, x.e>> ELSE <<1, x.c, DimIdx(x.d), 0, 0>>
B(x) == IF x THEN 1 ELSE 0
CompKey(c) == <<KindIdx(kind[c]), Tin[c], T0[c], T[c], nd[c], an[c], B(aux[c].d), B(aux[c].p)>> \o EntryKey(p[c]["e1"]) \o EntryKey(p[c]["e2"]) \o EntryKey(p[c]["n"])
Key == <<src>> \o CompKey(1) \o CompKey(2) \o CompKey(3)
\* one line per explored edge and one line per distinct state (with every observable)
Emit  == PrintT(ToJson([lvl |-> TLCGet("level"), from |-> Key, act |-> act', to |-> Key', err |-> err']))
EmitState == PrintT(ToJson([st |-> Key, vars |-> Vars, obs |-> Obs]))
=====================================================================================================
