------------------------------------------ MODULE Rational ------------------------------------------
(* Exact rationals <<num, den>>, den > 0, normalised.  Keep constants small: TLC integers are 32-bit and
   an overflow is reported by TLC as an error (machinery failure, never a verdict).                      *)
EXTENDS Integers, FiniteSets, FiniteSetsExt, Sequences, SequencesExt
LOCAL RAbs(x) == IF x < 0 THEN -x ELSE x
RECURSIVE RGcd(_, _)
RGcd(a, b) == IF b = 0 THEN a ELSE RGcd(b, a % b)
Norm(n, d) == IF n = 0 THEN <<0, 1>>
              ELSE LET g == RGcd(RAbs(n), RAbs(d))
                   IN IF d < 0 THEN <<-(n \div g), -(d \div g)>> ELSE <<n \div g, d \div g>>
RZero == <<0, 1>>
ROne  == <<1, 1>>
RInt(n) == <<n, 1>>
RFrac(n, d) == Norm(n, d)
RAdd(a, b) == Norm(a[1] * b[2] + b[1] * a[2], a[2] * b[2])
RSub(a, b) == Norm(a[1] * b[2] - b[1] * a[2], a[2] * b[2])
RMul(a, b) == Norm(a[1] * b[1], a[2] * b[2])
RDiv(a, b) == Norm(a[1] * b[2], a[2] * b[1])          \* b # 0 is the caller's obligation
RNeg(a)    == <<-a[1], a[2]>>
RLeq(a, b) == a[1] * b[2] <= b[1] * a[2]
RLt(a, b)  == a[1] * b[2] < b[1] * a[2]
REq(a, b)  == a[1] * b[2] = b[1] * a[2]
RMax(a, b) == IF RLeq(a, b) THEN b ELSE a
RMin(a, b) == IF RLeq(a, b) THEN a ELSE b
RIsZero(a) == a[1] = 0
\* sums over a finite set / a sequence
RSumSet(S, f(_)) == FoldSet(LAMBDA x, acc : RAdd(f(x), acc), RZero, S)
RSumSeq(s) == FoldLeft(LAMBDA acc, x : RAdd(acc, x), RZero, s)
=====================================================================================================
