------------------------------------------ MODULE Monomial ------------------------------------------
(* Exponent vectors of monomials  b * a_1^e_1 * ... * a_n^e_n  over n abstract positive real factors
   ("atoms").  A law that is multiplicative in material-defined factors (thermal expansion: every observable
   is a product of integer powers of the factors f(T) = 1 + dL/L(T)) becomes an equality of integer vectors,
   which TLC decides exactly; the numerical value of an atom never enters the model.  The base b of a
   quantity is kept symbolic by the client module; only exponent vectors are manipulated here.

   Representation.  A vector (e_1..e_n) with |e_i| <= MMaxExp is PACKED into the single integer
   sum_i e_i * MRadix^(i-1).  The packing is linear, so product / quotient / power of monomials are + / - / *
   on the packed integers, and it is injective as long as every |e_i| < MRadix/2 (two packed integers are
   equal iff the vectors are); clients assert the bound in their type invariant with MIsVec.  (A function
   [1..n -> Int] per vector made TLC spend > 95 % of its time building functions; packed integers are ~10x
   faster.)  MVec unpacks for printing: ToJson(MVec(x, n)) is the JSON array of the exponents.
   n <= 10 keeps everything below 2^31 (TLC integers are 32-bit).                                          *)
EXTENDS Integers
MRadix  == 8
MMaxExp == 3
MZero         == 0
MUnit(k)      == MRadix ^ (k - 1)                 \* the atom a_k itself
MAdd(a, b)    == a + b                            \* product of two monomials
MSub(a, b)    == a - b                            \* quotient
MNeg(a)       == 0 - a                            \* reciprocal
MScale(k, a)  == k * a                            \* k-th power
MIsZero(a)    == a = 0                            \* the monomial is identically 1
\* unpacking: shift every digit by MMaxExp so that the shifted number has ordinary base-MRadix digits 0..MRadix-1
MShift(n)     == (MMaxExp * (MRadix ^ n - 1)) \div (MRadix - 1)
MDigit(x, n, i) == (((x + MShift(n)) \div (MRadix ^ (i - 1))) % MRadix) - MMaxExp
MVec(x, n)    == [i \in 1..n |-> MDigit(x, n, i)]
\* x is the packing of a vector of length n whose exponents are bounded by B <= MMaxExp in absolute value
MIsVec(x, n, B) == /\ x + MShift(n) >= 0 /\ x + MShift(n) < MRadix ^ n
                   /\ \A i \in 1..n : MDigit(x, n, i) >= 0 - B /\ MDigit(x, n, i) <= B
=====================================================================================================
