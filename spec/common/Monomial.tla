------------------------------------------ MODULE Monomial ------------------------------------------
(* Exponent vectors of monomials  b * a_1^e_1 * ... * a_n^e_n  over n abstract positive real factors
   ("atoms").  A law that is multiplicative in material-defined factors (thermal expansion: every observable
   is a product of integer powers of the factors f(T) = 1 + dL/L(T)) becomes an equality of integer vectors,
   which TLC decides exactly; the numerical value of an atom never enters the model.

   A vector is a function [1..n -> Int] (printed by ToJson as a JSON array).  The base b of a quantity is
   kept symbolic by the client module; only exponent vectors are manipulated here.                         *)
EXTENDS Integers
MZero(n)      == [i \in 1..n |-> 0]
MUnit(n, k)   == [i \in 1..n |-> IF i = k THEN 1 ELSE 0]
MAdd(a, b)    == [i \in DOMAIN a |-> a[i] + b[i]]          \* product of two monomials
MSub(a, b)    == [i \in DOMAIN a |-> a[i] - b[i]]          \* quotient
MNeg(a)       == [i \in DOMAIN a |-> 0 - a[i]]             \* reciprocal
MScale(k, a)  == [i \in DOMAIN a |-> k * a[i]]             \* k-th power
MIsZero(a)    == \A i \in DOMAIN a : a[i] = 0              \* the monomial is identically 1
MIsVec(a, n, B) == a \in [1..n -> (0 - B)..B]              \* type check with a bound on the exponents
=====================================================================================================
