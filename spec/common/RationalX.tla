------------------------------------------ MODULE RationalX ------------------------------------------
(* Exact rationals <<num, den>>, den > 0, normalised -- same operator names as Rational.tla, but every
   operation cancels common factors BEFORE multiplying, so that intermediate products stay inside TLC's
   32-bit integers much longer (sums of elevations with unrelated denominators, products of growth factors).
   All arguments are assumed normalised (results of these operators are).  An overflow is still reported by
   TLC as an error (machinery failure, never a verdict).                                                    *)
EXTENDS Integers, FiniteSets, FiniteSetsExt, Sequences, SequencesExt
LOCAL RAbs(x) == IF x < 0 THEN -x ELSE x
RECURSIVE RGcd(_, _)
RGcd(a, b) == IF b = 0 THEN a ELSE RGcd(b, a % b)
Norm(n, d) == IF n = 0 THEN <<0, 1>>
              ELSE LET g == RGcd(RAbs(n), RAbs(d))
                   IN IF d < 0 THEN <<-(n \div g), -(d \div g)>> ELSE <<n \div g, d \div g>>
RZero == <<0, 1>>
ROne  == <<1, 1>>
RInt(n) == <<n, 1>>
RFrac(n, d) == Norm(n, d)
RNeg(a)    == <<-a[1], a[2]>>
RAdd(a, b) == LET g == RGcd(a[2], b[2]) IN Norm(a[1] * (b[2] \div g) + b[1] * (a[2] \div g), (a[2] \div g) * b[2])
RSub(a, b) == RAdd(a, RNeg(b))
RMul(a, b) == IF a[1] = 0 \/ b[1] = 0 THEN <<0, 1>>
              ELSE LET g1 == RGcd(RAbs(a[1]), b[2])
                       g2 == RGcd(RAbs(b[1]), a[2])
                   IN <<(a[1] \div g1) * (b[1] \div g2), (a[2] \div g2) * (b[2] \div g1)>>
RInv(b)    == IF b[1] < 0 THEN <<-b[2], -b[1]>> ELSE <<b[2], b[1]>>      \* b # 0 is the caller's obligation
RDiv(a, b) == RMul(a, RInv(b))
RLeq(a, b) == LET g == RGcd(a[2], b[2]) IN a[1] * (b[2] \div g) <= b[1] * (a[2] \div g)
RLt(a, b)  == LET g == RGcd(a[2], b[2]) IN a[1] * (b[2] \div g) < b[1] * (a[2] \div g)
REq(a, b)  == a = b
RMax(a, b) == IF RLeq(a, b) THEN b ELSE a
RMin(a, b) == IF RLeq(a, b) THEN a ELSE b
RIsZero(a) == a[1] = 0
RECURSIVE RSumUpTo(_, _)
RSumUpTo(s, n) == IF n = 0 THEN RZero ELSE RAdd(RSumUpTo(s, n - 1), s[n])
RSumSeq(s) == RSumUpTo(s, Len(s))
=====================================================================================================
