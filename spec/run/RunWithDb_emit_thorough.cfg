\* emission (thorough): one printed run per terminal state (completed, or aborted at one failure point)
CONSTANTS MaxCyc = 2  MaxBurn = 2  Tights = {FALSE, TRUE}  WithStarts = FALSE  MaxLevel = 400
CONSTANTS RestartFrom = {"completed", "aborted"}  Phase2Fails = TRUE
CONSTANT FailKinds = {"RuntimeError", "CustomError", "SystemExit", "KeyboardInterrupt", "BaseException"}
CONSTANT Configs <- NoConfigs
INIT RInit
NEXT RNextR
CONSTRAINT Bound
INVARIANT EmitRun
INVARIANT RTypeOK
INVARIANT AbortedRunLeavesFile
INVARIANT AbortedOutsideWindow
INVARIANT CompletedRunIsSuccessful
INVARIANT FinalisedFileIsComplete
INVARIANT SnapshotsHoldStateAtWrite
INVARIANT MarkAndPlace
INVARIANT RestartHoldsWholeHistory
INVARIANT MergedUnchanged
INVARIANT RestartIsInit
INVARIANT ProbesServeLive
INVARIANT TouchedNodesAreWritten
INVARIANT TouchingHappens
INVARIANT RestartedStatesDiffer
CHECK_DEADLOCK FALSE
