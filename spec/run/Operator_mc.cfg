\* exhaustive (quick): L = histories of <= 2 cycles x 0..2 burn steps, all restart points (in place at entry or set by a BOL hook),
\* coupling off / on with cap 0..2 and every exempt-cycle pattern, free halt answers / convergence reports / return values.
\* The D family (all stacks of <= 2 interfaces x 16 flag combinations x deferral cycle 0..2, no environment choice) is checked
\* exhaustively by Operator_emit.cfg in the quick tier: without environment choices its state graph is the same with or without
\* the log in the state.  The thorough config explores D with a halting + coupled first interface and stacks of 3.
CONSTANTS MaxCyc = 2  MaxBurn = 2  MaxCap = 2  MaxStack = 2  MaxLevel = 400  Families = {"L"}  EnvD = FALSE
CONSTANT Configs <- McConfigs
INIT Init
NEXT Next
CONSTRAINT Bound
VIEW View
INVARIANT TypeOK
INVARIANT BOLOnceFirst
INVARIANT StartSampledAfterBOL
INVARIANT ScheduleIsNestedLoop
INVARIANT EOLOnceLast
INVARIANT HaltStopsLoopAndRunsEOL
INVARIANT NodesOnceInOrder
INVARIANT CouplingUntilConvergedOrCap
INVARIANT DispatchExactlyActiveInOrder
INVARIANT DispatchLaw
INVARIANT ArgsMatchTimeState
CHECK_DEADLOCK FALSE
