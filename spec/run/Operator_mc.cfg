\* exhaustive (quick): L = histories of <= 2 cycles x 0..2 burn steps, all restart points, coupling off / on with cap 0..2 and
\* every exempt-cycle pattern;  D = all stacks of <= 2 interfaces x 16 flag combinations x deferral cycle 0..2
CONSTANTS MaxCyc = 2  MaxBurn = 2  MaxCap = 2  MaxStack = 2  MaxLevel = 400  Families = {"L", "D"}  EnvD = TRUE
CONSTANT Configs <- McConfigs
INIT Init
NEXT Next
CONSTRAINT Bound
VIEW View
INVARIANT TypeOK
INVARIANT BOLOnceFirst
INVARIANT StartSampledAfterBOL
INVARIANT ScheduleIsNestedLoop
INVARIANT EOLOnceLast
INVARIANT HaltStopsLoopAndRunsEOL
INVARIANT NodesOnceInOrder
INVARIANT CouplingUntilConvergedOrCap
INVARIANT DispatchExactlyActiveInOrder
INVARIANT DispatchLaw
INVARIANT ArgsMatchTimeState
CHECK_DEADLOCK FALSE
