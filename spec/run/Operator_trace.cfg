CONSTANT Configs <- NoConfigs
SPECIFICATION TSpec
CONSTRAINT Progress
POSTCONDITION Report
INVARIANT TypeOK
INVARIANT BOLOnceFirst
INVARIANT StartSampledAfterBOL
INVARIANT ScheduleIsNestedLoop
INVARIANT EOLOnceLast
INVARIANT HaltStopsLoopAndRunsEOL
INVARIANT NodesOnceInOrder
INVARIANT CouplingUntilConvergedOrCap
INVARIANT DispatchExactlyActiveInOrder
INVARIANT ArgsMatchTimeState
CHECK_DEADLOCK FALSE
