\* emission (thorough): every history of up to 3 cycles, one printed case per state
CONSTANTS MaxCycles = 3
  SimpleBurn = {0, 1, 2, 3}  SimpleLens = {10, 15}  SimpleAvails <- McAvails3  SimplePows <- McPows2
  StepLists <- McStepLists2  CumLists <- McCumLists2  BsCounts = {0, 2}  BsLens = {10}
  DetAvails <- McAvailsOne  BsAvails <- McAvails3  PfKinds <- McPf1
INIT Init
NEXT Next
CONSTRAINT Bound
INVARIANT EmitCase
INVARIANT StepsSumToAvailTimesLength
INVARIANT StepLengthsNonNegative
INVARIANT ShapesAgree
INVARIANT NumberingIsVisitOrder
INVARIANT NodeConversionsInverse
INVARIANT StepConversionsInverse
INVARIANT PrevIsVisitPredecessor
CHECK_DEADLOCK FALSE
