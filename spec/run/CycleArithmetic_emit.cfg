\* emission (quick): every history of up to 2 cycles over richer value sets, one printed case per state
CONSTANTS MaxCycles = 2
  SimpleBurn = {0, 1, 2, 3}  SimpleLens = {10, 15}  SimpleAvails <- McAvails3  SimplePows <- McPows
  StepLists <- McStepLists  CumLists <- McCumLists  BsCounts = {0, 1, 2}  BsLens = {10}
  DetAvails <- McAvailsPos  BsAvails <- McAvails3  PfKinds <- McPf
INIT Init
NEXT Next
CONSTRAINT Bound
INVARIANT EmitCase
INVARIANT StepsSumToAvailTimesLength
INVARIANT StepLengthsNonNegative
INVARIANT ShapesAgree
INVARIANT NumberingIsVisitOrder
INVARIANT NodeConversionsInverse
INVARIANT StepConversionsInverse
INVARIANT PrevIsVisitPredecessor
CHECK_DEADLOCK FALSE
