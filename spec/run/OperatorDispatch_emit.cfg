\* 3 interface names, 4 flag combinations, every insertion index, every flag setter; interface 2 is deferred until cycle 1
CONSTANTS NI = 3  DCyc = 1  NCycQ = 3  MaxLevel = 4
CONSTANT Named <- McNamed
CONSTANT FlagChoices <- McFlags4
CONSTANT ExclChoices <- McExcl
INIT Init
NEXT Next
CONSTRAINT Bound
VIEW View
ACTION_CONSTRAINT Emit
INVARIANT EmitState
INVARIANT NoDuplicateNames
INVARIANT DispatchLaw
PROPERTY RefusalsChangeNothing
PROPERTY AddIsOneDirectional
CHECK_DEADLOCK FALSE
