--------------------------------------- MODULE OperatorStack ---------------------------------------
(* C15 -- which interfaces of the stack are called at an event, and in which order.
   Pure definitions shared by Operator (the run) and OperatorDispatch (stack construction + the public
   interactAll* / getActiveInterfaces entry points with exclusion lists).

   An interface is a record  [en, bf, rev, dfr, cpl, hlt] :
     en   Interface.enabled()                      (addInterface(enabled=...))
     bf   Interface.bolForce()                     (addInterface(bolForce=...))
     rev  Interface.reverseAtEOL                   (addInterface(reverseAtEOL=...))
     dfr  its name is listed in cs["deferredInterfaceNames"]
     cpl  it carries a TightCoupler                (Interface.coupler is not None)
     hlt  its interactBOC may return True (halt request)
   A stack `ifs` is a sequence of such records in stack order (Operator.interfaces).

   Events: BOL BOC EN (EveryNode) CPL (Coupled) EOC EOL.

   The statement: "At each event exactly the interfaces that are enabled (or forced at beginning-of-life) and not
   excluded or deferred are called, once each, in stack order - at end-of-life the reverse-flagged ones last in
   reverse order".

   Interpretation choices (each cites the code or the pinned upstream test it encodes):
   * "deferred": cs["deferredInterfaceNames"] postpones the *beginning* hooks of the named interfaces: they are not
     called at BOL at all, and not at BOC of cycles c < cs["deferredInterfacesCycle"]; their EveryNode / Coupled /
     EOC / EOL hooks are not deferred (operator.py getActiveInterfaces lines 1026-1036; upstream
     test_operators.test_getActiveInterfaces asserts that a deferred interface IS active at EveryNode).
   * "excluded": excludedInterfaceNames is an argument of interactAllBOL / EveryNode / EOC / EOL only; a standard
     run passes none.  interactAllBOC and interactAllCoupled take no exclusion list, so exclusion is defined for the
     four events that accept it.
   IsActive is the declarative reading ("from first principles"); ActiveSeq transcribes the list comprehension and
   the EOL re-ordering of getActiveInterfaces; DispatchLaw (an invariant of both client modules) says they agree.
*)
EXTENDS Integers, Sequences, FiniteSets, SequencesExt

Events == {"BOL", "BOC", "EN", "CPL", "EOC", "EOL"}
ExclEvents == {"BOL", "EN", "EOC", "EOL"}            \* the events whose public entry point takes excludedInterfaceNames

IfaceRec == [en : BOOLEAN, bf : BOOLEAN, rev : BOOLEAN, dfr : BOOLEAN, cpl : BOOLEAN, hlt : BOOLEAN]
Iface(en, bf, rev, dfr, cpl, hlt) == [en |-> en, bf |-> bf, rev |-> rev, dfr |-> dfr, cpl |-> cpl, hlt |-> hlt]

(* ---------- declarative: who is called ---------- *)
SwitchedOn(ifs, ev, i) == ifs[i].en \/ (ev = "BOL" /\ ifs[i].bf)
IsDeferred(ifs, ev, i, c, dcyc) == ifs[i].dfr /\ (ev = "BOL" \/ (ev = "BOC" /\ c < dcyc))
IsExcluded(ev, i, excl) == i \in excl /\ ev \in ExclEvents
IsActive(ifs, ev, i, c, dcyc, excl) ==
    SwitchedOn(ifs, ev, i) /\ ~IsDeferred(ifs, ev, i, c, dcyc) /\ ~IsExcluded(ev, i, excl)
ActiveSet(ifs, ev, c, dcyc, excl) == {i \in 1..Len(ifs) : IsActive(ifs, ev, i, c, dcyc, excl)}

\* a is called before b
Before(ifs, ev, a, b) ==
    IF ev # "EOL" THEN a < b
    ELSE \/ ~ifs[a].rev /\ ifs[b].rev                       \* reverse-flagged ones last
         \/ ~ifs[a].rev /\ ~ifs[b].rev /\ a < b             \* the others in stack order
         \/ ifs[a].rev /\ ifs[b].rev /\ a > b               \* the reverse-flagged ones in reverse stack order
\* s is a legal call order for the event: exactly the active ones, once each, ordered
IsDispatchOrder(s, ifs, ev, c, dcyc, excl) ==
    /\ {s[k] : k \in 1..Len(s)} = ActiveSet(ifs, ev, c, dcyc, excl)
    /\ \A p, q \in 1..Len(s) : p < q => s[p] # s[q] /\ Before(ifs, ev, s[p], s[q])

(* ---------- constructive: transcription of Operator.getActiveInterfaces ---------- *)
ActiveSeq(ifs, ev, c, dcyc, excl) ==
    LET a == SelectSeq([i \in 1..Len(ifs) |-> i], LAMBDA i : IsActive(ifs, ev, i, c, dcyc, excl)) IN
    IF ev = "EOL"
    THEN SelectSeq(a, LAMBDA i : ~ifs[i].rev) \o Reverse(SelectSeq(a, LAMBDA i : ifs[i].rev))
    ELSE a

DispatchLawFor(ifs, dcyc, cycles, excls) ==
    \A ev \in Events, c \in cycles, excl \in excls :
        IsDispatchOrder(ActiveSeq(ifs, ev, c, dcyc, excl), ifs, ev, c, dcyc, excl)
=====================================================================================================
