------------------------------------------ MODULE RunWithDb ------------------------------------------
(* C06 (second half) -- "If a run aborts inside any interface other than the database writer itself, at any interaction
   point between the opening of the database and its finalisation at end-of-life, the file left in the working directory
   opens, holds every snapshot completed before the failure plus the state at the failure, and is marked as not
   successfully completed; a completed run is marked successful and holds every node plus the end-of-life state."

   The run loop is Operator.tla of C15 (EXTENDS: every control action and the hook dispatch `Call` are used unchanged).
   This module adds what the hooks of three kinds of interface do to the database and to the reactor state, and the
   failure of a hook:

     roles[i]   the kind of the interface at stack position i
                  "main"  armi.bookkeeping.mainInterface.MainInterface     interactBOL: dbi.initDB()  (opens the database)
                  "db"    armi.bookkeeping.db.databaseInterface.DatabaseInterface
                            interactBOL        initDB() unless already open
                            interactEveryNode  writeDBEveryNode() -> writeToDB(r)   unless cs["tightCoupling"]
                            interactEOL        writeToDB(r, "EOL"); close(True)     (finalisation)
                            interactError      try: writeToDB(r, "error"); close(False)  except: pass
                  "f"     an interface of the application: every hook changes the reactor state (val' = val + 1), or fails
     RDbWrite   Operator._performTightCoupling: getInterface("database").writeDBEveryNode() after the coupled iterations --
                also in the cycles that are exempt from coupling (cfg.skip, cyclesSkipTightCouplingInteraction): every node of
                every cycle is written whatever the coupling settings are
     Fail(kind) the hook about to be called raises -- an ordinary exception (RuntimeError, an application's own Exception
                subclass) or something that is not an Exception (SystemExit from sys.exit(1), KeyboardInterrupt, another
                BaseException subclass); the file left behind is the same for every kind.  `with o: o.operate()` -> Operator.__exit__ -> interactAllError ->
                DatabaseInterface.interactError; the run is over (crash records where).  Database.close moves the file from the
                fast path to the working directory, so the file is in the working directory iff it was closed.

   db = [st : "none" | "open" | "closed", ok : successfulCompletion, cwd : the .h5 exists in the working directory,
         snaps : sequence of [c, n, lab, val, at] in group-name order]  (val = the reactor state stored; at = Len(log) then)

     Restart    a second run (phase 2) restarted from the file the first run left in the working directory -- completed, or
                aborted (then at the node of the failure): case settings loadStyle = fromDB, reloadDBName = that file,
                startCycle / startNode = the restart point.  MainInterface.interactBOL then calls
                DatabaseInterface.prepRestartRun: mergeHistory(reload file, startCycle, startNode) into the fresh database,
                loadState(previous node) -- the reactor continues from the stored state -- and, when startNode = 0,
                interactAllEOC for the previous cycle (each "f" interface changes the state once more).

     probes     a restarted run asks Operator.loadState for every node of the history at the end-of-cycle and end-of-life
                hooks of its first application interface: steps this run has written are answered from the live database
                (the reload file holds the same steps with the earlier run's, different, state), later ones from the reload file.

   All single failures: Fail is enabled at every dispatch of a hook of an "f" interface (before and after the database
   interface in the stack, at BOL / BOC / EveryNode / Coupled / EOC / EOL of every cycle and node), once per run.

   Interpretation choices
   * "interaction point between the opening of the database and its finalisation": a failure before the database was opened
     (stack without MainInterface: the database interface opens the file in its own interactBOL, an interface before it
     fails at BOL) leaves no file at all; a failure after interactEOL of the database interface (an interface later in the
     end-of-life order) finds the file finalised: it stays complete and marked successful.  Both are outside the
     window of the statement and are modelled as what they are.
   * "every snapshot completed before the failure": the snapshots of exactly the nodes whose database write was dispatched
     before the failure (read off the operator's call log, independently of the db variable), unlabelled.
   * "the state at the failure": the snapshot labelled "error" under the (cycle, node) the reactor was in, holding the
     reactor state as it was when the hook failed (a failing hook changes nothing).
   * "every node": the nodes of the nested loop from the start point (CycleArithmeticDefs!VisitFrom);
     "the end-of-life state": the snapshot labelled "EOL" under the last node.
   * "merging history for a restart copies exactly the requested steps, unchanged": the restarted run's file begins with
     every snapshot of the reload file strictly before the restart point (labelled ones included), with the values the
     first run stored; the restarted run then adds its own nodes, so a completed restart from a complete (or aborted)
     file holds every node of the history.  Failures inside the nested end-of-cycle dispatch of the restart are not modelled.
*)
EXTENDS Operator

CONSTANTS FailKinds      \* what a failing hook raises: names of exception classes (see Fail)

VARIABLES roles, db, val, crash, phase, src, crash1, probes, touched
rvars == <<roles, db, val, crash, phase, src, crash1, probes, touched>>
allvars == <<vars, rvars>>

NoConfigs == {}
RunLabels == <<"", "EOL", "error">>
RLabRank(l) == CHOOSE i \in 1..3 : RunLabels[i] = l
NoCrash == [e |-> "none", i |-> 0, c |-> None, n |-> None, it |-> None, open |-> FALSE, kind |-> "none"]
Running == crash.e = "none"

NoDb   == [st |-> "none", ok |-> FALSE, cwd |-> FALSE, snaps |-> <<>>]
OpenDb == [st |-> "open", ok |-> FALSE, cwd |-> FALSE, snaps |-> <<>>]
RNameLess(a, b) == \/ a.c < b.c \/ (a.c = b.c /\ a.n < b.n)
                   \/ (a.c = b.c /\ a.n = b.n /\ RLabRank(a.lab) < RLabRank(b.lab))
RInsert(s, e) == LET k == Cardinality({j \in 1..Len(s) : RNameLess(s[j], e)}) IN SubSeq(s, 1, k) \o <<e>> \o SubSeq(s, k + 1, Len(s))
\* Database.writeToDB(r, label): the group is named after the reactor's (cycle, node) and holds the reactor state as of now
WriteSnap(d, lab) == [d EXCEPT !.snaps = RInsert(@, [c |-> rc, n |-> rn, lab |-> lab, val |-> val, at |-> Len(log)])]
Closed(d, ok) == [d EXCEPT !.st = "closed", !.ok = ok, !.cwd = TRUE]          \* Database.close(ok): mark, move to the cwd
\* DatabaseInterface.interactError
ErrorHook(d) == IF d.st = "open" THEN Closed(WriteSnap(d, "error"), FALSE) ELSE d

\* stack positions by kind; flags of the Operator configuration for a stack (MainInterface is registered reverseAtEOL;
\* the application interfaces carry a coupler when the case is tightly coupled)
IfsOf(stack, tight) ==
    [k \in 1..Len(stack) |-> CASE stack[k] = "main" -> Iface(TRUE, FALSE, TRUE, FALSE, FALSE, FALSE)
                               [] stack[k] = "f"    -> Iface(TRUE, FALSE, FALSE, FALSE, tight, FALSE)
                               [] OTHER             -> Iface(TRUE, FALSE, FALSE, FALSE, FALSE, FALSE)]
\* bolset (Operator.tla): 0 = the reactor is at (sc, sn) when operate() is entered; i > 0 = the run is entered at (0, 0) and the
\* BOL hook of interface i moves the reactor to (sc, sn) -- what MainInterface.interactBOL does in a restart
\* skip[c + 1]: cycle c is listed in cyclesSkipTightCouplingInteraction (only meaningful with tight coupling): no coupled
\* iterations in that cycle, but _performTightCoupling still writes the database after every node
RunCfg(steps, sc, sn, stack, tight, skip, bolset) ==
    [steps |-> steps, sc |-> sc, sn |-> sn, ifs |-> IfsOf(stack, tight), dcyc |-> 0, tight |-> tight, cap |-> 1,
     skip |-> skip, bolset |-> bolset]
DbI == CHOOSE i \in 1..Len(roles) : roles[i] = "db"

RInitWith(steps, sc, sn, stack, tight, skip) ==
    /\ InitWith(RunCfg(steps, sc, sn, stack, tight, skip, 0))
    /\ roles = stack /\ db = NoDb /\ val = 0 /\ crash = NoCrash
    /\ phase = 1 /\ src = <<>> /\ crash1 = NoCrash /\ probes = <<>> /\ touched = {}

(* ---------- restart ---------- *)
NodeLess(c1, n1, c2, n2) == c1 < c2 \/ (c1 = c2 /\ n1 < n2)
\* mergeHistory(reload file, startCycle, startNode): everything strictly before the restart point
MergedFrom(file, sc, sn) == SelectSeq(file, LAMBDA s : NodeLess(s.c, s.n, sc, sn))
Merged == IF phase = 2 THEN [k \in 1..Len(MergedFrom(src, cfg.sc, cfg.sn)) |-> [MergedFrom(src, cfg.sc, cfg.sn)[k] EXCEPT !.at = 0 - 1]]
          ELSE <<>>
NumF == Cardinality({i \in 1..Len(roles) : roles[i] = "f"})
\* loadState(previous node) [+ interactAllEOC when the restart point is the first node of a cycle]
RestartVal ==
    LET pv == PrevNode(cfg.steps, cfg.sc, cfg.sn)
        k == CHOOSE j \in 1..Len(src) : src[j].c = pv[1] /\ src[j].n = pv[2] /\ src[j].lab = "" IN
    src[k].val + (IF cfg.sn = 0 THEN NumF ELSE 0)

(* ---------- what the hook of interface i does at the current event ---------- *)
HookEffect(i) ==
    CASE roles[i] = "main" /\ pc = "BOL" /\ phase = 1 -> db' = OpenDb /\ val' = val
      [] roles[i] = "main" /\ pc = "BOL" /\ phase = 2 -> db' = [OpenDb EXCEPT !.snaps = Merged] /\ val' = RestartVal
      [] roles[i] = "db" /\ pc = "BOL"   -> db' = (IF db.st = "none" THEN OpenDb ELSE db) /\ val' = val
      [] roles[i] = "db" /\ pc = "EN" /\ ~cfg.tight -> db' = WriteSnap(db, "") /\ val' = val
      [] roles[i] = "db" /\ pc = "EOL"   -> db' = Closed(WriteSnap(db, "EOL"), TRUE) /\ val' = val
      [] roles[i] = "f"                  -> db' = db /\ val' = val + 1
      [] OTHER                           -> db' = db /\ val' = val

(* ---------- loadState queries of a restarted run ---------- *)
\* Operator.loadState(c, n) -> DatabaseInterface.loadState: the database being written is asked first, the reload database
\* (cs["reloadDBName"]) only for steps the live one does not hold.  The first application interface asks for every node of the
\* history at its end-of-cycle and end-of-life hooks of a restarted run (and puts the reactor back): the steps written by
\* this run answer with this run's state -- although the reload file, a completed earlier run, holds the same steps with the
\* earlier run's state --, later steps are still served by the reload file.  -1: no database holds the step.
FirstF == CHOOSE i \in 1..Len(roles) : roles[i] = "f" /\ \A j \in 1..(i - 1) : roles[j] # "f"
ProbeHere(i) == phase = 2 /\ i = FirstF /\ pc \in {"EOC", "EOL"}
PlainVal(file, c, n) ==
    LET I == {k \in 1..Len(file) : file[k].c = c /\ file[k].n = n /\ file[k].lab = ""} IN
    IF I = {} THEN 0 - 1 ELSE file[CHOOSE k \in I : TRUE].val
LoadStateVal(c, n) == IF PlainVal(db.snaps, c, n) # 0 - 1 THEN PlainVal(db.snaps, c, n) ELSE PlainVal(src, c, n)
ProbeNow == LET v == VisitOrder(cfg.steps) IN
            [e |-> pc, c |-> rc, n |-> rn, at |-> Len(log),
             vals |-> [k \in 1..Len(v) |-> <<v[k][1], v[k][2], LoadStateVal(v[k][1], v[k][2])>>]]

(* ---------- auxiliary data of other interfaces ---------- *)
\* Database.getH5Group(r) is the documented way for "other interfaces to place data into the database at the correct
\* timestep": it creates the group of the current (cycle, node) if it is not there yet.  In the uncoupled runs with a
\* MainInterface the first application interface does so in its interactEveryNode, i.e. BEFORE the database interface writes
\* the node: the group then exists already, and the node's reactor state must be written into it all the same (every listed
\* step stays loadable).  touched = the nodes whose group was created this way.
Touching == ~cfg.tight /\ roles[1] = "main"
TouchHere(i) == Touching /\ i = FirstF /\ pc = "EN"

RCall == /\ Running /\ Call
         /\ lastc'.cv = TRUE                    \* environment: the couplers report convergence at once (cap = 1 anyway)
         /\ HookEffect(Head(queue))
         /\ probes' = (IF ProbeHere(Head(queue)) THEN Append(probes, ProbeNow) ELSE probes)
         /\ touched' = (IF TouchHere(Head(queue)) THEN touched \cup {<<rc, rn>>} ELSE touched)
         /\ UNCHANGED <<roles, crash, phase, src, crash1>>
RDbWrite == /\ Running /\ DbWrite
            /\ db' = WriteSnap(db, "")
            /\ UNCHANGED <<roles, val, crash, phase, src, crash1, probes, touched>>
RControl == Running /\ Control /\ UNCHANGED rvars
\* kind: the class of what the hook raises -- an ordinary exception or one that is not an Exception (SystemExit from sys.exit,
\* KeyboardInterrupt, another BaseException): Operator.__exit__ runs the error hooks whenever anything is passing through, so
\* the file left behind does not depend on the kind
Fail(kind) ==
        /\ Running /\ pc \in Events /\ queue # <<>> /\ roles[Head(queue)] = "f"
        /\ crash' = [e |-> pc, i |-> Head(queue), c |-> rc, n |-> rn, it |-> (IF pc = "CPL" THEN iter ELSE None),
                     open |-> db.st = "open", kind |-> kind]
        /\ db' = ErrorHook(db)
        /\ UNCHANGED <<vars, roles, val, phase, src, crash1, probes, touched>>
\* Operator!InitWith for the next state (TLC cannot assign through a primed operator application); RestartIsInit checks that
\* the two agree
ReInit(c) ==
    /\ cfg' = c /\ pc' = "Start" /\ cycle' = EntryPoint(c)[1] /\ node' = EntryPoint(c)[2] /\ iter' = 0 /\ queue' = <<>>
    /\ halt' = FALSE /\ conv' = TRUE
    /\ rc' = EntryPoint(c)[1] /\ rn' = EntryPoint(c)[2] /\ ci' = 0 /\ sl' = NoRef /\ pw' = NoRef /\ log' = <<>>
    /\ evs' = <<>> /\ cvs' = <<>> /\ called' = <<>> /\ lastc' = NoCall /\ haltedAt' = None /\ haltReq' = <<>> /\ startAt' = NoRef
RestartIsInit == (phase = 2 /\ pc = "Start") => InitWith(cfg)
\* the second run: a fresh operator and reactor built from the input, restart settings pointing at the file of the first run
Restart(sc, sn) ==
    /\ phase = 1 /\ cfg.sc = 0 /\ cfg.sn = 0 /\ db.cwd /\ roles[1] = "main"
    /\ <<sc, sn>> \in Nodes(cfg.steps) /\ <<sc, sn>> # <<0, 0>>
    /\ \/ pc = "Done" /\ Running                                         \* from a completed run: any later node
       \/ /\ ~Running /\ crash.open /\ sc = crash.c /\ sn = crash.n          \* from an aborted run: the node of the failure
          /\ crash.kind = CHOOSE k \in FailKinds : TRUE                   \* (the file is the same for every kind: one is enough)
    /\ ReInit(RunCfg(cfg.steps, sc, sn, roles, cfg.tight, cfg.skip, 1))          \* the BOL hook of MainInterface sets the restart point
    /\ phase' = 2 /\ src' = db.snaps /\ crash1' = crash
    /\ roles' = roles /\ db' = NoDb /\ val' = 0 /\ crash' = NoCrash /\ probes' = <<>> /\ touched' = {}
RNext == RControl \/ RCall \/ RDbWrite \/ \E kind \in FailKinds : Fail(kind)
RNextR == RNext \/ \E cn \in Nodes(cfg.steps) : Restart(cn[1], cn[2])

(* ---------- the clauses ---------- *)
KeyOf(s) == <<s.c, s.n, s.lab>>
DbKeys == {KeyOf(db.snaps[k]) : k \in 1..Len(db.snaps)}
SnapAt(c, n, lab) == db.snaps[CHOOSE k \in 1..Len(db.snaps) : KeyOf(db.snaps[k]) = <<c, n, lab>>]
\* nodes whose database write was dispatched, read off the operator's call log
IsWriteEntry(en) == (en.e = "EN" /\ en.i = DbI /\ ~cfg.tight) \/ en.e = "DBW"
WrittenNodes == {<<log[k].rc, log[k].rn>> : k \in {j \in 1..Len(log) : IsWriteEntry(log[j])}}
FCallsUpTo(m) == Cardinality({j \in 1..m : log[j].i >= 1 /\ roles[log[j].i] = "f"})
AllNodes == LET v == VisitFrom(cfg.steps, cfg.sc, cfg.sn) IN {v[k] : k \in 1..Len(v)}
LastNode == LET v == VisitFrom(cfg.steps, cfg.sc, cfg.sn) IN v[Len(v)]
Finalised == \E j \in 1..Len(log) : log[j].e = "EOL" /\ log[j].i = DbI
\* what a restarted run inherits (once its database is open)
MergedKeys == IF db.st = "none" THEN {} ELSE {KeyOf(Merged[k]) : k \in 1..Len(Merged)}
NodeKeys(S) == {<<pr[1], pr[2], "">> : pr \in S}

RTypeOK == /\ db.st \in {"none", "open", "closed"} /\ db.ok \in BOOLEAN /\ db.cwd \in BOOLEAN /\ val \in Nat
           /\ \A k \in 1..Len(db.snaps) : db.snaps[k].lab \in {"", "EOL", "error"}
           /\ \A j, k \in 1..Len(db.snaps) : j < k => RNameLess(db.snaps[j], db.snaps[k])

\* aborted inside the window: the file is in the working directory, closed, not successful, and holds exactly the
\* snapshots completed before plus the state at the failure
AbortedRunLeavesFile ==
    (~Running /\ crash.open) =>
        /\ db.st = "closed" /\ db.cwd /\ ~db.ok
        /\ DbKeys = MergedKeys \cup NodeKeys(WrittenNodes) \cup {<<crash.c, crash.n, "error">>}
        /\ SnapAt(crash.c, crash.n, "error").val = val
        /\ crash.c = rc /\ crash.n = rn
\* aborted outside the window
AbortedOutsideWindow ==
    (~Running /\ ~crash.open) =>
        \/ db.st = "none" /\ ~db.cwd /\ db.snaps = <<>> /\ ~Finalised          \* before the opening: nothing was written
        \/ db.st = "closed" /\ db.cwd /\ db.ok /\ Finalised                    \* after the finalisation: complete, successful
CompletedRunIsSuccessful ==
    pc = "Done" =>
        /\ Running /\ db.st = "closed" /\ db.cwd /\ db.ok
        /\ DbKeys = MergedKeys \cup NodeKeys(AllNodes) \cup {<<LastNode[1], LastNode[2], "EOL">>}
FinalisedFileIsComplete ==
    (db.st = "closed" /\ db.ok) =>
        /\ Finalised
        /\ DbKeys = MergedKeys \cup NodeKeys(AllNodes) \cup {<<LastNode[1], LastNode[2], "EOL">>}
\* a completed restart holds every node of the whole history: the nodes before the restart point come from the reload file
RestartHoldsWholeHistory ==
    (phase = 2 /\ pc = "Done") => NodeKeys(Nodes(cfg.steps)) \subseteq DbKeys
\* "copies exactly the requested steps, unchanged": the inherited snapshots are those of the reload file strictly before the
\* restart point, with the stored state of the first run
MergedUnchanged ==
    (phase = 2 /\ db.st # "none") =>
        \A k \in 1..Len(db.snaps) :
            db.snaps[k].at < 0 <=> (\E j \in 1..Len(src) : /\ KeyOf(src[j]) = KeyOf(db.snaps[k]) /\ src[j].val = db.snaps[k].val
                                                          /\ NodeLess(src[j].c, src[j].n, cfg.sc, cfg.sn)
                                                          /\ db.snaps[k].at < 0)
\* every snapshot holds the reactor state as of its write: the number of state changes made before it
SnapshotsHoldStateAtWrite ==
    \A k \in 1..Len(db.snaps) : db.snaps[k].at >= 0 =>
        db.snaps[k].val = FCallsUpTo(db.snaps[k].at) + (IF phase = 2 THEN RestartVal ELSE 0)
\* not successful until the clean close; in the working directory iff closed
MarkAndPlace == (db.ok => db.st = "closed" /\ Finalised) /\ (db.cwd <=> db.st = "closed")
\* while the run is going the file holds exactly the nodes written so far
RunningFileHoldsWrittenNodes ==
    (Running /\ db.st = "open") => DbKeys = MergedKeys \cup NodeKeys(WrittenNodes)

\* "loading a snapshot returns the state as of that write": a step this run had written (or inherited) when the question was
\* asked is answered from the live database with the state stored there, whatever the reload file says about that step
ProbesServeLive ==
    \A k \in 1..Len(probes) : \A j \in 1..Len(probes[k].vals) :
        LET v == probes[k].vals[j]
            I == {m \in 1..Len(db.snaps) : db.snaps[m].c = v[1] /\ db.snaps[m].n = v[2] /\ db.snaps[m].lab = "" /\ db.snaps[m].at < probes[k].at} IN
        IF I # {} THEN v[3] = db.snaps[CHOOSE m \in I : TRUE].val ELSE v[3] = PlainVal(src, v[1], v[2])
\* the two files really disagree about the steps both hold from the restart point on (otherwise the clause would be vacuous)
RestartedStatesDiffer ==
    (phase = 2 /\ pc = "Done") =>
        \A m \in 1..Len(db.snaps) : (db.snaps[m].at >= 0 /\ db.snaps[m].lab = "" /\ PlainVal(src, db.snaps[m].c, db.snaps[m].n) # 0 - 1)
                                       => db.snaps[m].val # PlainVal(src, db.snaps[m].c, db.snaps[m].n)

\* a group created for auxiliary data receives the reactor state of its node like any other: it is a complete snapshot as
\* soon as the database interface has had its turn in the same event (no failure point lies between the two hooks)
TouchedNodesAreWritten ==
    \A t \in touched : \/ <<t[1], t[2], "">> \in DbKeys
                        \/ (Running /\ pc = "EN" /\ t = <<rc, rn>> /\ \A k \in 1..Len(called) : called[k].i # DbI)
TouchingHappens == (pc = "Done" /\ Touching) => touched = AllNodes

FileView == [exists |-> db.cwd, ok |-> db.ok,
             snaps |-> [k \in 1..Len(db.snaps) |-> [c |-> db.snaps[k].c, n |-> db.snaps[k].n, lab |-> db.snaps[k].lab,
                                                     val |-> db.snaps[k].val]]]
=====================================================================================================
