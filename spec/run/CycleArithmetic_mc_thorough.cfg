\* exhaustive: every history of up to 3 cycles over the value sets; all laws
CONSTANTS MaxCycles = 3
  SimpleBurn = {0, 1, 2, 3}  SimpleLens = {10, 15}  SimpleAvails <- McAvails3  SimplePows <- McPows
  StepLists <- McStepLists  CumLists <- McCumLists  BsCounts = {0, 1, 2}  BsLens = {10}
  DetAvails <- McAvailsPos  BsAvails <- McAvails3  PfKinds <- McPf
INIT Init
NEXT Next
CONSTRAINT Bound
INVARIANT StepsSumToAvailTimesLength
INVARIANT StepLengthsNonNegative
INVARIANT ShapesAgree
INVARIANT NumberingIsVisitOrder
INVARIANT NodeConversionsInverse
INVARIANT StepConversionsInverse
INVARIANT PrevIsVisitPredecessor
CHECK_DEADLOCK FALSE
