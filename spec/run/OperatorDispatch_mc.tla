------------------------------------ MODULE OperatorDispatch_mc ------------------------------------
EXTENDS OperatorDispatch
F(en, bf, rev) == [en |-> en, bf |-> bf, rev |-> rev]
McFlags4 == {F(TRUE, FALSE, FALSE), F(FALSE, FALSE, FALSE), F(FALSE, TRUE, FALSE), F(TRUE, FALSE, TRUE)}
McFlags8 == {F(a, b, c) : a \in BOOLEAN, b \in BOOLEAN, c \in BOOLEAN}
McExcl == {{}, {1}, {2}, {3}, {1, 2}, {2, 3}}
McNamed == {2}
View == vars
Bound == TLCGet("level") <= MaxLevel
ASSUME PrintT(ToJson([dcyc |-> DCyc, ncyc |-> NCycQ, named |-> SetToSortSeq(Named, <)]))
Emit == PrintT(ToJson([lvl |-> TLCGet("level"), from |-> Vars, act |-> act', to |-> Vars', err |-> err']))
EmitState == PrintT(ToJson([st |-> Vars, obs |-> Obs]))
=====================================================================================================
