----------------------------------------- MODULE RunWithDb_mc -----------------------------------------
(* TLC configurations of RunWithDb: every cycle history of <= MaxCyc cycles x 0..MaxBurn burn steps, the start points
   chosen by WithStarts, both stacks, coupling off / on (with every set of cycles exempt from coupling); every single failure. *)
EXTENDS RunWithDb
CONSTANTS MaxCyc, MaxBurn, Tights, WithStarts, MaxLevel, RestartFrom, Phase2Fails

RHists == UNION {[1..k -> 0..MaxBurn] : k \in 1..MaxCyc}
RStarts(steps) == IF WithStarts THEN UNION {{<<c, n>> : n \in 0..steps[c + 1]} : c \in 0..(Len(steps) - 1)} ELSE {<<0, 0>>}
Stacks == {<<"main", "f", "db", "f">>, <<"f", "db", "f">>}
\* exempt-cycle patterns: none without coupling; with coupling every subset of the cycles
RSkips(h, tg) == IF tg THEN [1..Len(h) -> BOOLEAN] ELSE {[k \in 1..Len(h) |-> FALSE]}
RInit == \E h \in RHists, stack \in Stacks, tg \in Tights : \E s \in RStarts(h), sk \in RSkips(h, tg) :
             RInitWith(h, s[1], s[2], stack, tg, sk)
\* which first runs are restarted (RestartFrom \subseteq {"completed", "aborted"}) and whether the restarted run may fail too
RestartOK == /\ (phase = 2 /\ crash1.e = "none") => "completed" \in RestartFrom
             /\ (phase = 2 /\ crash1.e # "none") => "aborted" \in RestartFrom
             /\ (phase = 2 /\ ~Running) => Phase2Fails
Bound == TLCGet("level") <= MaxLevel /\ RestartOK
\* one JSON line per finished run (completed or aborted): configuration, failure point, the file the specification predicts
EmitRun == (pc = "Done" \/ ~Running) =>
              PrintT(ToJson([steps |-> cfg.steps, sc |-> cfg.sc, sn |-> cfg.sn, tight |-> cfg.tight, skip |-> cfg.skip, roles |-> roles,
                             crash |-> crash, file |-> FileView, val |-> val, phase |-> phase, crash1 |-> crash1, probes |-> probes, touch |-> Touching,
                             nsrc |-> Len(src)]))
=====================================================================================================
