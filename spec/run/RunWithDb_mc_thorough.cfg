\* exhaustive (thorough): histories of <= 2 cycles x 0..2 burn steps from every start point, two stacks, coupling off / on, all single failures
CONSTANTS MaxCyc = 2  MaxBurn = 2  Tights = {FALSE, TRUE}  WithStarts = TRUE  MaxLevel = 400
CONSTANTS RestartFrom = {"completed", "aborted"}  Phase2Fails = TRUE
CONSTANT FailKinds = {"RuntimeError", "CustomError", "SystemExit", "KeyboardInterrupt", "BaseException"}
CONSTANT Configs <- NoConfigs
INIT RInit
NEXT RNextR
CONSTRAINT Bound
INVARIANT RTypeOK
INVARIANT AbortedRunLeavesFile
INVARIANT AbortedOutsideWindow
INVARIANT CompletedRunIsSuccessful
INVARIANT FinalisedFileIsComplete
INVARIANT SnapshotsHoldStateAtWrite
INVARIANT MarkAndPlace
INVARIANT RestartHoldsWholeHistory
INVARIANT MergedUnchanged
INVARIANT RestartIsInit
INVARIANT ProbesServeLive
INVARIANT TouchedNodesAreWritten
INVARIANT TouchingHappens
INVARIANT RestartedStatesDiffer
INVARIANT RunningFileHoldsWrittenNodes
INVARIANT ScheduleIsNestedLoop
INVARIANT DispatchExactlyActiveInOrder
CHECK_DEADLOCK FALSE
