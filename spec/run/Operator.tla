------------------------------------------ MODULE Operator ------------------------------------------
(* C15 -- "A run visits every time node once, in order, calling hooks in stack order".

   The model is a transcription of the standard run loop of armi/operators/operator.py, one action per hook
   dispatch (Call) and one action per piece of loop control between two events:

     DoBOL     Operator._mainOperate: interactAllBOL()
     Call      Operator._interactAll: the hook of the next interface of the event is called and its answer is or-ed into
               `halt` (the code writes `halt = halt or interactMethod(args)`; see "Where the code departs" below)
     SampleStart  _mainOperate: `startingCycle = self.r.p.cycle` -- THE read point of the restart position: it comes after
               the whole BOL event, because a beginning-of-life hook may move the reactor's time state (MainInterface.
               interactBOL does so for loadStyle=fromDB: r.p.cycle/timeNode = startCycle/startNode); then enter
               `for cycle in range(startingCycle, nCycles)`; _cycleLoop reads the start node from r.p.timeNode
     EndBOC    _cycleLoop after interactAllBOC: `if halt: return False` (-> EOL), else first time node
     EndEN     _timeNodeLoop / _performTightCoupling after interactAllEveryNode: coupling off -> next node;
               cycle exempt (cyclesSkipTightCouplingInteraction) or cap 0 -> DB write; else first coupled iteration
     EndCPL    _performTightCoupling after interactAllCoupled + _checkTightCouplingConvergence:
               converged or cap reached -> DB write, else next iteration
     DbWrite   _performTightCoupling: getInterface("database").writeDBEveryNode()  (only when coupling is on); then
               next node of the cycle, or EOC after the last one
     EndEOC    next cycle (timeNode reset to 0) or EOL
     EndEOL    operate() returns

   State
     cfg      the configuration of the run (constant along a behaviour):
                steps[c+1] burn steps of cycle c; sc, sn the restart point;
                bolset = 0: operate() is entered with r.p.cycle, r.p.timeNode = sc, sn already in place;
                bolset = i > 0: operate() is entered at (0, 0) and interactBOL of interface i assigns
                r.p.cycle, r.p.timeNode = sc, sn (if that interface is not called at BOL the run starts at (0, 0));
                ifs the stack (OperatorStack.tla); dcyc = deferredInterfacesCycle;
                tight = tightCoupling, cap = tightCouplingMaxNumIters, skip[c+1] = c in cyclesSkipTightCouplingInteraction
     pc, cycle, node, iter, queue, halt, conv     loop state (queue = interfaces still to be called in the event)
     rc, rn, ci, sl, pw    reactor state seen by the hooks: r.p.cycle, r.p.timeNode, r.core.p.coupledIteration,
                and *references* for r.p.stepLength / r.core.p.power:  <<c, n>> = stepLengths[c][n] resp.
                powerFractions[c][n] * power;  NoRef = the value before the run;  Full = power fraction 1 (zero-burnup)
     log      every call with arguments and the reactor state seen inside the hook (write-only; hidden by the VIEW
              of the exhaustive configuration; compared with / validated against the real Operator)
     evs, cvs, called, lastc, haltedAt, haltReq    bounded history variables over which the clauses are stated

   Environment (nondeterministic): the value a hook of a halting interface returns (a halt request when the hook is
   interactBOC, meaningless otherwise), and whether a coupler reports convergence in a given iteration.

   Interpretation choices
   * restart: the loop starts from the reactor's (cycle, timeNode) as they are AFTER the BOL event (SampleStart), whether
     they were in place at entry or written by a BOL hook; restart points are inside the history (sc < nCycles,
     sn <= steps[sc]).  The hooks of the BOL event that run before the setting hook see the old time state.
   * cap = 0 with coupling on means "no iteration" (the cap is reached at once); the run goes on.
   * every event is dispatched to "exactly the interfaces that are enabled ... once each": a halt request by one
     interface does not take the BOC hook away from the interfaces after it, and what a hook other than interactBOC
     returns has no meaning.
   * the last node of a cycle keeps the previous stepLength and uses the power fraction of the last step (1 when the
     cycle has no steps), as _cycleLoop's for/else does; both are observations, not clauses of the statement.
   * deferred / excluded: see OperatorStack.tla.

   Where the code departs from this model (reported by the check as violations of the property, not modelled):
   * `halt = halt or interactMethod(args)` short-circuits: once a hook of an event has returned a true value the hooks of
     the remaining interfaces of that event are not called (after a halt request at BOC, and after any true return value of
     another hook, whose value means nothing);
   * tightCouplingMaxNumIters = 0 with tightCoupling on raises UnboundLocalError in _performTightCoupling.
*)
EXTENDS Integers, Sequences, FiniteSets, TLC, Json, SequencesExt, FiniteSetsExt, CycleArithmeticDefs, OperatorStack

CONSTANTS Configs

VARIABLES cfg, pc, cycle, node, iter, queue, halt, conv, rc, rn, ci, sl, pw, log,
          evs, cvs, called, lastc, haltedAt, haltReq, startAt
vars == <<cfg, pc, cycle, node, iter, queue, halt, conv, rc, rn, ci, sl, pw, log, evs, cvs, called, lastc, haltedAt, haltReq, startAt>>
viewvars == <<cfg, pc, cycle, node, iter, queue, halt, conv, rc, rn, ci, sl, pw, evs, cvs, called, lastc, haltedAt, haltReq, startAt>>

NoRef == <<-1, -1>>
Full  == <<-2, -2>>
None  == -1
NoCall == [e |-> "none", i |-> 0, c |-> None, n |-> None, it |-> None, rc |-> None, rn |-> None, ci |-> None,
           sl |-> NoRef, pw |-> NoRef, ret |-> FALSE, cv |-> TRUE]

NCycles == Len(cfg.steps)
B(c) == cfg.steps[c + 1]
Active(ev, c) == ActiveSeq(cfg.ifs, ev, c, cfg.dcyc, {})
Hdr(e, c, n) == <<e, c, n>>

ConfigOK(c) ==
    /\ Len(c.steps) >= 1 /\ \A k \in 1..Len(c.steps) : c.steps[k] \in Nat
    /\ c.sc \in 0..(Len(c.steps) - 1) /\ c.sn \in 0..c.steps[c.sc + 1]
    /\ Len(c.ifs) >= 1 /\ \A k \in 1..Len(c.ifs) : c.ifs[k] \in IfaceRec
    /\ c.dcyc \in Nat /\ c.tight \in BOOLEAN /\ c.cap \in Nat /\ c.bolset \in 0..Len(c.ifs)
    /\ Len(c.skip) = Len(c.steps) /\ \A k \in 1..Len(c.skip) : c.skip[k] \in BOOLEAN

\* the reactor's time state when operate() is entered
EntryPoint(c) == IF c.bolset = 0 THEN <<c.sc, c.sn>> ELSE <<0, 0>>
InitWith(c) ==
    /\ cfg = c /\ pc = "Start" /\ cycle = EntryPoint(c)[1] /\ node = EntryPoint(c)[2] /\ iter = 0 /\ queue = <<>>
    /\ halt = FALSE /\ conv = TRUE
    /\ rc = EntryPoint(c)[1] /\ rn = EntryPoint(c)[2] /\ ci = 0 /\ sl = NoRef /\ pw = NoRef /\ log = <<>>
    /\ evs = <<>> /\ cvs = <<>> /\ called = <<>> /\ lastc = NoCall /\ haltedAt = None /\ haltReq = <<>> /\ startAt = NoRef
Init == \E c \in Configs : InitWith(c)

(* ---------- transitions between events; each fixes every variable except log, lastc ---------- *)
Begin(ev, c, hdr) ==
    /\ pc' = ev /\ queue' = Active(ev, c) /\ called' = <<>> /\ evs' = Append(evs, hdr)

BeginCycleT(c, first) ==
    /\ Begin("BOC", c, Hdr("BOC", c, None))
    /\ cycle' = c /\ rc' = c /\ ci' = 0
    /\ rn' = (IF first THEN rn ELSE 0)
    /\ node' = rn'                               \* startingNode
    /\ halt' = FALSE
    /\ UNCHANGED <<cfg, iter, conv, sl, pw, cvs, haltedAt, haltReq>>      \* startAt is left to the caller

\* `from` is the next index of `for timeNode in range(startingNode, burnSteps[cycle])`; when the range is exhausted the
\* else-branch runs the last node burnSteps[cycle]
EnterNodeT(from) ==
    LET b == B(cycle)
        regular == from < b
        n == IF regular THEN from ELSE b
    IN /\ Begin("EN", cycle, Hdr("EN", cycle, n))
       /\ node' = n /\ rn' = n /\ iter' = 0 /\ cvs' = <<>>
       /\ sl' = (IF regular THEN <<cycle, n>> ELSE sl)
       /\ pw' = (IF regular THEN <<cycle, n>> ELSE IF b = 0 THEN Full ELSE <<cycle, b - 1>>)
       /\ UNCHANGED <<cfg, cycle, halt, conv, rc, ci, haltedAt, haltReq, startAt>>

BeginEOCT ==
    /\ Begin("EOC", cycle, Hdr("EOC", cycle, None))
    /\ UNCHANGED <<cfg, cycle, node, iter, halt, conv, rc, rn, ci, sl, pw, cvs, haltedAt, haltReq, startAt>>

BeginEOLT(hAt, hReq) ==
    /\ Begin("EOL", cycle, Hdr("EOL", None, None))
    /\ haltedAt' = hAt /\ haltReq' = hReq
    /\ UNCHANGED <<cfg, cycle, node, iter, halt, conv, rc, rn, ci, sl, pw, cvs>>      \* startAt is left to the caller

AfterNodeT == IF node < B(cycle) THEN EnterNodeT(node + 1) ELSE BeginEOCT

BeginIterT(k) ==
    /\ pc' = "CPL" /\ queue' = Active("CPL", cycle) /\ called' = <<>>
    /\ iter' = k /\ ci' = k + 1 /\ conv' = TRUE
    /\ UNCHANGED <<cfg, cycle, node, halt, rc, rn, sl, pw, evs, haltedAt, haltReq, startAt>>

ToDbWriteT ==
    /\ pc' = "DBW" /\ queue' = <<>> /\ called' = <<>>
    /\ UNCHANGED <<cfg, cycle, node, iter, halt, conv, rc, rn, ci, sl, pw, evs, haltedAt, haltReq, startAt>>

(* ---------- actions ---------- *)
DoBOL ==
    /\ pc = "Start"
    /\ Begin("BOL", rc, Hdr("BOL", None, None))
    /\ UNCHANGED <<cfg, cycle, node, iter, halt, conv, rc, rn, ci, sl, pw, cvs, haltedAt, haltReq, startAt, log, lastc>>

Entry(i, ret, cv) ==
    [e |-> pc, i |-> i,
     c |-> (CASE pc \in {"BOC", "EOC"} -> rc [] pc = "EN" -> cycle [] OTHER -> None),
     n |-> (IF pc = "EN" THEN node ELSE None),
     it |-> (IF pc = "CPL" THEN iter ELSE None),
     rc |-> rc, rn |-> rn, ci |-> ci, sl |-> sl, pw |-> pw, ret |-> ret, cv |-> cv]

\* return values: a hook of a halting interface may return True or False (environment); only the answer of interactBOC is a
\* halt request, what the other hooks return is ignored.  A coupled interface reports convergence or not (environment).
RetChoices(i) == IF cfg.ifs[i].hlt THEN BOOLEAN ELSE {FALSE}
CvChoices(i)  == IF pc = "CPL" /\ cfg.ifs[i].cpl THEN BOOLEAN ELSE {TRUE}

Call ==
    /\ pc \in Events /\ queue # <<>>
    /\ LET i == Head(queue) IN
       \E ret \in RetChoices(i), cv \in CvChoices(i) :
          /\ log' = Append(log, Entry(i, ret, cv))
          /\ lastc' = Entry(i, ret, cv)
          /\ called' = Append(called, [i |-> i, ret |-> ret, cv |-> cv])
          /\ halt' = (IF pc = "BOC" THEN halt \/ ret ELSE halt)
          /\ conv' = (IF pc = "CPL" THEN conv /\ cv ELSE conv)
    /\ queue' = Tail(queue)
    \* the restart-setting BOL hook moves the reactor's time state (the entry above shows what the hook saw on entry)
    /\ IF pc = "BOL" /\ Head(queue) = cfg.bolset THEN rc' = cfg.sc /\ rn' = cfg.sn ELSE UNCHANGED <<rc, rn>>
    /\ UNCHANGED <<cfg, pc, cycle, node, iter, ci, sl, pw, evs, cvs, haltedAt, haltReq, startAt>>

\* the read point: the BOL event is over; startingCycle = r.p.cycle, and _cycleLoop takes r.p.timeNode as the starting node
SampleStart ==
    /\ pc = "BOL" /\ queue = <<>>
    /\ startAt' = <<rc, rn>>
    /\ IF rc < NCycles THEN BeginCycleT(rc, TRUE) ELSE BeginEOLT(haltedAt, haltReq)
    /\ UNCHANGED <<log, lastc>>

EndBOC ==
    /\ pc = "BOC" /\ queue = <<>>
    /\ LET req == \E k \in 1..Len(called) : called[k].ret IN
       IF halt THEN BeginEOLT(cycle, IF req THEN Append(haltReq, cycle) ELSE haltReq) /\ UNCHANGED startAt
       ELSE EnterNodeT(node)
    /\ UNCHANGED <<log, lastc>>

Exempt == cfg.skip[cycle + 1]

EndEN ==
    /\ pc = "EN" /\ queue = <<>>
    /\ IF ~cfg.tight THEN AfterNodeT
       ELSE IF Exempt \/ cfg.cap = 0 THEN ToDbWriteT /\ UNCHANGED cvs
       ELSE BeginIterT(0) /\ UNCHANGED cvs
    /\ UNCHANGED <<log, lastc>>

EndCPL ==
    /\ pc = "CPL" /\ queue = <<>>
    /\ cvs' = Append(cvs, conv)
    /\ IF conv \/ iter + 1 >= cfg.cap THEN ToDbWriteT ELSE BeginIterT(iter + 1)
    /\ UNCHANGED <<log, lastc>>

DbEntry == [e |-> "DBW", i |-> 0, c |-> None, n |-> None, it |-> None, rc |-> rc, rn |-> rn, ci |-> ci,
            sl |-> sl, pw |-> pw, ret |-> FALSE, cv |-> TRUE]
DbWrite ==
    /\ pc = "DBW"
    /\ log' = Append(log, DbEntry) /\ lastc' = DbEntry
    /\ AfterNodeT

EndEOC ==
    /\ pc = "EOC" /\ queue = <<>>
    /\ IF cycle + 1 < NCycles THEN BeginCycleT(cycle + 1, FALSE) ELSE BeginEOLT(haltedAt, haltReq)
    /\ UNCHANGED <<log, lastc, startAt>>

EndEOL ==
    /\ pc = "EOL" /\ queue = <<>>
    /\ pc' = "Done"
    /\ UNCHANGED <<cfg, cycle, node, iter, queue, halt, conv, rc, rn, ci, sl, pw, log, evs, cvs, called, lastc, haltedAt, haltReq, startAt>>

Control == DoBOL \/ SampleStart \/ EndBOC \/ EndEN \/ EndCPL \/ EndEOC \/ EndEOL
Next == Control \/ Call \/ DbWrite

(* ---------- the reference schedule: the obvious nested loop ---------- *)
\* events of one cycle: BOC, then (unless halted there) every node from `from` to the last, then EOC
CycleHdrs(c, from, haltedHere) ==
    <<Hdr("BOC", c, None)>> \o
    (IF haltedHere THEN <<>>
     ELSE [k \in 1..Len(CycleVisit(cfg.steps, c, from)) |-> Hdr("EN", c, CycleVisit(cfg.steps, c, from)[k][2])]
          \o <<Hdr("EOC", c, None)>>)
\* the start of the loop, declaratively: the restart point if it was in place at entry or if the interface that sets it is
\* called at BOL, else the entry point (0, 0)
EffStart == IF cfg.bolset = 0 \/ cfg.bolset \in ActiveSet(cfg.ifs, "BOL", 0, cfg.dcyc, {}) THEN <<cfg.sc, cfg.sn>> ELSE <<0, 0>>

\* hAt = the cycle whose BOC asked for a halt, or None
RefHeaders(hAt) ==
    LET last == IF hAt = None THEN NCycles - 1 ELSE hAt IN
    <<Hdr("BOL", None, None)>>
    \o FlattenSeq([k \in 1..(last - EffStart[1] + 1) |->
                      CycleHdrs(EffStart[1] + k - 1, IF k = 1 THEN EffStart[2] ELSE 0, EffStart[1] + k - 1 = hAt)])
    \o <<Hdr("EOL", None, None)>>

Count(s, P(_)) == Len(SelectSeq(s, P))
ENs == SelectSeq(evs, LAMBDA h : h[1] = "EN")
CalledIds == [k \in 1..Len(called) |-> called[k].i]

(* ---------- the clauses of the statement ---------- *)
\* evs, haltedAt and startAt only change when an event begins (called is reset to <<>> there), so the clauses over them need
\* to be evaluated in those states only (and at Done); this is purely a saving of model-checking time
AtEventStart == called = <<>> \/ pc = "Done"

TypeOK == ConfigOK(cfg) /\ pc \in Events \cup {"Start", "DBW", "Done"}

\* "calls beginning-of-life once" (and first)
BOLOnceFirst ==
  AtEventStart =>
    /\ Count(evs, LAMBDA h : h[1] = "BOL") = (IF pc = "Start" THEN 0 ELSE 1)
    /\ evs # <<>> => evs[1] = Hdr("BOL", None, None)
\* "from the start cycle ... from the start node": the start is read once, after the whole BOL event, and is what the reactor
\* holds then -- also when a BOL hook has just put it there
StartSampledAfterBOL ==
    /\ (pc \in {"Start", "BOL"}) <=> (startAt = NoRef)
    /\ startAt # NoRef => startAt = EffStart
    /\ (pc = "BOL" /\ queue = <<>>) => <<rc, rn>> = EffStart
\* "then for each cycle from the start cycle: beginning-of-cycle, every time node from the start node to the last ...,
\*  end-of-cycle; then end-of-life once; a halt request at beginning-of-cycle stops the loop and still runs end-of-life"
ScheduleIsNestedLoop ==
  AtEventStart =>
    /\ IsPrefix(evs, RefHeaders(haltedAt))
    /\ pc = "Done" => evs = RefHeaders(haltedAt)
EOLOnceLast ==
  AtEventStart =>
    /\ Count(evs, LAMBDA h : h[1] = "EOL") = (IF pc \in {"EOL", "Done"} THEN 1 ELSE 0)
    /\ pc \in {"EOL", "Done"} => evs[Len(evs)] = Hdr("EOL", None, None)
\* a halt request is exactly what stops the loop: the cycle where it stopped is the (only) cycle with a request
HaltStopsLoopAndRunsEOL ==
    /\ haltReq = (IF haltedAt = None THEN <<>> ELSE <<haltedAt>>)
    /\ pc = "BOC" => (halt <=> \E k \in 1..Len(called) : called[k].ret)
    /\ haltedAt # None => pc \in {"EOL", "Done"} /\ evs[Len(evs) - 1] = Hdr("BOC", haltedAt, None)
\* "every time node once, in order": the k-th visited node has cumulative node number CumNode(start) + k - 1
\* (the numbering of CycleArithmetic), so no node is skipped, repeated or taken out of order
NodesOnceInOrder ==
  AtEventStart =>
    \A k \in 1..Len(ENs) :
        /\ <<ENs[k][2], ENs[k][3]>> \in Nodes(cfg.steps)
        /\ CumNode(cfg.steps, ENs[k][2], ENs[k][3]) = CumNode(cfg.steps, EffStart[1], EffStart[2]) + k - 1
\* "each followed by tight-coupling iterations until all couplers converge or the iteration cap is reached, unless the
\*  cycle is exempt"
CouplingUntilConvergedOrCap ==
    /\ Len(cvs) <= cfg.cap
    /\ \A k \in 1..(Len(cvs) - 1) : ~cvs[k]                       \* it only goes on after a non-converged iteration
    /\ (~cfg.tight \/ (pc \in {"EN", "CPL", "DBW"} /\ Exempt)) => cvs = <<>>
    /\ pc = "CPL" => iter = Len(cvs) /\ ci = iter + 1 /\ ~Exempt /\ cfg.tight
    /\ (pc = "CPL" /\ queue = <<>>) => (conv <=> \A k \in 1..Len(called) : called[k].cv)
    /\ (pc = "DBW" /\ ~Exempt /\ cfg.cap > 0) => cvs # <<>> /\ (cvs[Len(cvs)] \/ Len(cvs) = cfg.cap)
    /\ pc = "DBW" => cfg.tight
\* "at each event exactly the interfaces that are enabled (or forced at BOL) and not excluded or deferred are called, once
\*  each, in stack order - at end-of-life the reverse-flagged ones last in reverse order"
DispatchExactlyActiveInOrder ==
    pc \in Events =>
        /\ CalledIds \o queue = Active(pc, cycle)
        /\ queue = <<>> => IsDispatchOrder(CalledIds, cfg.ifs, pc, cycle, cfg.dcyc, {})
DispatchLaw == pc = "Start" => DispatchLawFor(cfg.ifs, cfg.dcyc, 0..NCycles, {{}})   \* depends on cfg only
\* "with the current cycle and node as arguments and reflected in the reactor's time state"
ArgsMatchTimeState ==
    (pc \in Events /\ called # <<>>) =>
        /\ lastc.e = pc
        /\ (lastc.rc = rc /\ lastc.rn = rn) \/ (pc = "BOL" /\ lastc.i = cfg.bolset)     \* (the setting hook saw the entry state)
        /\ pc \in {"BOC", "EN", "CPL", "EOC"} => rc = cycle
        /\ pc \in {"BOC", "EOC"} => lastc.c = cycle /\ lastc.n = None
        /\ pc = "EN" => lastc.c = cycle /\ lastc.n = node /\ rn = node
        /\ pc = "CPL" => lastc.it = iter /\ rn = node
        /\ pc \in {"BOL", "EOL"} => lastc.c = None /\ lastc.n = None
=====================================================================================================
