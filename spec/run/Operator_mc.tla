----------------------------------------- MODULE Operator_mc -----------------------------------------
(* Configuration families for TLC.  A configuration is a record (see Operator.tla); the exhaustive runs explore the
   union of two families so that the product stays finite-but-meaningful (both families contain, for restart points other
   than (0, 0), the variant where the restart point is in place at entry and the variant where a BOL hook puts it there):
     L  "loop":     every cycle history / restart point / coupling setting, with a fixed two-interface stack
                    (1: enabled, reverse-at-EOL, coupled, halting;  2: enabled, deferred-named, coupled)
     D  "dispatch": every stack up to MaxStack interfaces with all flag combinations and every deferral cycle, with a
                    fixed short history <<1, 0>> (restart points included), coupling on with cap 1
*)
EXTENDS Operator
CONSTANTS MaxCyc, MaxBurn, MaxCap, MaxStack, MaxLevel, Families, EnvD

Cfg(steps, sc, sn, ifs, dcyc, tight, cap, skip, bolset) ==
    [steps |-> steps, sc |-> sc, sn |-> sn, ifs |-> ifs, dcyc |-> dcyc, tight |-> tight, cap |-> cap, skip |-> skip, bolset |-> bolset]

Hists(maxc, maxb) == UNION {[1..k -> 0..maxb] : k \in 1..maxc}
Starts(steps) == UNION {{<<c, n>> : n \in 0..steps[c + 1]} : c \in 0..(Len(steps) - 1)}
NoSkip(k) == [c \in 1..k |-> FALSE]
Couplings(k) == {[tight |-> FALSE, cap |-> 1, skip |-> NoSkip(k)]} \cup
                {[tight |-> TRUE, cap |-> cap, skip |-> sk] : cap \in 0..MaxCap, sk \in [1..k -> BOOLEAN]}

LStack == <<Iface(TRUE, FALSE, TRUE, FALSE, TRUE, TRUE), Iface(TRUE, FALSE, FALSE, TRUE, TRUE, FALSE)>>
\* who puts the restart point in place: 0 = already there at entry; 1 = the BOL hook of interface 1; 2 = the BOL hook of interface
\* 2, which is deferred and therefore never called at BOL (the run then starts at (0, 0)); 2 is explored with coupling off only,
\* and the setter variants with histories of at most two cycles (the third cycle adds nothing to where the loop starts)
LSetters(h, st, cp) == IF st = <<0, 0>> \/ Len(h) > 2 THEN {0} ELSE IF cp.tight THEN {0, 1} ELSE {0, 1, 2}
ConfigsL == UNION {UNION {UNION {{Cfg(h, st[1], st[2], LStack, 1, cp.tight, cp.cap, cp.skip, b) : b \in LSetters(h, st, cp)}
                                 : cp \in Couplings(Len(h))} : st \in Starts(h)} : h \in Hists(MaxCyc, MaxBurn)}

\* position p of a D stack: the four dispatch flags are free; the first interface is coupled and halting when EnvD (exhaustive
\* configs; the emission configs switch it off so that a D configuration has exactly one run)
DIfaces(p) == {Iface(en, bf, rev, dfr, EnvD /\ p = 1, EnvD /\ p = 1) : en \in BOOLEAN, bf \in BOOLEAN, rev \in BOOLEAN, dfr \in BOOLEAN}
DStacks(m) == CASE m = 1 -> {<<a>> : a \in DIfaces(1)}
                [] m = 2 -> {<<a, b>> : a \in DIfaces(1), b \in DIfaces(2)}
                [] m = 3 -> {<<a, b, c>> : a \in DIfaces(1), b \in DIfaces(2), c \in DIfaces(3)}
DHist == <<1, 0>>
\* stacks of three are explored from the start of the run with deferral cycle 1 only (4096 stacks)
DStarts(m) == IF m = 1 THEN {<<0, 0>>, <<0, 1>>, <<1, 0>>} ELSE IF m = 2 THEN {<<0, 0>>, <<1, 0>>} ELSE {<<0, 0>>}
DDefer(m)  == IF m <= 2 THEN 0..2 ELSE {1}
\* the restart point is also set by the BOL hook of the LAST interface of the stack (so the hooks before it see (0, 0)), with
\* deferral cycle 1; whether that hook is called at BOL depends on its flags
DSetters(st, m, d) == IF st # <<0, 0>> /\ d = 1 /\ m <= 2 THEN {0, m} ELSE {0}
ConfigsD == UNION {UNION {UNION {{Cfg(DHist, st[1], st[2], s, d, TRUE, 1, NoSkip(2), b) : b \in DSetters(st, m, d)}
                                 : s \in DStacks(m), d \in DDefer(m)} : st \in DStarts(m)} : m \in 1..MaxStack}

McConfigs == (IF "L" \in Families THEN ConfigsL ELSE {}) \cup (IF "D" \in Families THEN ConfigsD ELSE {})

Bound == TLCGet("level") <= MaxLevel
View == viewvars
\* one JSON line per completed run: the configuration and the complete call log (emission configs; log is part of the state)
\* emission only: the convergence reports follow a fixed pseudo-random pattern of (cycle, node, iteration, interface) salted by the
\* configuration, so that a configuration has a handful of runs instead of 3^nodes (halt answers stay free); the full
\* nondeterminism is explored by the exhaustive configs and, on the real code, by the random trace driver
Salt == cfg.sc + cfg.sn + cfg.cap + Len(cfg.steps)
\* iteration 0 of a node runs through (both converge, only the first, only the second, none) as cycle + node + Salt grows;
\* iteration 1 continues the pattern three places further, so all of: converged at once, converged at the second iteration,
\* cap reached without convergence, occur among the printed runs
PatternCv(i, k) == IF i % 2 = 1 THEN k % 4 \in {0, 1} ELSE k % 4 \in {0, 2}
EmitEnv == /\ (Len(log') > Len(log) /\ lastc'.e = "CPL" /\ cfg.ifs[lastc'.i].cpl)
                  => (lastc'.cv <=> PatternCv(lastc'.i, cycle + node + Salt + 3 * iter))
           \* meaningless return values (hooks other than BOC) of halting interfaces: True on about a third of the BOL / EN / EOC /
           \* EOL calls, never at Coupled (there the short-circuit of the real _interactAll would also change which couplers move
           \* and hence the rest of the schedule, and a divergence could no longer be attributed to its cause)
           /\ (Len(log') > Len(log) /\ lastc'.e \notin {"BOC", "DBW"} /\ cfg.ifs[lastc'.i].hlt)
                  => (lastc'.ret <=> (lastc'.e # "CPL" /\ (cycle + node + Salt) % 3 = 0))
EmitRun == pc = "Done" => PrintT(ToJson([cfg |-> cfg, log |-> log]))
=====================================================================================================
