----------------------------------------- MODULE Operator_mc -----------------------------------------
(* Configuration families for TLC.  A configuration is a record (see Operator.tla); the exhaustive runs explore the
   union of two families so that the product stays finite-but-meaningful:
     L  "loop":     every cycle history / restart point / coupling setting, with a fixed two-interface stack
                    (1: enabled, reverse-at-EOL, coupled, halting;  2: enabled, deferred-named, coupled)
     D  "dispatch": every stack up to MaxStack interfaces with all flag combinations and every deferral cycle, with a
                    fixed short history <<1, 0>> (restart points included), coupling on with cap 1
*)
EXTENDS Operator
CONSTANTS MaxCyc, MaxBurn, MaxCap, MaxStack, MaxLevel, Families

Cfg(steps, sc, sn, ifs, dcyc, tight, cap, skip) ==
    [steps |-> steps, sc |-> sc, sn |-> sn, ifs |-> ifs, dcyc |-> dcyc, tight |-> tight, cap |-> cap, skip |-> skip]

Hists(maxc, maxb) == UNION {[1..k -> 0..maxb] : k \in 1..maxc}
Starts(steps) == UNION {{<<c, n>> : n \in 0..steps[c + 1]} : c \in 0..(Len(steps) - 1)}
NoSkip(k) == [c \in 1..k |-> FALSE]
Couplings(k) == {[tight |-> FALSE, cap |-> 1, skip |-> NoSkip(k)]} \cup
                {[tight |-> TRUE, cap |-> cap, skip |-> sk] : cap \in 0..MaxCap, sk \in [1..k -> BOOLEAN]}

LStack == <<Iface(TRUE, FALSE, TRUE, FALSE, TRUE, TRUE), Iface(TRUE, FALSE, FALSE, TRUE, TRUE, FALSE)>>
ConfigsL == UNION {UNION {{Cfg(h, st[1], st[2], LStack, 1, cp.tight, cp.cap, cp.skip) : cp \in Couplings(Len(h))}
                          : st \in Starts(h)} : h \in Hists(MaxCyc, MaxBurn)}

\* position p of a D stack: the four dispatch flags are free; the first interface is coupled and halting
DIfaces(p) == {Iface(en, bf, rev, dfr, p = 1, p = 1) : en \in BOOLEAN, bf \in BOOLEAN, rev \in BOOLEAN, dfr \in BOOLEAN}
DStacks(m) == {s \in [1..m -> UNION {DIfaces(p) : p \in 1..m}] : \A p \in 1..m : s[p] \in DIfaces(p)}
DHist == <<1, 0>>
ConfigsD == UNION {UNION {{Cfg(DHist, st[1], st[2], s, d, TRUE, 1, NoSkip(2)) : s \in DStacks(m), d \in 0..2}
                          : st \in {<<0, 0>>, <<0, 1>>, <<1, 0>>}} : m \in 1..MaxStack}

McConfigs == (IF "L" \in Families THEN ConfigsL ELSE {}) \cup (IF "D" \in Families THEN ConfigsD ELSE {})

Bound == TLCGet("level") <= MaxLevel
View == viewvars
\* one JSON line per completed run: the configuration and the complete call log (emission configs; log is part of the state)
EmitRun == pc = "Done" => PrintT(ToJson([cfg |-> cfg, log |-> log]))
=====================================================================================================
