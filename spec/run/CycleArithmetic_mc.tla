------------------------------------ MODULE CycleArithmetic_mc ------------------------------------
EXTENDS CycleArithmetic
Half == <<1, 2>>
Third == <<1, 3>>
\* value sets (cfg files pick among them)
McAvails3   == {RZero, Half, ROne}
McAvailsPos == {Half, ROne}
McAvailsOne == {Half}
McPows      == {RZero, Half, ROne}
McPows2     == {Half, ROne}
McStepLists == {<<>>, <<3>>, <<1, 2>>, <<2, 2, 5>>}
McStepLists2 == {<<>>, <<1, 2>>}
McCumLists  == {<<>>, <<2>>, <<1, 3>>, <<2, 5, 6>>}
McCumLists2 == {<<2>>, <<1, 3>>}
McPf        == {"absent", "ramp"}
McPf1       == {"ramp"}
Bound == TLCGet("level") <= MaxCycles + 1
\* one JSON line per case (emission config only)
EmitCase == IsCase => PrintT(ToJson(Case))
=====================================================================================================
