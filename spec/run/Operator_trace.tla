---------------------------------------- MODULE Operator_trace ----------------------------------------
(* code -> spec: every call log recorded from a real armi Operator must be a behaviour of Operator.

   A trace is  {"id": .., "cfg": <configuration record>, "ev": [<call record> ..., {"e": "END"}]}.  The call records have
   exactly the fields of Operator!Entry (hook, interface, arguments, reactor state seen inside the hook, return value /
   convergence report).  Control steps of the specification are unobservable and taken freely between two records;
   a Call / DbWrite step must reproduce the next record exactly; the final END record is only matched once the
   specification has reached Done (so a run that stops early -- e.g. without EOL -- is rejected at END).
   The environment choices of the specification (halt answers, convergence reports) are resolved by the records, so
   validation is linear in the length of the trace. *)
EXTENDS Operator, IOUtils, TLCExt
Traces == ndJsonDeserialize(IOEnv.TRACE_FILE)
NT     == Len(Traces)
NoConfigs == {}
VARIABLES tid, l
ASSUME \A t \in 1..NT : TLCSet(t, 0)
TInit == /\ tid \in 1..NT /\ l = 1
         /\ InitWith(Traces[tid].cfg)
Ev == Traces[tid].ev[l]
Diag == \/ [lastc' EXCEPT !.ret = Ev.ret, !.cv = Ev.cv] = Ev
        \/ /\ [lastc' EXCEPT !.ret = Ev.ret, !.cv = Ev.cv] # Ev
           /\ PrintT(ToJson([mismatch |-> Traces[tid].id, at |-> l, expected |-> lastc']))
TNext == /\ l <= Len(Traces[tid].ev) /\ tid' = tid
         /\ \/ Control /\ l' = l
            \/ /\ Ev.e # "END"
               /\ (Call \/ DbWrite)
               /\ Diag
               /\ lastc' = Ev
               /\ l' = l + 1
            \/ /\ Ev.e = "END" /\ pc = "Done"
               /\ UNCHANGED vars /\ l' = l + 1
            \/ /\ Ev.e \in {"END", "EXC"} /\ pc \in Events /\ queue # <<>>      \* diagnosis only: the run stopped inside an event
               /\ PrintT(ToJson([mismatch |-> Traces[tid].id, at |-> l, expected |-> Entry(Head(queue), FALSE, TRUE)]))
               /\ FALSE
TSpec == TInit /\ [][TNext]_<<vars, tid, l>>
Progress == IF TLCGet(tid) < l THEN TLCSet(tid, l) ELSE TRUE
Report == LET bad == {t \in 1..NT : TLCGet(t) # Len(Traces[t].ev) + 1} IN
          /\ \A t \in bad : PrintT(ToJson([rejected |-> Traces[t].id, matched |-> TLCGet(t) - 1]))
          /\ PrintT(ToJson([accepted |-> NT - Cardinality(bad), of |-> NT]))
=====================================================================================================
