-------------------------------------- MODULE CycleArithmetic --------------------------------------
(* C15, last sentence of the statement:
     "The conversions between (cycle, node), cumulative node and cumulative step numbers are inverse to each
      other and number the nodes in exactly the order a run visits them, and step lengths sum to availability
      times cycle length."

   What is specified: the cycle-history expansion and node arithmetic of armi/utils/__init__.py
       getStepLengths / getCycleLengths / getBurnSteps / getPowerFractions / getAvailabilityFactors /
       getNodesPerCycle / getMaxBurnSteps / hasBurnup /
       getCumulativeNodeNum / getCycleNodeFromCumulativeNode / getCycleNodeFromCumulativeStep / getPreviousTimeNode
   over the space of cycle-history *inputs* (settings documented in doc/user/inputs.rst "Cycle history",
   schema in armi/settings/fwSettings/globalSettings.py).

   State = one cycle-history input, built one cycle at a time (action AddCycle = the user appends one cycle to the
   input).  Every reachable state with at least one cycle is one case; the invariants below are the laws, and
   Case (printed by the emission config) is what the real functions must return for that input.

   Input forms (field `form` of a cycle):
     "simple"  the simple history: global burnSteps `bs`, per-cycle cycleLength(s) L, availabilityFactor(s) A,
               powerFractions P.   steps = bs copies of L*A/bs, cycle length = L.
     "step"    detailed `step days: [...]`           steps = the list, cycle length = sum / availability
     "cum"     detailed `cumulative days: [...]`     steps = successive differences from 0, same cycle length rule
     "bs"      detailed `burn steps: n` + `cycle length: len`   steps = n copies of len*af/n, cycle length = len
   `availability factor` absent in a detailed cycle means 1; `power fractions` absent means 1 for every step.

   Interpretation choices (cite: doc/user/inputs.rst lines 140-215, utils/__init__.py _getStepAndCycleLengths):
   * step lengths are *uptime* days; the cycle length of the "step"/"cum" forms is DEFINED by
     sum(steps) = availability * cycleLength ("1 ... 98 days ... availability 0.1 ... followed by 900 days of
     shutdown"); these two forms therefore need availability > 0 (with availability 0 and a non-empty list of days
     no cycle length can satisfy the law -- the input contradicts itself and is outside the domain).
   * the "bs" form states the cycle length itself, so availability 0 (a decay cycle) and n = 0 are meaningful inputs
     (the schema admits `burn steps` >= 0 and `availability factor` in [0, 1]) and belong to the domain.
   * simple input with burnSteps = 0 is a single-state case: only nCycles = 1 is a legal input
     (settingsValidation: "Cannot run multi-cycle standard cases with 0 burnSteps per cycle").
   Rationals are exact (spec/common/Rational.tla); the adapter compares floats with rtol 1e-9.

   Where the code departs from this model (reported by the check as violations, not modelled): in the "bs" form
   _getStepAndCycleLengths divides by `burn steps` and later by the availability factor, so `burn steps: 0` and
   `availability factor: 0` raise ZeroDivisionError instead of giving [] / n zero-length steps and the stated cycle length.
*)
EXTENDS Integers, Sequences, FiniteSets, TLC, Json, SequencesExt, FiniteSetsExt, Rational, CycleArithmeticDefs

CONSTANTS MaxCycles,
          SimpleBurn, SimpleLens, SimpleAvails, SimplePows,      \* simple input value sets
          StepLists, CumLists, BsCounts, BsLens, DetAvails, BsAvails, PfKinds   \* detailed input value sets

VARIABLES mode, bs, hist
vars == <<mode, bs, hist>>

NoRat == <<0, 1>>
SimpleCycle(L, A, P) == [form |-> "simple", days |-> <<>>, len |-> L, n |-> 0, af |-> A, afGiven |-> TRUE, pf |-> "flat", p |-> P]
StepCycle(d, A, g, k)  == [form |-> "step", days |-> d, len |-> 0, n |-> 0, af |-> A, afGiven |-> g, pf |-> k, p |-> NoRat]
CumCycle(d, A, g, k)   == [form |-> "cum", days |-> d, len |-> 0, n |-> 0, af |-> A, afGiven |-> g, pf |-> k, p |-> NoRat]
BsCycle(n, L, A, g, k) == [form |-> "bs", days |-> <<>>, len |-> L, n |-> n, af |-> A, afGiven |-> g, pf |-> k, p |-> NoRat]

\* an absent availability factor is written as af = 1, afGiven = FALSE
AvailChoices(S) == {<<a, TRUE>> : a \in S} \cup {<<ROne, FALSE>>}

DetailedCycles ==
    {StepCycle(d, ag[1], ag[2], k) : d \in StepLists, ag \in AvailChoices(DetAvails), k \in PfKinds} \cup
    {CumCycle(d, ag[1], ag[2], k)  : d \in CumLists,  ag \in AvailChoices(DetAvails), k \in PfKinds} \cup
    {BsCycle(n, L, ag[1], ag[2], k) : n \in BsCounts, L \in BsLens, ag \in AvailChoices(BsAvails), k \in PfKinds}

(* ---------- the meaning of one cycle of input ---------- *)
Avail(cy) == cy.af
BurnOf(cy) == CASE cy.form = "simple" -> bs
                [] cy.form \in {"step", "cum"} -> Len(cy.days)
                [] cy.form = "bs" -> cy.n
StepLens(cy) ==
    CASE cy.form = "simple" -> [k \in 1..bs |-> RDiv(RMul(RInt(cy.len), cy.af), RInt(bs))]
      [] cy.form = "step"   -> [k \in 1..Len(cy.days) |-> RInt(cy.days[k])]
      [] cy.form = "cum"    -> [k \in 1..Len(cy.days) |-> RInt(cy.days[k] - (IF k = 1 THEN 0 ELSE cy.days[k - 1]))]
      [] cy.form = "bs"     -> [k \in 1..cy.n |-> RDiv(RMul(RInt(cy.len), cy.af), RInt(cy.n))]
CycleLen(cy) ==
    CASE cy.form \in {"simple", "bs"} -> RInt(cy.len)
      [] OTHER -> RDiv(RSumSeq(StepLens(cy)), cy.af)
PowFr(cy) ==
    CASE cy.pf = "flat"   -> [k \in 1..BurnOf(cy) |-> cy.p]
      [] cy.pf = "absent" -> [k \in 1..BurnOf(cy) |-> ROne]
      [] cy.pf = "ramp"   -> [k \in 1..BurnOf(cy) |-> RFrac(1, k)]        \* 1, 1/2, 1/3 ... (explicit `power fractions`)

Steps == [c \in 1..Len(hist) |-> BurnOf(hist[c])]       \* burn steps per cycle

(* ---------- the input is built one cycle at a time ---------- *)
Init == /\ mode \in {"simple", "detailed"}
        /\ bs \in (IF mode = "simple" THEN SimpleBurn ELSE {0})
        /\ hist = <<>>

AddSimple(L, A, P) ==
    /\ mode = "simple" /\ Len(hist) < MaxCycles
    /\ (bs = 0 => hist = <<>>)
    /\ hist' = Append(hist, SimpleCycle(L, A, P))
    /\ UNCHANGED <<mode, bs>>

AddDetailed(cy) ==
    /\ mode = "detailed" /\ Len(hist) < MaxCycles
    /\ hist' = Append(hist, cy)
    /\ UNCHANGED <<mode, bs>>

Next == \/ \E L \in SimpleLens, A \in SimpleAvails, P \in SimplePows : AddSimple(L, A, P)
        \/ \E cy \in DetailedCycles : AddDetailed(cy)

IsCase == hist # <<>>

(* ---------- laws (every clause of the last sentence of the statement) ---------- *)
\* "step lengths sum to availability times cycle length"
\* (a cycle without burn steps has no step lengths to sum: the clause constrains the cycles that have steps; found by
\*  TLC on the first version of this law -- `burn steps: 0, cycle length: 10` and the simple zero-burnup case)
StepsSumToAvailTimesLength ==
    \A c \in 1..Len(hist) : Steps[c] > 0 => REq(RSumSeq(StepLens(hist[c])), RMul(Avail(hist[c]), CycleLen(hist[c])))
StepLengthsNonNegative ==
    \A c \in 1..Len(hist) : \A k \in 1..Steps[c] : RLeq(RZero, StepLens(hist[c])[k])
\* one length and one power fraction per burn step
ShapesAgree ==
    \A c \in 1..Len(hist) : Len(StepLens(hist[c])) = Steps[c] /\ Len(PowFr(hist[c])) = Steps[c]
\* "number the nodes in exactly the order a run visits them"
NumberingIsVisitOrder ==
    IsCase => LET v == VisitOrder(Steps) IN
              /\ Len(v) = TotalNodes(Steps)
              /\ \A k \in 1..Len(v) : CumNode(Steps, v[k][1], v[k][2]) = k - 1
\* "(cycle, node) <-> cumulative node are inverse to each other"
NodeConversionsInverse ==
    IsCase => /\ \A cn \in Nodes(Steps) : FromCumNode(Steps, CumNode(Steps, cn[1], cn[2])) = cn
              /\ \A k \in 0..(TotalNodes(Steps) - 1) :
                    LET cn == FromCumNode(Steps, k) IN cn \in Nodes(Steps) /\ CumNode(Steps, cn[1], cn[2]) = k
              /\ Cardinality(Nodes(Steps)) = TotalNodes(Steps)
\* "(cycle, node) <-> cumulative step": step s is the s-th step a run takes, it starts at FromCumStep(s), and the node
\* number of its start is s - 1 + (number of cycle ends before it)
StepConversionsInverse ==
    IsCase => LET so == StepOrder(Steps) IN
              /\ Len(so) = TotalSteps(Steps)
              /\ \A s \in 1..Len(so) :
                    /\ FromCumStep(Steps, s) = so[s]
                    /\ CumStep(Steps, so[s][1], so[s][2]) = s
                    /\ CumNode(Steps, so[s][1], so[s][2]) = s - 1 + so[s][1]
\* the previous node is the one visited just before
PrevIsVisitPredecessor ==
    IsCase => LET v == VisitOrder(Steps) IN
              \A k \in 2..Len(v) : PrevNode(Steps, v[k][1], v[k][2]) = v[k - 1]

\* arguments outside the domain of a conversion are refused (ValueError) -- there is no node before (0, 0), no cumulative node
\* below 0 and no cumulative step below 1
Refusals == <<[f |-> "FromCumNode", k |-> -1, c |-> 0, n |-> 0], [f |-> "FromCumStep", k |-> 0, c |-> 0, n |-> 0],
              [f |-> "PrevNode", k |-> 0, c |-> 0, n |-> 0]>>

(* ---------- the case as the real functions must answer it ---------- *)
Case ==
    LET v == VisitOrder(Steps) IN
    [mode |-> mode, bs |-> bs, hist |-> hist, nCycles |-> Len(hist),
     stepLengths |-> [c \in 1..Len(hist) |-> StepLens(hist[c])],
     cycleLengths |-> [c \in 1..Len(hist) |-> CycleLen(hist[c])],
     availabilityFactors |-> [c \in 1..Len(hist) |-> Avail(hist[c])],
     powerFractions |-> [c \in 1..Len(hist) |-> PowFr(hist[c])],
     burnSteps |-> Steps,
     nodesPerCycle |-> [c \in 1..Len(hist) |-> Steps[c] + 1],
     maxBurnSteps |-> Max({Steps[c] : c \in 1..Len(hist)}),
     hasBurnup |-> TotalSteps(Steps) > 0,
     visit |-> v,                                        \* visit[k] has cumulative node number k-1
     stepStarts |-> StepOrder(Steps),                    \* stepStarts[s] is where cumulative step s starts
     prev |-> [k \in 1..(Len(v) - 1) |-> PrevNode(Steps, v[k + 1][1], v[k + 1][2])],
     refused |-> Refusals]
=====================================================================================================
