\* emission (quick): one printed run (configuration + full call log) per terminal state; the log is part of the state, so every
\* combination of environment choices (halt answers, convergence reports) is a distinct printed run
CONSTANTS MaxCyc = 2  MaxBurn = 2  MaxCap = 2  MaxStack = 2  MaxLevel = 400  Families = {"L", "D"}  EnvD = FALSE
CONSTANT Configs <- McConfigs
INIT Init
NEXT Next
CONSTRAINT Bound
ACTION_CONSTRAINT EmitEnv
INVARIANT EmitRun
INVARIANT TypeOK
INVARIANT BOLOnceFirst
INVARIANT StartSampledAfterBOL
INVARIANT ScheduleIsNestedLoop
INVARIANT EOLOnceLast
INVARIANT HaltStopsLoopAndRunsEOL
INVARIANT NodesOnceInOrder
INVARIANT CouplingUntilConvergedOrCap
INVARIANT DispatchExactlyActiveInOrder
INVARIANT ArgsMatchTimeState
CHECK_DEADLOCK FALSE
