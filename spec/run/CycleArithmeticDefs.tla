------------------------------------ MODULE CycleArithmeticDefs ------------------------------------
(* C15 -- pure definitions shared by CycleArithmetic (the numbering functions of armi/utils/__init__.py)
   and Operator (the run loop of armi/operators/operator.py).

   A cycle history is reduced to   steps : Seq(Nat)   = burn steps per cycle (getBurnSteps); cycles and
   nodes are 0-based as in armi, so cycle c is steps[c + 1].  A cycle with b burn steps has the b + 1
   time nodes 0..b  ("a cycle with n time steps has n+1 nodes, and ... nodes (m, n+1) and (m+1, 0) are
   counted separately", getCumulativeNodeNum docstring).

   Each function is defined *independently* (closed form, declarative inverse, or nested loop) so that the
   laws in CycleArithmetic.tla are real checks and not restatements:
     VisitOrder    the nested loop of a run: for each cycle, for each node 0..b        (operator.py _mainOperate)
     CumNode       closed form  sum of (b_j + 1) over earlier cycles, plus n             (getCumulativeNodeNum)
     FromCumNode   the unique node whose CumNode is k                                   (getCycleNodeFromCumulativeNode)
     FromCumStep   the unique step-start node (c, n), n < b_c, whose 1-based step number is s
                                                                                        (getCycleNodeFromCumulativeStep)
     PrevNode      (c, n-1), or the last node of the previous cycle                     (getPreviousTimeNode)
*)
EXTENDS Integers, Sequences, FiniteSets, SequencesExt

NCyc(steps) == Len(steps)
Cycles(steps) == 0..(Len(steps) - 1)
Burn(steps, c) == steps[c + 1]
NodesIn(steps, c) == Burn(steps, c) + 1
\* all (cycle, node) pairs of the history
Nodes(steps) == UNION {{<<c, n>> : n \in 0..Burn(steps, c)} : c \in Cycles(steps)}
StepStarts(steps) == {cn \in Nodes(steps) : cn[2] < Burn(steps, cn[1])}

RECURSIVE SumFirst(_, _)
SumFirst(s, k) == IF k = 0 THEN 0 ELSE s[k] + SumFirst(s, k - 1)        \* s[1] + ... + s[k]

TotalNodes(steps) == SumFirst(steps, Len(steps)) + Len(steps)
TotalSteps(steps) == SumFirst(steps, Len(steps))

\* closed forms
CumNode(steps, c, n) == SumFirst(steps, c) + c + n
CumStep(steps, c, n) == SumFirst(steps, c) + n + 1            \* number of the step that starts at node (c, n), n < b_c

\* declarative inverses
FromCumNode(steps, k) == CHOOSE cn \in Nodes(steps) : CumNode(steps, cn[1], cn[2]) = k
FromCumStep(steps, s) == CHOOSE cn \in StepStarts(steps) : CumStep(steps, cn[1], cn[2]) = s

PrevNode(steps, c, n) == IF n # 0 THEN <<c, n - 1>> ELSE <<c - 1, Burn(steps, c - 1)>>

\* the nested loop of a run that starts at (0, 0)
CycleVisit(steps, c, from) == [k \in 1..(IF from > Burn(steps, c) THEN 0 ELSE Burn(steps, c) - from + 1) |-> <<c, from + k - 1>>]
VisitFrom(steps, sc, sn) ==
    FlattenSeq([k \in 1..(Len(steps) - sc) |-> CycleVisit(steps, sc + k - 1, IF k = 1 THEN sn ELSE 0)])
VisitOrder(steps) == VisitFrom(steps, 0, 0)
StepOrder(steps)  == SelectSeq(VisitOrder(steps), LAMBDA cn : cn[2] < Burn(steps, cn[1]))
=====================================================================================================
