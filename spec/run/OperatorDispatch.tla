-------------------------------------- MODULE OperatorDispatch --------------------------------------
(* C15 -- building the interface stack and asking it who is called (with exclusion lists).

   Actions = the public stack mutators of armi/operators/operator.py:
     Add(i, f, at)       addInterface(interface, index=at|None, reverseAtEOL=f.rev, enabled=f.en, bolForce=f.bf)
                         at = -1 is `index=None` (append); otherwise list.insert(at, interface)
     AddDuplicate(i)     addInterface of a name that is already attached: RuntimeError, nothing changes
     RemoveIface(i)      removeInterface(interfaceName=...) of an attached interface: removed, returns True
     RemoveAbsent(i)     removeInterface of a name that is not attached: returns False, nothing changes
   (function-based replacement of interfaces and dependency resolution are not modelled: the recording interfaces have
    no `function`.)

   Observations in every state: the stack order, the three flags of every attached interface, and for every
   (event, cycle, exclusion list) the call order  ActiveSeq  of OperatorStack.tla -- compared with what
   Operator.getActiveInterfaces answers and with the hooks the public interactAll<Event>(excludedInterfaceNames=...)
   entry point really calls.  Named = the interfaces listed in cs["deferredInterfaceNames"], DCyc = deferredInterfacesCycle.
*)
EXTENDS Integers, Sequences, FiniteSets, TLC, Json, SequencesExt, FiniteSetsExt, OperatorStack

CONSTANTS NI, Named, DCyc, NCycQ, MaxLevel, FlagChoices, ExclChoices

Ids == 1..NI
VARIABLES stack, flags, err, act
vars == <<stack, flags>>

InStack(i) == \E k \in 1..Len(stack) : stack[k] = i
InsAt(s, k, x) == SubSeq(s, 1, k) \o <<x>> \o SubSeq(s, k + 1, Len(s))     \* python list.insert(k, x), 0 <= k <= len
NoFlags == [en |-> FALSE, bf |-> FALSE, rev |-> FALSE]

Init == stack = <<>> /\ flags = [i \in Ids |-> NoFlags] /\ err = "" /\ act = [n |-> "Init"]

Add(i, f, at) ==
    /\ ~InStack(i) /\ at \in (-1)..Len(stack)
    /\ stack' = (IF at = -1 THEN Append(stack, i) ELSE InsAt(stack, at, i))
    /\ flags' = [flags EXCEPT ![i] = f]
    /\ err' = "" /\ act' = [n |-> "Add", i |-> i, f |-> f, at |-> at]
AddDuplicate(i) ==
    /\ InStack(i)
    /\ UNCHANGED vars /\ err' = "RuntimeError" /\ act' = [n |-> "AddDuplicate", i |-> i, f |-> NoFlags, at |-> -1]
RemoveIface(i) ==
    /\ InStack(i)
    /\ stack' = SelectSeq(stack, LAMBDA x : x # i)
    /\ flags' = [flags EXCEPT ![i] = NoFlags]
    /\ err' = "" /\ act' = [n |-> "Remove", i |-> i]
RemoveAbsent(i) ==
    /\ ~InStack(i)
    /\ UNCHANGED vars /\ err' = "False" /\ act' = [n |-> "RemoveAbsent", i |-> i]

Next == \E i \in Ids :
           \/ \E f \in FlagChoices : \E at \in (-1)..NI : Add(i, f, at)
           \/ AddDuplicate(i)
           \/ RemoveIface(i) \/ RemoveAbsent(i)

(* ---------- observations ---------- *)
Ifs == [k \in 1..Len(stack) |-> Iface(flags[stack[k]].en, flags[stack[k]].bf, flags[stack[k]].rev, stack[k] \in Named, FALSE, FALSE)]
Pos(excl) == {k \in 1..Len(stack) : stack[k] \in excl}
CallOrder(ev, c, excl) == LET s == ActiveSeq(Ifs, ev, c, DCyc, Pos(excl)) IN [k \in 1..Len(s) |-> stack[s[k]]]
Queries ==
    LET Q(ev, c, excl) == [ev |-> ev, c |-> c, excl |-> SetToSortSeq(excl, <), seq |-> CallOrder(ev, c, excl)]
        exq == {<<ev, 0, x>> : ev \in ExclEvents, x \in ExclChoices}
        bq  == {<<"BOC", c, {}>> : c \in 0..(NCycQ - 1)}
        cq  == {<<"CPL", 0, {}>>}
        all == exq \cup bq \cup cq
    IN SetToSeq({Q(t[1], t[2], t[3]) : t \in all})
Vars == [stack |-> stack, flags |-> [k \in 1..Len(stack) |-> flags[stack[k]]]]
Obs  == [stack |-> stack, flags |-> [k \in 1..Len(stack) |-> flags[stack[k]]], q |-> Queries]

(* ---------- invariants ---------- *)
NoDuplicateNames == \A p, q \in 1..Len(stack) : p # q => stack[p] # stack[q]
DetachedHaveNoFlags == \A i \in Ids : ~InStack(i) => flags[i] = NoFlags
DispatchLaw == DispatchLawFor(Ifs, DCyc, 0..NCycQ, {Pos(x) : x \in ExclChoices})
RefusalsChangeNothing == [][err' # "" => UNCHANGED vars]_<<vars, err, act>>
=====================================================================================================
