-------------------------------------- MODULE OperatorDispatch --------------------------------------
(* C15 -- building the interface stack, changing the flags of its interfaces, and asking it who is called (with
   exclusion lists).

   The interfaces 1..NI are persistent objects: each carries its own three flags from construction
   (Interface.__init__: enabled, not forced, not reversed) through every attach / detach / flag change, so that the
   dispatch law is evaluated after every flag *history*, not only for flags fixed when the interface is added.

   Actions = the public stack and flag mutators of armi/operators/operator.py and armi/interfaces.py:
     Add(i, f, at)       addInterface(interface, index=at|None, reverseAtEOL=f.rev, enabled=f.en, bolForce=f.bf)
                         at = -1 is `index=None` (append); otherwise list.insert(at, interface).  What it does to the
                         flags of the object (operator.py addInterface, last lines): `if reverseAtEOL: ... = True`,
                         `if not enabled: interface.enabled(False)`, `interface.bolForce(bolForce)` -- i.e. enabled can only
                         be switched OFF and reverseAtEOL only ON by addInterface (the defaults leave the object's own
                         state alone), bolForce is always assigned.  Transcribed as such (interpretation: the statement
                         speaks about who is called given the flags, not about how addInterface derives them).
     AddDuplicate(i)     addInterface of a name that is already attached: RuntimeError, nothing changes
     RemoveIface(i)      removeInterface(interfaceName=...) of an attached interface: removed, returns True; the object
                         keeps its flags and may be added again
     RemoveAbsent(i)     removeInterface of a name that is not attached: returns False, nothing changes
     SetEnabled(i, b)    Interface.enabled(b)      (getter/setter in one: enabled() reads, enabled(True|False) writes)
     SetEnabledBad(i)    Interface.enabled("yes")  a non-bool is refused: ValueError, nothing changes
     SetBolForce(i, b)   Interface.bolForce(b)     (getter/setter in one: bolForce() reads, bolForce(x) writes)
     SetReverse(i, b)    interface.reverseAtEOL = b  (plain public attribute)
   The setters act on attached interfaces and change the value (setting a flag to the value it has is not an edge).
   (function-based replacement of interfaces and dependency resolution are not modelled: the recording interfaces have
    no `function`.)

   Observations in every state: the stack order, the three flags of every object as its public getters report them, and
   for every (event, cycle, exclusion list) the call order  ActiveSeq  of OperatorStack.tla -- compared with what
   Operator.getActiveInterfaces answers and with the hooks the public interactAll<Event>(excludedInterfaceNames=...)
   entry point really calls.  Named = the interfaces listed in cs["deferredInterfaceNames"], DCyc = deferredInterfacesCycle.
*)
EXTENDS Integers, Sequences, FiniteSets, TLC, Json, SequencesExt, FiniteSetsExt, OperatorStack

CONSTANTS NI, Named, DCyc, NCycQ, MaxLevel, FlagChoices, ExclChoices

Ids == 1..NI
VARIABLES stack, flags, err, act
vars == <<stack, flags>>

InStack(i) == \E k \in 1..Len(stack) : stack[k] = i
InsAt(s, k, x) == SubSeq(s, 1, k) \o <<x>> \o SubSeq(s, k + 1, Len(s))     \* python list.insert(k, x), 0 <= k <= len
NoFlags == [en |-> FALSE, bf |-> FALSE, rev |-> FALSE]
Fresh   == [en |-> TRUE, bf |-> FALSE, rev |-> FALSE]         \* Interface.__init__

Init == stack = <<>> /\ flags = [i \in Ids |-> Fresh] /\ err = "" /\ act = [n |-> "Init"]

Add(i, f, at) ==
    /\ ~InStack(i) /\ at \in (-1)..Len(stack)
    /\ stack' = (IF at = -1 THEN Append(stack, i) ELSE InsAt(stack, at, i))
    /\ flags' = [flags EXCEPT ![i] = [en |-> flags[i].en /\ f.en, bf |-> f.bf, rev |-> flags[i].rev \/ f.rev]]
    /\ err' = "" /\ act' = [n |-> "Add", i |-> i, f |-> f, at |-> at]
AddDuplicate(i) ==
    /\ InStack(i)
    /\ UNCHANGED vars /\ err' = "RuntimeError" /\ act' = [n |-> "AddDuplicate", i |-> i, f |-> NoFlags, at |-> -1]
RemoveIface(i) ==
    /\ InStack(i)
    /\ stack' = SelectSeq(stack, LAMBDA x : x # i)
    /\ UNCHANGED flags
    /\ err' = "" /\ act' = [n |-> "Remove", i |-> i]
RemoveAbsent(i) ==
    /\ ~InStack(i)
    /\ UNCHANGED vars /\ err' = "False" /\ act' = [n |-> "RemoveAbsent", i |-> i]

SetFlag(i, name, b, new) ==
    /\ InStack(i) /\ flags[i] # new
    /\ flags' = [flags EXCEPT ![i] = new] /\ UNCHANGED stack
    /\ err' = "" /\ act' = [n |-> name, i |-> i, b |-> b]
SetEnabled(i, b)  == SetFlag(i, "SetEnabled", b, [flags[i] EXCEPT !.en = b])
SetBolForce(i, b) == SetFlag(i, "SetBolForce", b, [flags[i] EXCEPT !.bf = b])
SetReverse(i, b)  == SetFlag(i, "SetReverse", b, [flags[i] EXCEPT !.rev = b])
SetEnabledBad(i) ==
    /\ InStack(i)
    /\ UNCHANGED vars /\ err' = "ValueError" /\ act' = [n |-> "SetEnabledBad", i |-> i]

Next == \E i \in Ids :
           \/ \E f \in FlagChoices : \E at \in (-1)..NI : Add(i, f, at)
           \/ AddDuplicate(i)
           \/ RemoveIface(i) \/ RemoveAbsent(i)
           \/ \E b \in BOOLEAN : SetEnabled(i, b) \/ SetBolForce(i, b) \/ SetReverse(i, b)
           \/ SetEnabledBad(i)

(* ---------- observations ---------- *)
Ifs == [k \in 1..Len(stack) |-> Iface(flags[stack[k]].en, flags[stack[k]].bf, flags[stack[k]].rev, stack[k] \in Named, FALSE, FALSE)]
Pos(excl) == {k \in 1..Len(stack) : stack[k] \in excl}
CallOrder(ev, c, excl) == LET s == ActiveSeq(Ifs, ev, c, DCyc, Pos(excl)) IN [k \in 1..Len(s) |-> stack[s[k]]]
Queries ==
    LET Q(ev, c, excl) == [ev |-> ev, c |-> c, excl |-> SetToSortSeq(excl, <), seq |-> CallOrder(ev, c, excl)]
        exq == {<<ev, 0, x>> : ev \in ExclEvents, x \in ExclChoices}
        bq  == {<<"BOC", c, {}>> : c \in 0..(NCycQ - 1)}
        cq  == {<<"CPL", 0, {}>>}
        all == exq \cup bq \cup cq
    IN SetToSeq({Q(t[1], t[2], t[3]) : t \in all})
Vars == [stack |-> stack, flags |-> [i \in Ids |-> flags[i]]]            \* flags of every object, attached or not
Obs  == [stack |-> stack, flags |-> [i \in Ids |-> flags[i]], q |-> Queries]

(* ---------- invariants ---------- *)
NoDuplicateNames == \A p, q \in 1..Len(stack) : p # q => stack[p] # stack[q]
\* addInterface can switch an object off and flag it for reversal but never the opposite (see Add)
AddIsOneDirectional == [][\A i \in Ids : (~InStack(i) /\ InStack(i)') =>
                            (flags'[i].en => flags[i].en) /\ (flags[i].rev => flags'[i].rev)]_<<vars, err, act>>
DispatchLaw == DispatchLawFor(Ifs, DCyc, 0..NCycQ, {Pos(x) : x \in ExclChoices})
RefusalsChangeNothing == [][err' # "" => UNCHANGED vars]_<<vars, err, act>>
=====================================================================================================
