\* emission of every explored edge and state, reactor mode: reactor 1, core 2, pool 3, assemblies 4-5, blocks 6-8 (6 and 8 in assembly 4), pool 9-16, depth 5
CONSTANTS N = 16  NOrig = 8  NLoc = 3  MaxLevel = 5  Typed = FALSE  MaxSet = 0  NBlk = 0  BlkGrid = FALSE  NGrp = 0  Rx = TRUE  NAsm = 2  Deviant = TRUE  WithOwned = FALSE
ACTION_CONSTRAINT Emit
INVARIANT EmitState
INIT Init
NEXT Next
CONSTRAINT Bound
VIEW View
INVARIANT TypeOK
INVARIANT BrokenIsDead
INVARIANT OneParentListedOnceD
INVARIANT NoDuplicates
INVARIANT Acyclic
INVARIANT DetachedIsDetached
INVARIANT CopiesDisjoint
PROPERTY RefusalsChangeNothing
PROPERTY CopyLeavesOriginal
CHECK_DEADLOCK FALSE
