\* emission of every explored edge and state, typed mode with pin lattices: assembly 1, blocks 2-3, component group 4, components 5-6, pool 7-9, depth 3
CONSTANTS N = 9  NOrig = 6  NLoc = 2  MaxLevel = 3  Typed = TRUE  MaxSet = 2  NBlk = 2  BlkGrid = TRUE  NGrp = 1  Rx = FALSE  NAsm = 0  Deviant = TRUE  WithOwned = TRUE
ACTION_CONSTRAINT Emit
INVARIANT EmitState
INIT Init
NEXT Next
CONSTRAINT Bound
VIEW View
INVARIANT TypeOK
INVARIANT BrokenIsDead
INVARIANT OneParentListedOnceD
INVARIANT NoDuplicates
INVARIANT Acyclic
INVARIANT DetachedIsDetached
INVARIANT CopiesDisjoint
PROPERTY RefusalsChangeNothing
PROPERTY CopyLeavesOriginal
CHECK_DEADLOCK FALSE
