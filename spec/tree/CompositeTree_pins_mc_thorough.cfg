\* exhaustive, typed mode with pin lattices: assembly 1, blocks 2-3, component group 4, components 5-6, pool 7-9, depth 4
CONSTANTS N = 9  NOrig = 6  NLoc = 2  MaxLevel = 4  Typed = TRUE  MaxSet = 2  NBlk = 2  BlkGrid = TRUE  NGrp = 1  Rx = FALSE  NAsm = 0  Deviant = FALSE  WithOwned = TRUE
INIT Init
NEXT Next
CONSTRAINT Bound
VIEW View
INVARIANT TypeOK
INVARIANT BrokenIsDead
INVARIANT OneParentListedOnce
INVARIANT NoDuplicates
INVARIANT Acyclic
INVARIANT DetachedIsDetached
INVARIANT CopiesDisjoint
PROPERTY RefusalsChangeNothing
PROPERTY CopyLeavesOriginal
CHECK_DEADLOCK FALSE
