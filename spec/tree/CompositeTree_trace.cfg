CONSTANTS N = 8  NOrig = 5  NLoc = 3  MaxLevel = 999  Typed = FALSE  MaxSet = 3
SPECIFICATION TSpec
CONSTRAINT Progress
POSTCONDITION Report
INVARIANT TypeOK
INVARIANT OneParentListedOnce
INVARIANT NoDuplicates
INVARIANT Acyclic
INVARIANT DetachedIsDetached
CHECK_DEADLOCK FALSE
