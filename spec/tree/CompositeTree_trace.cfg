CONSTANTS N = 8  NOrig = 5  NLoc = 3  MaxLevel = 999  Typed = FALSE  MaxSet = 3  NBlk = 0  BlkGrid = FALSE  NGrp = 0  Rx = FALSE  NAsm = 0  Deviant = TRUE  WithOwned = TRUE
SPECIFICATION TSpec
CONSTRAINT Progress
POSTCONDITION Report
INVARIANT TypeOK
INVARIANT BrokenIsDead
INVARIANT OneParentListedOnceD
INVARIANT NoDuplicates
INVARIANT Acyclic
INVARIANT DetachedIsDetached
CHECK_DEADLOCK FALSE
