------------------------------------- MODULE CompositeTree_sim -------------------------------------
(* -simulate driver: carries the behaviour (action + full observation after it) in a history variable and
   prints it as one JSON line when the walk reaches SimDepth.                                            *)
EXTENDS CompositeTree
CONSTANT SimDepth
VARIABLE hist
SimInit == Init /\ hist = <<>>
SimNext == Next /\ hist' = Append(hist, [act |-> act', obs |-> Obs'])
Done == (Len(hist) = SimDepth) => PrintT(ToJson([root |-> [live0 |-> Orig], steps |-> hist]))
=====================================================================================================
