CONSTANTS N = 8  NOrig = 5  NLoc = 3  MaxLevel = 99  Typed = FALSE  MaxSet = 3  NBlk = 0  BlkGrid = FALSE  NGrp = 0  Rx = FALSE  NAsm = 0  Deviant = FALSE  WithOwned = FALSE  SimDepth = 10
INIT SimInit
NEXT SimNext
INVARIANT Done
INVARIANT OneParentListedOnce
INVARIANT NoDuplicates
INVARIANT Acyclic
INVARIANT DetachedIsDetached
CHECK_DEADLOCK FALSE
