\* emission of every explored edge and state, typed mode: assembly 1, blocks 2-3, components 4-5, pool 6-8, depth 3
CONSTANTS N = 8  NOrig = 5  NLoc = 1  MaxLevel = 3  Typed = TRUE  MaxSet = 2  NBlk = 2  BlkGrid = FALSE  NGrp = 0  Rx = FALSE  NAsm = 0  Deviant = TRUE  WithOwned = FALSE
ACTION_CONSTRAINT Emit
INVARIANT EmitState
INIT Init
NEXT Next
CONSTRAINT Bound
VIEW View
INVARIANT TypeOK
INVARIANT BrokenIsDead
INVARIANT OneParentListedOnceD
INVARIANT NoDuplicates
INVARIANT Acyclic
INVARIANT DetachedIsDetached
INVARIANT CopiesDisjoint
PROPERTY RefusalsChangeNothing
PROPERTY CopyLeavesOriginal
CHECK_DEADLOCK FALSE
