------------------------------------- MODULE CompositeTree_mc -------------------------------------
EXTENDS CompositeTree
Bound == TLCGet("level") <= MaxLevel
View  == vars
\* one line per explored edge (compact) and one line per distinct state (with every query result)
Emit  == PrintT(ToJson([lvl |-> TLCGet("level"), from |-> Vars, act |-> act', to |-> Vars', err |-> err']))
EmitState == PrintT(ToJson([st |-> Vars, obs |-> Obs]))
=====================================================================================================
