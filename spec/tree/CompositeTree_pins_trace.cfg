CONSTANTS N = 9  NOrig = 6  NLoc = 2  MaxLevel = 999  Typed = TRUE  MaxSet = 3  NBlk = 2  BlkGrid = TRUE  NGrp = 1  Rx = FALSE  NAsm = 0  Deviant = TRUE  WithOwned = TRUE
SPECIFICATION TSpec
CONSTRAINT Progress
POSTCONDITION Report
INVARIANT TypeOK
INVARIANT BrokenIsDead
INVARIANT OneParentListedOnceD
INVARIANT NoDuplicates
INVARIANT Acyclic
INVARIANT DetachedIsDetached
CHECK_DEADLOCK FALSE
