CONSTANTS N = 8  NOrig = 5  NLoc = 2  MaxLevel = 999  Typed = TRUE  MaxSet = 3  NBlk = 2  BlkGrid = TRUE
SPECIFICATION TSpec
CONSTRAINT Progress
POSTCONDITION Report
INVARIANT TypeOK
INVARIANT OneParentListedOnce
INVARIANT NoDuplicates
INVARIANT Acyclic
INVARIANT DetachedIsDetached
CHECK_DEADLOCK FALSE
