\* exhaustive, typed mode with pin lattices: assembly 1, block 2, component group 3, components 4-5, pool 6-8, depth 4
CONSTANTS N = 8  NOrig = 5  NLoc = 2  MaxLevel = 4  Typed = TRUE  MaxSet = 2  NBlk = 1  BlkGrid = TRUE  NGrp = 1  Rx = FALSE  NAsm = 0  Deviant = FALSE  WithOwned = TRUE
INIT Init
NEXT Next
CONSTRAINT Bound
VIEW View
INVARIANT TypeOK
INVARIANT BrokenIsDead
INVARIANT OneParentListedOnce
INVARIANT NoDuplicates
INVARIANT Acyclic
INVARIANT DetachedIsDetached
INVARIANT CopiesDisjoint
PROPERTY RefusalsChangeNothing
PROPERTY CopyLeavesOriginal
CHECK_DEADLOCK FALSE
