\* exhaustive, reactor mode: reactor 1, core 2, pool 3, assemblies 4-5, blocks 6-8 (6 and 8 in assembly 4), pool 9-16, depth 6
CONSTANTS N = 16  NOrig = 8  NLoc = 3  MaxLevel = 6  Typed = FALSE  MaxSet = 0  NBlk = 0  BlkGrid = FALSE  NGrp = 0  Rx = TRUE  NAsm = 2  Deviant = FALSE  WithOwned = FALSE
INIT Init
NEXT Next
CONSTRAINT Bound
VIEW View
INVARIANT TypeOK
INVARIANT BrokenIsDead
INVARIANT OneParentListedOnce
INVARIANT NoDuplicates
INVARIANT Acyclic
INVARIANT DetachedIsDetached
INVARIANT CopiesDisjoint
PROPERTY RefusalsChangeNothing
PROPERTY CopyLeavesOriginal
CHECK_DEADLOCK FALSE
