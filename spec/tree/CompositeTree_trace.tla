------------------------------------ MODULE CompositeTree_trace ------------------------------------
(* code -> spec: every recorded edit history must be a behaviour of CompositeTree, event by event, with the
   complete projected post-state (including all traversal query results) equal to the specification's. *)
EXTENDS CompositeTree, IOUtils, TLCExt
Traces == ndJsonDeserialize(IOEnv.TRACE_FILE)
NT     == Len(Traces)
VARIABLES tid, l
ASSUME \A t \in 1..NT : TLCSet(t, 0)
TInit == Init /\ tid \in 1..NT /\ l = 1
Ev == Traces[tid].ev[l]
A  == Ev.a
Step ==
    \/ A.n = "Add" /\ Add(A.p, A.c, A.i)
    \/ A.n = "AddPresent" /\ AddPresent(A.p, A.c)
    \/ A.n = "AddWrongType" /\ AddWrongType(A.p, A.c)
    \/ A.n = "Insert" /\ Insert(A.p, A.k, A.c, A.i)
    \/ A.n = "InsertPresent" /\ InsertPresent(A.p, A.c)
    \/ A.n = "Remove" /\ RemoveChild(A.p, A.c)
    \/ A.n = "RemoveAbsent" /\ RemoveAbsent(A.p, A.c)
    \/ A.n = "RemoveAll" /\ RemoveAll(A.p)
    \/ A.n = "SetChildren" /\ SetChildren(A.p, A.s)
    \/ A.n = "SetChildrenSame" /\ SetChildrenSame(A.p)
    \/ A.n = "AddAttached" /\ AddAttached(A.p, A.c, A.i)
    \/ A.n = "InsertAttached" /\ InsertAttached(A.p, A.k, A.c, A.i)
    \/ A.n = "CoreAdd" /\ CoreAdd(A.k, A.a, A.i)
    \/ A.n = "Purge" /\ Purge(A.k, A.a)
    \/ A.n = "Discharge" /\ Discharge(A.k, A.a)
    \/ A.n = "Swap" /\ Swap(A.k, A.a, A.b)
    \/ A.n = "SortRing" /\ SortRing(A.k)
    \/ A.n = "MoveTo" /\ MoveTo(A.c, A.i)
    \/ A.n = "Sort" /\ Sort(A.p)
    \/ A.n = "Reestablish" /\ Reestablish(A.p)
    \/ A.n = "Replace" /\ Replace(A.b, A.t) /\ act'.ids = A.ids
    \/ A.n \in {"DeepCopy", "Pickle"} /\ Copy(A.x, A.n) /\ act'.ids = A.ids
ObsMatch == \/ Obs' = Ev.post
            \/ /\ Obs' # Ev.post
               /\ PrintT(ToJson([mismatch |-> Traces[tid].id, at |-> l, expected |-> Obs']))
               /\ FALSE
\* an event that matches the known deviation (module header of CompositeTree, Deviant = TRUE) is told apart from a rejection:
\* it is reported on its own line, and the history ends there (Broken is terminal)
Deviation == (act'.n \in {"AddAttached", "InsertAttached"} /\ act'.out = "stale")
                => PrintT(ToJson([deviant |-> Traces[tid].id, at |-> l, n |-> act'.n]))
TNext == /\ l <= Len(Traces[tid].ev) /\ l' = l + 1 /\ tid' = tid
         /\ ~Broken
         /\ Step
         /\ ObsMatch
         /\ Deviation
TSpec == TInit /\ [][TNext]_<<vars, err, act, tid, l>>
Progress == IF TLCGet(tid) < l THEN TLCSet(tid, l) ELSE TRUE
Report == LET bad == {t \in 1..NT : TLCGet(t) # Len(Traces[t].ev) + 1} IN
          /\ \A t \in bad : PrintT(ToJson([rejected |-> Traces[t].id, matched |-> TLCGet(t) - 1]))
          /\ PrintT(ToJson([accepted |-> NT - Cardinality(bad), of |-> NT]))
=====================================================================================================
