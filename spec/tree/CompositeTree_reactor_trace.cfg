CONSTANTS N = 16  NOrig = 8  NLoc = 3  MaxLevel = 999  Typed = FALSE  MaxSet = 0  NBlk = 0  BlkGrid = FALSE  NGrp = 0  Rx = TRUE  NAsm = 2  Deviant = TRUE  WithOwned = FALSE
SPECIFICATION TSpec
CONSTRAINT Progress
POSTCONDITION Report
INVARIANT TypeOK
INVARIANT BrokenIsDead
INVARIANT OneParentListedOnceD
INVARIANT NoDuplicates
INVARIANT Acyclic
INVARIANT DetachedIsDetached
CHECK_DEADLOCK FALSE
