--------------------------------------- MODULE CompositeTree ---------------------------------------
(* C01 -- the reactor model tree (armi/reactor/composites.py Composite and its subclasses).

   One action per public mutator of Composite:  add, insert, remove, removeAll, setChildren, sort,
   moveTo, copy.deepcopy, pickle round trip, and the refusals (add/insert of a present child raise
   RuntimeError; remove of a non-child raises ValueError) whose post-state must equal the pre-state.

   Abstract state
     parent[n]   0 = no parent
     kids[n]     ordered child list
     att[n]      TRUE iff the object's locator is attached to a grid (spatialLocator.grid is not None)
     loc[n]      the index the locator carries (kept by detachedCopy() when the object is taken out, and
                 re-associated with the new parent's grid by __setstate__ in copies)
     live        nodes that exist (originals plus copies allocated from the pool)
     orig[n]     the original a copy was made from (flags / type name are inherited from it)

   Legal-edit assumption (how armi itself edits the tree): add/insert/setChildren take objects that are
   currently detached roots and not ancestors of the receiving parent.  Two modes, chosen by Typed:
     FALSE  generic Composite: add does not place the child; the driver calls moveTo (modelled as one
            Add(p,c,i) = add ; moveTo(grid[i]))
     TRUE   Assembly/Block: Assembly.add places the block on top and re-establishes the block order
            (locators = positions); insert places at the index without re-indexing; Reestablish(p).
*)
EXTENDS Integers, Sequences, FiniteSets, TLC, Json, SequencesExt, FiniteSetsExt

CONSTANTS N, NOrig, NLoc, MaxLevel, Typed, MaxSet, NBlk, BlkGrid

Node  == 1..N
Orig  == 1..NOrig
LocIx == 0..(NLoc - 1)

VARIABLES parent, kids, loc, att, live, orig, err, act
vars == <<parent, kids, loc, att, live, orig>>

(* ---------- static attributes, inherited by copies through orig ---------- *)
FlagsOf(n) == LET o == orig[n] IN (IF o % 2 = 1 THEN {"A"} ELSE {}) \cup (IF (o \div 2) % 2 = 1 THEN {"B"} ELSE {})
TypeOf(n)  == IF orig[n] % 3 = 0 THEN "t1x" ELSE IF orig[n] % 3 = 1 THEN "t1" ELSE "t2"

\* typed mode (HexAssembly / HexBlock / Circle): original 1 is the assembly, 2..1+NBlk are blocks, the rest components
Kind(n) == IF ~Typed THEN "gen" ELSE LET o == orig[n] IN IF o = 1 THEN "asm" ELSE IF o <= 1 + NBlk THEN "blk" ELSE "cmp"
Fits(p, c) == ~Typed \/ (Kind(p) = "asm" /\ Kind(c) = "blk") \/ (Kind(p) = "blk" /\ Kind(c) = "cmp")
HasGrid(n) == ~Typed \/ Kind(n) = "asm" \/ (BlkGrid /\ Kind(n) = "blk")   \* objects that own a spatialGrid (BlkGrid: blocks carry a pin lattice)
Places(p)  == Typed /\ Kind(p) = "asm"        \* Assembly.add places the block and re-establishes the block order
SortKey(n) == IF Kind(n) = "cmp" THEN orig[n] ELSE loc[n]   \* Component.__lt__ orders by bounding circle (grows with orig id)

(* ---------- naive walks (the oracle for every traversal query) ---------- *)
Rng(s) == {s[i] : i \in 1..Len(s)}
RECURSIVE Deep(_)
Flat(ss) == FoldLeft(LAMBDA acc, x : acc \o x, <<>>, ss)
\* documented order: the children of the node first, then each child's expansion
Deep(n) == kids[n] \o Flat([i \in 1..Len(kids[n]) |-> Deep(kids[n][i])])
RECURSIVE Gen(_, _)
Gen(n, g) == IF g = 1 THEN kids[n] ELSE Flat([i \in 1..Len(kids[n]) |-> Gen(kids[n][i], g - 1)])
Filter(s, P(_)) == SelectSeq(s, P)
HasFlags(n, F, exact) == IF exact THEN FlagsOf(n) = F ELSE F \subseteq FlagsOf(n)
RECURSIVE AncChain(_)
AncChain(n) == IF parent[n] = 0 THEN <<>> ELSE <<parent[n]>> \o AncChain(parent[n])
AncSelf(n) == <<n>> \o AncChain(n)
FirstOr0(s) == IF s = <<>> THEN 0 ELSE s[1]
Leaves(n) == Filter(Deep(n), LAMBDA x : kids[x] = <<>>)
\* getChildren(includeMaterials=True): every component is followed by its material (written -id here)
WithMats(s) == Flat([i \in 1..Len(s) |-> IF Kind(s[i]) = "cmp" THEN <<s[i], 0 - s[i]>> ELSE <<s[i]>>])
RECURSIVE CompsOf(_)
\* iterComponents: depth-first, a component yields itself
CompsOf(n) == IF Kind(n) = "cmp" THEN <<n>> ELSE Flat([i \in 1..Len(kids[n]) |-> CompsOf(kids[n][i])])
RootOf(n) == LET c == AncSelf(n) IN c[Len(c)]
Subtree(n) == {n} \cup Rng(Deep(n))

(* ---------- invariants (the first sentence of the property) ---------- *)
TypeOK == /\ live \subseteq Node
          /\ \A n \in Node : parent[n] \in live \cup {0} /\ Rng(kids[n]) \subseteq live
          /\ \A n \in Node \ live : parent[n] = 0 /\ kids[n] = <<>> /\ ~att[n]
OneParentListedOnce ==
    \A p, c \in live : (parent[c] = p) <=> (Cardinality({i \in 1..Len(kids[p]) : kids[p][i] = c}) = 1)
NoDuplicates == \A p \in live : Len(kids[p]) = Cardinality(Rng(kids[p]))
Acyclic == \A n \in live : n \notin Rng(Deep(n))
DetachedIsDetached == \A n \in live : att[n] => parent[n] # 0   \* located => owned (contrapositive: out of the model => detached)
RefusalKeepsState == TRUE   \* stated as an action property below (RefusalsChangeNothing)
CopiesDisjoint == \A n \in live : orig[n] \in Orig

(* ---------- helpers for actions ---------- *)
Detached(c) == c \in live /\ parent[c] = 0
CanTake(p, c) == Detached(c) /\ c \notin Rng(AncSelf(p)) /\ Fits(p, c)
RemoveFrom(s, c) == SelectSeq(s, LAMBDA x : x # c)
InsAt(s, k, c) == SubSeq(s, 1, k) \o <<c>> \o SubSeq(s, k + 1, Len(s))   \* python list.insert(k, c), 0 <= k <= len
Positions(p, ks) == [n \in Node |-> IF n \in Rng(ks) THEN (CHOOSE i \in 1..Len(ks) : ks[i] = n) - 1 ELSE loc[n]]
Ok(a) == err' = "" /\ act' = a
Refuse(e, a) == UNCHANGED vars /\ err' = e /\ act' = a

(* stable sort of a child list by location index (list.sort with ArmiObject.__lt__) *)
InsSorted(s, x) == LET i == CHOOSE i \in 0..Len(s) :
                              /\ \A j \in 1..i : SortKey(s[j]) <= SortKey(x)
                              /\ (i = Len(s) \/ SortKey(s[i + 1]) > SortKey(x))
                   IN SubSeq(s, 1, i) \o <<x>> \o SubSeq(s, i + 1, Len(s))
StableSort(s) == FoldLeft(LAMBDA acc, x : InsSorted(acc, x), <<>>, s)
Sortable(p) == \A x \in Subtree(p) : Len(kids[x]) >= 2 => \A i \in 1..Len(kids[x]) : att[kids[x][i]] \/ Kind(kids[x][i]) = "cmp"

(* ---------- actions ---------- *)
Add(p, c, i) ==
    /\ p \in live /\ CanTake(p, c)
    /\ parent' = [parent EXCEPT ![c] = p]
    /\ LET ks == Append(kids[p], c) IN
       /\ kids' = [kids EXCEPT ![p] = ks]
       /\ loc' = IF Places(p) THEN Positions(p, ks) ELSE IF Typed THEN loc ELSE [loc EXCEPT ![c] = i]
       /\ att' = IF Places(p) THEN [n \in Node |-> att[n] \/ n \in Rng(ks)] ELSE IF Typed THEN att ELSE [att EXCEPT ![c] = TRUE]
    /\ UNCHANGED <<live, orig>> /\ Ok([n |-> "Add", p |-> p, c |-> c, i |-> i])

AddPresent(p, c) ==
    /\ p \in live /\ c \in Rng(kids[p])
    /\ Refuse("RuntimeError", [n |-> "AddPresent", p |-> p, c |-> c])

Insert(p, k, c, i) ==
    /\ p \in live /\ CanTake(p, c) /\ k \in 0..Len(kids[p])
    /\ parent' = [parent EXCEPT ![c] = p]
    /\ kids' = [kids EXCEPT ![p] = InsAt(kids[p], k, c)]
    /\ loc' = IF Places(p) THEN [loc EXCEPT ![c] = k] ELSE IF Typed THEN loc ELSE [loc EXCEPT ![c] = i]
    /\ att' = IF Typed /\ ~Places(p) THEN att ELSE [att EXCEPT ![c] = TRUE]
    /\ UNCHANGED <<live, orig>> /\ Ok([n |-> "Insert", p |-> p, k |-> k, c |-> c, i |-> i])

InsertPresent(p, c) ==
    /\ p \in live /\ c \in Rng(kids[p])
    /\ Refuse("RuntimeError", [n |-> "InsertPresent", p |-> p, c |-> c])

RemoveChild(p, c) ==
    /\ p \in live /\ c \in Rng(kids[p])
    /\ parent' = [parent EXCEPT ![c] = 0]
    /\ kids' = [kids EXCEPT ![p] = RemoveFrom(kids[p], c)]
    /\ att' = [att EXCEPT ![c] = FALSE]
    /\ UNCHANGED <<loc, live, orig>> /\ Ok([n |-> "Remove", p |-> p, c |-> c])

\* remove(x) of something that is not a child is refused (ValueError from list.remove) and changes nothing
RemoveAbsent(p, c) ==
    /\ p \in live /\ c \in live /\ c # p /\ c \notin Rng(kids[p])
    /\ Refuse("ValueError", [n |-> "RemoveAbsent", p |-> p, c |-> c])

\* Assembly._checkPotentialChild: only blocks of the assembly's block type are accepted (TypeError), nothing changes
AddWrongType(p, c) ==
    /\ Typed /\ p \in live /\ Kind(p) = "asm" /\ Detached(c) /\ Kind(c) = "cmp"
    /\ Refuse("TypeError", [n |-> "AddWrongType", p |-> p, c |-> c])

RemoveAll(p) ==
    /\ p \in live /\ kids[p] # <<>>
    /\ parent' = [n \in Node |-> IF n \in Rng(kids[p]) THEN 0 ELSE parent[n]]
    /\ att' = [n \in Node |-> IF n \in Rng(kids[p]) THEN FALSE ELSE att[n]]
    /\ kids' = [kids EXCEPT ![p] = <<>>]
    /\ UNCHANGED <<loc, live, orig>> /\ Ok([n |-> "RemoveAll", p |-> p])

\* setChildren = removeAll ; add each (Composite.add does not place the child)
SetChildren(p, s) ==
    /\ p \in live
    /\ \A i \in 1..Len(s) : s[i] \in Rng(kids[p]) \/ CanTake(p, s[i])
    /\ parent' = [n \in Node |-> IF n \in Rng(s) THEN p ELSE IF n \in Rng(kids[p]) THEN 0 ELSE parent[n]]
    /\ att' = [n \in Node |-> IF Places(p) /\ n \in Rng(s) THEN TRUE ELSE IF n \in Rng(kids[p]) THEN FALSE ELSE att[n]]
    /\ kids' = [kids EXCEPT ![p] = s]
    /\ loc' = IF Places(p) THEN Positions(p, s) ELSE loc
    /\ UNCHANGED <<live, orig>> /\ Ok([n |-> "SetChildren", p |-> p, s |-> s])

MoveTo(c, i) ==
    \* typed mode: components are placed on their block's pin lattice (index 1 stands for a multi-cell locator)
    /\ (~Typed \/ (BlkGrid /\ Kind(c) = "cmp")) /\ c \in live /\ parent[c] # 0 /\ (loc[c] # i \/ ~att[c])
    /\ loc' = [loc EXCEPT ![c] = i] /\ att' = [att EXCEPT ![c] = TRUE]
    /\ UNCHANGED <<parent, kids, live, orig>> /\ Ok([n |-> "MoveTo", c |-> c, i |-> i])

Sort(p) ==
    /\ p \in live /\ kids[p] # <<>> /\ Sortable(p)
    /\ kids' = [n \in Node |-> IF n \in Subtree(p) THEN StableSort(kids[n]) ELSE kids[n]]
    /\ UNCHANGED <<parent, loc, att, live, orig>> /\ Ok([n |-> "Sort", p |-> p])

\* Assembly.reestablishBlockOrder: locators := positions
Reestablish(p) ==
    /\ Places(p) /\ p \in live /\ kids[p] # <<>>
    /\ loc' = Positions(p, kids[p]) /\ att' = [n \in Node |-> att[n] \/ n \in Rng(kids[p])]
    /\ UNCHANGED <<parent, kids, live, orig>> /\ Ok([n |-> "Reestablish", p |-> p])

(* deepcopy / pickle round trip of the subtree rooted at n: isomorphic, disjoint, re-linked, root detached *)
FreeIds == Node \ live
SetToSeqSorted(S) == SortSeq(SetToSeq(S), LAMBDA a, b : a < b)
CopyMap(n) == LET src == <<n>> \o Deep(n)
                  free == SetToSeqSorted(FreeIds)
              IN [i \in 1..Len(src) |-> <<src[i], free[i]>>]
Copy(n, how) ==
    /\ n \in live /\ Cardinality(Subtree(n)) <= Cardinality(FreeIds)
    /\ LET cm  == CopyMap(n)
           new == {cm[i][2] : i \in 1..Len(cm)}
           M(x) == (CHOOSE i \in 1..Len(cm) : cm[i][1] = x)
           to(x) == cm[M(x)][2]
           from(y) == cm[CHOOSE i \in 1..Len(cm) : cm[i][2] = y][1]
       IN /\ live' = live \cup new
          /\ parent' = [y \in Node |-> IF y \in new THEN (IF from(y) = n THEN 0 ELSE to(parent[from(y)])) ELSE parent[y]]
          /\ kids' = [y \in Node |-> IF y \in new THEN [i \in 1..Len(kids[from(y)]) |-> to(kids[from(y)][i])] ELSE kids[y]]
          /\ loc' = [y \in Node |-> IF y \in new THEN loc[from(y)] ELSE loc[y]]
          \* __setstate__ re-associates every child's locator with its (copied) parent's grid; the root's is detached
          /\ att' = [y \in Node |-> IF y \in new THEN (from(y) # n /\ HasGrid(parent[from(y)])) ELSE att[y]]
          /\ orig' = [y \in Node |-> IF y \in new THEN orig[from(y)] ELSE orig[y]]
          /\ Ok([n |-> how, x |-> n, ids |-> [i \in 1..Len(cm) |-> cm[i][2]]])

\* Block.replaceBlockWithBlock(t): the receiver's children are replaced by the children of a private deep copy of t
Replace(b, t) ==
    /\ Typed /\ ~BlkGrid /\ b \in live /\ t \in live /\ b # t /\ Kind(b) = "blk" /\ Kind(t) = "blk"
    /\ Len(kids[t]) <= Cardinality(FreeIds)
    /\ LET free == SetToSeqSorted(FreeIds)
           k    == Len(kids[t])
           new  == [i \in 1..k |-> free[i]]
           old  == Rng(kids[b])
           src(y) == kids[t][CHOOSE i \in 1..k : new[i] = y]
       IN /\ live' = live \cup Rng(new)
          /\ kids' = [kids EXCEPT ![b] = new]
          /\ parent' = [y \in Node |-> IF y \in Rng(new) THEN b ELSE IF y \in old THEN 0 ELSE parent[y]]
          /\ att' = [y \in Node |-> IF y \in Rng(new) \cup old THEN FALSE ELSE att[y]]
          /\ loc' = [y \in Node |-> IF y \in Rng(new) THEN loc[src(y)] ELSE loc[y]]
          \* the receiver takes over the template's parameters (flags, type name) along with the children
          /\ orig' = [y \in Node |-> IF y \in Rng(new) THEN orig[src(y)] ELSE IF y = b THEN orig[t] ELSE orig[y]]
          /\ Ok([n |-> "Replace", b |-> b, t |-> t, ids |-> new])

SmallSeqs(S) == UNION {{s \in [1..k -> S] : \A i, j \in 1..k : i # j => s[i] # s[j]} : k \in 0..MaxSet}

RemoveAbsentWhereItMatters(p, c) == (parent[c] # 0 \/ kids[p] # <<>>) /\ RemoveAbsent(p, c)
SetChildrenAny(p) == \E s \in SmallSeqs(live) : SetChildren(p, s)

Init ==
    /\ parent = [n \in Node |-> 0] /\ kids = [n \in Node |-> <<>>] /\ loc = [n \in Node |-> 0] /\ att = [n \in Node |-> FALSE]
    /\ live = Orig /\ orig = [n \in Node |-> IF n \in Orig THEN n ELSE 1]
    /\ err = "" /\ act = [n |-> "Init"]

Next ==
    \/ \E p, c \in Node : \E i \in (IF Typed THEN {0} ELSE LocIx) : Add(p, c, i)
    \/ \E p, c \in Node : AddWrongType(p, c) \/ AddPresent(p, c) \/ InsertPresent(p, c) \/ RemoveChild(p, c)
    \* refused removals: explored where they could matter (the object is owned elsewhere, or the receiver has children)
    \/ \E p, c \in Node : RemoveAbsentWhereItMatters(p, c)
    \/ \E p, c \in Node : \E k \in 0..N : \E i \in (IF Typed THEN {0} ELSE LocIx) : Insert(p, k, c, i)
    \/ \E p \in Node : RemoveAll(p) \/ Sort(p) \/ Reestablish(p)
    \/ \E p \in Node : SetChildrenAny(p)
    \/ \E c \in Node : \E i \in LocIx : MoveTo(c, i)
    \/ \E n \in Node : Copy(n, "DeepCopy") \/ Copy(n, "Pickle")
    \/ \E b, t \in Node : Replace(b, t)

Spec == Init /\ [][Next]_<<vars, err, act>>

(* action properties *)
RefusalsChangeNothing == [][err' # "" => UNCHANGED vars]_<<vars, err, act>>
\* a copy never touches the original; copy root is a detached root
CopyLeavesOriginal == [][act'.n \in {"DeepCopy", "Pickle"} =>
                           /\ \A y \in live : parent'[y] = parent[y] /\ kids'[y] = kids[y] /\ loc'[y] = loc[y] /\ att'[y] = att[y]
                           /\ LET r == act'.ids[1] IN parent'[r] = 0 /\ ~att'[r]]_<<vars, err, act>>

(* ---------- observation record: variables + every traversal query, per live node ---------- *)
QueriesAt(n) == [
    children |-> kids[n],
    deep     |-> Deep(n),
    gen2     |-> Gen(n, 2),
    gen3     |-> Gen(n, 3),
    leaves   |-> Leaves(n),
    flagA    |-> Filter(kids[n], LAMBDA x : HasFlags(x, {"A"}, FALSE)),
    flagAx   |-> Filter(kids[n], LAMBDA x : HasFlags(x, {"A"}, TRUE)),
    flagAB   |-> Filter(kids[n], LAMBDA x : HasFlags(x, {"A", "B"}, FALSE)),
    flagAorB |-> Filter(kids[n], LAMBDA x : HasFlags(x, {"A"}, TRUE) \/ HasFlags(x, {"B"}, TRUE)),
    deepB    |-> Filter(Deep(n), LAMBDA x : HasFlags(x, {"B"}, FALSE)),
    type1    |-> Filter(kids[n], LAMBDA x : TypeOf(x) = "t1"),
    anc      |-> AncChain(n),
    ancB     |-> FirstOr0(Filter(AncSelf(n), LAMBDA x : HasFlags(x, {"B"}, FALSE))),
    ancBx    |-> FirstOr0(Filter(AncSelf(n), LAMBDA x : HasFlags(x, {"B"}, TRUE))),
    ancAx    |-> FirstOr0(Filter(AncSelf(n), LAMBDA x : HasFlags(x, {"A"}, TRUE))),
    ancOdd   |-> FirstOr0(Filter(AncChain(n), LAMBDA x : orig[x] % 2 = 1)),
    ancOddS  |-> FirstOr0(Filter(AncSelf(n), LAMBDA x : orig[x] % 2 = 1)),
    ancOddDist |-> LET ch == AncSelf(n) idx == {i \in 1..Len(ch) : orig[ch[i]] % 2 = 1}
                   IN IF idx = {} THEN -1 ELSE Min(idx) - 1,
    root     |-> RootOf(n),
    comps    |-> CompsOf(n),
    deepMat  |-> WithMats(Deep(n)),
    flagAMat |-> WithMats(Filter(kids[n], LAMBDA x : HasFlags(x, {"A"}, FALSE))),
    gen2Mat  |-> WithMats(Gen(n, 2)),
    compsA   |-> Filter(CompsOf(n), LAMBDA x : HasFlags(x, {"A"}, FALSE)),
    gridOwner |-> IF att[n] THEN parent[n] ELSE 0,
    contains |-> SetToSeqSorted({c \in live : c \in Rng(kids[n])})
]

Obs  == [parent |-> [n \in live |-> parent[n]], loc |-> [n \in live |-> loc[n]], att |-> [n \in live |-> att[n]],
         orig |-> [n \in live |-> orig[n]], err |-> err, q |-> [n \in live |-> QueriesAt(n)]]
Vars == [parent |-> parent, kids |-> kids, loc |-> loc, att |-> att, live |-> live, orig |-> orig]
=====================================================================================================
