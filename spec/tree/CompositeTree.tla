--------------------------------------- MODULE CompositeTree ---------------------------------------
(* C01 -- the reactor model tree (armi/reactor/composites.py Composite and its subclasses).

   One action per public mutator of Composite:  add, insert, remove, removeAll, setChildren, sort,
   moveTo, copy.deepcopy, pickle round trip, and the refusals (add/insert of a present child raise
   RuntimeError; remove of a non-child raises ValueError) whose post-state must equal the pre-state.

   Abstract state
     parent[n]   0 = no parent
     kids[n]     ordered child list
     att[n]      TRUE iff the object's locator is attached to a grid (spatialLocator.grid is not None)
     loc[n]      the index the locator carries (kept by detachedCopy() when the object is taken out, and
                 re-associated with the new parent's grid by __setstate__ in copies)
     live        nodes that exist (originals plus copies allocated from the pool)
     orig[n]     the original a copy was made from (flags / type name are inherited from it)

   Legal-edit assumption (how armi itself edits the tree): add/insert/setChildren take objects that are
   currently detached roots and not ancestors of the receiving parent.  Two modes, chosen by Typed:
     FALSE  generic Composite: add does not place the child; the driver calls moveTo (modelled as one
            Add(p,c,i) = add ; moveTo(grid[i]))
     TRUE   Assembly/Block: Assembly.add places the block on top and re-establishes the block order
            (locators = positions); insert places at the index without re-indexing; Reestablish(p).
            NGrp > 0: blocks may also hold component GROUPS (plain Composites of components, what the blueprints'
            "component groups" build), so the tree below a block is two levels deep.

   Reactor mode (Rx = TRUE): original 1 is a Reactor that holds the Core (2) and the SpentFuelPool (3) from the start;
   4..3+NAsm are assemblies that come with their blocks (the remaining originals, AsmOfBlk).  The actions are the
   reactor-level edits: Core.add(a, cell), Core.removeAssembly(a, discharge=False / True -> pool), two assemblies
   trading places (moveTo), sortAssemsByRing / sort, deepcopy / pickle of the reactor or of the core.
   Beyond the generic traversal queries the observation holds the reactor's own references (r.core, r.excore) and the
   Core's block/assembly traversals (iterBlocks follows CHILD order, getAssemblies() is documented as LOCATION-sorted).

   Already-owned objects (B2).  add/insert of an object that is still listed by ANOTHER parent: the specification
   allows exactly the two outcomes that keep the tree invariants -- the object MOVES (leaves the former parent's list
   with a detached locator, then is added) or the call is REFUSED with the state unchanged.  A third outcome, "stale"
   (the former parent keeps listing the object), is what armi does today; it is written down ONLY for configurations
   with Deviant = TRUE (emission / trace validation) so that the checker can tell this known deviation from any other
   failure of the same call.  It is not an allowed outcome: the exhaustive configurations run with Deviant = FALSE and
   the plain invariants; a stale state is terminal (every action is guarded by ~Dead), so the broken tree never feeds other clauses.

   Aliasing law: a list handed out by a query is a snapshot.  Obs.stable = TRUE stands for "every list returned by a
   query was emptied by the caller after it had been recorded, all queries were asked again, and the answers (and the
   state) were the same"; SetChildrenSame(p) is p.setChildren(p.getChildren()) with the very list object returned.
*)
EXTENDS Integers, Sequences, FiniteSets, TLC, Json, SequencesExt, FiniteSetsExt

CONSTANTS N, NOrig, NLoc, MaxLevel, Typed, MaxSet, NBlk, BlkGrid, NGrp, Rx, NAsm, Deviant, WithOwned

Node  == 1..N
Orig  == 1..NOrig
LocIx == 0..(NLoc - 1)

VARIABLES parent, kids, loc, att, live, orig, err, act
vars == <<parent, kids, loc, att, live, orig>>

(* ---------- static attributes, inherited by copies through orig ---------- *)
FlagsOf(n) == LET o == orig[n] IN (IF o % 2 = 1 THEN {"A"} ELSE {}) \cup (IF (o \div 2) % 2 = 1 THEN {"B"} ELSE {})
TypeOf(n)  == IF orig[n] % 3 = 0 THEN "t1x" ELSE IF orig[n] % 3 = 1 THEN "t1" ELSE "t2"

\* typed mode (HexAssembly / HexBlock / [group] / Circle): original 1 is the assembly, 2..1+NBlk are blocks, the next NGrp are
\* component groups, the rest components.  Reactor mode: 1 reactor, 2 core, 3 spent fuel pool, NAsm assemblies, the rest blocks.
Kind(n) == LET o == orig[n] IN
           IF Rx THEN (IF o = 1 THEN "rx" ELSE IF o = 2 THEN "core" ELSE IF o = 3 THEN "sfp" ELSE IF o <= 3 + NAsm THEN "asm" ELSE "blk")
           ELSE IF ~Typed THEN "gen"
           ELSE IF o = 1 THEN "asm" ELSE IF o <= 1 + NBlk THEN "blk" ELSE IF o <= 1 + NBlk + NGrp THEN "grp" ELSE "cmp"
Fits(p, c) == ~Typed \/ (Kind(p) = "asm" /\ Kind(c) = "blk") \/ (Kind(p) = "blk" /\ Kind(c) \in {"cmp", "grp"})
                     \/ (Kind(p) = "grp" /\ Kind(c) = "cmp")
\* objects that own a spatialGrid (BlkGrid: blocks carry a pin lattice; a component group never has one)
HasGrid(n) == IF Rx THEN Kind(n) \in {"core", "sfp", "asm"} ELSE ~Typed \/ Kind(n) = "asm" \/ (BlkGrid /\ Kind(n) = "blk")
Places(p)  == Typed /\ Kind(p) = "asm"        \* Assembly.add places the block and re-establishes the block order
SortKey(n) == IF Kind(n) = "cmp" THEN orig[n] ELSE loc[n]   \* Component.__lt__ orders by bounding circle (grows with orig id)
\* reactor mode: the assembly a block is delivered in (block j goes to assembly j; surplus blocks on top of the first assembly)
AsmOfBlk(b) == LET j == b - (3 + NAsm) IN IF j <= NAsm THEN 3 + j ELSE 4

(* ---------- naive walks (the oracle for every traversal query) ---------- *)
Rng(s) == {s[i] : i \in 1..Len(s)}
RECURSIVE Deep(_)
Flat(ss) == FoldLeft(LAMBDA acc, x : acc \o x, <<>>, ss)
\* documented order: the children of the node first, then each child's expansion
Deep(n) == kids[n] \o Flat([i \in 1..Len(kids[n]) |-> Deep(kids[n][i])])
RECURSIVE Gen(_, _)
Gen(n, g) == IF g = 1 THEN kids[n] ELSE Flat([i \in 1..Len(kids[n]) |-> Gen(kids[n][i], g - 1)])
Filter(s, P(_)) == SelectSeq(s, P)
HasFlags(n, F, exact) == IF exact THEN FlagsOf(n) = F ELSE F \subseteq FlagsOf(n)
RECURSIVE AncChain(_)
AncChain(n) == IF parent[n] = 0 THEN <<>> ELSE <<parent[n]>> \o AncChain(parent[n])
AncSelf(n) == <<n>> \o AncChain(n)
FirstOr0(s) == IF s = <<>> THEN 0 ELSE s[1]
Leaves(n) == Filter(Deep(n), LAMBDA x : kids[x] = <<>>)
\* getChildren(includeMaterials=True): every component is followed by its material (written -id here)
WithMats(s) == Flat([i \in 1..Len(s) |-> IF Kind(s[i]) = "cmp" THEN <<s[i], 0 - s[i]>> ELSE <<s[i]>>])
RECURSIVE CompsOf(_)
\* iterComponents: depth-first, a component yields itself
CompsOf(n) == IF Kind(n) = "cmp" THEN <<n>> ELSE Flat([i \in 1..Len(kids[n]) |-> CompsOf(kids[n][i])])
RootOf(n) == LET c == AncSelf(n) IN c[Len(c)]
Subtree(n) == {n} \cup Rng(Deep(n))

(* ---------- invariants (the first sentence of the property) ---------- *)
TypeOK == /\ live \subseteq Node
          /\ \A n \in Node : parent[n] \in live \cup {0} /\ Rng(kids[n]) \subseteq live
          /\ \A n \in Node \ live : parent[n] = 0 /\ kids[n] = <<>> /\ ~att[n]
OneParentListedOnce ==
    \A p, c \in live : (parent[c] = p) <=> (Cardinality({i \in 1..Len(kids[p]) : kids[p][i] = c}) = 1)
NoDuplicates == \A p \in live : Len(kids[p]) = Cardinality(Rng(kids[p]))
Acyclic == \A n \in live : n \notin Rng(Deep(n))
DetachedIsDetached == \A n \in live : att[n] => parent[n] # 0   \* located => owned (contrapositive: out of the model => detached)
RefusalKeepsState == TRUE   \* stated as an action property below (RefusalsChangeNothing)
CopiesDisjoint == \A n \in live : orig[n] \in Orig

(* ---------- helpers for actions ---------- *)
Detached(c) == c \in live /\ parent[c] = 0
\* a tree left broken by the known deviation (module header) is terminal.  Broken is what that means; Dead is the O(1) test used in
\* the guards (a broken tree is only ever reached by the "stale" outcome, which act records); BrokenIsDead checks that they agree.
Broken == \E p, c \in live : c \in Rng(kids[p]) /\ parent[c] # p
Dead == act.n \in {"AddAttached", "InsertAttached"} /\ act.out = "stale"
BrokenIsDead == Broken <=> Dead
Tm == ~Rx /\ ~Dead    \* guard of the tree-mode actions
Rm == Rx /\ ~Dead     \* guard of the reactor-mode actions
CanTake(p, c) == Detached(c) /\ c \notin Rng(AncSelf(p)) /\ Fits(p, c)
RemoveFrom(s, c) == SelectSeq(s, LAMBDA x : x # c)
InsAt(s, k, c) == SubSeq(s, 1, k) \o <<c>> \o SubSeq(s, k + 1, Len(s))   \* python list.insert(k, c), 0 <= k <= len
Positions(p, ks) == [n \in Node |-> IF n \in Rng(ks) THEN (CHOOSE i \in 1..Len(ks) : ks[i] = n) - 1 ELSE loc[n]]
\* domain: a component group that sits in a block always holds something (blueprints never build empty groups; armi computes
\* area fractions when a block loses a child and divides by the total area of what remains)
GroupsFilled == NGrp = 0 \/ \A g \in live : (Kind(g) = "grp" /\ parent[g] # 0) => kids[g] # <<>>
Ok(a) == err' = "" /\ act' = a /\ GroupsFilled'
Refuse(e, a) == UNCHANGED vars /\ err' = e /\ act' = a

(* stable sort of a child list by location index (list.sort with ArmiObject.__lt__) *)
InsSorted(s, x) == LET i == CHOOSE i \in 0..Len(s) :
                              /\ \A j \in 1..i : SortKey(s[j]) <= SortKey(x)
                              /\ (i = Len(s) \/ SortKey(s[i + 1]) > SortKey(x))
                   IN SubSeq(s, 1, i) \o <<x>> \o SubSeq(s, i + 1, Len(s))
StableSort(s) == FoldLeft(LAMBDA acc, x : InsSorted(acc, x), <<>>, s)
\* with component groups (NGrp > 0: the components are Spheres, which armi can only order by their outer diameter) siblings are
\* sortable when they are all components of different size, or all placed non-components
Sortable(p) == \A x \in Subtree(p) : Len(kids[x]) >= 2 =>
                   /\ \A i \in 1..Len(kids[x]) : att[kids[x][i]] \/ Kind(kids[x][i]) = "cmp"
                   /\ NGrp > 0 => \A i, j \in 1..Len(kids[x]) : i # j =>
                                      /\ (Kind(kids[x][i]) = "cmp") = (Kind(kids[x][j]) = "cmp")
                                      /\ Kind(kids[x][i]) = "cmp" => orig[kids[x][i]] # orig[kids[x][j]]

\* reactor mode helpers
IsCore(k) == Rm /\ k \in live /\ Kind(k) = "core" /\ parent[k] # 0          \* a core inside a reactor (Core.add / removeAssembly need core.r)
PoolOf(k) == FirstOr0(Filter(kids[parent[k]], LAMBDA x : Kind(x) = "sfp"))   \* r.excore["sfp"] of the core's reactor
InTree(k) == Rng(kids[k]) \cup (IF PoolOf(k) = 0 THEN {} ELSE Rng(kids[PoolOf(k)]))
CellFree(k, i) == \A x \in Rng(kids[k]) : loc[x] # i

(* ---------- actions ---------- *)
Add(p, c, i) ==
    /\ Tm /\ p \in live /\ CanTake(p, c)
    /\ parent' = [parent EXCEPT ![c] = p]
    /\ LET ks == Append(kids[p], c) IN
       /\ kids' = [kids EXCEPT ![p] = ks]
       /\ loc' = IF Places(p) THEN Positions(p, ks) ELSE IF Typed THEN loc ELSE [loc EXCEPT ![c] = i]
       /\ att' = IF Places(p) THEN [n \in Node |-> att[n] \/ n \in Rng(ks)] ELSE IF Typed THEN att ELSE [att EXCEPT ![c] = TRUE]
    /\ UNCHANGED <<live, orig>> /\ Ok([n |-> "Add", p |-> p, c |-> c, i |-> i])

AddPresent(p, c) ==
    /\ Tm /\ p \in live /\ c \in Rng(kids[p])
    /\ Refuse("RuntimeError", [n |-> "AddPresent", p |-> p, c |-> c])

Insert(p, k, c, i) ==
    /\ Tm /\ p \in live /\ CanTake(p, c) /\ k \in 0..Len(kids[p])
    /\ parent' = [parent EXCEPT ![c] = p]
    /\ kids' = [kids EXCEPT ![p] = InsAt(kids[p], k, c)]
    /\ loc' = IF Places(p) THEN [loc EXCEPT ![c] = k] ELSE IF Typed THEN loc ELSE [loc EXCEPT ![c] = i]
    /\ att' = IF Typed /\ ~Places(p) THEN att ELSE [att EXCEPT ![c] = TRUE]
    /\ UNCHANGED <<live, orig>> /\ Ok([n |-> "Insert", p |-> p, k |-> k, c |-> c, i |-> i])

InsertPresent(p, c) ==
    /\ Tm /\ p \in live /\ c \in Rng(kids[p])
    /\ Refuse("RuntimeError", [n |-> "InsertPresent", p |-> p, c |-> c])

RemoveChild(p, c) ==
    /\ Tm /\ p \in live /\ c \in Rng(kids[p])
    /\ parent' = [parent EXCEPT ![c] = 0]
    /\ kids' = [kids EXCEPT ![p] = RemoveFrom(kids[p], c)]
    /\ att' = [att EXCEPT ![c] = FALSE]
    /\ UNCHANGED <<loc, live, orig>> /\ Ok([n |-> "Remove", p |-> p, c |-> c])

\* remove(x) of something that is not a child is refused (ValueError from list.remove) and changes nothing
RemoveAbsent(p, c) ==
    /\ Tm /\ p \in live /\ c \in live /\ c # p /\ c \notin Rng(kids[p])
    /\ Refuse("ValueError", [n |-> "RemoveAbsent", p |-> p, c |-> c])

\* Assembly._checkPotentialChild: only blocks of the assembly's block type are accepted (TypeError), nothing changes
AddWrongType(p, c) ==
    /\ Tm /\ Typed /\ p \in live /\ Kind(p) = "asm" /\ Detached(c) /\ Kind(c) \in {"cmp", "grp"}
    /\ Refuse("TypeError", [n |-> "AddWrongType", p |-> p, c |-> c])

RemoveAll(p) ==
    /\ Tm /\ p \in live /\ kids[p] # <<>>
    /\ parent' = [n \in Node |-> IF n \in Rng(kids[p]) THEN 0 ELSE parent[n]]
    /\ att' = [n \in Node |-> IF n \in Rng(kids[p]) THEN FALSE ELSE att[n]]
    /\ kids' = [kids EXCEPT ![p] = <<>>]
    /\ UNCHANGED <<loc, live, orig>> /\ Ok([n |-> "RemoveAll", p |-> p])

\* setChildren = removeAll ; add each (Composite.add does not place the child)
SetChildrenAs(p, s, a) ==
    /\ Tm /\ p \in live
    /\ \A i \in 1..Len(s) : s[i] \in Rng(kids[p]) \/ CanTake(p, s[i])
    /\ parent' = [n \in Node |-> IF n \in Rng(s) THEN p ELSE IF n \in Rng(kids[p]) THEN 0 ELSE parent[n]]
    /\ att' = [n \in Node |-> IF Places(p) /\ n \in Rng(s) THEN TRUE ELSE IF n \in Rng(kids[p]) THEN FALSE ELSE att[n]]
    /\ kids' = [kids EXCEPT ![p] = s]
    /\ loc' = IF Places(p) THEN Positions(p, s) ELSE loc
    /\ UNCHANGED <<live, orig>> /\ Ok(a)
SetChildren(p, s) == SetChildrenAs(p, s, [n |-> "SetChildren", p |-> p, s |-> s])
\* p.setChildren(p.getChildren()): the list handed out by the query is a snapshot, so this is SetChildren(p, kids[p])
SetChildrenSame(p) == p \in live /\ kids[p] # <<>> /\ SetChildrenAs(p, kids[p], [n |-> "SetChildrenSame", p |-> p])

(* add / insert of an object that another parent still lists (see the module header): moved | refused | (Deviant) stale *)
Owned(p, c) == /\ Tm /\ p \in live /\ c \in live /\ parent[c] # 0 /\ parent[c] # p /\ c \in Rng(kids[parent[c]])
               /\ c \notin Rng(AncSelf(p)) /\ Fits(p, c)
               /\ ~(Kind(parent[c]) = "grp" /\ parent[parent[c]] # 0 /\ Len(kids[parent[c]]) = 1)   \* (GroupsFilled)
TakeOwned(p, c, i, ks, placedAt, a) ==
    LET po == parent[c] IN
    \/ /\ parent' = [parent EXCEPT ![c] = p]
       /\ kids' = [kids EXCEPT ![po] = RemoveFrom(kids[po], c), ![p] = ks]
       /\ loc' = IF Places(p) THEN placedAt ELSE IF Typed THEN loc ELSE [loc EXCEPT ![c] = i]
       /\ att' = IF Places(p) THEN [n \in Node |-> att[n] \/ n \in Rng(ks)] ELSE IF Typed THEN [att EXCEPT ![c] = FALSE] ELSE [att EXCEPT ![c] = TRUE]
       /\ UNCHANGED <<live, orig>> /\ Ok([a EXCEPT !.out = "moved"])
    \/ Refuse("Refused", [a EXCEPT !.out = "refused"])
    \/ /\ Deviant
       /\ parent' = [parent EXCEPT ![c] = p]
       /\ kids' = [kids EXCEPT ![p] = ks]
       /\ loc' = IF Places(p) THEN placedAt ELSE IF Typed THEN loc ELSE [loc EXCEPT ![c] = i]
       /\ att' = IF Places(p) THEN [n \in Node |-> att[n] \/ n \in Rng(ks)] ELSE IF Typed THEN att ELSE [att EXCEPT ![c] = TRUE]
       /\ UNCHANGED <<live, orig>> /\ Ok([a EXCEPT !.out = "stale"])
AddAttached(p, c, i) ==
    /\ Owned(p, c)
    /\ LET ks == Append(kids[p], c) IN
       TakeOwned(p, c, i, ks, Positions(p, ks), [n |-> "AddAttached", p |-> p, c |-> c, i |-> i, out |-> ""])
InsertAttached(p, k, c, i) ==
    /\ Owned(p, c) /\ k \in 0..Len(kids[p])
    /\ TakeOwned(p, c, i, InsAt(kids[p], k, c), [loc EXCEPT ![c] = k], [n |-> "InsertAttached", p |-> p, k |-> k, c |-> c, i |-> i, out |-> ""])
AddAttachedAny(p, c) == WithOwned /\ AddAttached(p, c, 0)
InsertAttachedAny(p, c) == WithOwned /\ Owned(p, c) /\ \E k \in {0, Len(kids[p])} : InsertAttached(p, k, c, 0)
\* the only tolerated failure of the first invariant: the state right after the known deviation (Deviant configurations only)
KnownDeviation == Deviant /\ Dead
OneParentListedOnceD == KnownDeviation \/ OneParentListedOnce

MoveTo(c, i) ==
    \* typed mode: components are placed on their block's pin lattice (index 1 stands for a multi-cell locator)
    /\ Tm /\ (~Typed \/ (BlkGrid /\ Kind(c) = "cmp")) /\ c \in live /\ parent[c] # 0 /\ HasGrid(parent[c]) /\ (loc[c] # i \/ ~att[c])
    /\ loc' = [loc EXCEPT ![c] = i] /\ att' = [att EXCEPT ![c] = TRUE]
    /\ UNCHANGED <<parent, kids, live, orig>> /\ Ok([n |-> "MoveTo", c |-> c, i |-> i])

Sort(p) ==
    /\ ~Dead /\ (Rx => IsCore(p)) /\ p \in live /\ kids[p] # <<>> /\ Sortable(p)
    /\ kids' = [n \in Node |-> IF n \in Subtree(p) THEN StableSort(kids[n]) ELSE kids[n]]
    /\ UNCHANGED <<parent, loc, att, live, orig>> /\ Ok([n |-> "Sort", p |-> p])

\* Assembly.reestablishBlockOrder: locators := positions
Reestablish(p) ==
    /\ Tm /\ Places(p) /\ p \in live /\ kids[p] # <<>>
    /\ loc' = Positions(p, kids[p]) /\ att' = [n \in Node |-> att[n] \/ n \in Rng(kids[p])]
    /\ UNCHANGED <<parent, kids, live, orig>> /\ Ok([n |-> "Reestablish", p |-> p])

(* ---------- reactor mode: Reactor > {Core, SpentFuelPool} > Assembly > Block ---------- *)
\* Core.add(a, core.spatialGrid[cell i]): appended to the child list whatever the cell (assembly names are unique per reactor)
CoreAdd(k, a, i) ==
    /\ IsCore(k) /\ Detached(a) /\ Kind(a) = "asm" /\ CellFree(k, i) /\ \A x \in InTree(k) : orig[x] # orig[a]
    /\ parent' = [parent EXCEPT ![a] = k] /\ kids' = [kids EXCEPT ![k] = Append(kids[k], a)]
    /\ loc' = [loc EXCEPT ![a] = i] /\ att' = [att EXCEPT ![a] = TRUE]
    /\ UNCHANGED <<live, orig>> /\ Ok([n |-> "CoreAdd", k |-> k, a |-> a, i |-> i])
\* Core.removeAssembly(a, discharge=False): taken out of the model
Purge(k, a) ==
    /\ IsCore(k) /\ a \in Rng(kids[k])
    /\ parent' = [parent EXCEPT ![a] = 0] /\ kids' = [kids EXCEPT ![k] = RemoveFrom(kids[k], a)] /\ att' = [att EXCEPT ![a] = FALSE]
    /\ UNCHANGED <<loc, live, orig>> /\ Ok([n |-> "Purge", k |-> k, a |-> a])
\* Core.removeAssembly(a, discharge=True) with assembly tracking: moved into the pool's first free cell (col/row filling)
Discharge(k, a) ==
    /\ IsCore(k) /\ a \in Rng(kids[k]) /\ PoolOf(k) # 0
    /\ LET s == PoolOf(k) IN
       /\ parent' = [parent EXCEPT ![a] = s]
       /\ kids' = [kids EXCEPT ![k] = RemoveFrom(kids[k], a), ![s] = Append(kids[s], a)]
       /\ loc' = [loc EXCEPT ![a] = Min({i \in 0..N : \A x \in Rng(kids[s]) : loc[x] # i})]
       /\ att' = [att EXCEPT ![a] = TRUE]
    /\ UNCHANGED <<live, orig>> /\ Ok([n |-> "Discharge", k |-> k, a |-> a])
\* two assemblies of a core trade places (a.moveTo(b's cell); b.moveTo(a's cell)): the child order is untouched
Swap(k, a, b) ==
    /\ IsCore(k) /\ a \in Rng(kids[k]) /\ b \in Rng(kids[k]) /\ a < b
    /\ loc' = [loc EXCEPT ![a] = loc[b], ![b] = loc[a]]
    /\ UNCHANGED <<parent, kids, att, live, orig>> /\ Ok([n |-> "Swap", k |-> k, a |-> a, b |-> b])
\* Core.sortAssemsByRing(): the child list ordered by (ring, position) of the cells (cell index order here)
SortRing(k) ==
    /\ IsCore(k) /\ Len(kids[k]) >= 2
    /\ kids' = [kids EXCEPT ![k] = StableSort(kids[k])]
    /\ UNCHANGED <<parent, loc, att, live, orig>> /\ Ok([n |-> "SortRing", k |-> k])

(* deepcopy / pickle round trip of the subtree rooted at n: isomorphic, disjoint, re-linked, root detached *)
FreeIds == Node \ live
SetToSeqSorted(S) == SortSeq(SetToSeq(S), LAMBDA a, b : a < b)
CopyMap(n) == LET src == <<n>> \o Deep(n)
                  free == SetToSeqSorted(FreeIds)
              IN [i \in 1..Len(src) |-> <<src[i], free[i]>>]
Copy(n, how) ==
    /\ ~Dead /\ (Rx => Kind(n) \in {"rx", "core"}) /\ n \in live /\ Cardinality(Subtree(n)) <= Cardinality(FreeIds)
    /\ LET cm  == CopyMap(n)
           new == {cm[i][2] : i \in 1..Len(cm)}
           M(x) == (CHOOSE i \in 1..Len(cm) : cm[i][1] = x)
           to(x) == cm[M(x)][2]
           from(y) == cm[CHOOSE i \in 1..Len(cm) : cm[i][2] = y][1]
       IN /\ live' = live \cup new
          /\ parent' = [y \in Node |-> IF y \in new THEN (IF from(y) = n THEN 0 ELSE to(parent[from(y)])) ELSE parent[y]]
          /\ kids' = [y \in Node |-> IF y \in new THEN [i \in 1..Len(kids[from(y)]) |-> to(kids[from(y)][i])] ELSE kids[y]]
          /\ loc' = [y \in Node |-> IF y \in new THEN loc[from(y)] ELSE loc[y]]
          \* __setstate__ re-associates every child's locator with its (copied) parent's grid; the root's is detached
          /\ att' = [y \in Node |-> IF y \in new THEN (from(y) # n /\ HasGrid(parent[from(y)])) ELSE att[y]]
          /\ orig' = [y \in Node |-> IF y \in new THEN orig[from(y)] ELSE orig[y]]
          /\ Ok([n |-> how, x |-> n, ids |-> [i \in 1..Len(cm) |-> cm[i][2]]])

\* Block.replaceBlockWithBlock(t): the receiver's children are replaced by the children of a private deep copy of t
Replace(b, t) ==
    /\ Tm /\ Typed /\ ~BlkGrid /\ b \in live /\ t \in live /\ b # t /\ Kind(b) = "blk" /\ Kind(t) = "blk"
    /\ Len(kids[t]) <= Cardinality(FreeIds)
    /\ LET free == SetToSeqSorted(FreeIds)
           k    == Len(kids[t])
           new  == [i \in 1..k |-> free[i]]
           old  == Rng(kids[b])
           src(y) == kids[t][CHOOSE i \in 1..k : new[i] = y]
       IN /\ live' = live \cup Rng(new)
          /\ kids' = [kids EXCEPT ![b] = new]
          /\ parent' = [y \in Node |-> IF y \in Rng(new) THEN b ELSE IF y \in old THEN 0 ELSE parent[y]]
          /\ att' = [y \in Node |-> IF y \in Rng(new) \cup old THEN FALSE ELSE att[y]]
          /\ loc' = [y \in Node |-> IF y \in Rng(new) THEN loc[src(y)] ELSE loc[y]]
          \* the receiver takes over the template's parameters (flags, type name) along with the children
          /\ orig' = [y \in Node |-> IF y \in Rng(new) THEN orig[src(y)] ELSE IF y = b THEN orig[t] ELSE orig[y]]
          /\ Ok([n |-> "Replace", b |-> b, t |-> t, ids |-> new])

SmallSeqs(S) == UNION {{s \in [1..k -> S] : \A i, j \in 1..k : i # j => s[i] # s[j]} : k \in 0..MaxSet}

RemoveAbsentWhereItMatters(p, c) == (parent[c] # 0 \/ kids[p] # <<>>) /\ RemoveAbsent(p, c)
SetChildrenAny(p) == \E s \in SmallSeqs(live) : SetChildren(p, s)

InitTree ==
    /\ parent = [n \in Node |-> 0] /\ kids = [n \in Node |-> <<>>] /\ loc = [n \in Node |-> 0] /\ att = [n \in Node |-> FALSE]
    /\ live = Orig /\ orig = [n \in Node |-> IF n \in Orig THEN n ELSE 1]
    /\ err = "" /\ act = [n |-> "Init"]
\* reactor mode: the reactor holds core and pool, every assembly holds its blocks (stacked in id order), the core is empty
BlksOf(a) == SetToSeqSorted({b \in Orig : b > 3 + NAsm /\ AsmOfBlk(b) = a})
InitRx ==
    /\ parent = [n \in Node |-> IF n \in {2, 3} THEN 1 ELSE IF n \in Orig /\ n > 3 + NAsm THEN AsmOfBlk(n) ELSE 0]
    /\ kids = [n \in Node |-> IF n = 1 THEN <<2, 3>> ELSE IF n \in 4..(3 + NAsm) THEN BlksOf(n) ELSE <<>>]
    /\ loc = [n \in Node |-> IF n \in Orig /\ n > 3 + NAsm
                                THEN (CHOOSE j \in 1..Len(BlksOf(AsmOfBlk(n))) : BlksOf(AsmOfBlk(n))[j] = n) - 1 ELSE 0]
    /\ att = [n \in Node |-> n \in Orig /\ n > 3 + NAsm]
    /\ live = Orig /\ orig = [n \in Node |-> IF n \in Orig THEN n ELSE 1]
    /\ err = "" /\ act = [n |-> "Init"]
Init == IF Rx THEN InitRx ELSE InitTree

Next ==
    \/ \E p, c \in Node : \E i \in (IF Typed THEN {0} ELSE LocIx) : Add(p, c, i)
    \/ \E p, c \in Node : AddWrongType(p, c) \/ AddPresent(p, c) \/ InsertPresent(p, c) \/ RemoveChild(p, c)
    \* refused removals: explored where they could matter (the object is owned elsewhere, or the receiver has children)
    \/ \E p, c \in Node : RemoveAbsentWhereItMatters(p, c)
    \/ \E p, c \in Node : \E k \in 0..N : \E i \in (IF Typed THEN {0} ELSE LocIx) : Insert(p, k, c, i)
    \/ \E p \in Node : RemoveAll(p) \/ Sort(p) \/ Reestablish(p) \/ SetChildrenSame(p)
    \/ \E p \in Node : SetChildrenAny(p)
    \/ \E c \in Node : \E i \in LocIx : MoveTo(c, i)
    \/ \E n \in Node : Copy(n, "DeepCopy") \/ Copy(n, "Pickle")
    \/ \E b, t \in Node : Replace(b, t)
    \* already-owned objects: one cell / the two end positions are enough (the outcome does not depend on them)
    \/ \E p, c \in Node : AddAttachedAny(p, c) \/ InsertAttachedAny(p, c)
    \* reactor mode (every action carries its mode guard Tm / Rm; a tree left broken by the known deviation is terminal)
    \/ \E k, a \in Node : \E i \in LocIx : CoreAdd(k, a, i)
    \/ \E k, a \in Node : Purge(k, a) \/ Discharge(k, a)
    \/ \E k, a, b \in Node : Swap(k, a, b)
    \/ \E k \in Node : SortRing(k)

Spec == Init /\ [][Next]_<<vars, err, act>>

(* action properties *)
RefusalsChangeNothing == [][err' # "" => UNCHANGED vars]_<<vars, err, act>>
\* a copy never touches the original; copy root is a detached root
CopyLeavesOriginal == [][act'.n \in {"DeepCopy", "Pickle"} =>
                           /\ \A y \in live : parent'[y] = parent[y] /\ kids'[y] = kids[y] /\ loc'[y] = loc[y] /\ att'[y] = att[y]
                           /\ LET r == act'.ids[1] IN parent'[r] = 0 /\ ~att'[r]]_<<vars, err, act>>

(* ---------- observation record: variables + every traversal query, per live node ---------- *)
QueriesAt(n) == [
    children |-> kids[n],
    deep     |-> Deep(n),
    gen2     |-> Gen(n, 2),
    gen3     |-> Gen(n, 3),
    leaves   |-> Leaves(n),
    flagA    |-> Filter(kids[n], LAMBDA x : HasFlags(x, {"A"}, FALSE)),
    flagAx   |-> Filter(kids[n], LAMBDA x : HasFlags(x, {"A"}, TRUE)),
    flagAB   |-> Filter(kids[n], LAMBDA x : HasFlags(x, {"A", "B"}, FALSE)),
    flagAorB |-> Filter(kids[n], LAMBDA x : HasFlags(x, {"A"}, TRUE) \/ HasFlags(x, {"B"}, TRUE)),
    deepB    |-> Filter(Deep(n), LAMBDA x : HasFlags(x, {"B"}, FALSE)),
    \* (not asked of a reactor: Core and SpentFuelPool have no type-name parameter)
    type1    |-> IF Kind(n) = "rx" THEN <<>> ELSE Filter(kids[n], LAMBDA x : TypeOf(x) = "t1"),
    anc      |-> AncChain(n),
    ancB     |-> FirstOr0(Filter(AncSelf(n), LAMBDA x : HasFlags(x, {"B"}, FALSE))),
    ancBx    |-> FirstOr0(Filter(AncSelf(n), LAMBDA x : HasFlags(x, {"B"}, TRUE))),
    ancAx    |-> FirstOr0(Filter(AncSelf(n), LAMBDA x : HasFlags(x, {"A"}, TRUE))),
    ancOdd   |-> FirstOr0(Filter(AncChain(n), LAMBDA x : orig[x] % 2 = 1)),
    ancOddS  |-> FirstOr0(Filter(AncSelf(n), LAMBDA x : orig[x] % 2 = 1)),
    ancOddDist |-> LET ch == AncSelf(n) idx == {i \in 1..Len(ch) : orig[ch[i]] % 2 = 1}
                   IN IF idx = {} THEN -1 ELSE Min(idx) - 1,
    root     |-> RootOf(n),
    comps    |-> CompsOf(n),
    deepMat  |-> WithMats(Deep(n)),
    flagAMat |-> WithMats(Filter(kids[n], LAMBDA x : HasFlags(x, {"A"}, FALSE))),
    gen2Mat  |-> WithMats(Gen(n, 2)),
    compsA   |-> Filter(CompsOf(n), LAMBDA x : HasFlags(x, {"A"}, FALSE)),
    \* the owner of the grid the locator sits in: the parent -- except right after the known deviation (module header), where a
    \* block / group that took an already-owned object did not touch its locator, which still sits in the former parent's grid
    gridOwner |-> IF ~att[n] THEN 0
                  ELSE IF Dead /\ Typed /\ ~Places(parent[n]) /\ (\E p \in live : n \in Rng(kids[p]) /\ parent[n] # p)
                       THEN (CHOOSE p \in live : n \in Rng(kids[p]) /\ parent[n] # p) ELSE parent[n],
    contains |-> SetToSeqSorted({c \in live : c \in Rng(kids[n])}),
    \* a reactor's own references: r.core (the core found below it) and the ex-core registry r.excore (name -> child)
    core     |-> IF Kind(n) = "rx" THEN FirstOr0(Filter(Deep(n), LAMBDA x : Kind(x) = "core")) ELSE 0,
    excore   |-> IF Kind(n) = "rx" THEN Filter(kids[n], LAMBDA x : Kind(x) = "sfp") ELSE <<>>,
    \* a core's traversals: iterBlocks / getFirstBlock / getFirstAssembly follow the child lists; getAssemblies() is
    \* documented as sorted by location, getAssemblies(includeSFP) appends the pool's children
    blocks   |-> IF Kind(n) = "core" THEN Gen(n, 2) ELSE <<>>,
    blocksA  |-> IF Kind(n) = "core" THEN Filter(Gen(n, 2), LAMBDA x : HasFlags(x, {"A"}, FALSE)) ELSE <<>>,
    blocksOdd |-> IF Kind(n) = "core" THEN Filter(Gen(n, 2), LAMBDA x : orig[x] % 2 = 1) ELSE <<>>,
    firstBlk |-> IF Kind(n) = "core" THEN FirstOr0(Gen(n, 2)) ELSE 0,
    firstAsm |-> IF Kind(n) = "core" THEN FirstOr0(kids[n]) ELSE 0,
    asmByLoc |-> IF Kind(n) = "core" THEN StableSort(kids[n]) ELSE <<>>,
    asmAll   |-> IF Kind(n) = "core" THEN StableSort(kids[n]) \o (IF parent[n] = 0 \/ PoolOf(n) = 0 THEN <<>> ELSE kids[PoolOf(n)]) ELSE <<>>
]

Obs  == [parent |-> [n \in live |-> parent[n]], loc |-> [n \in live |-> loc[n]], att |-> [n \in live |-> att[n]],
         orig |-> [n \in live |-> orig[n]], err |-> err, q |-> [n \in live |-> QueriesAt(n)],
         stable |-> TRUE]   \* the aliasing law (module header): answers are the same after the returned lists were emptied
Vars == [parent |-> parent, kids |-> kids, loc |-> loc, att |-> att, live |-> live, orig |-> orig]
=====================================================================================================
