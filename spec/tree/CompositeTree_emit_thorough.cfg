\* emission of every explored edge and state, generic Composite mode: 3 originals + 2 pool ids, 2 grid cells, depth 4
CONSTANTS N = 5  NOrig = 3  NLoc = 2  MaxLevel = 4  Typed = FALSE  MaxSet = 2  NBlk = 0  BlkGrid = FALSE  NGrp = 0  Rx = FALSE  NAsm = 0  Deviant = TRUE  WithOwned = TRUE
ACTION_CONSTRAINT Emit
INVARIANT EmitState
INIT Init
NEXT Next
CONSTRAINT Bound
VIEW View
INVARIANT TypeOK
INVARIANT BrokenIsDead
INVARIANT OneParentListedOnceD
INVARIANT NoDuplicates
INVARIANT Acyclic
INVARIANT DetachedIsDetached
INVARIANT CopiesDisjoint
PROPERTY RefusalsChangeNothing
PROPERTY CopyLeavesOriginal
CHECK_DEADLOCK FALSE
