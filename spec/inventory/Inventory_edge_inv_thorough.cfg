\* thorough: every accounting clause as its own invariant, one edit deep with rich parameters, third core with edge assemblies
CONSTANTS NLeaf = 6  NBlk = 4  NAsm = 4  MaxLevel = 2  LSrc = 600  LMax = 20000  VMax = 100
CONSTANTS Parent <- TEdgeParent  Area <- TEdgeArea  Height <- TEdgeHeight  Sym <- TEdgeSym  W <- Wt  N0 <- TEdgeN0  H0 <- TEdgeH0
CONSTANTS Targets <- TEdgeTargetsAll  Vals <- ValsT  Facs <- FacsT  Masses <- MassesT  Maps <- MapsT  FracMaps <- FracMapsT  AddMaps <- AddMapsT  SetMaps <- SetMapsT
CONSTANTS AdjSets <- AdjSetsT  EnrFracs <- EnrFracsT  AdjMFs <- AdjMFsT
CONSTANTS HDom <- HDom123  HTargets <- TEdgeHAll  HVals <- HDom123
CONSTANTS WithLump <- No  LeafVolCut <- LeafVolCutEnv  ScaleRaises <- ScaleRaisesEnv
INIT InitB
NEXT NextB
CONSTRAINT Bound
VIEW View
INVARIANT TypeOK
INVARIANT VolumeAdditive
INVARIANT MassIsDensityTimesVolume
INVARIANT MassAdditive
INVARIANT AtomsAgree
INVARIANT MassesAgreeWithMass
INVARIANT MassFracsSumToOne
INVARIANT ConversionsInverse
PROPERTY ReadBack
PROPERTY Locality
POSTCONDITION CountReport
CHECK_DEADLOCK FALSE
