\* one block with a closed fuel/clad gap (a Void component of negative hot area): every accounting clause one edit deep, edits at every node but the gap; emitted for replay
CONSTANTS NLeaf = 4  NBlk = 1  NAsm = 1  MaxLevel = 2  LSrc = 600  LMax = 20000  VMax = 100
CONSTANTS Parent <- TGapParent  Area <- TGapArea  Height <- TGapHeight  Sym <- TGapSym  W <- Wt  N0 <- TGapN0  H0 <- TGapH0
CONSTANTS Targets <- TGapTargetsAll  Vals <- ValsQ  Facs <- FacsQ  Masses <- MassesQ  Maps <- MapsQ  FracMaps <- FracMapsQ  AddMaps <- AddMapsQ  SetMaps <- SetMapsQ
CONSTANTS AdjSets <- AdjSetsQ  EnrFracs <- EnrFracsQ  AdjMFs <- AdjMFsQ
CONSTANTS HDom <- HDom123  HTargets <- TGapHAll  HVals <- HDom123
CONSTANTS WithLump <- No  LeafVolCut <- LeafVolCutEnv  ScaleRaises <- ScaleRaisesEnv
INIT InitB
NEXT NextB
CONSTRAINT Bound
VIEW View
ACTION_CONSTRAINT Emit
INVARIANT EmitState
INVARIANT TypeOK
INVARIANT Accounting
PROPERTY ReadBack
PROPERTY Locality
POSTCONDITION CountReport
CHECK_DEADLOCK FALSE
