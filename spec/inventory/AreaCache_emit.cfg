\* all edges of the query-history graph, for replay on a real assembly, and both clauses (run with -continue: every edge is
\* printed and each violated clause is reported)
CONSTANTS MaxLevel = 5
INIT Init
NEXT Next
CONSTRAINT Bound
ACTION_CONSTRAINT Emit
INVARIANT TypeOK
INVARIANT AnswerIsWhatWasAsked
INVARIANT AssemblyVolumeIsSumOfBlocks
CHECK_DEADLOCK FALSE
