\* all edges of the query-history graph, for replay on a real assembly
CONSTANTS MaxLevel = 5
INIT Init
NEXT Next
CONSTRAINT Bound
ACTION_CONSTRAINT Emit
INVARIANT TypeOK
CHECK_DEADLOCK FALSE
