-------------------------------------------- MODULE AreaCache --------------------------------------------
(* C02, volume clause at block/assembly level: Block.getArea(cold) and what is built on it (blocks.py, assemblies.py).

   Block.getArea(cold=False) answers from a per-block cache slot and fills it on a miss; Block.clearCache() empties
   it.  Assembly.getArea() = self[0].getArea() (hot), Assembly.getVolume() = getArea() * total height;
   Block.getVolume() sums the component volumes and never looks at the slot.

   State: slot[k] in {"none","hot","cold"}: which kind of area value is stored in the slot that a question of kind k
   consults.  Design switch KeyedByCold: TRUE = one slot per kind of question; FALSE = the code as it is
   (blocks.py: self._getCached("area") / self._setCache("area", area) -- the key ignores `cold`), i.e. one shared slot.

   Clauses:
     AnswerIsWhatWasAsked          getArea(cold) returns the cold area, getArea() the hot one, in every query history
     AssemblyVolumeIsSumOfBlocks   Assembly.getVolume() is built from the hot area of its first block, so that it equals
                                   the sum of its blocks' volumes (volume clause of C02 at assembly level)
   With KeyedByCold = FALSE both are violated (Ask hot ; Ask cold  answers hot;  Invalidate ; Ask cold ; AsmVolume is
   built from the cold area).  The harness determines which design the code under test implements by replaying every
   edge, and reports the clauses as TLC evaluates them for that design. *)
EXTENDS Integers, TLC, Json, IOUtils
CONSTANTS MaxLevel
KeyedByCold == "C02_AREAKEY" \in DOMAIN IOEnv /\ IOEnv.C02_AREAKEY = "keyed"
Kind == {"hot", "cold"}
VARIABLES slot, act
SlotOf(k) == IF KeyedByCold THEN k ELSE "hot"
Answer(k) == IF slot[SlotOf(k)] = "none" THEN k ELSE slot[SlotOf(k)]
Init == slot = [k \in Kind |-> "none"] /\ act = [n |-> "Init"]
Ask(k) ==          \* b.getArea(cold = (k = "cold"))
    /\ act' = [n |-> "Ask", kind |-> k, ans |-> Answer(k)]
    /\ slot' = [slot EXCEPT ![SlotOf(k)] = Answer(k)]
AsmVolume ==       \* a.getVolume() -> a.getArea() -> a[0].getArea()
    /\ act' = [n |-> "AsmVolume", ans |-> Answer("hot")]
    /\ slot' = [slot EXCEPT ![SlotOf("hot")] = Answer("hot")]
BlkVolume ==       \* b.getVolume(): sum of component volumes, always hot, slot untouched
    /\ act' = [n |-> "BlkVolume", ans |-> "hot"] /\ UNCHANGED slot
Invalidate ==      \* b.clearCache()
    /\ act' = [n |-> "Invalidate"] /\ slot' = [k \in Kind |-> "none"]
G == TLCGet("level") < MaxLevel
DoAsk == G /\ \E k \in Kind : Ask(k)
DoAsmVolume == G /\ AsmVolume
DoBlkVolume == G /\ BlkVolume
DoInvalidate == G /\ Invalidate
Next == DoAsk \/ DoAsmVolume \/ DoBlkVolume \/ DoInvalidate
Bound == TLCGet("level") <= MaxLevel
TypeOK == slot \in [Kind -> {"none", "hot", "cold"}]
AnswerIsWhatWasAsked == act.n = "Ask" => act.ans = act.kind
AssemblyVolumeIsSumOfBlocks == act.n = "AsmVolume" => act.ans = "hot"
\* emission: the history is part of the state here (no VIEW), every edge is one query history's last step
Emit == PrintT(ToJson([lvl |-> TLCGet("level"), from |-> [slot |-> slot, act |-> act], act |-> act', to |-> [slot |-> slot', act |-> act']]))
ASSUME PrintT(ToJson([keyed |-> KeyedByCold]))
===========================================================================================================
