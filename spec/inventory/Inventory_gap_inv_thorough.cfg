\* thorough: every accounting clause as its own invariant and the read-back clauses, two edits deep, block with a negative-area gap
CONSTANTS NLeaf = 4  NBlk = 1  NAsm = 1  MaxLevel = 3  LSrc = 600  LMax = 20000  VMax = 100
CONSTANTS Parent <- TGapParent  Area <- TGapArea  Height <- TGapHeight  Sym <- TGapSym  W <- Wt  N0 <- TGapN0  H0 <- TGapH0
CONSTANTS Targets <- TGapTargetsAll  Vals <- ValsQ  Facs <- FacsQ  Masses <- MassesQ  Maps <- MapsQ  FracMaps <- FracMapsQ  AddMaps <- AddMapsQ  SetMaps <- SetMapsQ
CONSTANTS AdjSets <- AdjSetsQ  EnrFracs <- EnrFracsQ  AdjMFs <- AdjMFsQ
CONSTANTS HDom <- HDom123  HTargets <- TGapHAll  HVals <- HDom123
CONSTANTS WithLump <- No  LeafVolCut <- LeafVolCutEnv  ScaleRaises <- ScaleRaisesEnv
INIT InitB
NEXT NextB
CONSTRAINT Bound
VIEW View
INVARIANT TypeOK
INVARIANT VolumeAdditive
INVARIANT MassIsDensityTimesVolume
INVARIANT MassAdditive
INVARIANT AtomsAgree
INVARIANT MassesAgreeWithMass
INVARIANT MassFracsSumToOne
INVARIANT ConversionsInverse
PROPERTY ReadBack
PROPERTY Locality
POSTCONDITION CountReport
CHECK_DEADLOCK FALSE
