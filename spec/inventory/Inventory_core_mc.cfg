\* read-back clauses on every edge two edits deep: third core, edits at a cut leaf, a cut block, the centre assembly, the core; height changes of block 7
CONSTANTS NLeaf = 6  NBlk = 3  NAsm = 2  MaxLevel = 3  LSrc = 600  LMax = 20000  VMax = 100
CONSTANTS Parent <- TCoreParent  Area <- TCoreArea  Height <- TCoreHeight  Sym <- TCoreSym  W <- Wt  N0 <- TCoreN0  H0 <- TCoreH0
CONSTANTS Targets <- TCoreTargetsQ  Vals <- ValsQ  Facs <- FacsQ  Masses <- MassesQ  Maps <- MapsQ  FracMaps <- FracMapsQ  AddMaps <- AddMapsQ  SetMaps <- SetMapsQ
CONSTANTS AdjSets <- AdjSetsQ  EnrFracs <- EnrFracsQ  AdjMFs <- AdjMFsQ
CONSTANTS HDom <- HDom123  HTargets <- TCoreH7  HVals <- HDom123
CONSTANTS WithLump <- No  LeafVolCut <- LeafVolCutEnv  ScaleRaises <- ScaleRaisesEnv
INIT InitB
NEXT NextB
CONSTRAINT Bound
VIEW View
INVARIANT TypeOK
INVARIANT VolumeAdditive
PROPERTY ReadBack
PROPERTY Locality
POSTCONDITION CountReport
CHECK_DEADLOCK FALSE
