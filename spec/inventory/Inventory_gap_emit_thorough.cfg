\* thorough emission: every edge two edits deep on the block with a negative-area gap
CONSTANTS NLeaf = 4  NBlk = 1  NAsm = 1  MaxLevel = 3  LSrc = 600  LMax = 20000  VMax = 100
CONSTANTS Parent <- TGapParent  Area <- TGapArea  Height <- TGapHeight  Sym <- TGapSym  W <- Wt  N0 <- TGapN0  H0 <- TGapH0
CONSTANTS Targets <- TGapTargets  Vals <- ValsQ  Facs <- FacsQ  Masses <- MassesQ  Maps <- MapsQ  FracMaps <- FracMapsQ  AddMaps <- AddMapsQ  SetMaps <- SetMapsQ
CONSTANTS AdjSets <- AdjSetsQ  EnrFracs <- EnrFracsQ  AdjMFs <- AdjMFsQ
CONSTANTS HDom <- HDom123  HTargets <- TGapHAll  HVals <- HVals2
CONSTANTS WithLump <- No  LeafVolCut <- LeafVolCutEnv  ScaleRaises <- ScaleRaisesEnv
INIT InitB
NEXT NextB
CONSTRAINT Bound
VIEW View
ACTION_CONSTRAINT Emit
INVARIANT EmitState
INVARIANT TypeOK
CHECK_DEADLOCK FALSE
