\* every placement / query history of three actions: exhaustive check of NoStaleArea (run with -continue) and emission of every state and edge for replay
CONSTANTS MaxLevel = 4
INIT Init
NEXT Next
CONSTRAINT Bound
VIEW View
ACTION_CONSTRAINT Emit
INVARIANT EmitState
INVARIANT TypeOK
INVARIANT NoStaleArea
CHECK_DEADLOCK FALSE
