\* third core with edge assemblies (Sym 3, 2, 2, 1): every accounting clause one edit deep, edits at all fifteen nodes; emitted for replay
CONSTANTS NLeaf = 6  NBlk = 4  NAsm = 4  MaxLevel = 2  LSrc = 600  LMax = 20000  VMax = 100
CONSTANTS Parent <- TEdgeParent  Area <- TEdgeArea  Height <- TEdgeHeight  Sym <- TEdgeSym  W <- Wt  N0 <- TEdgeN0  H0 <- TEdgeH0
CONSTANTS Targets <- TEdgeTargetsAll  Vals <- ValsQ  Facs <- FacsQ  Masses <- MassesQ  Maps <- MapsQ  FracMaps <- FracMapsQ  AddMaps <- AddMapsQ  SetMaps <- SetMapsQ
CONSTANTS AdjSets <- AdjSetsQ  EnrFracs <- EnrFracsQ  AdjMFs <- AdjMFsQ
CONSTANTS HDom <- HDom123  HTargets <- TEdgeHAll  HVals <- HDom123
CONSTANTS WithLump <- No  LeafVolCut <- LeafVolCutEnv  ScaleRaises <- ScaleRaisesEnv
INIT InitB
NEXT NextB
CONSTRAINT Bound
VIEW View
ACTION_CONSTRAINT Emit
INVARIANT EmitState
INVARIANT TypeOK
INVARIANT Accounting
PROPERTY ReadBack
PROPERTY Locality
POSTCONDITION CountReport
CHECK_DEADLOCK FALSE
