\* quarter-core Cartesian model through the centre assembly (Sym 4, 2, and an interior assembly with a bottom block and one above, Sym 1): every accounting clause one edit deep, edits at all twelve nodes; emitted for replay on CartesianBlocks
CONSTANTS NLeaf = 4  NBlk = 4  NAsm = 3  MaxLevel = 2  LSrc = 600  LMax = 20000  VMax = 100
CONSTANTS Parent <- TCartParent  Area <- TCartArea  Height <- TCartHeight  Sym <- TCartSym  W <- Wt  N0 <- TCartN0  H0 <- TCartH0
CONSTANTS Targets <- TCartTargetsAll  Vals <- ValsQ  Facs <- FacsQ  Masses <- MassesQ  Maps <- MapsQ  FracMaps <- FracMapsQ  AddMaps <- AddMapsQ  SetMaps <- SetMapsQ
CONSTANTS AdjSets <- AdjSetsQ  EnrFracs <- EnrFracsQ  AdjMFs <- AdjMFsQ
CONSTANTS HDom <- HDom123  HTargets <- TCartHAll  HVals <- HDom123
CONSTANTS WithLump <- No  LeafVolCut <- LeafVolCutEnv  ScaleRaises <- ScaleRaisesEnv
INIT InitB
NEXT NextB
CONSTRAINT Bound
VIEW View
ACTION_CONSTRAINT Emit
INVARIANT EmitState
INVARIANT TypeOK
INVARIANT Accounting
PROPERTY ReadBack
PROPERTY Locality
POSTCONDITION CountReport
CHECK_DEADLOCK FALSE
