\* exhaustive, one block of three components, edits at two components and the block, depth 3
CONSTANTS NLeaf = 3  NBlk = 1  NAsm = 1  MaxLevel = 3
CONSTANTS Parent <- BlkParent  Area <- BlkArea3  Height <- BlkHeight  Sym <- BlkSym  W <- Wt  N0 <- BlkN0  H0 <- BlkH0
CONSTANTS Targets <- BlkTargets  Vals <- ValsQ  Facs <- FacsQ  Masses <- MassesQ  Maps <- MapsQ  FracMaps <- FracMapsQ
CONSTANTS LeafVolCut <- LeafVolCutEnv
INIT Init
NEXT Next
CONSTRAINT Bound
VIEW View
INVARIANT TypeOK
INVARIANT VolumeAdditive
INVARIANT MassIsDensityTimesVolume
INVARIANT MassAdditive
INVARIANT TotalMassIsDensityTimesVolume
INVARIANT AtomsAgree
INVARIANT MassesAgreeWithMass
INVARIANT MassFracsSumToOne
INVARIANT ConversionsInverse
PROPERTY ReadBack
PROPERTY Locality
CHECK_DEADLOCK FALSE
