\* every query history of length <= 4 over {getArea(), getArea(cold=True), Assembly.getVolume(), Block.getVolume(), clearCache()}; run with -continue so that each clause is reported
CONSTANTS MaxLevel = 5
INIT Init
NEXT Next
CONSTRAINT Bound
INVARIANT TypeOK
INVARIANT AnswerIsWhatWasAsked
INVARIANT AssemblyVolumeIsSumOfBlocks
CHECK_DEADLOCK FALSE
