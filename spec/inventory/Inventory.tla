--------------------------------------------- MODULE Inventory ---------------------------------------------
(* C02 -- mass, volume and number densities are accounted consistently at every level
   (armi/reactor/composites.py, components/component.py, blocks.py, assemblies.py, utils/densityTools.py).

   OBJECTS.  A fixed tree  core > assemblies > blocks > leaves (components); nodes are numbered leaves first,
   then blocks, assemblies, core.  Leaves carry an integer cross-section Area[l] (cm2, hot), blocks an integer
   Height[b] and a symmetry factor Sym[b] in {1,2,3,4} (HexBlock.getSymmetryFactor: 3 = centre of a third core, 2 = edge
   assembly present on both edges, 1 otherwise; CartesianBlock.getSymmetryFactor in a quarter core through the centre assembly:
   4 = centre, 2 = on a symmetry line, 1 = interior, for every axial position).  Nuclides {a,b,c,d}; {a,b,d} are isotopes of one element E (d not a natural one); abstract integer
   atomic weights W[n] (the harness runs the real code with the weights of the three nuclides set to exactly these
   values).  UNITS: masses and mass densities are in units of 1/K gram, K = units.MOLES_PER_CC_TO_ATOMS_PER_BARN_CM
   (model mass = K * grams); atoms in units of 1e24.  These are unit conversions done by the adapter's projection.

   STATE.  hgt[b]   height of block b (Block.p.height; an integer of HDom) -- volumes are state;
           N[l][n]  number density of n in leaf l (exact rational <<num,den>>, Rational.tla);
           H[l]     the keys of Component.p.numberDensities (a component "holds" n iff n is a key, also with value 0);
           tr       TRUE once clearNumberDensities has put TRACE_NUMBER_DENSITY (1e-50, modelled as 0) somewhere.

   QUERIES (what the code computes, transcribed):
     Vol(leaf)  = Area*Height(parent)                        Component.computeVolume   (NOT reduced by symmetry)
     Vol(block) = (sum of leaf volumes)/Sym                  Block.getVolume
     Vol(asm)   = Block.getArea(first block) * total height  Assembly.getVolume / getArea
     Vol(core)  = sum of assembly volumes                    ArmiObject.getVolume
     ND(x,n)    = sum_c w_c ND(c,n) / sum_c w_c,  w_c = Vol(c)/SymOf(x)     ArmiObject.getNuclideNumberDensities
     Mass(leaf,S) = (sum_{n in S} N W)/K * Vol/Sym(parent)   Component.getMass;   Mass(x,S) = sum over children
     Masses(x)[n] = ND*EditVol(x)*W/K                        ArmiObject.getMasses (getVolume; see LeafVolCut)
     Dens(x) = sum_n ND W / K;  MassFracs = densityTools.getMassFractions(getNumberDensities());  Atoms = ND*EditVol
   EDITS, one action per public mutator, at any node x in Targets (refusals leave the state unchanged):
     SetN        setNumberDensity        distributed over the children that hold n, scaled by 1/(their volume fraction);
                                         ValueError when nobody below x holds n and v # 0
     UpdateN     updateNumberDensities   like SetN per entry, but a nuclide nobody holds is spread over ALL children
     SetNs       setNumberDensities      unlisted nuclides -> 0 (composite: keys kept; component: keys wiped)
     Scale       changeNDensByFactor     composite: homogenised densities * f re-distributed by setNumberDensities
     Clear       clearNumberDensities    every held nuclide -> trace
     AddMass / RemoveMass / SetMass      via calculateNumberDensity(n, m, getVolume()) and setNumberDensity
     SetMassFracs                        rho = density(); listed: N = f rho K / W; the others re-normalised to 1 - sum f
     AddMasses   addMasses(dict)         addMass entry by entry in dict order, zero entries skipped, negative entries remove;
                                         the first entry naming a nuclide nobody holds raises ValueError, earlier entries stay applied
     SetMasses   setMasses(dict)         clearNumberDensities, then setMass entry by entry (same partial application)
     SetHeight   Block.setHeight(h, conserveMass, adjustList)
                                         p.height = h, caches cleared; conserveMass: Block.adjustDensity(old/new, adjustList);
                                         an empty adjustList raises ValueError *after* the height was changed
     AdjustDensity Block.adjustDensity(f, adjustList): every listed nuclide with a non-zero homogenised density is re-set at
                                         block level to density * f (+ trace); nuclides not listed are not touched
     AdjustEnrich Component.adjustMassEnrichment(f): the enriched nuclide a gets the share f of the element's mass fraction,
                                         the other isotopes (all isotopes of the element, natural or not) share 1 - f in their
                                         old proportions; applied with setMassFracs
     AdjustMF    adjustMassFrac(adjust, hold, v): the mass fractions of the adjusted nuclide/element sum to v (scaled, or spread
                                         evenly when they had none), the held ones stay, the rest is scaled to fill 1; setMassFracs

   INTERPRETATION CHOICES (also in evidence.assumptions)
   * All blocks of one assembly have the same cross-section and symmetry factor (ASSUME EqualAreas): ARMI defines the
     assembly volume from its first block; without it "volume = sum of children" is not promised by the code.
   * "Volume of a component in the model" is Vol/Sym(parent) (CutVol): Component.getVolume reports the physical, uncut
     component, Component.getMass the part inside the model.  The clauses "mass = density x volume" and "atoms agree
     over levels" are stated with CutVol for leaves.
   * LeafVolCut is a design switch.  FALSE transcribes the code as it is: ArmiObject.getMasses / getNumberOfAtoms /
     addMass / setMass use getVolume(), i.e. the uncut volume on a component, while getMass uses the cut volume.
     Under FALSE the clauses CutLeaf* below are violated for leaves of blocks with Sym > 1 (setMass(n,m) reads back
     getMass(n) = m/Sym).  TRUE is the consistent design (those four use the cut volume on components).  The harness
     determines which design the code under test implements by conformance, and reports the CutLeaf* clauses as TLC
     evaluates them for that design.
   * ScaleRaises is a second design switch.  TRUE transcribes the code as it is: ArmiObject.changeNDensByFactor sets the
     scaled densities and then touches self.p.detailedNDens / self.p.pinNDens, parameters that blocks (pinNDens),
     assemblies and cores (both) do not define: on every non-component the call raises AttributeError *after* the
     densities were changed.  FALSE is the design in which the call completes.  Clause ScaleAtAnyLevel fails under TRUE.
   * Geometry changes between composition edits are modelled by SetHeight only (component dimension / temperature changes
     follow material laws, property C03).  All accounting clauses are state invariants and therefore hold in every geometry
     reached; read-back clauses are checked on the edits that follow a height change; HeightChange states what the height
     change itself preserves.
   * Vector calls are not atomic in the code; the specification transcribes that (RefusalsChangeNothing does not speak about
     them) and claims read-back for the calls that complete.
   * Component.density() falls back to the material's density when the composition is all-zero; that convenience is
     outside the property: leaf density is observed, and SetMassFracs on a leaf is modelled, only where it is non-zero.
   * RemoveMass never removes all there is (floating point cancellation residues would otherwise decide branches of
     setMassFracs that the exact model decides differently); negative densities are not requested.
   * SetMassFracs read-back is claimed for feasible requests (the unlisted nuclides have mass, or the listed
     fractions sum to one); maps naming a nuclide nobody holds are exercised as single-entry refusals only (a longer
     map would be applied partially before the ValueError -- not modelled).
*)
EXTENDS Integers, Sequences, FiniteSets, TLC, Json, FiniteSetsExt, SequencesExt, Rational, RationalSafe

CONSTANTS NLeaf, NBlk, NAsm,
          Parent,       \* <<parent node of node 1, 2, ... CoreId-1>>
          Area,         \* [Leaf -> 1..]   hot cross-section
          Height,       \* [Blk -> HDom]  initial heights
          HDom,         \* heights a block can take
          HTargets,     \* blocks whose height is changed
          HVals,        \* heights SetHeight chooses from (a subset of HDom)
          Sym,          \* [Blk -> {1,2,3}]
          W,            \* [Nuc -> 1..]    abstract atomic weights
          N0, H0,       \* initial composition
          Targets,      \* nodes at which edits are applied
          Vals, Facs, Masses, Maps, FracMaps, AddMaps, SetMaps,   \* parameter domains of the edits
          AdjSets,      \* adjustList values (subsets of Nuc: all, proper subsets, empty, nuclides nobody holds)
          EnrFracs,     \* enrichments for AdjustEnrich
          AdjMFs,       \* [adj, hold, v] records for AdjustMF; adj / hold name a nuclide, "E" (the element) or "" (none)
          MaxLevel,
          LSrc,         \* mass-fraction edits start from states whose densities have a common denominator <= LSrc
          LMax, VMax,   \* modelling bound on magnitudes: lcm of all denominators <= LMax, every density <= VMax
          WithLump,     \* TRUE: the nuclide set contains the lumped fission product e
          LeafVolCut,   \* design switch, see header
          ScaleRaises   \* design switch, see header

\* WithLump adds e, a lumped fission product (a LumpNuclideBase with its own fixed weight) that the object's LFP collection
\* expands into constituents with yields: c (which is also tracked explicitly) and x (which is not a nuclide of the state)
Nuc    == IF WithLump THEN {"a", "b", "c", "d", "e"} ELSE {"a", "b", "c", "d"}
NucSeq == IF WithLump THEN <<"a", "b", "c", "d", "e">> ELSE <<"a", "b", "c", "d">>
Yield  == [c |-> <<1, 2>>, x |-> <<3, 2>>]        \* LumpedFissionProduct: constituent -> yield per lump atom
ExpNuc == (Nuc \ {"e"}) \cup {"x"}
Elem   == {"a", "b", "d"}        \* isotopes of one element; d is not a naturally occurring one (U235, U238, U236)
Leaf   == 1..NLeaf
Blk    == (NLeaf + 1)..(NLeaf + NBlk)
Asm    == (NLeaf + NBlk + 1)..(NLeaf + NBlk + NAsm)
CoreId == NLeaf + NBlk + NAsm + 1
Node   == 1..CoreId
IsLeaf(x) == x \in Leaf
IsBlk(x)  == x \in Blk
IsAsm(x)  == x \in Asm

VARIABLES N, H, tr, hgt, act, err
vars    == <<N, H, tr, hgt>>
allvars == <<N, H, tr, hgt, act, err>>

(* ------------------------------------------ the constant tree ------------------------------------------ *)
KidsTab == TLCEval([x \in Node |-> {c \in 1..(CoreId - 1) : Parent[c] = x}])    \* TLCEval: tables are computed once
RECURSIVE LU(_)
LU(x) == IF IsLeaf(x) THEN {x} ELSE UNION {LU(c) : c \in KidsTab[x]}
Under == TLCEval([x \in Node |-> LU(x)])                                    \* leaves below (or equal to) x
FirstBlk(a) == CHOOSE b \in KidsTab[a] : \A c \in KidsTab[a] : b <= c   \* self[0]: blocks are stacked in id order
ISum(S, f(_)) == FoldSet(LAMBDA x, acc : f(x) + acc, 0, S)
SymOf(x) == IF IsBlk(x) THEN Sym[x] ELSE IF IsAsm(x) THEN Sym[FirstBlk(x)] ELSE 1     \* getSymmetryFactor
BlkArea(b) == RFrac(ISum(KidsTab[b], LAMBDA l : Area[l]), Sym[b])                      \* Block.getArea (hot)
\* geometry as a function of the block heights hh; one table for all height vectors, computed once
GeoOf(hh) ==
    LET volLeaf(l) == Area[l] * hh[Parent[l]]                                          \* Component.computeVolume
        volBlk(b)  == RFrac(ISum(KidsTab[b], volLeaf), Sym[b])                         \* Block.getVolume
        volAsm(a)  == QMul(BlkArea(FirstBlk(a)), RInt(ISum(KidsTab[a], LAMBDA b : hh[b])))   \* Assembly.getVolume
        vol == TLCEval([x \in Node |-> IF IsLeaf(x) THEN RInt(volLeaf(x)) ELSE IF IsBlk(x) THEN volBlk(x)
                                       ELSE IF IsAsm(x) THEN volAsm(x) ELSE QSumSet(Asm, volAsm)])
        cut == TLCEval([x \in Node |-> IF IsLeaf(x) THEN RFrac(volLeaf(x), Sym[Parent[x]]) ELSE vol[x]])
    IN [vol  |-> vol,                                                                  \* getVolume()
        cut  |-> cut,                                                                  \* the part inside the model
        edit |-> IF LeafVolCut THEN cut ELSE vol,                                      \* what getMasses/addMass/setMass/getNumberOfAtoms use
        frac |-> TLCEval([x \in Node |-> TLCEval([c \in KidsTab[x] |->              \* getVolumeFractions
                     QDiv(vol[c], QSumSet(KidsTab[x], LAMBDA k : vol[k]))])])]
GeoTab  == TLCEval([hh \in [Blk -> HDom] |-> GeoOf(hh)])
Vol     == GeoTab[hgt].vol
CutVol  == GeoTab[hgt].cut
EditVol == GeoTab[hgt].edit
VolFrac == GeoTab[hgt].frac

ASSUME WellFormed ==
    /\ \A l \in Leaf : Parent[l] \in Blk
    /\ \A b \in Blk : Parent[b] \in Asm /\ KidsTab[b] # {}
    /\ \A a \in Asm : Parent[a] = CoreId /\ KidsTab[a] # {}
    /\ \A n \in Nuc : W[n] \in Nat \ {0}
    /\ \A b \in Blk : Height[b] \in HDom
    /\ HTargets \subseteq Blk
ASSUME EqualAreas ==       \* stated assumption of the property's volume clause at assembly level
    \A a \in Asm : \A b1, b2 \in KidsTab[a] :
        /\ ISum(KidsTab[b1], LAMBDA l : Area[l]) = ISum(KidsTab[b2], LAMBDA l : Area[l])
        /\ Sym[b1] = Sym[b2]

(* ------------------------------------------------ queries ---------------------------------------------- *)
Has(HH, x, n)  == \E l \in Under[x] : n \in HH[l]                  \* n in x.getNuclides()
NucsAt(HH, x)  == UNION {HH[l] : l \in Under[x]}
RECURSIVE NDg(_, _, _, _)
NDg(g, NN, x, n) ==                                                \* getNumberDensity / getNuclideNumberDensities in geometry g
    IF IsLeaf(x) THEN NN[x][n]
    ELSE LET w(c) == QDiv(g.vol[c], RInt(SymOf(x)))
         IN QDiv(QSumSet(KidsTab[x], LAMBDA c : QMul(w(c), NDg(g, NN, c, n))), QSumSet(KidsTab[x], w))
ND(NN, x, n) == NDg(GeoTab[hgt], NN, x, n)
NDvec(NN, x) == [n \in Nuc |-> ND(NN, x, n)]

\* utils/densityTools.py (pure functions; K-free units)
DT_MassDensity(v)        == QSumSet(Nuc, LAMBDA n : QMul(v[n], RInt(W[n])))                     \* calculateMassDensity
DT_MassFractions(v)      == LET tot == DT_MassDensity(v)                                          \* getMassFractions
                            IN [n \in Nuc |-> IF RIsZero(tot) THEN RZero ELSE QDiv(QMul(v[n], RInt(W[n])), tot)]
DT_NDensFromMasses(rho, mf) == [n \in Nuc |-> QDiv(QMul(mf[n], rho), RInt(W[n]))]                \* getNDensFromMasses
DT_NumberDensity(n, m, V) == QDiv(m, QMul(V, RInt(W[n])))                                        \* calculateNumberDensity
DT_MassInGrams(n, V, d)   == QMul(QMul(d, V), RInt(W[n]))                                        \* getMassInGrams

LeafRho(NN, l, S) == QSumSet(S, LAMBDA n : QMul(NN[l][n], RInt(W[n])))
RECURSIVE Massg(_, _, _, _)
Massg(g, NN, x, S) == IF IsLeaf(x) THEN QMul(LeafRho(NN, x, S), g.cut[x])                        \* Component.getMass
                      ELSE QSumSet(KidsTab[x], LAMBDA c : Massg(g, NN, c, S))                    \* ArmiObject.getMass
Mass(NN, x, S) == Massg(GeoTab[hgt], NN, x, S)
Dens(NN, x)       == DT_MassDensity(NDvec(NN, x))                                                \* density()
MassFracs(NN, x)  == DT_MassFractions(NDvec(NN, x))                                              \* getMassFracs()
MassesAt(NN, x)   == [n \in Nuc |-> DT_MassInGrams(n, EditVol[x], ND(NN, x, n))]                 \* getMasses()
Atoms(NN, x, n)   == QMul(ND(NN, x, n), EditVol[x])                                              \* getNumberOfAtoms
\* nuclide specifiers accepted by getMass: a name, an element symbol, a list of those, None
\* ... and selections that select nothing: the empty list, a nuclide nobody holds (not even a nuclide of the model), a list of those
Sel == [a |-> {"a"}, b |-> {"b"}, c |-> {"c"}, E |-> Elem, Lac |-> {"a", "c"}, LEc |-> Elem \cup {"c"}, all |-> Nuc,
        none |-> {}, absent |-> {}, absentList |-> {}]
\* getNumberDensities(expandFissionProducts=True): explicit density plus the share held in the lumps, the lumps themselves removed
ExpND(NN, x, n) == LET base == IF n \in Nuc THEN ND(NN, x, n) ELSE RZero
                   IN IF WithLump /\ n \in DOMAIN Yield THEN QAdd(base, QMul(Yield[n], ND(NN, x, "e"))) ELSE base

(* ------------------------------------------------- edits ----------------------------------------------- *)
St == [N |-> N, H |-> H]
RECURSIVE PutN(_, _, _, _)
PutN(st, x, n, v) ==                   \* setNumberDensity below the refusal check of the receiving object
    IF IsLeaf(x) THEN [N |-> [st.N EXCEPT ![x][n] = v], H |-> [st.H EXCEPT ![x] = @ \cup {n}]]
    ELSE LET active == {c \in KidsTab[x] : Has(st.H, c, n)}
         IN IF active = {} THEN st
            ELSE LET dv == QDiv(v, QSumSet(active, LAMBDA c : VolFrac[x][c]))
                 IN FoldSet(LAMBDA c, acc : PutN(acc, c, n, dv), st, active)
RECURSIVE Upd1(_, _, _, _)
Upd1(st, x, n, d) ==                   \* one entry of updateNumberDensities
    IF IsLeaf(x) THEN [N |-> [st.N EXCEPT ![x][n] = d], H |-> [st.H EXCEPT ![x] = @ \cup {n}]]
    ELSE LET active == {c \in KidsTab[x] : Has(st.H, c, n)}
         IN IF active = {} THEN (IF RIsZero(d) THEN st ELSE FoldSet(LAMBDA c, acc : Upd1(acc, c, n, d), st, KidsTab[x]))
            ELSE LET dv == QDiv(d, QSumSet(active, LAMBDA c : VolFrac[x][c]))
                 IN FoldSet(LAMBDA c, acc : Upd1(acc, c, n, dv), st, active)
UpdMap(st, x, m) == FoldSet(LAMBDA n, acc : Upd1(acc, x, n, m[n]), st, DOMAIN m)
SetMap(st, x, m) ==                    \* setNumberDensities
    IF IsLeaf(x) THEN [N |-> [st.N EXCEPT ![x] = [n \in Nuc |-> IF n \in DOMAIN m THEN m[n] ELSE RZero]],
                       H |-> [st.H EXCEPT ![x] = DOMAIN m]]
    ELSE UpdMap(st, x, [n \in (DOMAIN m) \cup NucsAt(st.H, x) |-> IF n \in DOMAIN m THEN m[n] ELSE RZero])
ScaleSt(st, x, f) ==                   \* changeNDensByFactor
    IF IsLeaf(x) THEN [N |-> [st.N EXCEPT ![x] = [n \in Nuc |-> QMul(@[n], f)]], H |-> st.H]
    ELSE SetMap(st, x, [n \in NucsAt(st.H, x) |-> QMul(ND(st.N, x, n), f)])
ClearSt(st, x) == SetMap(st, x, [n \in NucsAt(st.H, x) |-> RZero])   \* trace (1e-50) modelled as 0, tr' = TRUE
MassFracSt(st, x, fm) ==               \* setMassFracs, all setNumberDensity calls accepted
    LET rho    == Dens(st.N, x)
        old    == MassFracs(st.N, x)
        listed == DOMAIN fm
        others == NucsAt(st.H, x) \ listed
        st1    == FoldSet(LAMBDA n, acc : PutN(acc, x, n, QDiv(QMul(fm[n], rho), RInt(W[n]))), st, listed)
        totSet == QSumSet(listed, LAMBDA n : fm[n])
        totOth == QSumSet(others, LAMBDA n : old[n])
    IN IF RIsZero(totOth) THEN st1
       ELSE FoldSet(LAMBDA o, acc : PutN(acc, x, o,
                        QDiv(QMul(QMul(QSub(ROne, totSet), QDiv(old[o], totOth)), rho), RInt(W[o]))), st1, others)

\* TLC integers are 32-bit: an edit whose result leaves the bounded domain of magnitudes is not taken in the model
\* (a bound of the exploration like MaxLevel, not a refusal of the code)
SmallSt(st) == LET dens == {st.N[l][n][2] : l \in Leaf, n \in Nuc}
               IN /\ \A d \in dens : d <= LMax
                  /\ FoldSet(LAMBDA d, acc : IF acc > LMax THEN acc ELSE QLcm(d, acc), 1, dens) <= LMax
                  /\ \A l \in Leaf, n \in Nuc : st.N[l][n][1] <= VMax * st.N[l][n][2]
\* the mass-fraction edits multiply several densities and weights: they start only from states whose densities have a small common
\* denominator (again a bound of the exploration; the trace driver keeps to it as well)
Tame == FoldSet(LAMBDA d, acc : IF acc > LSrc THEN acc ELSE QLcm(d, acc), 1, {N[l][n][2] : l \in Leaf, n \in Nuc}) <= LSrc
Accept(a, st2, t) == SmallSt(st2) /\ N' = st2.N /\ H' = st2.H /\ tr' = t /\ hgt' = hgt /\ act' = a /\ err' = ""
Refuse(a, kind)   == UNCHANGED vars /\ act' = a /\ err' = kind

SetN(x, n, v) ==
    LET a == [n |-> "SetN", x |-> x, nuc |-> n, v |-> v]
    IN IF ~IsLeaf(x) /\ ~Has(H, x, n) /\ ~RIsZero(v) THEN Refuse(a, "ValueError") ELSE Accept(a, PutN(St, x, n, v), tr)
UpdateN(x, m) == Accept([n |-> "UpdateN", x |-> x, m |-> m], UpdMap(St, x, m), tr)
SetNs(x, m)   == Accept([n |-> "SetNs", x |-> x, m |-> m], SetMap(St, x, m), tr)
Scale(x, f)   == LET st2 == ScaleSt(St, x, f) IN
                 /\ SmallSt(st2) /\ N' = st2.N /\ H' = st2.H /\ tr' = tr /\ hgt' = hgt
                 /\ act' = [n |-> "Scale", x |-> x, f |-> f]
                 /\ err' = IF ScaleRaises /\ ~IsLeaf(x) THEN "AttributeError" ELSE ""   \* raised after the densities were set
Clear(x)      == NucsAt(H, x) # {} /\ Accept([n |-> "Clear", x |-> x], ClearSt(St, x), TRUE)
MassEdit(name, x, n, m, v) ==          \* addMass / removeMass / setMass end in setNumberDensity(n, v)
    LET a == [n |-> name, x |-> x, nuc |-> n, m |-> m]
    IN IF ~IsLeaf(x) /\ ~Has(H, x, n) /\ ~RIsZero(v) THEN Refuse(a, "ValueError") ELSE Accept(a, PutN(St, x, n, v), tr)
AddMass(x, n, m)    == MassEdit("AddMass", x, n, m, QAdd(ND(N, x, n), DT_NumberDensity(n, m, EditVol[x])))
RemoveMass(x, n, m) == /\ RLt(m, DT_MassInGrams(n, EditVol[x], ND(N, x, n)))      \* never all there is
                       /\ MassEdit("RemoveMass", x, n, m, QAdd(ND(N, x, n), DT_NumberDensity(n, RNeg(m), EditVol[x])))
SetMass(x, n, m)    == MassEdit("SetMass", x, n, m, DT_NumberDensity(n, m, EditVol[x]))
SetMassFracs(x, fm) ==
    LET a == [n |-> "SetMassFracs", x |-> x, m |-> fm]
        rho == Dens(N, x)
    IN /\ ~tr /\ Tame
       /\ IF RIsZero(rho) THEN ~IsLeaf(x) /\ Refuse(a, "ValueError")                \* "mass density is zero"
          ELSE LET absent == {n \in DOMAIN fm : ~Has(H, x, n) /\ ~RIsZero(fm[n])}
               IN IF IsLeaf(x) \/ absent = {} THEN Accept(a, MassFracSt(St, x, fm), tr)
                  ELSE Cardinality(DOMAIN fm) = 1 /\ Refuse(a, "ValueError")        \* nobody holds the nuclide

\* vector calls: entry by entry in dict order (= NucSeq order), the first refused entry ends the call with the earlier ones applied
RECURSIVE MassSeq(_, _, _, _, _)
MassSeq(r, x, m, i, add) ==
    IF i > Len(NucSeq) \/ r.err # "" THEN r
    ELSE LET n == NucSeq[i]
         IN IF n \notin DOMAIN m \/ (add /\ RIsZero(m[n])) THEN MassSeq(r, x, m, i + 1, add)     \* addMasses: "if mass:"
            ELSE LET d == DT_NumberDensity(n, m[n], EditVol[x])
                     v == IF add THEN QAdd(ND(r.st.N, x, n), d) ELSE d
                 IN IF ~IsLeaf(x) /\ ~Has(r.st.H, x, n) /\ ~RIsZero(v) THEN [st |-> r.st, err |-> "ValueError"]
                    ELSE MassSeq([st |-> PutN(r.st, x, n, v), err |-> ""], x, m, i + 1, add)
VectorDone(a, r, t) == SmallSt(r.st) /\ N' = r.st.N /\ H' = r.st.H /\ tr' = t /\ hgt' = hgt /\ act' = a /\ err' = r.err
AddMasses(x, m) ==
    /\ \A n \in DOMAIN m : RLeq(RZero, m[n]) \/ RLt(RNeg(m[n]), DT_MassInGrams(n, EditVol[x], ND(N, x, n)))   \* never all there is
    /\ VectorDone([n |-> "AddMasses", x |-> x, m |-> m], MassSeq([st |-> St, err |-> ""], x, m, 1, TRUE), tr)
SetMasses(x, m) ==
    /\ \A n \in DOMAIN m : RLeq(RZero, m[n])
    /\ VectorDone([n |-> "SetMasses", x |-> x, m |-> m], MassSeq([st |-> ClearSt(St, x), err |-> ""], x, m, 1, FALSE), TRUE)
AdjustSt(st, b, f, adj) ==             \* Block.adjustDensity: homogenised densities read once, then one setNumberDensity per nuclide
    FoldSet(LAMBDA n, acc : IF RIsZero(ND(N, b, n)) THEN acc ELSE PutN(acc, b, n, QMul(ND(N, b, n), f)), st, adj)
SetHeight(b, h, cons, adj) ==
    LET a   == [n |-> "SetHeight", x |-> b, h |-> h, cons |-> cons, adj |-> [i \in 1..Len(NucSeq) |-> NucSeq[i] \in adj]]
        st2 == IF cons /\ adj # {} THEN AdjustSt(St, b, RFrac(hgt[b], h), adj) ELSE St
    IN /\ h # hgt[b] /\ (~cons => adj = {})
       /\ SmallSt(st2) /\ N' = st2.N /\ H' = st2.H /\ tr' = tr /\ hgt' = [hgt EXCEPT ![b] = h] /\ act' = a
       /\ err' = IF cons /\ adj = {} THEN "ValueError" ELSE ""        \* "Nuclides in adjustList must be provided", height already set
AdjustDensity(b, f, adj) ==
    LET st2 == AdjustSt(St, b, f, adj)
    IN Accept([n |-> "AdjustDensity", x |-> b, f |-> f, adj |-> [i \in 1..Len(NucSeq) |-> NucSeq[i] \in adj]], st2, tr)
\* mass-fraction edits that end in setMassFracs with every nuclide of the object listed
Resolve(s) == IF s = "E" THEN Elem ELSE IF s = "" THEN {} ELSE {s}
AdjustEnrich(l, f) ==
    LET mf   == MassFracs(N, l)
        e    == QSumSet(Elem, LAMBDA n : mf[n])
        rest == QSub(e, mf["a"])
        fm   == [n \in {k \in Elem : k = "a" \/ ~RIsZero(mf[k])} |->
                    IF n = "a" THEN QMul(e, f) ELSE QMul(QMul(e, QSub(ROne, f)), QDiv(mf[n], rest))]
    IN /\ IsLeaf(l) /\ ~tr /\ Tame /\ "a" \in H[l] /\ ~RIsZero(rest)     \* (KeyError / ZeroDivisionError otherwise: not requested)
       /\ Accept([n |-> "AdjustEnrich", x |-> l, f |-> f], MassFracSt(St, l, fm), tr)
AdjustMF(x, adj, hold, v) ==
    LET a    == [n |-> "AdjustMF", x |-> x, adj |-> adj, hold |-> hold, v |-> v]
        here == NucsAt(H, x)
        mf   == MassFracs(N, x)
        AN   == Resolve(adj) \cap here
        CN   == Resolve(hold) \cap here
        A    == QSumSet(AN, LAMBDA n : mf[n])
        C    == QSumSet(CN, LAMBDA n : mf[n])
        O    == QSub(QSub(ROne, A), C)
        newA == IF AN = {} THEN RZero ELSE v
        f2   == IF RIsZero(O) THEN ROne ELSE QDiv(QSub(QSub(ROne, newA), C), O)
        fm   == [n \in here \ CN |->          \* the held nuclides are not listed: setMassFracs re-normalises them to what is left
                    IF n \in AN THEN (IF RIsZero(A) THEN QDiv(v, RInt(Cardinality(AN))) ELSE QMul(mf[n], QDiv(v, A)))
                    ELSE QMul(mf[n], f2)]
    IN /\ ~tr /\ Tame /\ ~RIsZero(Dens(N, x)) /\ AN \cap CN = {}
       /\ RLeq(QAdd(newA, C), ROne)                     \* legal request: the adjusted and the held fractions fit into one
       /\ IF AN = {} THEN ~RIsZero(v) /\ Refuse(a, "RuntimeError")            \* "Failed to adjust mass fraction."
          ELSE Accept(a, MassFracSt(St, x, fm), tr)

Init == N = N0 /\ H = H0 /\ tr = FALSE /\ hgt = [b \in Blk |-> Height[b]] /\ act = [n |-> "Init"] /\ err = ""
DoSetN        == \E x \in Targets, n \in Nuc, v \in Vals : SetN(x, n, v)
DoUpdateN     == \E x \in Targets, m \in Maps : UpdateN(x, m)
DoSetNs       == \E x \in Targets, m \in Maps : SetNs(x, m)
DoScale       == \E x \in Targets, f \in Facs : Scale(x, f)
DoClear       == \E x \in Targets : Clear(x)
DoAddMass     == \E x \in Targets, n \in Nuc, m \in Masses : AddMass(x, n, m)
DoRemoveMass  == \E x \in Targets, n \in Nuc, m \in Masses : RemoveMass(x, n, m)
DoSetMass     == \E x \in Targets, n \in Nuc, m \in Masses : SetMass(x, n, m)
DoSetMassFracs == \E x \in Targets, fm \in FracMaps : SetMassFracs(x, fm)
DoAddMasses   == \E x \in Targets, m \in AddMaps : AddMasses(x, m)
DoSetMasses   == \E x \in Targets, m \in SetMaps : SetMasses(x, m)
DoSetHeight   == \E b \in HTargets, h \in HVals : SetHeight(b, h, FALSE, {}) \/ \E adj \in AdjSets : SetHeight(b, h, TRUE, adj)
DoAdjustDensity == \E b \in HTargets, f \in Facs, adj \in AdjSets : AdjustDensity(b, f, adj)
DoAdjustEnrich == \E l \in Targets \cap Leaf, f \in EnrFracs : AdjustEnrich(l, f)
DoAdjustMF    == \E x \in Targets, r \in AdjMFs : AdjustMF(x, r.adj, r.hold, r.v)
Next == DoSetN \/ DoUpdateN \/ DoSetNs \/ DoScale \/ DoClear \/ DoAddMass \/ DoRemoveMass \/ DoSetMass \/ DoSetMassFracs
        \/ DoAddMasses \/ DoSetMasses \/ DoSetHeight \/ DoAdjustDensity \/ DoAdjustEnrich \/ DoAdjustMF

(* ------------------------------- the property, clause by clause (state invariants) ---------------------- *)
\* per-state tables, evaluated once per invariant (TLC does not memoise operators)
NDT(NN) == TLCEval([x \in Node |-> TLCEval(NDvec(NN, x))])
MT(NN)  == TLCEval([x \in Node |-> TLCEval([n \in Nuc |-> Mass(NN, x, {n})])])
IsRat(q) == q \in Int \X (Nat \ {0}) /\ q = Norm(q[1], q[2])
TypeOK == /\ hgt \in [Blk -> HDom]
          /\ \A l \in Leaf : H[l] \subseteq Nuc /\ \A n \in Nuc : IsRat(N[l][n]) /\ (n \notin H[l] => RIsZero(N[l][n]))
          /\ \A l \in Leaf, n \in Nuc : RLeq(RZero, N[l][n])
\* Every clause is an operator of the two per-state tables (nd = homogenised densities, m = masses per nuclide) so that one
\* evaluation of the tables serves all of them (Accounting); the named invariants below are the same clauses one by one.
\* "its volume is the sum of its children's volumes (reduced by the symmetry factor where a block is cut)"
\* (in every geometry reached by height changes; it holds because of ASSUME EqualAreas)
VolumeAdditive == \A x \in Node \ Leaf :
    Vol[x] = QDiv(QSumSet(KidsTab[x], LAMBDA c : Vol[c]), RInt(IF IsBlk(x) THEN Sym[x] ELSE 1))
\* "its mass (total, or of any nuclide or element selection) is the sum of its children's masses": for every selection
\* the mass of the object is the sum over its children, over its leaves, and over the nuclides of the selection
MassAdditiveC(nd, m) == \A x \in Node \ Leaf : \A s \in DOMAIN Sel :
    LET ms == Mass(N, x, Sel[s])
    IN /\ ms = QSumSet(KidsTab[x], LAMBDA c : QSumSet(Sel[s], LAMBDA n : m[c][n]))
       /\ ms = QSumSet(Under[x], LAMBDA l : QSumSet(Sel[s], LAMBDA n : m[l][n]))
       /\ ms = QSumSet(Sel[s], LAMBDA n : m[x][n])
\* "mass equals density times volume": the mass summed over the leaves equals the homogenised density of the object
\* times the object's own volume, nuclide by nuclide, and in total with density() as the density
MassIsDensityTimesVolumeC(nd, m) == \A x \in Node :
    /\ \A n \in Nuc : m[x][n] = QMul(QMul(nd[x][n], RInt(W[n])), CutVol[x])
    /\ QSumSet(Nuc, LAMBDA n : m[x][n]) = QMul(DT_MassDensity(nd[x]), CutVol[x])
\* "its number density of each nuclide is the volume-weighted mean of its children's, so atoms counted as density times
\* volume agree at component, block, assembly and core level"
AtomsAgreeC(nd, m) == \A x \in Node \ Leaf : \A n \in Nuc :
    QMul(nd[x][n], CutVol[x]) = QSumSet(KidsTab[x], LAMBDA c : QMul(nd[c][n], CutVol[c]))
\* getMasses()[n] and getMass(n) are the same quantity, getNumberOfAtoms is density times the volume in the model
MassesAgreeWithMassC(nd, m) == \A x \in Node \ Leaf : \A n \in Nuc :
    DT_MassInGrams(n, EditVol[x], nd[x][n]) = m[x][n] /\ QMul(nd[x][n], EditVol[x]) = QMul(nd[x][n], CutVol[x])
CutLeafMassesAgree == \A l \in Leaf : \A n \in Nuc :          \* fails for LeafVolCut = FALSE where Sym > 1 (see header)
    MassesAt(N, l)[n] = Mass(N, l, {n}) /\ Atoms(N, l, n) = QMul(N[l][n], CutVol[l])
\* "Mass fractions always sum to one and the mass-fraction/number-density/mass conversions are mutual inverses"
MassFracsSumToOneC(nd, m) == \A x \in Node :
    RIsZero(DT_MassDensity(nd[x])) \/ QSumSet(Nuc, LAMBDA n : DT_MassFractions(nd[x])[n]) = ROne
ConversionsInverseC(nd, m) == \A x \in Node :
    LET v == nd[x]  rho == DT_MassDensity(v)  mf == TLCEval(DT_MassFractions(v))  back == TLCEval(DT_NDensFromMasses(rho, mf))
    IN /\ RIsZero(rho) \/ (back = v /\ DT_MassFractions(back) = mf /\ DT_MassDensity(back) = rho)
       /\ \A n \in Nuc : DT_NumberDensity(n, DT_MassInGrams(n, Vol[x], v[n]), Vol[x]) = v[n]
       /\ \A n \in Nuc, mm \in Masses : DT_MassInGrams(n, Vol[x], DT_NumberDensity(n, mm, Vol[x])) = mm
\* expanded densities are accounted like the collapsed ones: the volume-weighted mean of the children's (atoms agree over the levels)
ExpansionAdditive == WithLump => \A x \in Node \ Leaf : \A n \in ExpNuc :
    QMul(ExpND(N, x, n), CutVol[x]) = QSumSet(KidsTab[x], LAMBDA c : QMul(ExpND(N, c, n), CutVol[c]))
MassAdditive             == MassAdditiveC(NDT(N), MT(N))
MassIsDensityTimesVolume == MassIsDensityTimesVolumeC(NDT(N), MT(N))
AtomsAgree               == AtomsAgreeC(NDT(N), MT(N))
MassesAgreeWithMass      == MassesAgreeWithMassC(NDT(N), MT(N))
MassFracsSumToOne        == MassFracsSumToOneC(NDT(N), MT(N))
ConversionsInverse       == ConversionsInverseC(NDT(N), MT(N))
Accounting == LET nd == NDT(N)  m == MT(N)         \* all of the above with one evaluation of the tables (quick tier)
              IN /\ VolumeAdditive /\ ExpansionAdditive /\ MassAdditiveC(nd, m) /\ MassIsDensityTimesVolumeC(nd, m) /\ AtomsAgreeC(nd, m)
                 /\ MassesAgreeWithMassC(nd, m) /\ MassFracsSumToOneC(nd, m) /\ ConversionsInverseC(nd, m)

(* ------------------------------- read-back clauses (properties of steps) -------------------------------- *)
\* geometry is state: the queries in the post-state
NDp(x, n)     == NDg(GeoTab[hgt'], N', x, n)
Massp(x, S)   == Massg(GeoTab[hgt'], N', x, S)
NDvecp(x)     == [n \in Nuc |-> NDp(x, n)]
Densp(x)      == DT_MassDensity(NDvecp(x))
MassFracsp(x) == DT_MassFractions(NDvecp(x))
OthersKept(x, n) == \A k \in Nuc \ {n} : NDp(x, k) = ND(N, x, k)
Ok(name) == act'.n = name /\ err' = ""
Cut(x) == IsLeaf(x) /\ Sym[Parent[x]] # 1 /\ ~LeafVolCut
\* "Setting ... the number density ... of a nuclide at any level makes that nuclide read back, at the same level, exactly
\* the requested value while every other nuclide's density is unchanged"
SetNReadsBack == Ok("SetN") => NDp(act'.x, act'.nuc) = act'.v /\ OthersKept(act'.x, act'.nuc)
UpdateNReadsBack == Ok("UpdateN") =>
    \A n \in Nuc : NDp(act'.x, n) = IF n \in DOMAIN act'.m THEN act'.m[n] ELSE ND(N, act'.x, n)
SetNsReadsBack == Ok("SetNs") =>
    \A n \in Nuc : NDp(act'.x, n) = IF n \in DOMAIN act'.m THEN act'.m[n] ELSE RZero
ScaleReadsBack == act'.n = "Scale" => \A n \in Nuc : NDp(act'.x, n) = QMul(ND(N, act'.x, n), act'.f)
ClearReadsBack == Ok("Clear") => \A n \in Nuc : RIsZero(NDp(act'.x, n)) /\ NucsAt(H', act'.x) = NucsAt(H, act'.x)
MassDelta(x, n) == QSub(Massp(x, {n}), Mass(N, x, {n}))
AddMassReadsBack == (Ok("AddMass") /\ ~Cut(act'.x)) => MassDelta(act'.x, act'.nuc) = act'.m /\ OthersKept(act'.x, act'.nuc)
RemoveMassReadsBack == (Ok("RemoveMass") /\ ~Cut(act'.x)) =>
    MassDelta(act'.x, act'.nuc) = RNeg(act'.m) /\ OthersKept(act'.x, act'.nuc)
SetMassReadsBack == (Ok("SetMass") /\ ~Cut(act'.x)) => Massp(act'.x, {act'.nuc}) = act'.m /\ OthersKept(act'.x, act'.nuc)
\* "setting, adding, removing ... the mass of a nuclide": the vector calls addMasses / setMasses, when they complete
VectorReadsBack == LET x == act'.x  m == act'.m IN
    \A n \in Nuc : IF act'.n = "AddMasses" THEN MassDelta(x, n) = (IF n \in DOMAIN m THEN m[n] ELSE RZero)
                    ELSE Massp(x, {n}) = (IF n \in DOMAIN m THEN m[n] ELSE RZero)
VectorMassReadsBack == (err' = "" /\ act'.n \in {"AddMasses", "SetMasses"} /\ ~Cut(act'.x)) => VectorReadsBack
\* a height change keeps every density (conserveMass = False); with conserveMass it keeps the mass of every listed nuclide at
\* the block and above, and "every other nuclide's density is unchanged"
AdjOf(a) == {NucSeq[i] : i \in {j \in 1..Len(NucSeq) : a.adj[j]}}
HeightChange == act'.n = "SetHeight" =>
    /\ H' = H /\ hgt' = [hgt EXCEPT ![act'.x] = act'.h]
    /\ (~act'.cons \/ err' # "") => N' = N
    /\ (act'.cons /\ err' = "") =>
          /\ \A x \in {act'.x, Parent[act'.x], CoreId} : \A n \in AdjOf(act') : Massp(x, {n}) = Mass(N, x, {n})
          /\ \A l \in Leaf, n \in Nuc \ AdjOf(act') : N'[l][n] = N[l][n]
\* adjustDensity: the listed nuclides read back density * f at the block, every other nuclide's density is unchanged
AdjustDensityReadsBack == Ok("AdjustDensity") =>
    /\ \A n \in AdjOf(act') : NDp(act'.x, n) = QMul(ND(N, act'.x, n), act'.f)
    /\ \A l \in Leaf, n \in Nuc \ AdjOf(act') : N'[l][n] = N[l][n]
\* "assigning mass fractions ...": enrichment = share of the enriched nuclide within its element
Share(mf, S) == QSumSet(S, LAMBDA n : mf[n])
AdjustEnrichReadsBack == Ok("AdjustEnrich") =>
    LET x == act'.x  new == MassFracsp(x)  old == MassFracs(N, x)
    IN /\ new["a"] = QMul(Share(new, Elem), act'.f)                                 \* reads back (getMassEnrichment)
       /\ Share(new, Elem) = Share(old, Elem)                                        \* the element keeps its share
       /\ \A n \in Nuc \ Elem : new[n] = old[n]                                     \* the other nuclides are not touched
       /\ \A i, j \in Elem \ {"a"} : QMul(new[i], old[j]) = QMul(new[j], old[i])     \* the other isotopes keep their proportions
       /\ Densp(x) = Dens(N, x)
AdjustMFReadsBack == Ok("AdjustMF") =>
    LET x == act'.x  new == MassFracsp(x)  old == MassFracs(N, x)  here == NucsAt(H, x)
        AN == Resolve(act'.adj) \cap here  CN == Resolve(act'.hold) \cap here  ON == here \ (AN \cup CN)
    IN (\/ ~RIsZero(Share(old, ON)) \/ Share(old, AN) = act'.v) =>                  \* feasible: something can give way
         /\ Share(new, AN) = act'.v
         /\ \A n \in CN : new[n] = old[n]
         /\ \A i, j \in ON : QMul(new[i], old[j]) = QMul(new[j], old[i])
         /\ \A i, j \in AN : QMul(new[i], old[j]) = QMul(new[j], old[i]) \/ RIsZero(Share(old, AN))
         /\ Densp(x) = Dens(N, x)
CutLeafMassReadsBack ==          \* the same clauses on components of blocks cut by symmetry lines (see header)
    /\ (err' = "" /\ act'.n \in {"AddMass", "RemoveMass", "SetMass"} /\ IsLeaf(act'.x)) =>
          IF act'.n = "SetMass" THEN Massp(act'.x, {act'.nuc}) = act'.m
          ELSE MassDelta(act'.x, act'.nuc) = (IF act'.n = "AddMass" THEN act'.m ELSE RNeg(act'.m))
    /\ (err' = "" /\ act'.n \in {"AddMasses", "SetMasses"} /\ IsLeaf(act'.x)) => VectorReadsBack
\* "assigning mass fractions reads back those fractions with the remaining nuclides keeping their proportions and the
\* total density unchanged"
Feasible(x, fm) == \/ QSumSet(DOMAIN fm, LAMBDA n : fm[n]) = ROne
                   \/ \E o \in NucsAt(H, x) \ DOMAIN fm : ~RIsZero(ND(N, x, o))
SetMassFracsReadsBack == (Ok("SetMassFracs") /\ Feasible(act'.x, act'.m)) =>
    LET x == act'.x  fm == act'.m  new == MassFracsp(x)  old == MassFracs(N, x)
    IN /\ \A n \in DOMAIN fm : new[n] = fm[n]
       /\ Densp(x) = Dens(N, x)
       /\ \A o1, o2 \in Nuc \ DOMAIN fm : QMul(new[o1], old[o2]) = QMul(new[o2], old[o1])
\* edits never reach outside the edited object; refusals change nothing
OutsideUntouched == act'.n # "Init" => \A l \in Leaf \ Under[act'.x] : N'[l] = N[l] /\ H'[l] = H[l]
RefusalsChangeNothing == (err' \in {"ValueError", "RuntimeError"} /\ act'.n \notin {"AddMasses", "SetMasses", "SetHeight"}) => UNCHANGED vars
\* component-level setters make the component hold exactly what was set
KeysGrowOnly == act'.n \notin {"SetNs", "Init"} => \A l \in Leaf : H[l] \subseteq H'[l]

ReadBack == [][/\ SetNReadsBack /\ UpdateNReadsBack /\ SetNsReadsBack /\ ScaleReadsBack /\ ClearReadsBack
               /\ AddMassReadsBack /\ RemoveMassReadsBack /\ SetMassReadsBack /\ SetMassFracsReadsBack
               /\ VectorMassReadsBack /\ HeightChange /\ AdjustDensityReadsBack /\ AdjustEnrichReadsBack /\ AdjustMFReadsBack]_allvars
Locality == [][OutsideUntouched /\ RefusalsChangeNothing /\ KeysGrowOnly]_allvars
CutLeafReadBack == [][CutLeafMassReadsBack]_allvars
\* "scaling the number density ... at any level": the call completes at every level (see header: ScaleRaises)
ScaleCompletes == act'.n = "Scale" => err' = ""
ScaleAtAnyLevel == [][ScaleCompletes]_allvars

(* --------------------------------- what is emitted as the oracle for the real code ----------------------- *)
HB(HH) == [l \in Leaf |-> [i \in 1..Len(NucSeq) |-> NucSeq[i] \in HH[l]]]
Vars == [N |-> N, H |-> HB(H), tr |-> tr, hgt |-> [i \in 1..NBlk |-> hgt[NLeaf + i]]]
\* what every query of the real object has to return in this state ("undefined": not compared, see header)
ObsOf(x, v) ==
    LET rho == DT_MassDensity(v)
    IN [vol    |-> Vol[x],
        evol   |-> EditVol[x],
        nucs   |-> [i \in 1..Len(NucSeq) |-> NucSeq[i] \in NucsAt(H, x)],
        nd     |-> v,
        mass   |-> [s \in DOMAIN Sel |-> Mass(N, x, Sel[s])],
        hm     |-> Mass(N, x, Elem \cap NucsAt(H, x)),        \* getHMMass(): getMass(the heavy-metal nuclides here), an empty list where there are none
        exp    |-> IF WithLump THEN [n \in ExpNuc |-> ExpND(N, x, n)] ELSE [n \in {} |-> RZero],
        masses |-> [n \in Nuc |-> DT_MassInGrams(n, EditVol[x], v[n])],
        atoms  |-> [n \in Nuc |-> QMul(v[n], EditVol[x])],
        dens   |-> IF IsLeaf(x) /\ RIsZero(rho) THEN <<-1, 1>> ELSE rho,         \* -1: Component.density() defers to the material
        mf     |-> IF RIsZero(rho) THEN [n \in Nuc |-> <<-1, 1>>] ELSE DT_MassFractions(v),   \* -1: not compared
        enr    |-> LET mf == DT_MassFractions(v)  e == QSumSet(Elem, LAMBDA n : mf[n])            \* Component.getMassEnrichment
                   IN IF ~IsLeaf(x) \/ RIsZero(rho) \/ RIsZero(e) THEN <<-1, 1>> ELSE QDiv(mf["a"], e)]   \* -1: not compared (0/0, or traces)
Obs == LET nd == NDT(N) IN [x \in Node |-> ObsOf(x, nd[x])]
Tree == [parent |-> Parent, area |-> Area, height |-> [b \in Blk |-> Height[b]], hdom |-> HDom, sym |-> [b \in Blk |-> Sym[b]],
         w |-> W, nleaf |-> NLeaf, nblk |-> NBlk, nasm |-> NAsm, nucs |-> NucSeq, yield |-> Yield, withLump |-> WithLump, leafVolCut |-> LeafVolCut, scaleRaises |-> ScaleRaises, targets |-> Targets]
==========================================================================================================
