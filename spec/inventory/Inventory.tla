--------------------------------------------- MODULE Inventory ---------------------------------------------
(* C02 -- mass, volume and number densities are accounted consistently at every level
   (armi/reactor/composites.py, components/component.py, blocks.py, assemblies.py, utils/densityTools.py).

   OBJECTS.  A fixed tree  core > assemblies > blocks > leaves (components); nodes are numbered leaves first,
   then blocks, assemblies, core.  Leaves carry an integer cross-section Area[l] (cm2, hot), blocks an integer
   Height[b] and a symmetry factor Sym[b] in {1,2,3} (HexBlock.getSymmetryFactor: 3 = centre of a third core, 2 = edge
   assembly present on both edges, 1 otherwise).  Nuclides {a,b,c}; {a,b} are isotopes of one element E; abstract integer
   atomic weights W[n] (the harness runs the real code with the weights of the three nuclides set to exactly these
   values).  UNITS: masses and mass densities are in units of 1/K gram, K = units.MOLES_PER_CC_TO_ATOMS_PER_BARN_CM
   (model mass = K * grams); atoms in units of 1e24.  These are unit conversions done by the adapter's projection.

   STATE.  N[l][n]  number density of n in leaf l (exact rational <<num,den>>, Rational.tla);
           H[l]     the keys of Component.p.numberDensities (a component "holds" n iff n is a key, also with value 0);
           tr       TRUE once clearNumberDensities has put TRACE_NUMBER_DENSITY (1e-50, modelled as 0) somewhere.

   QUERIES (what the code computes, transcribed):
     Vol(leaf)  = Area*Height(parent)                        Component.computeVolume   (NOT reduced by symmetry)
     Vol(block) = (sum of leaf volumes)/Sym                  Block.getVolume
     Vol(asm)   = Block.getArea(first block) * total height  Assembly.getVolume / getArea
     Vol(core)  = sum of assembly volumes                    ArmiObject.getVolume
     ND(x,n)    = sum_c w_c ND(c,n) / sum_c w_c,  w_c = Vol(c)/SymOf(x)     ArmiObject.getNuclideNumberDensities
     Mass(leaf,S) = (sum_{n in S} N W)/K * Vol/Sym(parent)   Component.getMass;   Mass(x,S) = sum over children
     Masses(x)[n] = ND*EditVol(x)*W/K                        ArmiObject.getMasses (getVolume; see LeafVolCut)
     Dens(x) = sum_n ND W / K;  MassFracs = densityTools.getMassFractions(getNumberDensities());  Atoms = ND*EditVol
   EDITS, one action per public mutator, at any node x in Targets (refusals leave the state unchanged):
     SetN        setNumberDensity        distributed over the children that hold n, scaled by 1/(their volume fraction);
                                         ValueError when nobody below x holds n and v # 0
     UpdateN     updateNumberDensities   like SetN per entry, but a nuclide nobody holds is spread over ALL children
     SetNs       setNumberDensities      unlisted nuclides -> 0 (composite: keys kept; component: keys wiped)
     Scale       changeNDensByFactor     composite: homogenised densities * f re-distributed by setNumberDensities
     Clear       clearNumberDensities    every held nuclide -> trace
     AddMass / RemoveMass / SetMass      via calculateNumberDensity(n, m, getVolume()) and setNumberDensity
     SetMassFracs                        rho = density(); listed: N = f rho K / W; the others re-normalised to 1 - sum f

   INTERPRETATION CHOICES (also in evidence.assumptions)
   * All blocks of one assembly have the same cross-section and symmetry factor (ASSUME EqualAreas): ARMI defines the
     assembly volume from its first block; without it "volume = sum of children" is not promised by the code.
   * "Volume of a component in the model" is Vol/Sym(parent) (CutVol): Component.getVolume reports the physical, uncut
     component, Component.getMass the part inside the model.  The clauses "mass = density x volume" and "atoms agree
     over levels" are stated with CutVol for leaves.
   * LeafVolCut is a design switch.  FALSE transcribes the code as it is: ArmiObject.getMasses / getNumberOfAtoms /
     addMass / setMass use getVolume(), i.e. the uncut volume on a component, while getMass uses the cut volume.
     Under FALSE the clauses CutLeaf* below are violated for leaves of blocks with Sym > 1 (setMass(n,m) reads back
     getMass(n) = m/Sym).  TRUE is the consistent design (those four use the cut volume on components).  The harness
     determines which design the code under test implements by conformance, and reports the CutLeaf* clauses as TLC
     evaluates them for that design.
   * Component.density() falls back to the material's density when the composition is all-zero; that convenience is
     outside the property: leaf density is observed, and SetMassFracs on a leaf is modelled, only where it is non-zero.
   * RemoveMass never removes all there is (floating point cancellation residues would otherwise decide branches of
     setMassFracs that the exact model decides differently); negative densities are not requested.
   * SetMassFracs read-back is claimed for feasible requests (the unlisted nuclides have mass, or the listed
     fractions sum to one); maps naming a nuclide nobody holds are exercised as single-entry refusals only (a longer
     map would be applied partially before the ValueError -- not modelled).
*)
EXTENDS Integers, Sequences, FiniteSets, TLC, Json, FiniteSetsExt, SequencesExt, Rational

CONSTANTS NLeaf, NBlk, NAsm,
          Parent,       \* <<parent node of node 1, 2, ... CoreId-1>>
          Area,         \* [Leaf -> 1..]   hot cross-section
          Height,       \* [Blk -> 1..]
          Sym,          \* [Blk -> {1,2,3}]
          W,            \* [Nuc -> 1..]    abstract atomic weights
          N0, H0,       \* initial composition
          Targets,      \* nodes at which edits are applied
          Vals, Facs, Masses, Maps, FracMaps,   \* parameter domains of the edits
          MaxLevel,
          LeafVolCut    \* design switch, see header

Nuc    == {"a", "b", "c"}
NucSeq == <<"a", "b", "c">>
Elem   == {"a", "b"}
Leaf   == 1..NLeaf
Blk    == (NLeaf + 1)..(NLeaf + NBlk)
Asm    == (NLeaf + NBlk + 1)..(NLeaf + NBlk + NAsm)
CoreId == NLeaf + NBlk + NAsm + 1
Node   == 1..CoreId
IsLeaf(x) == x \in Leaf
IsBlk(x)  == x \in Blk
IsAsm(x)  == x \in Asm

VARIABLES N, H, tr, act, err
vars    == <<N, H, tr>>
allvars == <<N, H, tr, act, err>>

(* ------------------------------------------ the constant tree ------------------------------------------ *)
KidsTab == [x \in Node |-> {c \in 1..(CoreId - 1) : Parent[c] = x}]
RECURSIVE LU(_)
LU(x) == IF IsLeaf(x) THEN {x} ELSE UNION {LU(c) : c \in KidsTab[x]}
Under == [x \in Node |-> LU(x)]                                    \* leaves below (or equal to) x
FirstBlk(a) == CHOOSE b \in KidsTab[a] : \A c \in KidsTab[a] : b <= c   \* self[0]: blocks are stacked in id order
ISum(S, f(_)) == FoldSet(LAMBDA x, acc : f(x) + acc, 0, S)
SymOf(x) == IF IsBlk(x) THEN Sym[x] ELSE IF IsAsm(x) THEN Sym[FirstBlk(x)] ELSE 1     \* getSymmetryFactor
VolLeaf(l) == Area[l] * Height[Parent[l]]                                              \* Component.computeVolume
BlkArea(b) == RFrac(ISum(KidsTab[b], LAMBDA l : Area[l]), Sym[b])                      \* Block.getArea (hot)
RECURSIVE VolOf(_)
VolOf(x) == IF IsLeaf(x) THEN RInt(VolLeaf(x))
            ELSE IF IsBlk(x) THEN RFrac(ISum(KidsTab[x], VolLeaf), Sym[x])
            ELSE IF IsAsm(x) THEN RMul(BlkArea(FirstBlk(x)), RInt(ISum(KidsTab[x], LAMBDA b : Height[b])))
            ELSE RSumSet(KidsTab[x], VolOf)
Vol == [x \in Node |-> VolOf(x)]                                   \* getVolume()
CutVol == [x \in Node |-> IF IsLeaf(x) THEN RFrac(VolLeaf(x), Sym[Parent[x]]) ELSE Vol[x]]   \* the part inside the model
EditVol == [x \in Node |-> IF LeafVolCut THEN CutVol[x] ELSE Vol[x]]   \* the volume getMasses/addMass/setMass/getNumberOfAtoms use
VolFrac == [x \in Node |-> [c \in KidsTab[x] |-> RDiv(Vol[c], RSumSet(KidsTab[x], LAMBDA k : Vol[k]))]]   \* getVolumeFractions

ASSUME WellFormed ==
    /\ \A l \in Leaf : Parent[l] \in Blk
    /\ \A b \in Blk : Parent[b] \in Asm /\ KidsTab[b] # {}
    /\ \A a \in Asm : Parent[a] = CoreId /\ KidsTab[a] # {}
    /\ \A n \in Nuc : W[n] \in Nat \ {0}
ASSUME EqualAreas ==       \* stated assumption of the property's volume clause at assembly level
    \A a \in Asm : \A b1, b2 \in KidsTab[a] :
        /\ ISum(KidsTab[b1], LAMBDA l : Area[l]) = ISum(KidsTab[b2], LAMBDA l : Area[l])
        /\ Sym[b1] = Sym[b2]

(* ------------------------------------------------ queries ---------------------------------------------- *)
Has(HH, x, n)  == \E l \in Under[x] : n \in HH[l]                  \* n in x.getNuclides()
NucsAt(HH, x)  == UNION {HH[l] : l \in Under[x]}
RECURSIVE ND(_, _, _)
ND(NN, x, n) ==                                                    \* getNumberDensity / getNuclideNumberDensities
    IF IsLeaf(x) THEN NN[x][n]
    ELSE LET w(c) == RDiv(Vol[c], RInt(SymOf(x)))
         IN RDiv(RSumSet(KidsTab[x], LAMBDA c : RMul(w(c), ND(NN, c, n))), RSumSet(KidsTab[x], w))
NDvec(NN, x) == [n \in Nuc |-> ND(NN, x, n)]

\* utils/densityTools.py (pure functions; K-free units)
DT_MassDensity(v)        == RSumSet(Nuc, LAMBDA n : RMul(v[n], RInt(W[n])))                     \* calculateMassDensity
DT_MassFractions(v)      == LET tot == DT_MassDensity(v)                                          \* getMassFractions
                            IN [n \in Nuc |-> IF RIsZero(tot) THEN RZero ELSE RDiv(RMul(v[n], RInt(W[n])), tot)]
DT_NDensFromMasses(rho, mf) == [n \in Nuc |-> RDiv(RMul(mf[n], rho), RInt(W[n]))]                \* getNDensFromMasses
DT_NumberDensity(n, m, V) == RDiv(m, RMul(V, RInt(W[n])))                                        \* calculateNumberDensity
DT_MassInGrams(n, V, d)   == RMul(RMul(d, V), RInt(W[n]))                                        \* getMassInGrams

LeafRho(NN, l, S) == RSumSet(S, LAMBDA n : RMul(NN[l][n], RInt(W[n])))
RECURSIVE Mass(_, _, _)
Mass(NN, x, S) == IF IsLeaf(x) THEN RMul(LeafRho(NN, x, S), CutVol[x])                           \* Component.getMass
                  ELSE RSumSet(KidsTab[x], LAMBDA c : Mass(NN, c, S))                            \* ArmiObject.getMass
Dens(NN, x)       == DT_MassDensity(NDvec(NN, x))                                                \* density()
MassFracs(NN, x)  == DT_MassFractions(NDvec(NN, x))                                              \* getMassFracs()
MassesAt(NN, x)   == [n \in Nuc |-> DT_MassInGrams(n, EditVol[x], ND(NN, x, n))]                 \* getMasses()
Atoms(NN, x, n)   == RMul(ND(NN, x, n), EditVol[x])                                              \* getNumberOfAtoms
\* nuclide specifiers accepted by getMass: a name, an element symbol, a list of those, None
Sel == [a |-> {"a"}, b |-> {"b"}, c |-> {"c"}, E |-> Elem, Lac |-> {"a", "c"}, LEc |-> Elem \cup {"c"}, all |-> Nuc]

(* ------------------------------------------------- edits ----------------------------------------------- *)
St == [N |-> N, H |-> H]
RECURSIVE PutN(_, _, _, _)
PutN(st, x, n, v) ==                   \* setNumberDensity below the refusal check of the receiving object
    IF IsLeaf(x) THEN [N |-> [st.N EXCEPT ![x][n] = v], H |-> [st.H EXCEPT ![x] = @ \cup {n}]]
    ELSE LET active == {c \in KidsTab[x] : Has(st.H, c, n)}
         IN IF active = {} THEN st
            ELSE LET dv == RDiv(v, RSumSet(active, LAMBDA c : VolFrac[x][c]))
                 IN FoldSet(LAMBDA c, acc : PutN(acc, c, n, dv), st, active)
RECURSIVE Upd1(_, _, _, _)
Upd1(st, x, n, d) ==                   \* one entry of updateNumberDensities
    IF IsLeaf(x) THEN [N |-> [st.N EXCEPT ![x][n] = d], H |-> [st.H EXCEPT ![x] = @ \cup {n}]]
    ELSE LET active == {c \in KidsTab[x] : Has(st.H, c, n)}
         IN IF active = {} THEN (IF RIsZero(d) THEN st ELSE FoldSet(LAMBDA c, acc : Upd1(acc, c, n, d), st, KidsTab[x]))
            ELSE LET dv == RDiv(d, RSumSet(active, LAMBDA c : VolFrac[x][c]))
                 IN FoldSet(LAMBDA c, acc : Upd1(acc, c, n, dv), st, active)
UpdMap(st, x, m) == FoldSet(LAMBDA n, acc : Upd1(acc, x, n, m[n]), st, DOMAIN m)
SetMap(st, x, m) ==                    \* setNumberDensities
    IF IsLeaf(x) THEN [N |-> [st.N EXCEPT ![x] = [n \in Nuc |-> IF n \in DOMAIN m THEN m[n] ELSE RZero]],
                       H |-> [st.H EXCEPT ![x] = DOMAIN m]]
    ELSE UpdMap(st, x, [n \in (DOMAIN m) \cup NucsAt(st.H, x) |-> IF n \in DOMAIN m THEN m[n] ELSE RZero])
ScaleSt(st, x, f) ==                   \* changeNDensByFactor
    IF IsLeaf(x) THEN [N |-> [st.N EXCEPT ![x] = [n \in Nuc |-> RMul(@[n], f)]], H |-> st.H]
    ELSE SetMap(st, x, [n \in NucsAt(st.H, x) |-> RMul(ND(st.N, x, n), f)])
ClearSt(st, x) == SetMap(st, x, [n \in NucsAt(st.H, x) |-> RZero])   \* trace (1e-50) modelled as 0, tr' = TRUE
MassFracSt(st, x, fm) ==               \* setMassFracs, all setNumberDensity calls accepted
    LET rho    == Dens(st.N, x)
        old    == MassFracs(st.N, x)
        listed == DOMAIN fm
        others == NucsAt(st.H, x) \ listed
        st1    == FoldSet(LAMBDA n, acc : PutN(acc, x, n, RDiv(RMul(fm[n], rho), RInt(W[n]))), st, listed)
        totSet == RSumSet(listed, LAMBDA n : fm[n])
        totOth == RSumSet(others, LAMBDA n : old[n])
    IN IF RIsZero(totOth) THEN st1
       ELSE FoldSet(LAMBDA o, acc : PutN(acc, x, o,
                        RDiv(RMul(RMul(RSub(ROne, totSet), RDiv(old[o], totOth)), rho), RInt(W[o]))), st1, others)

Accept(a, st2, t) == N' = st2.N /\ H' = st2.H /\ tr' = t /\ act' = a /\ err' = ""
Refuse(a, kind)   == UNCHANGED vars /\ act' = a /\ err' = kind

SetN(x, n, v) ==
    LET a == [n |-> "SetN", x |-> x, nuc |-> n, v |-> v]
    IN IF ~IsLeaf(x) /\ ~Has(H, x, n) /\ ~RIsZero(v) THEN Refuse(a, "ValueError") ELSE Accept(a, PutN(St, x, n, v), tr)
UpdateN(x, m) == Accept([n |-> "UpdateN", x |-> x, m |-> m], UpdMap(St, x, m), tr)
SetNs(x, m)   == Accept([n |-> "SetNs", x |-> x, m |-> m], SetMap(St, x, m), tr)
Scale(x, f)   == Accept([n |-> "Scale", x |-> x, f |-> f], ScaleSt(St, x, f), tr)
Clear(x)      == NucsAt(H, x) # {} /\ Accept([n |-> "Clear", x |-> x], ClearSt(St, x), TRUE)
MassEdit(name, x, n, m, v) ==          \* addMass / removeMass / setMass end in setNumberDensity(n, v)
    LET a == [n |-> name, x |-> x, nuc |-> n, m |-> m]
    IN IF ~IsLeaf(x) /\ ~Has(H, x, n) /\ ~RIsZero(v) THEN Refuse(a, "ValueError") ELSE Accept(a, PutN(St, x, n, v), tr)
AddMass(x, n, m)    == MassEdit("AddMass", x, n, m, RAdd(ND(N, x, n), DT_NumberDensity(n, m, EditVol[x])))
RemoveMass(x, n, m) == /\ RLt(m, DT_MassInGrams(n, EditVol[x], ND(N, x, n)))      \* never all there is
                       /\ MassEdit("RemoveMass", x, n, m, RAdd(ND(N, x, n), DT_NumberDensity(n, RNeg(m), EditVol[x])))
SetMass(x, n, m)    == MassEdit("SetMass", x, n, m, DT_NumberDensity(n, m, EditVol[x]))
SetMassFracs(x, fm) ==
    LET a == [n |-> "SetMassFracs", x |-> x, m |-> fm]
        rho == Dens(N, x)
    IN /\ ~tr
       /\ IF RIsZero(rho) THEN ~IsLeaf(x) /\ Refuse(a, "ValueError")                \* "mass density is zero"
          ELSE LET absent == {n \in DOMAIN fm : ~Has(H, x, n) /\ ~RIsZero(fm[n])}
               IN IF IsLeaf(x) \/ absent = {} THEN Accept(a, MassFracSt(St, x, fm), tr)
                  ELSE Cardinality(DOMAIN fm) = 1 /\ Refuse(a, "ValueError")        \* nobody holds the nuclide

Init == N = N0 /\ H = H0 /\ tr = FALSE /\ act = [n |-> "Init"] /\ err = ""
Next == \E x \in Targets :
            \/ \E n \in Nuc, v \in Vals : SetN(x, n, v)
            \/ \E m \in Maps : UpdateN(x, m)
            \/ \E m \in Maps : SetNs(x, m)
            \/ \E f \in Facs : Scale(x, f)
            \/ Clear(x)
            \/ \E n \in Nuc, m \in Masses : AddMass(x, n, m)
            \/ \E n \in Nuc, m \in Masses : RemoveMass(x, n, m)
            \/ \E n \in Nuc, m \in Masses : SetMass(x, n, m)
            \/ \E fm \in FracMaps : SetMassFracs(x, fm)

(* ------------------------------- the property, clause by clause (state invariants) ---------------------- *)
IsRat(q) == q \in Int \X (Nat \ {0}) /\ q = Norm(q[1], q[2])
TypeOK == /\ \A l \in Leaf : H[l] \subseteq Nuc /\ \A n \in Nuc : IsRat(N[l][n]) /\ (n \notin H[l] => RIsZero(N[l][n]))
          /\ \A l \in Leaf, n \in Nuc : RLeq(RZero, N[l][n])
\* "its volume is the sum of its children's volumes (reduced by the symmetry factor where a block is cut)"
VolumeAdditive == \A x \in Node \ Leaf :
    Vol[x] = RDiv(RSumSet(KidsTab[x], LAMBDA c : Vol[c]), RInt(IF IsBlk(x) THEN Sym[x] ELSE 1))
\* "its mass (total, or of any nuclide or element selection) is the sum of its children's masses" and
\* "mass equals density times volume": the mass summed over the leaves equals the homogenised density of the object
\* times the object's own volume, for every selection
MassIsDensityTimesVolume == \A x \in Node : \A s \in DOMAIN Sel :
    Mass(N, x, Sel[s]) = RMul(RSumSet(Sel[s], LAMBDA n : RMul(ND(N, x, n), RInt(W[n]))), CutVol[x])
MassAdditive == \A x \in Node \ Leaf : \A s \in DOMAIN Sel :
    Mass(N, x, Sel[s]) = RSumSet(Under[x], LAMBDA l : Mass(N, l, Sel[s]))
    /\ Mass(N, x, Sel[s]) = RSumSet(Sel[s], LAMBDA n : Mass(N, x, {n}))
TotalMassIsDensityTimesVolume == \A x \in Node : Mass(N, x, Nuc) = RMul(Dens(N, x), CutVol[x])
\* "its number density of each nuclide is the volume-weighted mean of its children's, so atoms counted as density times
\* volume agree at component, block, assembly and core level"
AtomsAgree == \A x \in Node \ Leaf : \A n \in Nuc :
    RMul(ND(N, x, n), CutVol[x]) = RSumSet(KidsTab[x], LAMBDA c : RMul(ND(N, c, n), CutVol[c]))
\* getMasses()[n] and getMass(n) are the same quantity, getNumberOfAtoms is density times the volume in the model
MassesAgreeWithMass == \A x \in Node \ Leaf : \A n \in Nuc :
    MassesAt(N, x)[n] = Mass(N, x, {n}) /\ Atoms(N, x, n) = RMul(ND(N, x, n), CutVol[x])
CutLeafMassesAgree == \A l \in Leaf : \A n \in Nuc :          \* fails for LeafVolCut = FALSE where Sym > 1 (see header)
    MassesAt(N, l)[n] = Mass(N, l, {n}) /\ Atoms(N, l, n) = RMul(N[l][n], CutVol[l])
\* "Mass fractions always sum to one and the mass-fraction/number-density/mass conversions are mutual inverses"
MassFracsSumToOne == \A x \in Node : RIsZero(Dens(N, x)) \/ RSumSet(Nuc, LAMBDA n : MassFracs(N, x)[n]) = ROne
ConversionsInverse == \A x \in Node :
    LET v == NDvec(N, x)  rho == DT_MassDensity(v)  mf == DT_MassFractions(v)
    IN /\ RIsZero(rho) \/ (DT_NDensFromMasses(rho, mf) = v /\ DT_MassFractions(DT_NDensFromMasses(rho, mf)) = mf
                           /\ DT_MassDensity(DT_NDensFromMasses(rho, mf)) = rho)
       /\ \A n \in Nuc : DT_NumberDensity(n, DT_MassInGrams(n, Vol[x], v[n]), Vol[x]) = v[n]
       /\ \A n \in Nuc, m \in Masses : DT_MassInGrams(n, Vol[x], DT_NumberDensity(n, m, Vol[x])) = m

(* ------------------------------- read-back clauses (properties of steps) -------------------------------- *)
OthersKept(x, n) == \A k \in Nuc \ {n} : ND(N', x, k) = ND(N, x, k)
Ok(name) == act'.n = name /\ err' = ""
Cut(x) == IsLeaf(x) /\ Sym[Parent[x]] # 1 /\ ~LeafVolCut
\* "Setting ... the number density ... of a nuclide at any level makes that nuclide read back, at the same level, exactly
\* the requested value while every other nuclide's density is unchanged"
SetNReadsBack == Ok("SetN") => ND(N', act'.x, act'.nuc) = act'.v /\ OthersKept(act'.x, act'.nuc)
UpdateNReadsBack == Ok("UpdateN") =>
    \A n \in Nuc : ND(N', act'.x, n) = IF n \in DOMAIN act'.m THEN act'.m[n] ELSE ND(N, act'.x, n)
SetNsReadsBack == Ok("SetNs") =>
    \A n \in Nuc : ND(N', act'.x, n) = IF n \in DOMAIN act'.m THEN act'.m[n] ELSE RZero
ScaleReadsBack == Ok("Scale") => \A n \in Nuc : ND(N', act'.x, n) = RMul(ND(N, act'.x, n), act'.f)
ClearReadsBack == Ok("Clear") => \A n \in Nuc : RIsZero(ND(N', act'.x, n)) /\ NucsAt(H', act'.x) = NucsAt(H, act'.x)
MassDelta(x, n) == RSub(Mass(N', x, {n}), Mass(N, x, {n}))
AddMassReadsBack == (Ok("AddMass") /\ ~Cut(act'.x)) => MassDelta(act'.x, act'.nuc) = act'.m /\ OthersKept(act'.x, act'.nuc)
RemoveMassReadsBack == (Ok("RemoveMass") /\ ~Cut(act'.x)) =>
    MassDelta(act'.x, act'.nuc) = RNeg(act'.m) /\ OthersKept(act'.x, act'.nuc)
SetMassReadsBack == (Ok("SetMass") /\ ~Cut(act'.x)) => Mass(N', act'.x, {act'.nuc}) = act'.m /\ OthersKept(act'.x, act'.nuc)
CutLeafMassReadsBack ==          \* the same three clauses on components of blocks cut by symmetry lines (see header)
    (err' = "" /\ act'.n \in {"AddMass", "RemoveMass", "SetMass"} /\ IsLeaf(act'.x)) =>
        IF act'.n = "SetMass" THEN Mass(N', act'.x, {act'.nuc}) = act'.m
        ELSE MassDelta(act'.x, act'.nuc) = (IF act'.n = "AddMass" THEN act'.m ELSE RNeg(act'.m))
\* "assigning mass fractions reads back those fractions with the remaining nuclides keeping their proportions and the
\* total density unchanged"
Feasible(x, fm) == \/ RSumSet(DOMAIN fm, LAMBDA n : fm[n]) = ROne
                   \/ \E o \in NucsAt(H, x) \ DOMAIN fm : ~RIsZero(ND(N, x, o))
SetMassFracsReadsBack == (Ok("SetMassFracs") /\ Feasible(act'.x, act'.m)) =>
    LET x == act'.x  fm == act'.m  new == MassFracs(N', x)  old == MassFracs(N, x)
    IN /\ \A n \in DOMAIN fm : new[n] = fm[n]
       /\ Dens(N', x) = Dens(N, x)
       /\ \A o1, o2 \in Nuc \ DOMAIN fm : RMul(new[o1], old[o2]) = RMul(new[o2], old[o1])
\* edits never reach outside the edited object; refusals change nothing
OutsideUntouched == act'.n # "Init" => \A l \in Leaf \ Under[act'.x] : N'[l] = N[l] /\ H'[l] = H[l]
RefusalsChangeNothing == err' # "" => UNCHANGED vars
\* component-level setters make the component hold exactly what was set
KeysGrowOnly == (err' = "" /\ act'.n \notin {"SetNs", "Init"}) => \A l \in Leaf : H[l] \subseteq H'[l]

ReadBack == [][/\ SetNReadsBack /\ UpdateNReadsBack /\ SetNsReadsBack /\ ScaleReadsBack /\ ClearReadsBack
               /\ AddMassReadsBack /\ RemoveMassReadsBack /\ SetMassReadsBack /\ SetMassFracsReadsBack]_allvars
Locality == [][OutsideUntouched /\ RefusalsChangeNothing /\ KeysGrowOnly]_allvars
CutLeafReadBack == [][CutLeafMassReadsBack]_allvars

(* --------------------------------- what is emitted as the oracle for the real code ----------------------- *)
HB(HH) == [l \in Leaf |-> [i \in 1..3 |-> NucSeq[i] \in HH[l]]]
Vars == [N |-> N, H |-> HB(H), tr |-> tr]
ObsOf(x) == [vol  |-> Vol[x],
             nucs |-> [i \in 1..3 |-> NucSeq[i] \in NucsAt(H, x)],
             nd   |-> NDvec(N, x),
             mass |-> [s \in DOMAIN Sel |-> Mass(N, x, Sel[s])],
             masses |-> MassesAt(N, x),
             atoms  |-> [n \in Nuc |-> Atoms(N, x, n)],
             dens |-> Dens(N, x),
             mf   |-> MassFracs(N, x)]
Obs == [x \in Node |-> ObsOf(x)]
==========================================================================================================
