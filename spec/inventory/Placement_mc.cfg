\* thorough: NoStaleArea on every placement / query history of six actions (no emission)
CONSTANTS MaxLevel = 7
INIT Init
NEXT Next
CONSTRAINT Bound
VIEW View
INVARIANT TypeOK
INVARIANT NoStaleArea
CHECK_DEADLOCK FALSE
