------------------------------------------- MODULE Inventory_mc -------------------------------------------
(* Configurations of Inventory: the trees, compositions and parameter domains used by the exhaustive and emission
   runs.  The design switch LeafVolCut is read from the environment (C02_LEAFVOL = "cut" | "full"; default "full" =
   the code as it is; likewise ScaleRaises from C02_SCALE = "raises" | "ok"), the harness sets it after determining which design the code under test implements. *)
EXTENDS Inventory, IOUtils
Z == <<0, 1>>
Wt == [a |-> 2, b |-> 3, c |-> 5, d |-> 7, e |-> 4]
ScaleRaisesEnv == ~("C02_SCALE" \in DOMAIN IOEnv /\ IOEnv.C02_SCALE = "ok")     \* default: the code as it is
LeafVolCutEnv == "C02_LEAFVOL" \in DOMAIN IOEnv /\ IOEnv.C02_LEAFVOL = "cut"

\* ---- one block of three components (areas 1,2,3; height 2); assembly and core above it with a single child each
TBlkParent == <<4, 4, 4, 5, 6>>
TBlkArea == <<1, 2, 3>>
TBlkHeight == (4 :> 2)
TBlkSym    == (4 :> 1)
TBlkN0 == << [a |-> <<1, 1>>, b |-> <<2, 1>>, c |-> Z, d |-> <<1, 2>>],
            [a |-> <<2, 1>>, b |-> Z,        c |-> <<1, 1>>, d |-> Z],
            [a |-> Z,        b |-> Z,        c |-> <<3, 1>>, d |-> Z] >>
TBlkH0 == << {"a", "b", "d"}, {"a", "c"}, {"c"} >>
TBlkTargets == {1, 3, 4}
TBlkTargetsAll == {1, 2, 3, 4, 5, 6}
TBlkTargetsUp == {3, 4, 5, 6}

\* ---- third core: assembly 10 at the centre (Sym 3) with blocks 7 (leaves 1,2; height 1) and 8 (leaves 3,4; height 2),
\*      assembly 11 off centre (Sym 1) with block 9 (leaves 5,6; height 3); core 12
TCoreParent == <<7, 7, 8, 8, 9, 9, 10, 10, 11, 12, 12>>
TCoreArea   == <<1, 2, 2, 1, 2, 2>>
TCoreHeight == (7 :> 1) @@ (8 :> 2) @@ (9 :> 3)
TCoreSym    == (7 :> 3) @@ (8 :> 3) @@ (9 :> 1)
\* (block 8 does not hold a, assembly 11 does not hold c: edits above them are distributed over a proper subset of the children)
TCoreN0 == << [a |-> <<1, 1>>, b |-> <<2, 1>>, c |-> Z, d |-> <<1, 2>>],
             [a |-> <<2, 1>>, b |-> Z,        c |-> <<1, 1>>, d |-> Z],
             [a |-> Z,        b |-> <<1, 1>>, c |-> Z, d |-> Z],
             [a |-> Z,        b |-> Z,        c |-> <<2, 1>>, d |-> Z],
             [a |-> <<3, 1>>, b |-> <<1, 1>>, c |-> Z, d |-> <<1, 1>>],
             [a |-> Z,        b |-> <<2, 1>>, c |-> Z, d |-> Z] >>
TCoreH0 == << {"a", "b", "d"}, {"a", "c"}, {"b"}, {"c"}, {"a", "b", "d"}, {"b"} >>
TCoreTargets == {1, 5, 7, 10, 12}
TCoreTargetsQ == {1, 7, 10, 12}
TCoreTargetsE == {1, 7, 10}
TCoreTargetsProbe == {1, 5, 7}
TCoreTargetsAll == 1..12

\* ---- third core with edge assemblies on both edges: 11 centre (Sym 3), 12 and 13 on the 0- and 120-degree edges (Sym 2),
\*      14 interior (Sym 1); one block each (7,8,9,10); leaves 1,2 | 3,4 | 5 | 6; core 15
TEdgeParent == <<7, 7, 8, 8, 9, 10, 11, 12, 13, 14, 15, 15, 15, 15>>
TEdgeArea   == <<1, 2, 2, 1, 3, 2>>
TEdgeHeight == (7 :> 2) @@ (8 :> 1) @@ (9 :> 2) @@ (10 :> 1)
TEdgeSym    == (7 :> 3) @@ (8 :> 2) @@ (9 :> 2) @@ (10 :> 1)
TEdgeN0 == [TCoreN0 EXCEPT ![3] = [a |-> <<1, 1>>, b |-> <<1, 1>>, c |-> Z, d |-> Z]]    \* the edited leaf of the Sym-2 block holds a and b
TEdgeH0 == [TCoreH0 EXCEPT ![3] = {"a", "b"}]
TEdgeTargets == {3, 8, 12, 15}
TEdgeTargetsAll == 1..15

\* ---- one block with a closed fuel/clad gap: fuel (area 30), a Void gap whose hot area is NEGATIVE (-1: the hot slug overlaps the
\*      clad's inner diameter; legal for Void, Component._checkNegativeArea), clad (6), coolant (5); block 5, assembly 6, core 7
TGapParent == <<5, 5, 5, 5, 6, 7>>
TGapArea   == <<30, -1, 6, 5>>
TGapHeight == (5 :> 1)
TGapSym    == (5 :> 1)
TGapN0 == << [a |-> <<1, 1>>, b |-> <<2, 1>>, c |-> Z,        d |-> <<1, 2>>],
            [a |-> Z,        b |-> Z,        c |-> Z,        d |-> Z],
            [a |-> Z,        b |-> <<1, 1>>, c |-> <<1, 1>>, d |-> Z],
            [a |-> Z,        b |-> Z,        c |-> <<2, 1>>, d |-> Z] >>
TGapH0 == << {"a", "b", "d"}, {}, {"b", "c"}, {"c"} >>
TGapTargetsAll == {1, 3, 4, 5, 6, 7}        \* not the gap itself
TGapHAll == {5}
TGapTargets == {1, 3, 5}

\* ---- quarter-core Cartesian model with the symmetry lines through the centre assembly: assembly 9 at (0,0) (Sym 4), 10 at (1,0) on a
\*      symmetry line (Sym 2), 11 at the interior position (1,1) with a bottom block 7 (k = 0) and a block 8 above it (Sym 1 both); core 12
TCartParent == <<5, 6, 7, 8, 9, 10, 11, 11, 12, 12, 12>>
TCartArea   == <<4, 2, 2, 2>>
TCartHeight == (5 :> 1) @@ (6 :> 2) @@ (7 :> 1) @@ (8 :> 2)
TCartSym    == (5 :> 4) @@ (6 :> 2) @@ (7 :> 1) @@ (8 :> 1)
TCartN0 == << [a |-> <<1, 1>>, b |-> <<2, 1>>, c |-> Z,        d |-> <<1, 2>>],
             [a |-> <<2, 1>>, b |-> Z,        c |-> <<1, 1>>, d |-> Z],
             [a |-> <<1, 1>>, b |-> <<1, 1>>, c |-> Z,        d |-> Z],
             [a |-> Z,        b |-> Z,        c |-> <<2, 1>>, d |-> Z] >>
TCartH0 == << {"a", "b", "d"}, {"a", "c"}, {"a", "b"}, {"c"} >>
TCartTargetsAll == 1..12
TCartHAll == {5, 6, 7, 8}

\* ---- the block tree with a lumped fission product e (WithLump): two components hold the lump, c is held explicitly as well
TLfpParent == TBlkParent
TLfpArea   == TBlkArea
TLfpHeight == TBlkHeight
TLfpSym    == TBlkSym
TLfpN0 == << [a |-> <<1, 1>>, b |-> <<2, 1>>, c |-> Z,        d |-> <<1, 2>>, e |-> <<1, 1>>],
            [a |-> <<2, 1>>, b |-> Z,        c |-> <<1, 1>>, d |-> Z,        e |-> <<1, 2>>],
            [a |-> Z,        b |-> Z,        c |-> <<3, 1>>, d |-> Z,        e |-> Z] >>
TLfpH0 == << {"a", "b", "d", "e"}, {"a", "c", "e"}, {"c"} >>
TLfpTargetsAll == TBlkTargetsAll
TLfpTargets == TBlkTargets
TLfpHAll == {4}
Yes == TRUE
No  == FALSE

\* ---- parameter domains
ValsQ   == {Z, <<1, 1>>, <<3, 2>>}
FacsQ   == {<<1, 2>>, <<3, 1>>}
MassesQ == {<<1, 1>>, <<6, 1>>}
EmptyMap == [n \in {} |-> Z]          \* setNumberDensities({}): voiding (component: everything wiped; above: everything to zero)
MapsQ   == { EmptyMap,
             ("a" :> <<1, 1>>) @@ ("b" :> Z),
             ("b" :> <<2, 1>>) @@ ("c" :> <<1, 2>>),
             ("c" :> <<3, 1>>) }
FracMapsQ == { ("a" :> <<1, 2>>),
               ("b" :> <<1, 4>>) @@ ("c" :> <<1, 4>>),
               ("a" :> <<1, 5>>) @@ ("b" :> <<4, 5>>),
               ("c" :> <<1, 1>>) }
\* vector calls: additions, removals (negative), zero entries; nuclides some objects do not hold
AddMapsQ == { ("a" :> <<2, 1>>) @@ ("b" :> <<-1, 2>>) @@ ("c" :> Z),
              ("b" :> <<-1, 1>>) @@ ("c" :> <<3, 1>>),
              ("a" :> <<-1, 2>>) }
SetMapsQ == { ("a" :> <<6, 1>>) @@ ("c" :> <<1, 1>>),
              ("a" :> <<1, 1>>) @@ ("b" :> Z),
              ("b" :> <<5, 2>>) }
AddMapsT == AddMapsQ \cup { ("a" :> <<1, 1>>) @@ ("b" :> <<1, 1>>) @@ ("c" :> <<-1, 2>>), ("c" :> <<-1, 1>>) }
SetMapsT == SetMapsQ \cup { ("a" :> <<2, 1>>) @@ ("b" :> <<3, 1>>) @@ ("c" :> <<1, 2>>) }
AdjSetsQ == { Nuc, {"a", "b"}, {"c"}, {} }          \* all, proper subsets (one of them a nuclide some blocks do not hold), empty
AdjSetsT == AdjSetsQ \cup { {"a"}, {"b", "c", "d"} }
AdjSetsG == { {"a", "b"} }
EnrFracsQ == { <<1, 5>>, <<1, 2>> }
EnrFracsT == EnrFracsQ \cup { <<1, 20>> }
AdjMFsQ == { [adj |-> "c", hold |-> "E", v |-> <<1, 10>>],
             [adj |-> "c", hold |-> "",  v |-> <<1, 4>>],
             [adj |-> "E", hold |-> "",  v |-> <<1, 2>>],
             [adj |-> "a", hold |-> "b", v |-> <<1, 5>>] }
AdjMFsT == AdjMFsQ \cup { [adj |-> "d", hold |-> "c", v |-> <<1, 10>>], [adj |-> "E", hold |-> "c", v |-> <<3, 4>>] }
HDom123 == {1, 2, 3}
None == {}
\* the narrow three-edits-deep emission (edit above a block ; change the block's height ; edit above it again)
ValsG   == {<<3, 2>>}
MassesG == {<<6, 1>>}
AddMapsG == { ("a" :> <<2, 1>>) @@ ("b" :> <<-1, 2>>) }
TCoreTargetsG == {10, 12}
TCoreTargetsG1 == {10}
HVals2 == {2}
TCoreH7 == {7}
TCoreH78 == {7, 8}
TCoreHAll == {7, 8, 9}
TBlkHAll == {4}
TEdgeH8 == {8}
TEdgeHAll == {7, 8, 9, 10}
ValsT   == ValsQ \cup {<<2, 1>>, <<1, 3>>}
FacsT   == FacsQ \cup {<<3, 2>>}
MassesT == MassesQ \cup {<<5, 2>>}
MapsT   == MapsQ \cup { ("a" :> Z) @@ ("b" :> Z) @@ ("c" :> <<1, 1>>), ("a" :> <<2, 1>>) @@ ("c" :> <<2, 1>>) }
FracMapsT == FracMapsQ \cup { ("b" :> <<1, 3>>), ("a" :> Z), ("a" :> <<1, 3>>) @@ ("b" :> <<1, 3>>) @@ ("c" :> <<1, 3>>) }

ASSUME PrintT(ToJson([tree |-> Tree]))
\* The exploration depth is a variable of the bounded model (not TLCGet("level"): with several workers TLC's level of a state
\* is the depth at which it happened to be found first, which makes a level-bounded search incomplete and non-deterministic).
\* Successors are generated only below the last depth (TLC evaluates invariants also on states outside a CONSTRAINT).
VARIABLE depth
InitB == Init /\ depth = 1
\* C02_MAXLEVEL overrides the cfg's MaxLevel: the harness runs every exhaustive configuration a second time one level deep with
\* TLC's (expensive) coverage instrumentation to show that each action is taken
MaxL  == IF "C02_MAXLEVEL" \in DOMAIN IOEnv THEN atoi(IOEnv.C02_MAXLEVEL) ELSE MaxLevel
Bound == depth <= MaxL
G == depth < MaxL /\ depth' = depth + 1
\* per-action counters (TLC registers 101..115; exact with one worker): the harness shows non-vacuity with them, because TLC's own
\* coverage instrumentation is ten times more expensive than the model checking itself here
Cnt(k) == TLCSet(k, TLCGet(k) + 1)
ASSUME \A k \in 101..115 : TLCSet(k, 0)
CountReport == PrintT(ToJson([counts |-> [i \in 1..15 |-> TLCGet(100 + i)]]))
BSetN == G /\ DoSetN /\ Cnt(101)
BUpdateN == G /\ DoUpdateN /\ Cnt(102)
BSetNs == G /\ DoSetNs /\ Cnt(103)
BScale == G /\ DoScale /\ Cnt(104)
BClear == G /\ DoClear /\ Cnt(105)
BAddMass == G /\ DoAddMass /\ Cnt(106)
BRemoveMass == G /\ DoRemoveMass /\ Cnt(107)
BSetMass == G /\ DoSetMass /\ Cnt(108)
BSetMassFracs == G /\ DoSetMassFracs /\ Cnt(109)
BAddMasses == G /\ DoAddMasses /\ Cnt(110)
BSetMasses == G /\ DoSetMasses /\ Cnt(111)
BSetHeight == G /\ DoSetHeight /\ Cnt(112)
BAdjustDensity == G /\ DoAdjustDensity /\ Cnt(113)
BAdjustEnrich == G /\ DoAdjustEnrich /\ Cnt(114)
BAdjustMF == G /\ DoAdjustMF /\ Cnt(115)
NextB == BSetN \/ BUpdateN \/ BSetNs \/ BScale \/ BClear \/ BAddMass \/ BRemoveMass \/ BSetMass \/ BSetMassFracs
         \/ BAddMasses \/ BSetMasses \/ BSetHeight \/ BAdjustDensity \/ BAdjustEnrich \/ BAdjustMF
View  == <<vars, depth>>
Emit  == PrintT(ToJson([lvl |-> depth, from |-> Vars, act |-> act', to |-> Vars', err |-> err']))
EmitState == PrintT(ToJson([st |-> Vars, obs |-> Obs]))
===========================================================================================================
