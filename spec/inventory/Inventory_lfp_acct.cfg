\* the block tree with a lumped fission product (five nuclides): every accounting clause incl. the expanded densities one edit deep; emitted for replay on a block with a real LFP collection
CONSTANTS NLeaf = 3  NBlk = 1  NAsm = 1  MaxLevel = 2  LSrc = 600  LMax = 20000  VMax = 100
CONSTANTS Parent <- TLfpParent  Area <- TLfpArea  Height <- TLfpHeight  Sym <- TLfpSym  W <- Wt  N0 <- TLfpN0  H0 <- TLfpH0
CONSTANTS Targets <- TLfpTargetsAll  Vals <- ValsQ  Facs <- FacsQ  Masses <- MassesQ  Maps <- MapsQ  FracMaps <- FracMapsQ  AddMaps <- AddMapsQ  SetMaps <- SetMapsQ
CONSTANTS AdjSets <- AdjSetsQ  EnrFracs <- EnrFracsQ  AdjMFs <- AdjMFsQ
CONSTANTS HDom <- HDom123  HTargets <- TLfpHAll  HVals <- HDom123
CONSTANTS WithLump <- Yes  LeafVolCut <- LeafVolCutEnv  ScaleRaises <- ScaleRaisesEnv
INIT InitB
NEXT NextB
CONSTRAINT Bound
VIEW View
ACTION_CONSTRAINT Emit
INVARIANT EmitState
INVARIANT TypeOK
INVARIANT Accounting
PROPERTY ReadBack
PROPERTY Locality
POSTCONDITION CountReport
CHECK_DEADLOCK FALSE
