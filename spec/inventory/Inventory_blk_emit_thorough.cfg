\* thorough emission: every edge two edits deep on the block tree
CONSTANTS NLeaf = 3  NBlk = 1  NAsm = 1  MaxLevel = 3  LSrc = 600  LMax = 20000  VMax = 100
CONSTANTS Parent <- TBlkParent  Area <- TBlkArea  Height <- TBlkHeight  Sym <- TBlkSym  W <- Wt  N0 <- TBlkN0  H0 <- TBlkH0
CONSTANTS Targets <- TBlkTargets  Vals <- ValsQ  Facs <- FacsQ  Masses <- MassesQ  Maps <- MapsQ  FracMaps <- FracMapsQ  AddMaps <- AddMapsQ  SetMaps <- SetMapsQ
CONSTANTS AdjSets <- AdjSetsQ  EnrFracs <- EnrFracsQ  AdjMFs <- AdjMFsQ
CONSTANTS HDom <- HDom123  HTargets <- TBlkHAll  HVals <- HVals2
CONSTANTS WithLump <- No  LeafVolCut <- LeafVolCutEnv  ScaleRaises <- ScaleRaisesEnv
INIT InitB
NEXT NextB
CONSTRAINT Bound
VIEW View
ACTION_CONSTRAINT Emit
INVARIANT EmitState
INVARIANT TypeOK
CHECK_DEADLOCK FALSE
