-------------------------------------------- MODULE Placement --------------------------------------------
(* C02, volume / atoms clauses while assemblies are placed, moved and discharged: "its volume is the sum of its children's
   volumes (reduced by the symmetry factor where a block is cut by symmetry lines)" and "atoms counted as density times volume
   agree at ... assembly and core level" -- the symmetry factor of a block is STATE here
   (blocks.py HexBlock.getSymmetryFactor / Block.getArea cache, assemblies.py Assembly.getArea / getVolume / moveTo, cores.py
   Core.add / removeAssembly, excoreStructure.py, converters/geometryConverters.py EdgeAssemblyChanger,
   physics/fuelCycle/fuelHandlers.py swapAssemblies).

   A third-core (periodic) hex core with a spent fuel pool.  Assemblies 1, 2, 3 (one block each, same cross-section FullArea,
   heights 1, 2, 3, densities Dens[a] of one nuclide) start at the centre, on the 0-degree symmetry line (2,-1) and at the
   interior position (1,0); E (id 4) is the copy that EdgeAssemblyChanger puts on the 120-degree line (-1,2).
   Symmetry factor now (HexBlock.getSymmetryFactor):  3 at the centre; 2 on a symmetry line while the upper edge position is
   occupied; 1 otherwise (also outside the core).
   cache[x] = the symmetry factor with which the block's cached area ("area" slot of Block.getArea) was computed, 0 = empty.
   Assembly.getVolume() = cached-or-fresh area x height, Core.getVolume() and the weights of Core.getNumberDensity are built on it;
   the sum of the block volumes, masses and the densities inside an assembly never use the cache.

   Actions: Query (reads the core's number density and volume and every assembly's volume: fills the empty slots -- a query is
   an action because it changes what later queries answer), AddEdges / RemoveEdges (EdgeAssemblyChanger), Move (removeAssembly
   without discharge + Core.add at a free position), Swap (FuelHandler.swapAssemblies), Discharge (Core.removeAssembly into the
   pool), Charge (SpentFuelPool.remove + Core.add).  Who clears which slot is transcribed from the code:
     Assembly.moveTo (Core.add, swap) clears the moved assembly; addEdgeAssemblies and removeEdgeAssemblies clear the assemblies on
     the 0-degree line; removeAssembly clears nothing -- design switch DischargeClears: FALSE is that code, TRUE the design in
     which leaving the core invalidates the cached area (the symmetry factor of a centre / edge assembly changes when it leaves).
   Stated assumption: the copy E is handled by EdgeAssemblyChanger only (it is not moved, swapped or discharged by hand), and
   nothing else is put on the 120-degree line.

   Clause NoStaleArea: in every reachable state every cached area was computed with the assembly's current symmetry factor, i.e.
   Assembly.getVolume() = sum of the block volumes, Core.getVolume() = sum over the blocks, and the core's density times volume
   counts the atoms of the assemblies.  The harness determines by conformance which design the code implements and reports the
   clause as TLC evaluates it for that design. *)
EXTENDS Integers, FiniteSets, TLC, Json, IOUtils, Rational, RationalSafe
CONSTANTS MaxLevel
DischargeClears == "C02_DISCHARGE" \in DOMAIN IOEnv /\ IOEnv.C02_DISCHARGE = "clears"
Own      == {1, 2, 3}
E        == 4
FullArea == 6
Hgt      == <<1, 2, 3>>
Dns      == <<1, 2, 3>>
CorePos  == {"centre", "line0", "int1", "int2"}
VARIABLES pos, esrc, cache, added, depth, act
vars == <<pos, esrc, cache, added>>
\* pos[x] in CorePos \cup {"line120", "sfp", "gone"};  esrc = the assembly E is a copy of (0: E does not exist)
Exists(x)  == pos[x] # "gone"
InCore(x)  == pos[x] \in CorePos \cup {"line120"}
UpperOcc(p) == p[E] = "line120"
SymAt(p, x) == IF p[x] = "centre" THEN 3 ELSE IF p[x] \in {"line0", "line120"} /\ UpperOcc(p) THEN 2 ELSE 1
SymNow(x)  == SymAt(pos, x)
Src(x)     == IF x = E THEN esrc ELSE x
FullVol(x) == FullArea * Hgt[Src(x)]
Used(x)    == IF cache[x] = 0 THEN SymNow(x) ELSE cache[x]          \* the factor inside the area Assembly.getVolume() uses now
Free(p)    == \A x \in Own : pos[x] # p

Init == /\ pos = <<"centre", "line0", "int1", "gone">> /\ esrc = 0 /\ cache = <<0, 0, 0, 0>> /\ added = FALSE
        /\ depth = 1 /\ act = [n |-> "Init"]
G == depth < MaxLevel /\ depth' = depth + 1
Query ==
    /\ G /\ act' = [n |-> "Query"]
    /\ cache' = [x \in 1..4 |-> IF Exists(x) THEN Used(x) ELSE 0]
    /\ UNCHANGED <<pos, esrc, added>>
AddEdges ==        \* EdgeAssemblyChanger.addEdgeAssemblies
    /\ G /\ act' = [n |-> "AddEdges"]
    /\ IF added THEN UNCHANGED vars                                         \* "already there"
       ELSE LET lower == {x \in Own : pos[x] = "line0"} IN
            IF lower = {} THEN UNCHANGED vars
            ELSE LET a == CHOOSE x \in lower : TRUE IN
                 /\ pos' = [pos EXCEPT ![E] = "line120"] /\ esrc' = a /\ added' = TRUE
                 /\ cache' = [cache EXCEPT ![a] = 0, ![E] = 0]              \* a.clearCache(); the copy is placed with moveTo
RemoveEdges ==     \* EdgeAssemblyChanger.removeEdgeAssemblies
    /\ G /\ act' = [n |-> "RemoveEdges"]
    /\ added' = FALSE
    /\ IF pos[E] = "line120"
       THEN /\ pos' = [pos EXCEPT ![E] = "gone"] /\ esrc' = 0
            /\ cache' = [x \in 1..4 |-> IF x = E \/ pos[x] = "line0" THEN 0 ELSE cache[x]]
       ELSE UNCHANGED <<pos, esrc, cache>>
Move(a, p) ==      \* core.removeAssembly(a, discharge=False) ; core.add(a, p)
    /\ G /\ a \in Own /\ pos[a] \in CorePos /\ p \in CorePos /\ Free(p)
    /\ act' = [n |-> "Move", a |-> a, p |-> p]
    /\ pos' = [pos EXCEPT ![a] = p] /\ cache' = [cache EXCEPT ![a] = 0] /\ UNCHANGED <<esrc, added>>
Swap(a, b) ==      \* FuelHandler.swapAssemblies
    /\ G /\ a \in Own /\ b \in Own /\ a < b /\ pos[a] \in CorePos /\ pos[b] \in CorePos
    /\ act' = [n |-> "Swap", a |-> a, b |-> b]
    /\ pos' = [pos EXCEPT ![a] = pos[b], ![b] = pos[a]] /\ cache' = [cache EXCEPT ![a] = 0, ![b] = 0] /\ UNCHANGED <<esrc, added>>
Discharge(a) ==    \* core.removeAssembly(a): into the spent fuel pool
    /\ G /\ a \in Own /\ pos[a] \in CorePos
    /\ act' = [n |-> "Discharge", a |-> a]
    /\ pos' = [pos EXCEPT ![a] = "sfp"]
    /\ cache' = IF DischargeClears THEN [cache EXCEPT ![a] = 0] ELSE cache
    /\ UNCHANGED <<esrc, added>>
Charge(a, p) ==    \* sfp.remove(a) ; core.add(a, p)
    /\ G /\ a \in Own /\ pos[a] = "sfp" /\ p \in CorePos /\ Free(p)
    /\ act' = [n |-> "Charge", a |-> a, p |-> p]
    /\ pos' = [pos EXCEPT ![a] = p] /\ cache' = [cache EXCEPT ![a] = 0] /\ UNCHANGED <<esrc, added>>
DoMove == \E a \in Own, p \in CorePos : Move(a, p)
DoSwap == \E a, b \in Own : Swap(a, b)
DoDischarge == \E a \in Own : Discharge(a)
DoCharge == \E a \in Own, p \in CorePos : Charge(a, p)
Next == Query \/ AddEdges \/ RemoveEdges \/ DoMove \/ DoSwap \/ DoDischarge \/ DoCharge
Bound == depth <= MaxLevel
View == <<vars, depth>>

TypeOK == /\ \A x \in 1..4 : cache[x] \in 0..3 /\ (~Exists(x) => cache[x] = 0)
          /\ (pos[E] \in {"gone", "line120"}) /\ (Exists(E) <=> esrc \in Own)
NoStaleArea == \A x \in 1..4 : Exists(x) => Used(x) = SymNow(x)

(* what the real queries have to answer in this state *)
R(n, d) == RFrac(n, d)
InCoreSet == {x \in 1..4 : InCore(x)}
CoreVol == QSumSet(InCoreSet, LAMBDA x : R(FullVol(x), Used(x)))                                      \* Core.getVolume()
CoreND  == IF InCoreSet = {} THEN RZero                                                               \* Core.getNumberDensity(n)
           ELSE QDiv(QSumSet(InCoreSet, LAMBDA x : QMul(R(FullVol(x), Used(x)), RInt(Dns[Src(x)]))), CoreVol)
CoreAtoms == QSumSet(InCoreSet, LAMBDA x : QMul(R(FullVol(x), SymNow(x)), RInt(Dns[Src(x)])))          \* sum over the blocks
ObsOf(x) == IF ~Exists(x) THEN [where |-> "gone"]
            ELSE [where   |-> pos[x],
                  sym     |-> SymNow(x),
                  asmVol  |-> R(FullVol(x), Used(x)),           \* Assembly.getVolume()
                  blkSum  |-> R(FullVol(x), SymNow(x)),         \* sum of Block.getVolume()
                  atoms   |-> QMul(R(FullVol(x), SymNow(x)), RInt(Dns[Src(x)]))]   \* sum over the components of density x volume / Sym
Obs == [a |-> [x \in 1..4 |-> ObsOf(x)], coreVol |-> CoreVol, coreND |-> CoreND, coreAtoms |-> CoreAtoms]
Vars == [pos |-> pos, esrc |-> esrc, cache |-> cache, added |-> added]
Emit == PrintT(ToJson([lvl |-> depth, from |-> Vars, act |-> act', to |-> Vars']))
EmitState == PrintT(ToJson([st |-> Vars, obs |-> Obs]))
ASSUME PrintT(ToJson([dischargeClears |-> DischargeClears, fullArea |-> FullArea, hgt |-> Hgt, dns |-> Dns]))
===========================================================================================================
