\* every placement / query history of four actions (thorough): exhaustive check of NoStaleArea (run with -continue) and emission of every state and edge for replay
CONSTANTS MaxLevel = 5
INIT Init
NEXT Next
CONSTRAINT Bound
VIEW View
ACTION_CONSTRAINT Emit
INVARIANT EmitState
INVARIANT TypeOK
INVARIANT NoStaleArea
CHECK_DEADLOCK FALSE
