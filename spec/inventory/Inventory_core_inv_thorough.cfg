\* thorough: every accounting clause as its own invariant, one edit deep with rich parameters, third core
CONSTANTS NLeaf = 6  NBlk = 3  NAsm = 2  MaxLevel = 2  LSrc = 600  LMax = 20000  VMax = 100
CONSTANTS Parent <- TCoreParent  Area <- TCoreArea  Height <- TCoreHeight  Sym <- TCoreSym  W <- Wt  N0 <- TCoreN0  H0 <- TCoreH0
CONSTANTS Targets <- TCoreTargetsAll  Vals <- ValsT  Facs <- FacsT  Masses <- MassesT  Maps <- MapsT  FracMaps <- FracMapsT  AddMaps <- AddMapsT  SetMaps <- SetMapsT
CONSTANTS AdjSets <- AdjSetsT  EnrFracs <- EnrFracsT  AdjMFs <- AdjMFsT
CONSTANTS HDom <- HDom123  HTargets <- TCoreHAll  HVals <- HDom123
CONSTANTS WithLump <- No  LeafVolCut <- LeafVolCutEnv  ScaleRaises <- ScaleRaisesEnv
INIT InitB
NEXT NextB
CONSTRAINT Bound
VIEW View
INVARIANT TypeOK
INVARIANT VolumeAdditive
INVARIANT MassIsDensityTimesVolume
INVARIANT MassAdditive
INVARIANT AtomsAgree
INVARIANT MassesAgreeWithMass
INVARIANT MassFracsSumToOne
INVARIANT ConversionsInverse
PROPERTY ReadBack
PROPERTY Locality
POSTCONDITION CountReport
CHECK_DEADLOCK FALSE
