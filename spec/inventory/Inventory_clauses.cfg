\* the clauses that depend on the design switches (see header of Inventory.tla), checked with -continue so that each is reported
CONSTANTS NLeaf = 6  NBlk = 3  NAsm = 2  MaxLevel = 2  LSrc = 600  LMax = 20000  VMax = 100
CONSTANTS Parent <- TCoreParent  Area <- TCoreArea  Height <- TCoreHeight  Sym <- TCoreSym  W <- Wt  N0 <- TCoreN0  H0 <- TCoreH0
CONSTANTS Targets <- TCoreTargetsProbe  Vals <- ValsQ  Facs <- FacsQ  Masses <- MassesQ  Maps <- MapsQ  FracMaps <- FracMapsQ  AddMaps <- AddMapsQ  SetMaps <- SetMapsQ
CONSTANTS AdjSets <- AdjSetsQ  EnrFracs <- EnrFracsQ  AdjMFs <- AdjMFsQ
CONSTANTS HDom <- HDom123  HTargets <- None  HVals <- HDom123
CONSTANTS WithLump <- No  LeafVolCut <- LeafVolCutEnv  ScaleRaises <- ScaleRaisesEnv
INIT InitB
NEXT NextB
CONSTRAINT Bound
VIEW View
INVARIANT CutLeafMassesAgree
PROPERTY CutLeafReadBack
PROPERTY ScaleAtAnyLevel
CHECK_DEADLOCK FALSE
