---------------------------------------- MODULE RationalSafe ----------------------------------------
(* Overflow-shy arithmetic on the exact rationals of Rational.tla (TLC integers are 32-bit).  Operands are
   normalised <<num, den>>, den > 0; results are normalised.  Products cross-cancel before multiplying and sums use
   the least common denominator, so an overflow can only happen when the exact result itself does not fit. *)
EXTENDS Rational
LOCAL QAbs(x) == IF x < 0 THEN -x ELSE x
QMul(a, b) == IF a[1] = 0 \/ b[1] = 0 THEN <<0, 1>>
              ELSE LET g1 == RGcd(QAbs(a[1]), b[2])
                       g2 == RGcd(QAbs(b[1]), a[2])
                   IN <<(a[1] \div g1) * (b[1] \div g2), (a[2] \div g2) * (b[2] \div g1)>>
QInv(b)    == IF b[1] < 0 THEN <<-b[2], -b[1]>> ELSE <<b[2], b[1]>>          \* b # 0
QDiv(a, b) == QMul(a, QInv(b))
QAdd(a, b) == IF a[1] = 0 THEN b ELSE IF b[1] = 0 THEN a
              ELSE LET g == RGcd(a[2], b[2])
                   IN Norm(a[1] * (b[2] \div g) + b[1] * (a[2] \div g), (a[2] \div g) * b[2])
QSub(a, b) == QAdd(a, <<-b[1], b[2]>>)
QSumSet(S, f(_)) == FoldSet(LAMBDA x, acc : QAdd(f(x), acc), <<0, 1>>, S)
QLcm(m, n) == (m \div RGcd(m, n)) * n
=====================================================================================================
