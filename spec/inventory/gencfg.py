"""Regenerates the Inventory_*.cfg files (run by hand after changing the configuration table; not used by the check)."""
import os
D = os.path.dirname(os.path.abspath(__file__))
TREES = {'Blk': (3, 1, 1), 'Core': (6, 3, 2), 'Edge': (6, 4, 4), 'Gap': (4, 1, 1), 'Cart': (4, 4, 3), 'Lfp': (3, 1, 1)}
INV = """INVARIANT TypeOK
INVARIANT VolumeAdditive
INVARIANT MassIsDensityTimesVolume
INVARIANT MassAdditive
INVARIANT AtomsAgree
INVARIANT MassesAgreeWithMass
INVARIANT MassFracsSumToOne
INVARIANT ConversionsInverse
"""
ACC = "INVARIANT TypeOK\nINVARIANT Accounting\n"
RB = "INVARIANT TypeOK\nINVARIANT VolumeAdditive\n"
PROP = "PROPERTY ReadBack\nPROPERTY Locality\nPOSTCONDITION CountReport\nCHECK_DEADLOCK FALSE\n"
EMIT = "ACTION_CONSTRAINT Emit\nINVARIANT EmitState\n"
PARS = ('Vals', 'Facs', 'Masses', 'Maps', 'FracMaps', 'AddMaps', 'SetMaps', 'AdjSets', 'EnrFracs', 'AdjMFs')


def head(tree, level, targets, P, htargets, hvals, comment):
    nl, nb, na = TREES[tree]
    s = "\\* %s\n" % comment
    s += "CONSTANTS NLeaf = %d  NBlk = %d  NAsm = %d  MaxLevel = %d  LSrc = 600  LMax = 20000  VMax = 100\n" % (nl, nb, na, level)
    s += "CONSTANTS Parent <- T%sParent  Area <- T%sArea  Height <- T%sHeight  Sym <- T%sSym  W <- Wt  N0 <- T%sN0  H0 <- T%sH0\n" % ((tree,) * 6)
    items = list(P.items())
    s += "CONSTANTS Targets <- T%s%s  " % (tree, targets) + "  ".join("%s <- %s" % kv for kv in items[:7]) + "\n"
    s += "CONSTANTS " + "  ".join("%s <- %s" % kv for kv in items[7:]) + "\n"
    s += "CONSTANTS HDom <- HDom123  HTargets <- %s  HVals <- %s\n" % (htargets, hvals)
    s += "CONSTANTS WithLump <- %s  LeafVolCut <- LeafVolCutEnv  ScaleRaises <- ScaleRaisesEnv\n" % ("Yes" if tree == "Lfp" else "No")
    return s


def mk(name, tree, level, targets, par, htargets, hvals, comment, body, over=None):
    P = {k: k + par for k in PARS}
    P.update(over or {})
    s = head(tree, level, targets, P, htargets, hvals, comment) + "INIT InitB\nNEXT NextB\nCONSTRAINT Bound\nVIEW View\n" + body
    open(os.path.join(D, 'Inventory_%s.cfg' % name), 'w').write(s)


for f in os.listdir(D):
    if f.startswith('Inventory_') and f.endswith('.cfg'):
        os.remove(os.path.join(D, f))
# accounting + emission, one edit deep, every node a target
mk('blk_acct', 'Blk', 2, 'TargetsAll', 'T', 'TBlkHAll', 'HDom123', "one block of three components: every accounting clause on every state one edit away (all fifteen edits, at all six nodes); states and edges are emitted for replay", EMIT + ACC + PROP)
mk('core_acct', 'Core', 2, 'TargetsAll', 'Q', 'TCoreHAll', 'HDom123', "third core (centre assembly Sym 3 with two blocks + one full assembly): every accounting clause one edit deep, edits at all twelve nodes, height changes of all blocks; emitted for replay", EMIT + ACC + PROP)
mk('edge_acct', 'Edge', 2, 'TargetsAll', 'Q', 'TEdgeHAll', 'HDom123', "third core with edge assemblies (Sym 3, 2, 2, 1): every accounting clause one edit deep, edits at all fifteen nodes; emitted for replay", EMIT + ACC + PROP)
mk('gap_acct', 'Gap', 2, 'TargetsAll', 'Q', 'TGapHAll', 'HDom123', "one block with a closed fuel/clad gap (a Void component of negative hot area): every accounting clause one edit deep, edits at every node but the gap; emitted for replay", EMIT + ACC + PROP)
mk('cart_acct', 'Cart', 2, 'TargetsAll', 'Q', 'TCartHAll', 'HDom123', "quarter-core Cartesian model through the centre assembly (Sym 4, 2, and an interior assembly with a bottom block and one above, Sym 1): every accounting clause one edit deep, edits at all twelve nodes; emitted for replay on CartesianBlocks", EMIT + ACC + PROP)
mk('lfp_acct', 'Lfp', 2, 'TargetsAll', 'Q', 'TLfpHAll', 'HDom123', "the block tree with a lumped fission product (five nuclides): every accounting clause incl. the expanded densities one edit deep; emitted for replay on a block with a real LFP collection", EMIT + ACC + PROP)
mk('lfp_inv_thorough', 'Lfp', 3, 'Targets', 'Q', 'TLfpHAll', 'HDom123', "thorough: every accounting clause as its own invariant (incl. ExpansionAdditive) and the read-back clauses two edits deep with the lumped fission product", INV + 'INVARIANT ExpansionAdditive\n' + PROP)
mk('core_inv_thorough', 'Core', 2, 'TargetsAll', 'T', 'TCoreHAll', 'HDom123', "thorough: every accounting clause as its own invariant, one edit deep with rich parameters, third core", INV + PROP)
mk('edge_inv_thorough', 'Edge', 2, 'TargetsAll', 'T', 'TEdgeHAll', 'HDom123', "thorough: every accounting clause as its own invariant, one edit deep with rich parameters, third core with edge assemblies", INV + PROP)
mk('gap_inv_thorough', 'Gap', 3, 'TargetsAll', 'Q', 'TGapHAll', 'HDom123', "thorough: every accounting clause as its own invariant and the read-back clauses, two edits deep, block with a negative-area gap", INV + PROP)
# read-back, two edits deep
mk('core_mc', 'Core', 3, 'TargetsQ', 'Q', 'TCoreH7', 'HDom123', "read-back clauses on every edge two edits deep: third core, edits at a cut leaf, a cut block, the centre assembly, the core; height changes of block 7", RB + PROP)
mk('blk_mc_thorough', 'Blk', 3, 'TargetsAll', 'T', 'TBlkHAll', 'HDom123', "thorough: all accounting and read-back clauses two edits deep, edits at all six nodes, rich parameters", INV + PROP)
mk('core_mc_thorough', 'Core', 3, 'Targets', 'T', 'TCoreH78', 'HDom123', "thorough: read-back clauses two edits deep with rich parameters, third core", RB + PROP)
mk('edge_mc_thorough', 'Edge', 3, 'Targets', 'T', 'TEdgeH8', 'HDom123', "thorough: read-back clauses two edits deep, third core with edge assemblies", RB + PROP)
# narrow three-edits-deep histories: edit above a block ; change the block's height ; edit above it again
G = dict(Vals='ValsG', Facs='None', Masses='MassesG', Maps='None', FracMaps='None', AddMaps='AddMapsG', SetMaps='None', AdjSets='AdjSetsG',
         EnrFracs='None', AdjMFs='None')
mk('core_geom_emit', 'Core', 4, 'TargetsG1', 'Q', 'TCoreH7', 'HVals2', "histories three edits deep around a height change: edits at the centre assembly, block 7 grows from 1 to 2 (with and without mass conservation); every edge emitted for replay (a stale cache above the block shows up only in such histories)", EMIT + 'INVARIANT TypeOK\n' + PROP, G)
mk('core_geom_emit_thorough', 'Core', 4, 'TargetsG', 'Q', 'TCoreH7', 'HVals2', "thorough: the same histories with edits at the centre assembly and at the core", EMIT + 'INVARIANT TypeOK\n' + PROP, G)
mk('core_geom_mc', 'Core', 4, 'TargetsG', 'Q', 'TCoreH78', 'HDom123', "thorough: read-back clauses three edits deep around height changes of blocks 7 and 8, edits at the centre assembly and the core", RB + PROP, G)
# thorough emission two edits deep
mk('blk_emit_thorough', 'Blk', 3, 'Targets', 'Q', 'TBlkHAll', 'HVals2', "thorough emission: every edge two edits deep on the block tree", EMIT + 'INVARIANT TypeOK\nCHECK_DEADLOCK FALSE\n')
mk('core_emit_thorough', 'Core', 3, 'TargetsE', 'Q', 'TCoreH7', 'HVals2', "thorough emission: every edge two edits deep on the third core", EMIT + 'INVARIANT TypeOK\nCHECK_DEADLOCK FALSE\n')
mk('gap_emit_thorough', 'Gap', 3, 'Targets', 'Q', 'TGapHAll', 'HVals2', "thorough emission: every edge two edits deep on the block with a negative-area gap", EMIT + 'INVARIANT TypeOK\nCHECK_DEADLOCK FALSE\n')
# design-dependent clauses
mk('clauses', 'Core', 2, 'TargetsProbe', 'Q', 'None', 'HDom123', "the clauses that depend on the design switches (see header of Inventory.tla), checked with -continue so that each is reported", 'INVARIANT CutLeafMassesAgree\nPROPERTY CutLeafReadBack\nPROPERTY ScaleAtAnyLevel\nCHECK_DEADLOCK FALSE\n')
for t in ('Core', 'Edge', 'Gap'):
    P = {k: k + 'Q' for k in PARS}
    s = head(t, 999, 'TargetsAll', P, 'T%sHAll' % t, 'HDom123', "trace validation on the %s tree" % t)
    s += "SPECIFICATION TSpec\nCONSTRAINT Progress\nPOSTCONDITION Report\nINVARIANT TypeOK\nCHECK_DEADLOCK FALSE\n"
    open(os.path.join(D, 'Inventory_%s_trace.cfg' % t.lower()), 'w').write(s)
