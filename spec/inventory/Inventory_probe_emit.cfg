\* probe: one edit at a component of a cut block, of an uncut block, and at a cut block; every state and edge emitted; decides which designs (LeafVolCut, ScaleRaises) the code implements
CONSTANTS NLeaf = 6  NBlk = 3  NAsm = 2  MaxLevel = 2  LMax = 20000  VMax = 100
CONSTANTS Parent <- TCoreParent  Area <- TCoreArea  Height <- TCoreHeight  Sym <- TCoreSym  W <- Wt  N0 <- TCoreN0  H0 <- TCoreH0
CONSTANTS Targets <- TCoreTargetsProbe  Vals <- ValsQ  Facs <- FacsQ  Masses <- MassesQ  Maps <- MapsQ  FracMaps <- FracMapsQ  AddMaps <- AddMapsQ  SetMaps <- SetMapsQ
CONSTANTS HDom <- HDom123  HTargets <- None  HVals <- HDom123
CONSTANTS LeafVolCut <- LeafVolCutEnv  ScaleRaises <- ScaleRaisesEnv
INIT InitB
NEXT NextB
CONSTRAINT Bound
VIEW View
ACTION_CONSTRAINT Emit
INVARIANT EmitState
INVARIANT TypeOK
CHECK_DEADLOCK FALSE
