\* one block of three components: every accounting clause on every state one edit away (all fifteen edits, at all six nodes); states and edges are emitted for replay
CONSTANTS NLeaf = 3  NBlk = 1  NAsm = 1  MaxLevel = 2  LSrc = 600  LMax = 20000  VMax = 100
CONSTANTS Parent <- TBlkParent  Area <- TBlkArea  Height <- TBlkHeight  Sym <- TBlkSym  W <- Wt  N0 <- TBlkN0  H0 <- TBlkH0
CONSTANTS Targets <- TBlkTargetsAll  Vals <- ValsT  Facs <- FacsT  Masses <- MassesT  Maps <- MapsT  FracMaps <- FracMapsT  AddMaps <- AddMapsT  SetMaps <- SetMapsT
CONSTANTS AdjSets <- AdjSetsT  EnrFracs <- EnrFracsT  AdjMFs <- AdjMFsT
CONSTANTS HDom <- HDom123  HTargets <- TBlkHAll  HVals <- HDom123
CONSTANTS WithLump <- No  LeafVolCut <- LeafVolCutEnv  ScaleRaises <- ScaleRaisesEnv
INIT InitB
NEXT NextB
CONSTRAINT Bound
VIEW View
ACTION_CONSTRAINT Emit
INVARIANT EmitState
INVARIANT TypeOK
INVARIANT Accounting
PROPERTY ReadBack
PROPERTY Locality
POSTCONDITION CountReport
CHECK_DEADLOCK FALSE
