------------------------------------------ MODULE Inventory_trace ------------------------------------------
(* code -> spec: every recorded edit history (driver: props/c02.py, random edits at random nodes of a real
   core > assembly > block > component tree, atomic weights set to W) must be a behaviour of Inventory, event by event:
   the logged call (name, node, arguments) is the action, the logged post-state (every component's numberDensities,
   its keys, the exception kind) must be the action's post-state exactly.  Number densities are logged as exact
   rationals recovered from the doubles (the driver ends a history when a value is not within 1e-12 of a rational of the
   bounded domain LMax/VMax).  Each trace carries its own initial composition. *)
EXTENDS Inventory_mc, TLCExt
Traces == ndJsonDeserialize(IOEnv.TRACE_FILE)
NT     == Len(Traces)
VARIABLES tid, l
ASSUME \A t \in 1..NT : TLCSet(t, 0)

HOf(hs)  == [i \in Leaf |-> ToSet(hs[i])]
GOf(hs)  == [b \in Blk |-> hs[b - NLeaf]]
NOf(ns)  == [i \in Leaf |-> [n \in Nuc |-> ns[i][n]]]
TInit == /\ tid \in 1..NT /\ l = 1
         /\ N = NOf(Traces[tid].init.N) /\ H = HOf(Traces[tid].init.H) /\ hgt = GOf(Traces[tid].init.hgt)
         /\ tr = FALSE /\ act = [n |-> "Init"] /\ err = "" /\ depth = 1
Ev == Traces[tid].ev[l]
A  == Ev.a
Step ==
    \/ A.n = "SetN" /\ SetN(A.x, A.nuc, A.v)
    \/ A.n = "UpdateN" /\ UpdateN(A.x, A.m)
    \/ A.n = "SetNs" /\ SetNs(A.x, A.m)
    \/ A.n = "Scale" /\ Scale(A.x, A.f)
    \/ A.n = "Clear" /\ Clear(A.x)
    \/ A.n = "AddMass" /\ AddMass(A.x, A.nuc, A.m)
    \/ A.n = "RemoveMass" /\ RemoveMass(A.x, A.nuc, A.m)
    \/ A.n = "SetMass" /\ SetMass(A.x, A.nuc, A.m)
    \/ A.n = "SetMassFracs" /\ SetMassFracs(A.x, A.m)
    \/ A.n = "AddMasses" /\ AddMasses(A.x, A.m)
    \/ A.n = "SetMasses" /\ SetMasses(A.x, A.m)
    \/ A.n = "SetHeight" /\ SetHeight(A.x, A.h, A.cons, AdjOf(A))
    \/ A.n = "AdjustDensity" /\ AdjustDensity(A.x, A.f, AdjOf(A))
    \/ A.n = "AdjustEnrich" /\ AdjustEnrich(A.x, A.f)
    \/ A.n = "AdjustMF" /\ AdjustMF(A.x, A.adj, A.hold, A.v)
Post == [N |-> N, H |-> HB(H), err |-> err]
Matches == N' = NOf(Ev.post.N) /\ H' = HOf(Ev.post.H) /\ hgt' = GOf(Ev.post.hgt) /\ err' = Ev.post.err
ObsMatch == \/ Matches
            \/ /\ ~Matches
               /\ PrintT(ToJson([mismatch |-> Traces[tid].id, at |-> l, expected |-> [N |-> N', H |-> [i \in Leaf |-> SetToSeq(H'[i])], hgt |-> hgt', err |-> err']]))
               /\ FALSE
\* a history ends with {"outside": TRUE} when the real result is not a rational of the model's bounded domain of magnitudes
\* (LMax / VMax): that is accepted only if the model agrees that the edit leaves the domain (the step is not enabled)
IsOutside == "outside" \in DOMAIN Ev.post
TNext == /\ l <= Len(Traces[tid].ev) /\ l' = l + 1 /\ tid' = tid /\ depth' = depth
         /\ IF IsOutside THEN ~(ENABLED Step) /\ UNCHANGED allvars
            ELSE Step /\ ObsMatch
TSpec == TInit /\ [][TNext]_<<allvars, tid, l, depth>>
Progress == IF TLCGet(tid) < l THEN TLCSet(tid, l) ELSE TRUE
Report == LET bad == {t \in 1..NT : TLCGet(t) # Len(Traces[t].ev) + 1} IN
          /\ \A t \in bad : PrintT(ToJson([rejected |-> Traces[t].id, matched |-> TLCGet(t) - 1]))
          /\ PrintT(ToJson([accepted |-> NT - Cardinality(bad), of |-> NT]))
============================================================================================================
