\* trace validation on the Core tree
CONSTANTS NLeaf = 6  NBlk = 3  NAsm = 2  MaxLevel = 999  LSrc = 600  LMax = 20000  VMax = 100
CONSTANTS Parent <- TCoreParent  Area <- TCoreArea  Height <- TCoreHeight  Sym <- TCoreSym  W <- Wt  N0 <- TCoreN0  H0 <- TCoreH0
CONSTANTS Targets <- TCoreTargetsAll  Vals <- ValsQ  Facs <- FacsQ  Masses <- MassesQ  Maps <- MapsQ  FracMaps <- FracMapsQ  AddMaps <- AddMapsQ  SetMaps <- SetMapsQ
CONSTANTS AdjSets <- AdjSetsQ  EnrFracs <- EnrFracsQ  AdjMFs <- AdjMFsQ
CONSTANTS HDom <- HDom123  HTargets <- TCoreHAll  HVals <- HDom123
CONSTANTS WithLump <- No  LeafVolCut <- LeafVolCutEnv  ScaleRaises <- ScaleRaisesEnv
SPECIFICATION TSpec
CONSTRAINT Progress
POSTCONDITION Report
INVARIANT TypeOK
CHECK_DEADLOCK FALSE
