\* thorough: every accounting clause as its own invariant (incl. ExpansionAdditive) and the read-back clauses two edits deep with the lumped fission product
CONSTANTS NLeaf = 3  NBlk = 1  NAsm = 1  MaxLevel = 3  LSrc = 600  LMax = 20000  VMax = 100
CONSTANTS Parent <- TLfpParent  Area <- TLfpArea  Height <- TLfpHeight  Sym <- TLfpSym  W <- Wt  N0 <- TLfpN0  H0 <- TLfpH0
CONSTANTS Targets <- TLfpTargets  Vals <- ValsQ  Facs <- FacsQ  Masses <- MassesQ  Maps <- MapsQ  FracMaps <- FracMapsQ  AddMaps <- AddMapsQ  SetMaps <- SetMapsQ
CONSTANTS AdjSets <- AdjSetsQ  EnrFracs <- EnrFracsQ  AdjMFs <- AdjMFsQ
CONSTANTS HDom <- HDom123  HTargets <- TLfpHAll  HVals <- HDom123
CONSTANTS WithLump <- Yes  LeafVolCut <- LeafVolCutEnv  ScaleRaises <- ScaleRaisesEnv
INIT InitB
NEXT NextB
CONSTRAINT Bound
VIEW View
INVARIANT TypeOK
INVARIANT VolumeAdditive
INVARIANT MassIsDensityTimesVolume
INVARIANT MassAdditive
INVARIANT AtomsAgree
INVARIANT MassesAgreeWithMass
INVARIANT MassFracsSumToOne
INVARIANT ConversionsInverse
INVARIANT ExpansionAdditive
PROPERTY ReadBack
PROPERTY Locality
POSTCONDITION CountReport
CHECK_DEADLOCK FALSE
