\* trace validation on the Gap tree
CONSTANTS NLeaf = 4  NBlk = 1  NAsm = 1  MaxLevel = 999  LSrc = 600  LMax = 20000  VMax = 100
CONSTANTS Parent <- TGapParent  Area <- TGapArea  Height <- TGapHeight  Sym <- TGapSym  W <- Wt  N0 <- TGapN0  H0 <- TGapH0
CONSTANTS Targets <- TGapTargetsAll  Vals <- ValsQ  Facs <- FacsQ  Masses <- MassesQ  Maps <- MapsQ  FracMaps <- FracMapsQ  AddMaps <- AddMapsQ  SetMaps <- SetMapsQ
CONSTANTS AdjSets <- AdjSetsQ  EnrFracs <- EnrFracsQ  AdjMFs <- AdjMFsQ
CONSTANTS HDom <- HDom123  HTargets <- TGapHAll  HVals <- HDom123
CONSTANTS WithLump <- No  LeafVolCut <- LeafVolCutEnv  ScaleRaises <- ScaleRaisesEnv
SPECIFICATION TSpec
CONSTRAINT Progress
POSTCONDITION Report
INVARIANT TypeOK
CHECK_DEADLOCK FALSE
