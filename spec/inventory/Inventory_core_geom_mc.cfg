\* thorough: read-back clauses three edits deep around height changes of blocks 7 and 8, edits at the centre assembly and the core
CONSTANTS NLeaf = 6  NBlk = 3  NAsm = 2  MaxLevel = 4  LSrc = 600  LMax = 20000  VMax = 100
CONSTANTS Parent <- TCoreParent  Area <- TCoreArea  Height <- TCoreHeight  Sym <- TCoreSym  W <- Wt  N0 <- TCoreN0  H0 <- TCoreH0
CONSTANTS Targets <- TCoreTargetsG  Vals <- ValsG  Facs <- None  Masses <- MassesG  Maps <- None  FracMaps <- None  AddMaps <- AddMapsG  SetMaps <- None
CONSTANTS AdjSets <- AdjSetsG  EnrFracs <- None  AdjMFs <- None
CONSTANTS HDom <- HDom123  HTargets <- TCoreH78  HVals <- HDom123
CONSTANTS WithLump <- No  LeafVolCut <- LeafVolCutEnv  ScaleRaises <- ScaleRaisesEnv
INIT InitB
NEXT NextB
CONSTRAINT Bound
VIEW View
INVARIANT TypeOK
INVARIANT VolumeAdditive
PROPERTY ReadBack
PROPERTY Locality
POSTCONDITION CountReport
CHECK_DEADLOCK FALSE
