\* trace validation on the Edge tree
CONSTANTS NLeaf = 6  NBlk = 4  NAsm = 4  MaxLevel = 999  LSrc = 600  LMax = 20000  VMax = 100
CONSTANTS Parent <- TEdgeParent  Area <- TEdgeArea  Height <- TEdgeHeight  Sym <- TEdgeSym  W <- Wt  N0 <- TEdgeN0  H0 <- TEdgeH0
CONSTANTS Targets <- TEdgeTargetsAll  Vals <- ValsQ  Facs <- FacsQ  Masses <- MassesQ  Maps <- MapsQ  FracMaps <- FracMapsQ  AddMaps <- AddMapsQ  SetMaps <- SetMapsQ
CONSTANTS AdjSets <- AdjSetsQ  EnrFracs <- EnrFracsQ  AdjMFs <- AdjMFsQ
CONSTANTS HDom <- HDom123  HTargets <- TEdgeHAll  HVals <- HDom123
CONSTANTS WithLump <- No  LeafVolCut <- LeafVolCutEnv  ScaleRaises <- ScaleRaisesEnv
SPECIFICATION TSpec
CONSTRAINT Progress
POSTCONDITION Report
INVARIANT TypeOK
CHECK_DEADLOCK FALSE
