\* third core (centre assembly Sym 3 with two blocks + one full assembly): every accounting clause one edit deep, edits at all twelve nodes, height changes of all blocks; emitted for replay
CONSTANTS NLeaf = 6  NBlk = 3  NAsm = 2  MaxLevel = 2  LSrc = 600  LMax = 20000  VMax = 100
CONSTANTS Parent <- TCoreParent  Area <- TCoreArea  Height <- TCoreHeight  Sym <- TCoreSym  W <- Wt  N0 <- TCoreN0  H0 <- TCoreH0
CONSTANTS Targets <- TCoreTargetsAll  Vals <- ValsQ  Facs <- FacsQ  Masses <- MassesQ  Maps <- MapsQ  FracMaps <- FracMapsQ  AddMaps <- AddMapsQ  SetMaps <- SetMapsQ
CONSTANTS AdjSets <- AdjSetsQ  EnrFracs <- EnrFracsQ  AdjMFs <- AdjMFsQ
CONSTANTS HDom <- HDom123  HTargets <- TCoreHAll  HVals <- HDom123
CONSTANTS WithLump <- No  LeafVolCut <- LeafVolCutEnv  ScaleRaises <- ScaleRaisesEnv
INIT InitB
NEXT NextB
CONSTRAINT Bound
VIEW View
ACTION_CONSTRAINT Emit
INVARIANT EmitState
INVARIANT TypeOK
INVARIANT Accounting
PROPERTY ReadBack
PROPERTY Locality
POSTCONDITION CountReport
CHECK_DEADLOCK FALSE
