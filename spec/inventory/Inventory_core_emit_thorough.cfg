\* thorough emission: every edge two edits deep on the third core
CONSTANTS NLeaf = 6  NBlk = 3  NAsm = 2  MaxLevel = 3  LSrc = 600  LMax = 20000  VMax = 100
CONSTANTS Parent <- TCoreParent  Area <- TCoreArea  Height <- TCoreHeight  Sym <- TCoreSym  W <- Wt  N0 <- TCoreN0  H0 <- TCoreH0
CONSTANTS Targets <- TCoreTargetsE  Vals <- ValsQ  Facs <- FacsQ  Masses <- MassesQ  Maps <- MapsQ  FracMaps <- FracMapsQ  AddMaps <- AddMapsQ  SetMaps <- SetMapsQ
CONSTANTS AdjSets <- AdjSetsQ  EnrFracs <- EnrFracsQ  AdjMFs <- AdjMFsQ
CONSTANTS HDom <- HDom123  HTargets <- TCoreH7  HVals <- HVals2
CONSTANTS WithLump <- No  LeafVolCut <- LeafVolCutEnv  ScaleRaises <- ScaleRaisesEnv
INIT InitB
NEXT NextB
CONSTRAINT Bound
VIEW View
ACTION_CONSTRAINT Emit
INVARIANT EmitState
INVARIANT TypeOK
CHECK_DEADLOCK FALSE
