"""Run SANY / TLC and parse what they print.

Exit-code discipline lives in run.py; here a MachineryError is raised for anything that is not a verdict
(parse error, TLC crash, timeout), and a TlcResult carries verdicts (invariant/property violations).
"""
import glob
import json
import os
import re
import shutil
import subprocess
import time

from harness import common

JAR = "/opt/veriftools/tla/tla2tools.jar"
DEPS = "/opt/veriftools/tla/CommunityModules-deps.jar"


class MachineryError(Exception):
    pass


class TlcResult:
    def __init__(self):
        self.rc = None
        self.out = ""
        self.generated = 0
        self.distinct = 0
        self.depth = 0
        self.coverage = {}  # action name -> (distinct, total)
        self.violation = None  # {"kind":..., "name":..., "trace": text}
        self.prints = []  # decoded PrintT payloads (json objects or raw strings)
        self.wall = 0.0
        self.cmd = ""

    def summary(self):
        return {
            "states": self.distinct,
            "transitions": self.generated,
            "depth": self.depth,
            "wall_s": round(self.wall, 2),
            "actions": {k: v[1] for k, v in self.coverage.items()},
        }


def stage(moddir, wd):
    """Copy the modules of one spec group plus spec/common into the work dir (TLC resolves EXTENDS there)."""
    for d in (os.path.join(common.SPEC, "common"), moddir):
        for f in glob.glob(os.path.join(d, "*.tla")) + glob.glob(os.path.join(d, "*.cfg")):
            shutil.copy(f, wd)


_ERR_KINDS = [
    (re.compile(r"Error: Invariant (\S+) is violated"), "invariant"),
    (re.compile(r"Error: Action property (\S+) is violated"), "action_property"),
    (re.compile(r"Error: Temporal properties were violated"), "temporal"),
    (re.compile(r"Error: Deadlock reached"), "deadlock"),
    (re.compile(r"Error: Assumption (.*) is false"), "assumption"),
    (re.compile(r"Error: The postcondition (.*)is false|Error: .*POSTCONDITION.*"), "postcondition"),
]


def _decode_print(line):
    line = line.strip()
    if line.startswith('"') and line.endswith('"'):
        try:
            s = json.loads(line)
        except Exception:
            return line
        try:
            return json.loads(s)
        except Exception:
            return s
    return line


def run(
    module,
    cfg,
    moddir,
    wd=None,
    workers=None,
    simulate=None,
    depth=None,
    seed=None,
    env=None,
    timeout=900,
    coverage=True,
    deque=False,
    extra=(),
    want_prints=True,
    allow_violation=True,
    heap="8g",
):
    """Run TLC on <moddir>/<module>.tla with <cfg>.  Returns TlcResult."""
    wd = wd or common.workdir("tlc")
    stage(moddir, wd)
    meta = os.path.join(wd, "meta-%s-%d" % (os.path.splitext(cfg)[0], int(time.time() * 1000) % 100000))
    workers = workers or common.NCPU
    jopts = ["-XX:+UseParallelGC", "-Xmx" + heap]
    if deque:
        jopts.append("-Dtlc2.tool.queue.IStateQueue=StateDeque")
    cmd = ["java"] + jopts + ["-cp", JAR + ":" + DEPS, "tlc2.TLC", "-workers", str(workers), "-metadir", meta,
                              "-noGenerateSpecTE", "-config", cfg]
    if coverage and not simulate:
        cmd += ["-coverage", "1"]
    if simulate:
        cmd += ["-simulate", simulate]
        if depth:
            cmd += ["-depth", str(depth)]
    if seed is not None:
        cmd += ["-seed", str(seed)]
    cmd += list(extra) + [module + ".tla"]
    e = dict(os.environ)
    e.pop("JAVA_TOOL_OPTIONS", None)
    if env:
        e.update({k: str(v) for k, v in env.items()})
    r = TlcResult()
    r.cmd = " ".join(cmd)
    t0 = time.time()
    try:
        p = subprocess.run(cmd, cwd=wd, env=e, stdout=subprocess.PIPE, stderr=subprocess.STDOUT, timeout=timeout)
    except subprocess.TimeoutExpired as ex:
        subprocess.run(["pkill", "-f", meta], check=False)
        raise MachineryError("TLC timeout after %ss: %s" % (timeout, r.cmd)) from ex
    finally:
        shutil.rmtree(meta, ignore_errors=True)
    r.wall = time.time() - t0
    r.rc = p.returncode
    r.out = p.stdout.decode("utf-8", "replace")
    _parse(r, want_prints)
    if r.violation is None and r.rc != 0:
        tail = "\n".join(r.out.splitlines()[-40:])
        raise MachineryError("TLC failed rc=%s (%s/%s)\n%s" % (r.rc, module, cfg, tail))
    if r.violation is not None and not allow_violation:
        raise MachineryError("unexpected TLC violation %s\n%s" % (r.violation["name"], r.violation["trace"][-3000:]))
    return r


def _parse(r, want_prints):
    lines = r.out.splitlines()
    cov_re = re.compile(r"^<(\w+) line \d+, col \d+ to line \d+, col \d+ of module (\w+)(?: \([\d ]+\))?>: (\d+):(\d+)")
    for i, ln in enumerate(lines):
        m = re.search(r"(\d+) states generated, (\d+) distinct states found", ln)
        if m:
            r.generated, r.distinct = int(m.group(1)), int(m.group(2))
        m = re.search(r"The depth of the complete state graph search is (\d+)", ln)
        if m:
            r.depth = int(m.group(1))
        m = cov_re.match(ln)
        if m:
            name = m.group(1)
            d, t = int(m.group(3)), int(m.group(4))
            if name in r.coverage:
                d0, t0 = r.coverage[name]
                d, t = d0 + d, t0 + t
            r.coverage[name] = (d, t)
        if r.violation is None and ln.startswith("Error:"):
            for rx, kind in _ERR_KINDS:
                mm = rx.search(ln)
                if mm:
                    name = mm.group(1) if mm.groups() and mm.group(1) else kind
                    trace = "\n".join(lines[i: i + 400])
                    r.violation = {"kind": kind, "name": name.strip(), "trace": trace}
                    break
        if want_prints and ln.startswith('"'):
            r.prints.append(_decode_print(ln))


def sany(module, moddir):
    wd = common.workdir("sany")
    stage(moddir, wd)
    cmd = ["java", "-cp", JAR + ":" + DEPS, "tla2sany.SANY", module + ".tla"]
    p = subprocess.run(cmd, cwd=wd, stdout=subprocess.PIPE, stderr=subprocess.STDOUT, timeout=120)
    out = p.stdout.decode("utf-8", "replace")
    if p.returncode != 0 or "*** Errors" in out or "Fatal errors" in out or "Could not parse" in out:
        raise MachineryError("SANY rejected %s:\n%s" % (module, out[-3000:]))
    return True


# ----------------------------------------------------------------------------------------------------------
# simulate-mode behaviours: tlc -simulate file=<prefix>,num=N writes one TLA+ file per behaviour; we instead
# let specs emit each behaviour as JSON (hist variable) -- see behaviours.py.
