"""Code -> spec: batch validation of recorded traces by TLC (one JVM start for thousands of traces).

The trace spec (X_trace.tla) reads ndjson from IOEnv.TRACE_FILE, carries (tid, l), advances one event per step
and prints, from its POSTCONDITION, one JSON line {"rejected": id, "matched": k} per trace that did not reach
its last event, and {"accepted": n, "of": NT}.  Mismatch diagnostics are printed as {"mismatch":...} lines.
"""
import json
import os

from harness import common, tlc


def validate(module, cfg, moddir, traces, timeout=1800, env=None, deque=False):
    wd = common.workdir("trace")
    fn = os.path.join(wd, "traces.ndjson")
    with open(fn, "w") as f:
        for t in traces:
            f.write(json.dumps(t, separators=(",", ":")) + "\n")
    e = {"TRACE_FILE": fn}
    if env:
        e.update(env)
    res = tlc.run(module, cfg, moddir, wd=wd, workers=1, coverage=False, env=e, timeout=timeout, deque=deque)
    if res.violation and res.violation["kind"] != "postcondition":
        # an invariant of the specification failed on a state reached by a recorded trace: that is a verdict
        # about the trace in which it happened; report it with TLC's own error trace
        return [{"trace": {"id": "?", "ev": []}, "matched": 0, "invariant": res.violation["name"],
                 "tlc": res.violation["trace"][:8000]}], {"tlc": res, "accepted": 0}
    byid = {t["id"]: t for t in traces}
    bad = []
    accepted = None
    mism = {}
    for p in res.prints:
        if isinstance(p, dict):
            if "rejected" in p:
                bad.append({"trace": byid.get(p["rejected"], {"id": p["rejected"], "ev": []}), "matched": p["matched"]})
            elif "accepted" in p:
                accepted = p["accepted"]
            elif "mismatch" in p:
                mism.setdefault(p["mismatch"], p)
    for b in bad:
        if b["trace"]["id"] in mism:
            b["mismatch"] = mism[b["trace"]["id"]]
    if accepted is None:
        raise tlc.MachineryError("trace validation produced no verdict line\n" + res.out[-3000:])
    if accepted + len(bad) != len(traces):
        raise tlc.MachineryError("trace verdicts not total: %d accepted + %d rejected != %d" % (accepted, len(bad), len(traces)))
    return bad, {"tlc": res, "accepted": accepted}
