"""known_findings.json: read-only at run time.  Only status=="known" entries suppress, and only by exact key."""
import json
import os

from harness import common

PATH = os.path.join(common.ROOT, "known_findings.json")


def load():
    if not os.path.exists(PATH):
        return []
    with open(PATH) as f:
        return json.load(f)


def known_keys(pid):
    return {e["key"]: e for e in load() if e.get("property") == pid and e.get("status") == "known"}
