"""Paths, work directories, seeds shared by every check."""
import atexit
import os
import shutil
import tempfile

ROOT = os.path.dirname(os.path.dirname(os.path.abspath(__file__)))
SPEC = os.path.join(ROOT, "spec")
EVID = os.path.join(ROOT, "evidence")
WORK = os.path.join(ROOT, ".work")
REPO = os.environ.get("VERIF_REPO", "/repo")
NCPU = os.cpu_count() or 4


def seed():
    try:
        return int(os.environ.get("VERIF_SEED", "0"))
    except ValueError:
        return 0


_dirs = []


def workdir(tag):
    os.makedirs(WORK, exist_ok=True)
    d = tempfile.mkdtemp(prefix="%s-%d-" % (tag, os.getpid()), dir=WORK)
    _dirs.append(d)
    return d


def violdir():
    """Replay files survive the run (they are what VIOLATION lines point at)."""
    d = os.path.join(WORK, "replays")
    os.makedirs(d, exist_ok=True)
    return d


@atexit.register
def _cleanup():
    if os.environ.get("VERIF_KEEP"):
        return
    for d in _dirs:
        shutil.rmtree(d, ignore_errors=True)
