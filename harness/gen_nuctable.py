"""C19: export the live nuclide directory, burn chain and material library as one JSON document for TLC.

Nothing here decides whether the directory is well formed.  The module only OBSERVES the real code and QUANTISES:

  * every nuclide of ``nuclideBases.instances`` becomes one row; each identifier column is what the nuclide's own
    getter returns *now* (``name``, ``label``, ``getDatabaseName()``, ``getMcc2Id()``, ``getMcc3Id()``, ``getMcc3IdEndfbVII0/1()``,
    ``getMcnpId()``, ``getAAAZZZSId()``); "" means the class has no such identifier (getter absent or NotImplementedError);
  * every module-level dictionary (``byName`` ...) becomes ``{key: row index of the object stored there}`` where the row
    index is found by *object identity* in ``instances`` (0 = the stored object is not a nuclide of the directory);
  * elements: ``byZ`` in insertion order with their ``nuclides`` lists as row indices, and what ``bySymbol`` / ``byName`` return;
  * burn chain: the entries of the burn-chain file as read by the same YAML reader, and the Transmutation / DecayMode
    objects actually attached to the nuclides after ``imposeBurnChain``;
  * materials: for every class in ``armi.materials``: whether ``cls()`` returns, its ``massFrac`` (nuclide name, parts per
    billion), and ``density`` / ``pseudoDensity`` / ``linearExpansionPercent`` evaluated at NT
    temperatures (end points included) across every stated validity range that concerns density or expansion.

Reals cannot live in TLC (32-bit integers): they are quantised by order-preserving maps, stated here once.
  q_unit(x)  fractions that must lie in [0,1] -> parts per billion, such that  x<0 <=> q<0,  x=0 <=> q=0,  x=1 <=> q=1e9,
             x>1 <=> q>1e9  (values are clamped to +-2e9).
  q_micro(x) densities / expansions -> millionths, rounded away from zero (so  x>0 <=> q>0  and  x<0 <=> q<0).
"""
import math
import os

from harness.armi_env import armi_ready

PPB = 10 ** 9
CLAMP = 2 * PPB
C_TO_K = 273.15

# classes of armi.materials that are not library materials with a composition and a density of their own (stated
# interpretation; every other class found in the namespace -- also a new one -- is a library material)
NON_LIBRARY = {
    "Material": ("base", "abstract base class of all materials"),
    "Fluid": ("base", "abstract base class of fluids"),
    "SimpleSolid": ("base", "abstract base class: density() returns 0.0 until a subclass defines it"),
    "FuelMaterial": ("base", "abstract base class of fuels"),
    "Water": ("base", "documented abstract class: pseudoDensity raises NotImplementedError, use SaturatedWater/SaturatedSteam"),
    "Custom": ("custom", "composition and density are user input (blueprints custom isotopics)"),
    "_Mixture": ("mixture", "homogenised block mixture: no composition or density of its own"),
    "Void": ("void", "bookkeeping material with zero density and no composition by definition"),
}
NOMINAL_RANGE_C = (25.0, 600.0)  # probed when a material states no range for density or expansion (separate clause)
FUNCS = ("density", "pseudoDensity", "linearExpansionPercent")


# ----------------------------------------------------------------------------------------------------------------------
# quantisation
# ----------------------------------------------------------------------------------------------------------------------
def q_unit(x):
    x = float(x)
    if math.isnan(x):
        return -CLAMP
    if x == 0.0:
        return 0
    if x == 1.0:
        return PPB
    if x < 0.0:
        return max(-CLAMP, min(-1, int(round(x * PPB))))
    if x > 1.0:
        return min(CLAMP, max(PPB + 1, int(round(min(x, 3.0) * PPB))))
    return min(PPB - 1, max(1, int(round(x * PPB))))


def q_micro(x):
    x = float(x)
    if x == 0.0:
        return 0
    v = x * 1e6
    v = math.ceil(v) if v > 0 else math.floor(v)
    return int(max(-CLAMP, min(CLAMP, v)))


# ----------------------------------------------------------------------------------------------------------------------
# nuclide directory
# ----------------------------------------------------------------------------------------------------------------------
KINDS = {"NuclideBase": "nuclide", "NaturalNuclideBase": "natural", "DummyNuclideBase": "dummy", "LumpNuclideBase": "lump"}
INDEX_NAMES = ("byName", "byDBName", "byLabel", "byMcc2Id", "byMcc3Id", "byMcc3IdEndfbVII0", "byMcc3IdEndfbVII1", "byMcnpId",
               "byAAAZZZSId")


def _ident(n, getter):
    """What the nuclide's own getter returns; "" if the class has no such identifier."""
    f = getattr(n, getter, None)
    if f is None:
        return ""
    try:
        v = f()
    except NotImplementedError:
        return ""
    except Exception as ex:  # noqa: BLE001  a getter that raises is an observation (the identifier clauses will reject it)
        return "<exception:%s>" % type(ex).__name__
    if v is None or v is NotImplementedError:
        return ""
    return v if isinstance(v, str) else "<%s:%r>" % (type(v).__name__, v)


_IMPOSE_STATUS = {"status": "ok"}


def ensure_burn_chain():
    """imposeBurnChain(resources/burn-chain.yaml) unless a chain is already imposed; what it raised, if anything, is part of
    the observation (a burn chain that names a parent the directory does not have makes imposeBurnChain raise KeyError)."""
    armi_ready()
    from armi import context
    from armi.nucDirectory import nuclideBases as nb

    path = os.path.join(context.RES, "burn-chain.yaml")
    if not nb.burnChainImposed:
        _IMPOSE_STATUS["status"] = "ok"
        try:
            with open(path) as f:
                nb.imposeBurnChain(f)
        except Exception as ex:  # noqa: BLE001
            _IMPOSE_STATUS["status"] = "exception:%s:%s" % (type(ex).__name__, str(ex)[:80])
    return path


def observe_directory():
    """rows / idx / elements of the module-level state as it is now (also used on the sandboxed state of the factory replay)."""
    armi_ready()
    from armi.nucDirectory import elements, nuclideBases as nb

    rowof = {}
    for i, n in enumerate(nb.instances, 1):
        rowof.setdefault(id(n), i)
    elems = list(elements.byZ.values())
    elemof = {id(e): e for e in elems}
    rows = []
    for i, n in enumerate(nb.instances, 1):
        e = getattr(n, "element", None)
        rows.append({
            "i": i,
            "kind": KINDS.get(type(n).__name__, "other:" + type(n).__name__),
            "z": int(n.z), "a": int(n.a), "s": int(n.state),
            "name": n.name, "label": n.label,
            "db": _ident(n, "getDatabaseName"),
            "mcc2": _ident(n, "getMcc2Id"), "mcc3": _ident(n, "getMcc3Id"),
            "mcc3v0": _ident(n, "getMcc3IdEndfbVII0"), "mcc3v1": _ident(n, "getMcc3IdEndfbVII1"),
            "mcnp": _ident(n, "getMcnpId"), "azs": _ident(n, "getAAAZZZSId"),
            "elemZ": int(e.z) if id(e) in elemof else 0,
            "abund": q_unit(n.abundance),
        })
    idx = {}
    for name in INDEX_NAMES:
        d = getattr(nb, name)
        idx[name] = {(k if isinstance(k, str) else "<%s:%r>" % (type(k).__name__, k)): rowof.get(id(v), 0) for k, v in d.items()}
    eidx = {id(e): j for j, e in enumerate(elems, 1)}
    els = []
    for key, e in elements.byZ.items():
        els.append({
            "key": int(key), "z": int(e.z), "symbol": e.symbol, "name": e.name,
            "members": [rowof.get(id(n), 0) for n in e.nuclides],
            "natural": [rowof.get(id(n), 0) for n in e.getNaturalIsotopics()],
            "bySymbol": eidx.get(id(elements.bySymbol.get(e.symbol)), 0),
            "byName": eidx.get(id(elements.byName.get(e.name)), 0),
        })
    return {"rows": rows, "idx": idx, "elements": els,
            "nElemSymbol": len(elements.bySymbol), "nElemName": len(elements.byName)}


def export_directory(chain_path=None):
    out = observe_directory()
    out.update(export_chain(chain_path))
    return out


def _entry(parent, cat, t):
    return {"parent": parent, "cat": cat, "type": str(t.type), "products": [str(p) for p in t.productNuclides], "branch": q_unit(t.branch)}


def export_chain(chain_path=None):
    """chainFile: what the burn-chain file names; chainLive: what hangs on the nuclides after imposeBurnChain."""
    from ruamel.yaml import YAML

    from armi.nucDirectory import nuclideBases as nb

    path = chain_path or ensure_burn_chain()
    yaml = YAML(typ="rt")
    with open(path) as f:
        data = yaml.load(f)
    named = []
    for parent, items in data.items():
        for item in items:
            for cat, body in item.items():
                if cat in ("transmutation", "decay"):
                    b = body.get("branch", None)
                    named.append({"parent": str(parent), "cat": cat, "type": str(body["type"]),
                                  "products": [str(p) for p in body["products"]], "branch": q_unit(1.0 if b is None else b)})
    live = []
    for n in nb.instances:
        for t in n.trans:
            live.append(_entry(n.name, "transmutation", t))
        for d in n.decays:
            live.append(_entry(n.name, "decay", d))
    return {"chainFile": named, "chainLive": live, "chainStatus": _IMPOSE_STATUS["status"]}


# ----------------------------------------------------------------------------------------------------------------------
# materials
# ----------------------------------------------------------------------------------------------------------------------
def material_classes():
    armi_ready()
    import armi.materials as M
    from armi.materials import iterAllMaterialClassesInNamespace

    return sorted(set(iterAllMaterialClassesInNamespace(M)), key=lambda c: c.__name__)


def _classify(v):
    """status of one evaluation (a measurement of what came back, not a judgement) and its quantised value."""
    import numpy as np

    if v is None:
        return "none", 0
    if isinstance(v, (complex, np.complexfloating)):
        return "complex", 0
    if isinstance(v, bool) or not isinstance(v, (int, float, np.integer, np.floating)):
        if isinstance(v, np.ndarray) and v.shape == () and v.dtype.kind in "fiu":
            v = v.item()
        else:
            return "type:" + type(v).__name__, 0
    x = float(v)
    if math.isnan(x) or math.isinf(x):
        return "nonfinite", 0
    return "ok", q_micro(x)


def _evaluate(m, fn, unit, t):
    """fn(T) asked in the given unit: Tk=t or Tc=t"""
    try:
        f = getattr(m, fn)
        v = f(Tk=t) if unit == "K" else f(Tc=t)
    except Exception as ex:  # noqa: BLE001  whatever the correlation raises is the observation
        return "exception:" + type(ex).__name__, 0
    return _classify(v)


def _other(unit, t):
    """the same temperature through the other entry point"""
    return ("C", t - C_TO_K) if unit == "K" else ("K", t + C_TO_K)


def _derived(m, fn, t0c, tc):
    """the functions that only take Celsius: dL/L factor and density reduction between the low end of the range and tc"""
    try:
        v = m.linearExpansionFactor(Tc=tc, T0=t0c) if fn == "linearExpansionFactor" else m.getThermalExpansionDensityReduction(t0c, tc)
    except Exception as ex:  # noqa: BLE001
        return "exception:" + type(ex).__name__, 0
    return _classify(v)


def stated_ranges(cls):
    """[(label, unit, lo, hi)] for every propertyValidTemperature entry that concerns density or expansion."""
    out = []
    for label, spec in (cls.propertyValidTemperature or {}).items():
        low = label.lower()
        if "dens" in low or "expansion" in low:
            (lo, hi), unit = spec
            out.append((label, "K" if str(unit).upper().startswith("K") else "C", float(lo), float(hi)))
    return out


def temperatures(lo, hi, nt):
    """nt temperatures, both end points exactly as stated, the rest evenly spaced."""
    if nt < 2 or hi <= lo:
        return [lo, hi]
    return [lo] + [lo + (hi - lo) * k / (nt - 1) for k in range(1, nt - 1)] + [hi]


DERIVED = ("linearExpansionFactor", "getThermalExpansionDensityReduction")
N_INSTANCES = 3


def _composition(m):
    out, total = [], 0
    for nuc, frac in m.massFrac.items():
        q = q_unit(frac)
        if total + abs(q) > CLAMP:  # keep TLC's 32-bit sum from overflowing; still far from normalised
            q = 0 if total >= CLAMP else CLAMP - total
        total += abs(q)
        out.append({"nuc": str(nuc), "ppb": q, "x": repr(float(frac))})
    return out


def export_materials(nt=25):
    """Every class is instantiated N_INSTANCES times, round robin over the classes (instance k of every class is created
    before instance k+1 of any class).  The first instance is evaluated over the ranges; afterwards every instance is
    probed at one temperature: a material must not depend on how many of its kind (or of another kind) exist already."""
    armi_ready()
    classes = material_classes()
    recs, insts = {}, {}
    for cls in classes:
        name = cls.__name__
        kind, _why = NON_LIBRARY.get(name, ("library", ""))
        recs[name] = {"name": name, "module": cls.__module__.rsplit(".", 1)[-1], "kind": kind, "inst": "ok", "entries": [], "ranges": [],
                      "instances": []}
        insts[name] = []
    for k in range(N_INSTANCES):
        for cls in classes:
            name = cls.__name__
            try:
                m = cls()
                insts[name].append(m)
                recs[name]["instances"].append({"inst": "ok", "entries": _composition(m), "probes": []})
            except Exception as ex:  # noqa: BLE001
                insts[name].append(None)
                recs[name]["instances"].append({"inst": "exception:%s" % type(ex).__name__, "entries": [], "probes": []})
    probes = {}
    for cls in classes:
        name = cls.__name__
        rec = recs[name]
        rec["inst"] = rec["instances"][0]["inst"]
        m = insts[name][0]
        ranges = stated_ranges(cls)
        if not ranges:
            ranges = [("nominal", "C", NOMINAL_RANGE_C[0], NOMINAL_RANGE_C[1])]
        probes[name] = (ranges[0][1], 0.5 * (ranges[0][2] + ranges[0][3]))
        if m is None:
            continue
        rec["entries"] = [{"nuc": e["nuc"], "ppb": e["ppb"]} for e in rec["instances"][0]["entries"]]
        for label, unit, lo, hi in ranges:
            temps = temperatures(lo, hi, nt)
            base = {"label": label, "stated": label != "nominal", "unit": unit, "lo": int(round(lo * 1000)), "hi": int(round(hi * 1000))}
            for fn in FUNCS + (("volumetricExpansion",) if "volumetric" in label.lower() else ()):
                samples = []
                for t in temps:
                    st, q = _evaluate(m, fn, unit, t)
                    st2, q2 = _evaluate(m, fn, *_other(unit, t))
                    samples.append([int(round(t * 1000)), st, q, st2, q2])
                rec["ranges"].append(dict(base, fn=fn, both=True, samples=samples))
            loc = lo if unit == "C" else lo - C_TO_K
            for fn in DERIVED:
                samples = []
                for t in temps:
                    st, q = _derived(m, fn, loc, t if unit == "C" else t - C_TO_K)
                    samples.append([int(round(t * 1000)), st, q, st, q])
                rec["ranges"].append(dict(base, fn=fn, both=False, samples=samples))
    for k in range(N_INSTANCES):
        for cls in classes:
            name = cls.__name__
            m = insts[name][k]
            if m is None:
                continue
            unit, t = probes[name]
            for fn in FUNCS:
                st, q = _evaluate(m, fn, unit, t)
                x = ""
                if st == "ok":
                    try:
                        x = repr(float(getattr(m, fn)(Tk=t) if unit == "K" else getattr(m, fn)(Tc=t)))
                    except Exception:  # noqa: BLE001
                        x = "?"
                recs[name]["instances"][k]["probes"].append([fn, st, q, x])
    return [recs[c.__name__] for c in classes]


def export_all(nt=25, chain_path=None):
    ensure_burn_chain()
    doc = export_directory(chain_path)
    doc["materials"] = export_materials(nt)
    return doc
