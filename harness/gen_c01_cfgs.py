"""Writes the TLC configurations of spec/tree (C01) from one table, so that every family/tier/purpose states every constant.

    /venv/bin/python -m harness.gen_c01_cfgs        (run once after editing the table; the cfg files are checked in)

purpose   mc     exhaustive run of the design: Deviant = FALSE, the plain invariants, coverage
          emit   edge/state emission for spec -> code replay: Deviant = TRUE (the known deviation of add/insert of an owned
                 object is written down so that it can be told from other failures), OneParentListedOnceD
          trace  code -> spec validation of recorded histories: Deviant = TRUE, bigger pools
"""
import os

from harness import common

DIR = os.path.join(common.SPEC, "tree")

# family: (file stem, comment, constants, quick levels (mc, emit), thorough levels (mc, emit), trace constants override)
FAM = {
    "generic": ("CompositeTree", "generic Composite mode: 3 originals + 2 pool ids, 2 grid cells",
                dict(N=5, NOrig=3, NLoc=2, Typed="FALSE", MaxSet=2, NBlk=0, BlkGrid="FALSE", NGrp=0, Rx="FALSE", NAsm=0, WithOwned="TRUE"),
                (4, 3), (5, 4), dict(N=8, NOrig=5, NLoc=3, MaxSet=3)),
    "typed": ("CompositeTree_typed", "typed mode: assembly 1, blocks 2-3, components 4-5, pool 6-8",
              dict(N=8, NOrig=5, NLoc=1, Typed="TRUE", MaxSet=2, NBlk=2, BlkGrid="FALSE", NGrp=0, Rx="FALSE", NAsm=0, WithOwned="FALSE"),
              (4, 3), (5, 4), dict(MaxSet=3)),
    # quick: ONE block (2), the group (3), components 4-5; thorough and traces: two blocks, the group, components 5-6
    "pins": ("CompositeTree_pins", "typed mode with pin lattices: assembly 1, block 2, component group 3, components 4-5, pool 6-8",
             dict(N=8, NOrig=5, NLoc=2, Typed="TRUE", MaxSet=2, NBlk=1, BlkGrid="TRUE", NGrp=1, Rx="FALSE", NAsm=0, WithOwned="TRUE"),
             (4, 3), (4, 3), dict(N=9, NOrig=6, NBlk=2, MaxSet=3)),
    "reactor": ("CompositeTree_reactor", "reactor mode: reactor 1, core 2, pool 3, assemblies 4-5, blocks 6-8 (6 and 8 in assembly 4), pool 9-16",
                dict(N=16, NOrig=8, NLoc=3, Typed="FALSE", MaxSet=0, NBlk=0, BlkGrid="FALSE", NGrp=0, Rx="TRUE", NAsm=2, WithOwned="FALSE"),
                (6, 4), (7, 5), dict()),
}
THOROUGH_CONSTS = {"pins": dict(N=9, NOrig=6, NBlk=2)}
ORDER = ("N", "NOrig", "NLoc", "MaxLevel", "Typed", "MaxSet", "NBlk", "BlkGrid", "NGrp", "Rx", "NAsm", "Deviant", "WithOwned")
INVS = ("TypeOK", "BrokenIsDead", "OneParentListedOnce", "NoDuplicates", "Acyclic", "DetachedIsDetached", "CopiesDisjoint")


def consts(c):
    return "CONSTANTS " + "  ".join("%s = %s" % (k, c[k]) for k in ORDER)


def write(name, text):
    with open(os.path.join(DIR, name), "w") as f:
        f.write(text)


def main():
    for fam, (stem, comment, c, quick, thorough, tr) in FAM.items():
        for suffix, (mcl, eml) in (("", quick), ("_thorough", thorough)):
            if suffix and fam in THOROUGH_CONSTS:
                c = dict(c, **THOROUGH_CONSTS[fam])
                comment = comment.replace("block 2, component group 3, components 4-5, pool 6-8", "blocks 2-3, component group 4, components 5-6, pool 7-9")
            cm = dict(c, MaxLevel=mcl, Deviant="FALSE")
            body = "INIT Init\nNEXT Next\nCONSTRAINT Bound\nVIEW View\n"
            write("%s_mc%s.cfg" % (stem, suffix), "\\* exhaustive, %s, depth %d\n%s\n%s%s\nPROPERTY RefusalsChangeNothing\nPROPERTY CopyLeavesOriginal\nCHECK_DEADLOCK FALSE\n" % (
                comment, mcl, consts(cm), body, "\n".join("INVARIANT " + i for i in INVS)))
            ce = dict(c, MaxLevel=eml, Deviant="TRUE")
            invs = [i if i != "OneParentListedOnce" else "OneParentListedOnceD" for i in INVS]
            write("%s_emit%s.cfg" % (stem, suffix), "\\* emission of every explored edge and state, %s, depth %d\n%s\nACTION_CONSTRAINT Emit\nINVARIANT EmitState\n%s%s\nPROPERTY RefusalsChangeNothing\nPROPERTY CopyLeavesOriginal\nCHECK_DEADLOCK FALSE\n" % (
                comment, eml, consts(ce), body, "\n".join("INVARIANT " + i for i in invs)))
        ct = dict(c, MaxLevel=999, Deviant="TRUE")
        ct.update(tr)
        invs = [i if i != "OneParentListedOnce" else "OneParentListedOnceD" for i in INVS if i != "CopiesDisjoint"]
        write("%s_trace.cfg" % stem, "%s\nSPECIFICATION TSpec\nCONSTRAINT Progress\nPOSTCONDITION Report\n%s\nCHECK_DEADLOCK FALSE\n" % (
            consts(ct), "\n".join("INVARIANT " + i for i in invs)))


if __name__ == "__main__":
    main()
