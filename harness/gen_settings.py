"""C17 helper: the *catalog* of real armi settings in the form the TLA+ module SettingSchema reads, and the value codec.

Nothing here decides whether a value is valid or what it coerces to -- that is TLC's evaluation of SettingSchema.
This module only
  * translates Python data  <->  tagged JSON values   {"t": tag, "v": payload}   (the spec's value universe),
  * translates the *declarative* attributes of each armi Setting (default, options, enforcedOptions, the custom schema
    object passed to the constructor, class, oldNames) into JSON terms, structurally (voluptuous objects are walked,
    not called),
  * proposes extra candidate inputs per setting (boundaries of Range, the options and near-misses of them); candidates carry
    no expectation,
  * registers one small plugin through armi's public plugin API so that the settings classes that no built-in plugin uses
    (FlagListSetting, Option / Default modifiers, expiring renames) take part like any plugin-contributed setting,
  * normalises real setting values into plain Python data for comparison (``plain``).
"""
import datetime
import inspect
from decimal import Decimal
from fractions import Fraction

from harness.armi_env import armi_ready

I32 = 2 ** 31 - 1


class Unrepresentable(Exception):
    pass


# ------------------------------------------------------------------------------------------------------------
# values
# ------------------------------------------------------------------------------------------------------------
def to_tag(v):
    """Python datum -> tagged JSON (exact; floats as the reduced fraction of their shortest repr)."""
    from armi.reactor.flags import Flags

    if v is None:
        return {"t": "none", "v": ""}
    if isinstance(v, bool):
        return {"t": "bool", "v": bool(v)}
    if isinstance(v, Flags):
        return {"t": "flag", "v": Flags.toString(v)}
    if isinstance(v, int):
        if abs(v) > I32:
            raise Unrepresentable("int %r" % v)
        return {"t": "int", "v": int(v)}
    if isinstance(v, float):
        if v != v or v in (float("inf"), float("-inf")):
            raise Unrepresentable("float %r" % v)
        fr = Fraction(Decimal(repr(float(v))))
        if abs(fr.numerator) > I32 or fr.denominator > I32:
            return {"t": "ofloat", "v": repr(float(v))}  # opaque float: only equality and str() are modelled
        return {"t": "float", "v": [fr.numerator, fr.denominator]}
    if isinstance(v, str):
        return {"t": "str", "v": str(v)}
    if isinstance(v, (list, tuple)):
        return {"t": "list", "v": [to_tag(x) for x in v]}
    if isinstance(v, dict):
        return {"t": "dict", "v": [[to_tag(k) for k in v.keys()], [to_tag(x) for x in v.values()]]}
    raise Unrepresentable("%s %r" % (type(v).__name__, v))


def from_tag(t):
    """tagged JSON -> Python datum (flags become armi Flags)."""
    k, v = t["t"], t["v"]
    if k == "none":
        return None
    if k == "bool":
        return bool(v)
    if k == "int":
        return int(v)
    if k == "float":
        return float(Fraction(int(v[0]), int(v[1])))
    if k == "ofloat":
        return float(v)
    if k == "str":
        return str(v)
    if k == "list":
        return [from_tag(x) for x in v]
    if k == "dict":
        return {from_tag(a): from_tag(b) for a, b in zip(v[0], v[1])}
    if k == "flag":
        from armi.reactor.flags import Flags

        return Flags.fromString(v)
    raise Unrepresentable("tag %r" % (t,))


def plain(v):
    """Real setting value -> plain comparable data: containers become list/dict, settings objects become the dict of their
    non-None attributes (XSModelingOptions minus its key), Flags become ("flag", NAME)."""
    from armi.physics.neutronics.crossSectionSettings import XSModelingOptions
    from armi.reactor.flags import Flags

    if isinstance(v, XSModelingOptions):
        return {k: plain(x) for k, x in vars(v).items() if k != "xsID" and x is not None}
    if isinstance(v, Flags):
        return ("flag", Flags.toString(v))
    if isinstance(v, dict):
        return {plain(k): plain(x) for k, x in v.items()}
    if isinstance(v, (list, tuple)):
        return [plain(x) for x in v]
    if isinstance(v, bool) or v is None:
        return v
    if isinstance(v, int):
        return int(v)
    if isinstance(v, float):
        return float(v)
    if isinstance(v, str):
        return str(v)
    return ("object", type(v).__name__, repr(v))


def plain_of_tag(t):
    """what ``plain`` gives for the value a tagged term denotes"""
    k, v = t["t"], t["v"]
    if k == "flag":
        return ("flag", v)
    if k == "list":
        return [plain_of_tag(x) for x in v]
    if k == "dict":
        return {plain_of_tag(a): plain_of_tag(b) for a, b in zip(v[0], v[1])}
    return from_tag(t)


def same(a, b):
    """strict equality of plain data: scalars must have the same type (1 is not 1.0 is not True)"""
    if isinstance(a, dict) and isinstance(b, dict):
        return set(a) == set(b) and all(same(a[k], b[k]) for k in a) and all(type(k) is type(k2) for k, k2 in zip(sorted(a, key=repr), sorted(b, key=repr)))
    if isinstance(a, list) and isinstance(b, list):
        return len(a) == len(b) and all(same(x, y) for x, y in zip(a, b))
    if isinstance(a, tuple) and isinstance(b, tuple):
        return a == b
    return type(a) is type(b) and a == b


# ------------------------------------------------------------------------------------------------------------
# schema terms
# ------------------------------------------------------------------------------------------------------------
_TYPES = {bool: "bool", int: "int", float: "float", str: "str", list: "list", dict: "dict", type(None): "NoneType"}


class UnreadableSchema(Exception):
    pass


def schema_term(s):
    import voluptuous as vol

    if isinstance(s, vol.Schema):
        return schema_term(s.schema)
    if isinstance(s, vol.Coerce):
        if s.type not in _TYPES:
            raise UnreadableSchema("Coerce(%r)" % (s.type,))
        return {"k": "coerce", "ty": _TYPES[s.type]}
    if isinstance(s, vol.Range):
        return {"k": "range", "hasMin": s.min is not None, "min": to_tag(s.min if s.min is not None else 0),
                "hasMax": s.max is not None, "max": to_tag(s.max if s.max is not None else 0),
                "minInc": bool(s.min_included), "maxInc": bool(s.max_included)}
    if isinstance(s, vol.Length):
        return {"k": "length", "hasMin": s.min is not None, "min": int(s.min or 0), "hasMax": s.max is not None, "max": int(s.max or 0)}
    if isinstance(s, vol.In):
        c = s.container
        c = sorted(c, key=repr) if isinstance(c, (set, frozenset)) else list(c)
        return {"k": "in", "opts": [to_tag(x) for x in c]}
    if isinstance(s, vol.All):
        return {"k": "all", "of": [schema_term(x) for x in s.validators]}
    if isinstance(s, vol.Any):
        return {"k": "any", "of": [schema_term(x) for x in s.validators]}
    if isinstance(s, list):
        return {"k": "list", "of": [schema_term(x) for x in s]}
    if isinstance(s, dict):
        keys, vals = [], []
        for k, val in s.items():
            if isinstance(k, vol.Required):
                keys.append({"req": True, "lit": True, "ks": {"k": "lit", "v": to_tag(k.schema)}})
            elif isinstance(k, vol.Optional):
                keys.append({"req": False, "lit": True, "ks": {"k": "lit", "v": to_tag(k.schema)}})
            elif isinstance(k, (str, int)):
                keys.append({"req": False, "lit": True, "ks": {"k": "lit", "v": to_tag(k)}})
            else:
                keys.append({"req": False, "lit": False, "ks": schema_term(k)})
            vals.append(schema_term(val))
        return {"k": "dict", "keys": keys, "vals": vals}
    if isinstance(s, type):
        if s not in _TYPES:
            raise UnreadableSchema("type %r" % (s,))
        return {"k": "type", "ty": _TYPES[s]}
    if s is None or isinstance(s, (str, int, float, bool)):
        return {"k": "lit", "v": to_tag(s)}
    if callable(s):
        name = getattr(s, "__qualname__", getattr(s, "__name__", repr(s)))
        return _fn_term(name)
    raise UnreadableSchema(repr(s))


def _fn_term(name):
    """Named validator functions: the spec transcribes the function; the data it closes over comes from armi's modules."""
    if name == "xsSettingsValidator":
        from armi.physics.neutronics import crossSectionSettings as xs

        sig = inspect.signature(xs.XSModelingOptions.__init__)
        dk, dv = [], []
        for p in sig.parameters.values():
            if p.default is not inspect.Parameter.empty and p.default is not None:
                dk.append(to_tag(p.name))
                dv.append(to_tag(p.default))
        return {"k": "fn", "name": name, "inner": schema_term(xs._XS_SCHEMA), "ctor": [dk, dv]}
    if name == "tightCouplingSettingsValidator":
        from armi.settings.fwSettings import tightCouplingSettings as tc

        return {"k": "fn", "name": name, "inner": schema_term(tc._SCHEMA), "ctor": [[], []]}
    if name in ("_isMonotonicIncreasing", "_mutuallyExclusiveCyclesInputs", "FlagListSetting.schema"):
        return {"k": "fn", "name": name, "inner": {"k": "none"}, "ctor": [[], []]}
    raise UnreadableSchema("function %s" % name)


# ------------------------------------------------------------------------------------------------------------
# plugins that contribute settings of the kinds no built-in plugin defines
# ------------------------------------------------------------------------------------------------------------
# Three plugins, all through the public hook ``defineSettings``:
#   VerifDefines    defines settings (flag list; active/expired/future old names; enforced options; float-list default; a count)
#   VerifModifies   contributes an Option and two Defaults for settings VerifDefines defines -- the *order* in which the two
#                   plugins are registered decides whether App.getSettings sees the modifiers before the setting (its cache
#                   branch) or after it (its direct branch); both orders are exercised (set_plugin_order)
#   VerifLate       defines one renamed setting and is registered only in the middle of a behaviour (action Register of
#                   SettingsCase): settings texts are read before and after it arrives
PLUGIN_SETTINGS = ("verifFlags", "verifRenamed", "verifRetired", "verifChoice", "verifMixed", "verifCount", "verifKernel",
                   "verifKernel1", "verifLate")
RENAMED_WITH_REUSED_OLD, REUSED_NAME = "verifRenamed", "verifRetired"   # a current setting bears a name another one used to have
LATE_SETTING, LATE_OLD = "verifLate", "verifLateOld"
ORDERS = ("define-then-modify", "modify-then-define")
_plugins = {}
_order = None


def _plugin_classes():
    if _plugins:
        return _plugins
    armi_ready()
    from armi import plugins
    from armi.settings import setting

    class VerifDefines(plugins.ArmiPlugin):
        @staticmethod
        @plugins.HOOKIMPL
        def defineSettings():
            return [
                setting.FlagListSetting("verifFlags", default=[], description="C17: a flag-list setting",
                                        oldNames=[("verifOldFlags", None)]),
                setting.Setting("verifRenamed", default=1, description="C17: active, expired and future-expiry old names",
                                oldNames=[("verifOldActive", None), ("verifOldExpired", datetime.date(2000, 1, 1)),
                                          # an undated name listed straight after an expired one: expiry is per old name, not carried over
                                          ("verifOldAfterExpired", None),
                                          ("verifOldFuture", datetime.date(2999, 12, 31)), ("verifRetired", None)]),
                setting.Setting("verifRetired", default=0, description="C17: a new setting that re-uses a name verifRenamed used to have"),
                # enforced options with an EMPTY list: every option comes from another plugin (the shape of neutronicsKernel)
                setting.Setting("verifKernel", default="", description="C17: enforced options, all contributed by plugins",
                                options=[], enforcedOptions=True),
                setting.Setting("verifKernel1", default="", description="C17: enforced options, a single contributed one",
                                options=[], enforcedOptions=True),
                setting.Setting("verifChoice", default="x", description="C17: enforced options extended by Option/Default",
                                options=["x", "y"], enforcedOptions=True),
                setting.Setting("verifMixed", default=[1.5, 2.5], description="C17: non-empty list default (contained type float)"),
                setting.Setting("verifCount", default=3, description="C17: a count whose default another plugin changes"),
            ]

    class VerifModifies(plugins.ArmiPlugin):
        @staticmethod
        @plugins.HOOKIMPL
        def defineSettings():
            return [setting.Option("z", "verifChoice"), setting.Default("y", "verifChoice"), setting.Default(7, "verifCount"),
                    setting.Option("k1", "verifKernel"), setting.Option("k2", "verifKernel"), setting.Default("k1", "verifKernel"),
                    setting.Option("only", "verifKernel1"), setting.Default("only", "verifKernel1")]

    class VerifLate(plugins.ArmiPlugin):
        @staticmethod
        @plugins.HOOKIMPL
        def defineSettings():
            return [setting.Setting(LATE_SETTING, default=1, description="C17: a renamed setting of a plugin that arrives late",
                                    oldNames=[(LATE_OLD, None)])]

    _plugins.update(defines=VerifDefines, modifies=VerifModifies, late=VerifLate)
    return _plugins


def set_plugin_order(order):
    """(Re-)register the defining and the modifying plugin in the given order of registration."""
    global _order
    if order == _order:
        return
    armi_ready()
    from armi import getApp

    pm = getApp().pluginManager
    pl = _plugin_classes()
    for k in ("defines", "modifies"):
        if pm.is_registered(pl[k]):
            pm.unregister(pl[k])
    for k in (("defines", "modifies") if order == ORDERS[0] else ("modifies", "defines")):
        pm.register(pl[k])
    _order = order


def ensure_plugin():
    if _order is None:
        set_plugin_order(ORDERS[0])


def late_registered():
    armi_ready()
    from armi import getApp

    return getApp().pluginManager.is_registered(_plugin_classes()["late"])


def register_late(on=True):
    armi_ready()
    from armi import getApp

    pm = getApp().pluginManager
    late = _plugin_classes()["late"]
    if on and not pm.is_registered(late):
        pm.register(late)
    elif not on and pm.is_registered(late):
        pm.unregister(late)


# ------------------------------------------------------------------------------------------------------------
# the catalog
# ------------------------------------------------------------------------------------------------------------
def _default_data(s):
    """the default as data: settings objects (XSSettings, TightCouplingSettings) are dicts"""
    return plain(s.default)


def _tag_plain(p):
    if isinstance(p, tuple) and p and p[0] == "flag":
        return {"t": "flag", "v": p[1]}
    if isinstance(p, list):
        return {"t": "list", "v": [_tag_plain(x) for x in p]}
    if isinstance(p, dict):
        return {"t": "dict", "v": [[_tag_plain(k) for k in p], [_tag_plain(x) for x in p.values()]]}
    return to_tag(p)


def _walk_terms(t):
    yield t
    for key in ("of", "vals"):
        for x in t.get(key, ()):
            yield from _walk_terms(x)
    for k in t.get("keys", ()):
        yield from _walk_terms(k["ks"])
    if isinstance(t.get("inner"), dict):
        yield from _walk_terms(t["inner"])


def _extras(entry, s):
    """Candidate inputs derived from the declaration (no expectations): Range bounds and their neighbours, the options and
    near-misses of them, the default and (for strings) a changed-case copy."""
    out = []

    def add(v):
        try:
            t = to_tag(v)
        except Unrepresentable:
            return
        if t not in out:
            out.append(t)

    terms = list(_walk_terms(entry["custom"])) if entry["hasCustom"] else []
    top_numeric = entry["default"]["t"] in ("int", "float", "ofloat", "none")
    for t in terms:
        if t["k"] == "range" and top_numeric and not (entry["hasCustom"] and entry["custom"]["k"] == "list"):
            for side in ("min", "max"):
                if t["has" + side.capitalize()]:
                    b = from_tag(t[side])
                    for d in (-1, 0, 1):
                        add(b + d)
                        if isinstance(b, int):
                            add(float(b + d))
                    add(b + 0.5)
                    add(b - 0.5)
        if t["k"] == "in":
            for o in t["opts"]:
                o = from_tag(o)
                add(o)
                if isinstance(o, str):
                    add(o + "_x")
                    if o.swapcase() != o:
                        add(o.swapcase())
    for o in s.options or []:
        add(o)
        if isinstance(o, str):
            add(o + "_x")
    return out


def raw_declarations():
    """What the framework and every plugin *declare*, before App.getSettings merges it: -> (settings by name, modifiers by
    name in arrival order).  Gathered the way App.getSettings gathers (framework list, then the hook results); the late
    plugin's declarations are taken from its hook function directly while it is not registered."""
    armi_ready()
    ensure_plugin()
    from armi import getApp
    from armi.settings import Setting, fwSettings, setting

    items = list(fwSettings.getFrameworkSettings())
    for lst in getApp().pluginManager.hook.defineSettings():
        items += list(lst)
    if not late_registered():
        items += list(_plugin_classes()["late"].defineSettings())
    decl, mods = {}, {}
    for it in items:
        if isinstance(it, Setting):
            decl[it.name] = it
        elif isinstance(it, setting.Option):
            mods.setdefault(it.settingName, []).append({"kind": "option", "v": to_tag(it.option)})
        elif isinstance(it, setting.Default):
            mods.setdefault(it.settingName, []).append({"kind": "default", "v": to_tag(it.value)})
    return decl, mods


def catalog():
    """-> (entries, skipped): one JSON-able record per real setting *as declared* plus the Option/Default modifiers other
    plugins contribute (SettingSchema!EffDecl merges them); ``skipped`` lists settings whose declaration cannot be
    expressed (reported in evidence, never a verdict)."""
    decl, mods = raw_declarations()
    entries, skipped = [], []
    for name, s in sorted(decl.items(), key=lambda kv: kv[0].lower()):
        try:
            custom = s._customSchema
            e = {
                "name": name,
                "cls": type(s).__name__,
                "default": _tag_plain(_default_data(s)),
                "options": [to_tag(o) for o in (s.options or [])],
                "enforced": bool(s.enforcedOptions),
                "hasCustom": bool(custom),
                "custom": schema_term(custom) if custom else {"k": "none"},
                "old": [{"n": o, "hasExp": exp is not None, "exp": (exp.year * 10000 + exp.month * 100 + exp.day) if exp else 0}
                        for o, exp in s.oldNames],
                "mods": mods.get(name, []),
            }
            e["extra"] = _extras(e, s)
            for m in e["mods"]:
                v = from_tag(m["v"])
                for x in ([v, v + "_x"] if isinstance(v, str) else [v]):
                    if to_tag(x) not in e["extra"]:
                        e["extra"].append(to_tag(x))
        except (UnreadableSchema, Unrepresentable) as ex:
            skipped.append({"name": name, "why": "%s: %s" % (type(ex).__name__, ex)})
            continue
        entries.append(e)
    return entries, skipped


def today_int():
    d = datetime.date.today()
    return d.year * 10000 + d.month * 100 + d.day
