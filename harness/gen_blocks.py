"""Programmatic builders of components / blocks / assemblies / a small third-core with *chosen* cross-sections and
compositions.  Nothing here is an oracle: the builders only construct armi objects whose hot cross-section equals a
requested number (the one free length scale of each shape is calibrated against the component's own getArea()) and
whose composition is the requested {nuclide: number density} dictionary.

    comp = make_component("Circle", "c1", area=2.0, material="Custom", mult=7)
    world = build_tree(tree, family)      # tree = the JSON the Inventory spec prints (parent/area/height/sym/...)
    world.node[i]                         # real object for model node i (leaves, blocks, assemblies, core)
    set_composition(world, N, H)          # N[l] = {name: float}, H[l] = names held (keys of p.numberDensities)

Shape families (how the model's leaves are realised):
    circle   every leaf a solid Circle, Custom material, 25 C
    mixed    shapes cycle through every 2-D shape class, multiplicities 1/7, Custom material
    derived  first leaf of a block = Hexagon ring that defines the pitch, last leaf = DerivedShape (left-over area);
             every other block hot (HT9 ring / UZr pins / Sodium left-over at 450 C)
    hot      real materials (HT9 / UZr / Sodium) at 450 C from 25 C input: hot and cold dimensions differ
"""
import math

from harness.armi_env import armi_ready
from harness.tlc import MachineryError

# shape name -> (class name, kwargs as a function of the free length scale s)
SHAPES = {
    "Circle": ("Circle", lambda s: dict(od=s, id=0.0)),
    "Annulus": ("Circle", lambda s: dict(od=s, id=0.55 * s)),
    "Hexagon": ("Hexagon", lambda s: dict(op=s, ip=0.0)),
    "HexRing": ("Hexagon", lambda s: dict(op=s, ip=0.8 * s)),
    "Rectangle": ("Rectangle", lambda s: dict(lengthOuter=s, widthOuter=0.7 * s, lengthInner=0.3 * s, widthInner=0.2 * s)),
    "SolidRectangle": ("SolidRectangle", lambda s: dict(lengthOuter=s, widthOuter=0.6 * s)),
    "Square": ("Square", lambda s: dict(widthOuter=s, widthInner=0.4 * s)),
    "Triangle": ("Triangle", lambda s: dict(base=s, height=0.8 * s)),
    "HoledHexagon": ("HoledHexagon", lambda s: dict(op=s, holeOD=0.2 * s, nHoles=3)),
    "Helix": ("Helix", lambda s: dict(od=s, id=0.0, axialPitch=6.0 * s, helixDiameter=2.0 * s)),
}
MIXED = ["Hexagon", "Annulus", "Rectangle", "Triangle", "Square", "Helix", "SolidRectangle", "HoledHexagon", "Circle", "HexRing"]
FAMILIES = ("circle", "mixed", "derived", "hot")
# "gap": a block whose second component is a Void gap with NEGATIVE hot area (hot UZr slug overlapping the HT9 clad's inner
# diameter through linked dimensions; cold geometry legal) -- only for trees whose second area is negative


class World:
    pass


def _cls(name):
    from armi.reactor import components

    return getattr(components, name)


def make_component(shape, name, area, material="Custom", mult=1, tin=25.0, thot=25.0):
    """A component of the given shape whose hot area (getArea()) is `area`; the free scale is calibrated."""
    armi_ready()
    clsname, kw = SHAPES[shape]
    cls = _cls(clsname)
    s = 1.0
    c = None
    for _ in range(3):
        c = cls(name, material, Tinput=tin, Thot=thot, mult=mult, **kw(s))
        a = c.getArea()
        if not a > 0:
            raise MachineryError("cannot calibrate %s: area %r" % (shape, a))
        if abs(a - area) <= 1e-13 * area:
            break
        s *= math.sqrt(area / a)
    if abs(c.getArea() - area) > 1e-12 * area:
        raise MachineryError("calibration of %s to area %r failed: %r" % (shape, area, c.getArea()))
    return c


def make_unshaped(name, area, material="Custom", tin=25.0, thot=25.0):
    return _cls("UnshapedComponent")(name, material, Tinput=tin, Thot=thot, area=area)


def _materials(family, i, salt=0, last=False):
    if family == "hot":
        return (["HT9", "UZr", "HT9"][(i + salt) % 3], 25.0, 450.0)
    if family == "derived" and salt % 2 == 1:
        # every other block of the derived family is hot: steel ring, fuel pins, sodium as the left-over shape
        return ("Sodium" if last else ["HT9", "UZr"][i % 2], 25.0, 450.0)
    return ("Custom", 25.0, 25.0)


def make_block(name, areas, height, family="circle", salt=0, cartesian=False):
    """HexBlock (or CartesianBlock) whose components have the given hot areas (in the given order)."""
    armi_ready()
    from armi.reactor import blocks

    b = (blocks.CartesianBlock if cartesian else blocks.HexBlock)(name, height=float(height))
    if family == "gap":
        for c in _gap_components(name, areas):
            b.add(c)
        return b
    comps = []
    n = len(areas)
    total = float(sum(areas))
    for i, a in enumerate(areas):
        cname = "%s-c%d" % (name, i)
        mat, tin, thot = _materials(family, i, salt, last=(n >= 2 and i == n - 1))
        if family == "circle":
            c = make_component("Circle", cname, float(a), mat, 1, tin, thot)
        elif family == "hot":
            c = make_component(["Circle", "Hexagon", "Annulus"][(i + salt) % 3], cname, float(a), mat, [1, 1, 7][(i + salt) % 3], tin, thot)
        elif family == "mixed":
            k = (i + 3 * salt) % len(MIXED)
            if (i + salt) % 4 == 3:
                c = make_unshaped(cname, float(a), mat, tin, thot)
            else:
                c = make_component(MIXED[k], cname, float(a), mat, [1, 7, 3][k % 3], tin, thot)
        elif family == "derived":
            if n >= 2 and i == 0:
                # ring whose outer flat-to-flat gives the block the total area; its own area is a
                solid = make_component("Hexagon", cname + "x", total, mat, 1, tin, thot)
                op = solid.getDimension("op", cold=True)
                ip = op * math.sqrt(1.0 - float(a) / total)
                c = _cls("Hexagon")(cname, mat, Tinput=tin, Thot=thot, op=op, ip=ip, mult=1)
            elif n >= 2 and i == n - 1:
                c = _cls("DerivedShape")(cname, mat, Tinput=tin, Thot=thot)
            else:
                c = make_component("Circle", cname, float(a), mat, 7 if i % 2 else 1, tin, thot)
        else:
            raise MachineryError("unknown family " + family)
        comps.append(c)
    for c in comps:
        b.add(c)
    return b


def _gap_components(name, areas):
    """fuel slug (UZr, 800 C), Void gap linked to clad.id / fuel.od with hot area areas[1] < 0, clad (HT9, 400 C), the rest Custom circles"""
    if len(areas) < 3 or not areas[1] < 0:
        raise MachineryError("the gap family needs areas = [fuel, negative gap, clad, ...]")
    names = ["%s-c%d" % (name, i) for i in range(len(areas))]
    fuel = make_component("Circle", names[0], float(areas[0]), "UZr", 1, 25.0, 800.0)
    fod = fuel.getDimension("od")  # hot
    k = _cls("Circle")("t", "HT9", Tinput=25.0, Thot=400.0, od=1.0, id=0.0, mult=1).getDimension("od")  # hot / cold length of the clad
    idh = math.sqrt(fod ** 2 + 4.0 * float(areas[1]) / math.pi)
    odh = math.sqrt(idh ** 2 + 4.0 * float(areas[2]) / math.pi)
    clad = _cls("Circle")(names[2], "HT9", Tinput=25.0, Thot=400.0, od=odh / k, id=idh / k, mult=1)
    gap = _cls("Circle")(names[1], "Void", Tinput=400.0, Thot=400.0, od="%s.id" % names[2], id="%s.od" % names[0], mult=1,
                         components={names[2]: clad, names[0]: fuel})
    rest = [make_component("Circle", names[i], float(areas[i]), "Custom", 1, 25.0, 25.0) for i in range(3, len(areas))]
    comps = [fuel, gap, clad] + rest
    for c, a in zip(comps, areas):
        if abs(c.getArea() - a) > 1e-10 * abs(a):
            raise MachineryError("gap family: component %s has area %r, wanted %r" % (c, c.getArea(), a))
    if not gap.getArea(cold=True) > 0:
        raise MachineryError("gap family: the cold gap must be open (legal as-built geometry), got %r" % gap.getArea(cold=True))
    return comps


def build_tree(tree, family="circle"):
    """Real objects for the tree the Inventory spec prints.  Node numbering as in the spec: leaves, blocks, assemblies,
    core.  Assemblies are placed in a third-core periodic hex grid according to the symmetry factor of their blocks:
    3 -> centre, 2 -> the two edge positions (2,-1) / (-1,2) (both occupied, so edge assemblies count half), 1 -> interior."""
    armi_ready()
    from armi.reactor import assemblies, blueprints, geometry, grids, reactors

    nl, nb, na = tree["nleaf"], tree["nblk"], tree["nasm"]
    parent = tree["parent"]
    core_id = nl + nb + na + 1
    kids = {x: [c for c in range(1, core_id) if parent[c - 1] == x] for x in range(1, core_id + 1)}
    w = World()
    w.tree, w.family, w.node, w.kids, w.core_id = tree, family, {}, kids, core_id
    w.leaves = list(range(1, nl + 1))
    w.blocks = list(range(nl + 1, nl + nb + 1))
    w.asms = list(range(nl + nb + 1, nl + nb + na + 1))

    # a symmetry factor of 4 exists only in a quarter-core Cartesian model whose symmetry lines run through the centre assembly
    cart = 4 in tree["sym"].values()
    w.cartesian = cart
    r = reactors.Reactor("c02", blueprints.Blueprints())
    core = reactors.Core("Core")
    r.add(core)
    if cart:
        core.spatialGrid = grids.CartesianGrid.fromRectangle(16.0, 16.0)
        core.spatialGrid.geomType = geometry.GeomType.CARTESIAN
        core.spatialGrid.symmetry = geometry.SymmetryType(geometry.DomainType.QUARTER_CORE, geometry.BoundaryType.REFLECTIVE,
                                                          throughCenterAssembly=True)
    else:
        core.spatialGrid = grids.HexGrid.fromPitch(16.0)
        core.spatialGrid.geomType = geometry.GeomType.HEX
        core.spatialGrid.symmetry = str(geometry.SymmetryType(geometry.DomainType.THIRD_CORE, geometry.BoundaryType.PERIODIC))
    core.spatialGrid.armiObject = core
    lfps = None
    if tree.get("withLump"):
        # a small real LFP collection: LFP35 -> constituents with the model's yields (c = NA23 is tracked explicitly as well)
        from armi.nucDirectory import nuclideBases
        from armi.physics.neutronics.fissionProductModel import lumpedFissionProduct as lfpMod

        lfps = lfpMod.LumpedFissionProductCollection()
        lump = lfpMod.LumpedFissionProduct("LFP35")
        for key, name in (("c", "NA23"), ("x", "XE135")):
            num, den = tree["yield"][key]
            lump[nuclideBases.byName[name]] = num / den
        lfps["LFP35"] = lump
    w.r, w.core = r, core
    w.node[core_id] = core

    interior = [(1, 1), (2, 1), (1, 2)] if cart else [(1, 0), (2, 0), (3, -1), (3, 0)]
    edges = [(1, 0), (0, 1)] if cart else [(2, -1), (-1, 2)]
    for ai, a_id in enumerate(w.asms):
        blks = sorted(kids[a_id])
        a = (assemblies.CartesianAssembly if cart else assemblies.HexAssembly)("fuel", assemNum=ai + 1)
        a.spatialGrid = grids.AxialGrid.fromNCells(len(blks))
        a.spatialGrid.armiObject = a
        for b_id in blks:
            leaves = sorted(kids[b_id])
            b = make_block("b%d" % b_id, [tree["area"][l - 1] for l in leaves], tree["height"][str(b_id)], family, salt=b_id, cartesian=cart)
            if lfps is not None:
                b.setLumpedFissionProducts(lfps)
            a.add(b)
            w.node[b_id] = b
            for l, c in zip(leaves, b):
                w.node[l] = c
                # which nuclide adjustMassEnrichment enriches is a datum of the material: U235 for every component built here
                c.material.enrichedNuclide = "U235"
        a.calculateZCoords()
        sym = tree["sym"][str(blks[0])]
        if sym in (3, 4):
            ij = (0, 0)
        elif sym == 2:
            if not edges:
                raise MachineryError("at most two assemblies with symmetry factor 2")
            ij = edges.pop(0)
        else:
            ij = interior.pop(0)
        core.add(a, core.spatialGrid[ij[0], ij[1], 0])
        w.node[a_id] = a
    return w


def set_composition(w, N, H):
    """N[l-1] = {name: float}, H[l-1] = iterable of names that are keys of the component's numberDensities."""
    for l in w.leaves:
        c = w.node[l]
        c.p.numberDensities = {n: float(N[l - 1][n]) for n in H[l - 1]}


def build_placement(full_area=6.0, heights=(1, 2, 3), dens=(1, 2, 3), nuclide="U235"):
    """Third-core (periodic) hex core with a spent fuel pool and three one-block assemblies of the same cross-section (two Custom
    circles), heights / densities as given: assembly 1 at the centre, 2 on the 0-degree symmetry line (2,-1), 3 at the interior
    position (1,0).  Returns a World with .r .core .sfp .A {1,2,3: assembly} .changer (EdgeAssemblyChanger) .fh (FuelHandler)
    .loc {"centre","line0","int1","int2","line120": (i, j)}."""
    armi_ready()
    from armi.physics.fuelCycle.fuelHandlers import FuelHandler
    from armi.reactor import assemblies, blocks, blueprints, geometry, grids, reactors
    from armi.reactor.converters.geometryConverters import EdgeAssemblyChanger
    from armi.reactor.spentFuelPool import SpentFuelPool

    w = World()
    r = reactors.Reactor("c02p", blueprints.Blueprints())
    core = reactors.Core("Core")
    r.add(core)
    core.spatialGrid = grids.HexGrid.fromPitch(16.0)
    core.spatialGrid.geomType = geometry.GeomType.HEX
    core.spatialGrid.symmetry = str(geometry.SymmetryType(geometry.DomainType.THIRD_CORE, geometry.BoundaryType.PERIODIC))
    core.spatialGrid.armiObject = core
    core._trackAssems = True
    core.stationaryBlockFlagsList = []
    sfp = SpentFuelPool("Spent Fuel Pool")
    sfp.spatialGrid = grids.CartesianGrid.fromRectangle(50.0, 50.0)
    sfp.spatialGrid.armiObject = sfp
    for j in range(3):
        for i in range(3):
            sfp.spatialGrid[i, j, 0]
    r.add(sfp)
    r.p.maxAssemNum = 0
    w.r, w.core, w.sfp = r, core, sfp
    w.loc = {"centre": (0, 0), "line0": (2, -1), "int1": (1, 0), "int2": (2, 0), "line120": (-1, 2)}
    w.A = {}
    for k, (h, d, where) in enumerate(zip(heights, dens, ("centre", "line0", "int1")), start=1):
        a = assemblies.HexAssembly("fuel", assemNum=r.incrementAssemNum())
        a.spatialGrid = grids.AxialGrid.fromNCells(1)
        a.spatialGrid.armiObject = a
        b = blocks.HexBlock("pb%d" % k, height=float(h))
        for i, frac in enumerate((1.0 / 3.0, 2.0 / 3.0)):
            c = make_component("Circle", "pb%d-c%d" % (k, i), full_area * frac, "Custom", 1)
            c.p.numberDensities = {nuclide: float(d)}
            b.add(c)
        a.add(b)
        a.calculateZCoords()
        core.add(a, core.spatialGrid[w.loc[where][0], w.loc[where][1], 0])
        w.A[k] = a
    w.changer = EdgeAssemblyChanger()

    class _Op:
        pass

    op = _Op()
    op.r, op.cs = r, None
    w.fh = FuelHandler(op)
    return w
