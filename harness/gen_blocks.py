"""Programmatic builders of components / blocks / assemblies / a small third-core with *chosen* cross-sections and
compositions.  Nothing here is an oracle: the builders only construct armi objects whose hot cross-section equals a
requested number (the one free length scale of each shape is calibrated against the component's own getArea()) and
whose composition is the requested {nuclide: number density} dictionary.

    comp = make_component("Circle", "c1", area=2.0, material="Custom", mult=7)
    world = build_tree(tree, family)      # tree = the JSON the Inventory spec prints (parent/area/height/sym/...)
    world.node[i]                         # real object for model node i (leaves, blocks, assemblies, core)
    set_composition(world, N, H)          # N[l] = {name: float}, H[l] = names held (keys of p.numberDensities)

Shape families (how the model's leaves are realised):
    circle   every leaf a solid Circle, Custom material, 25 C
    mixed    shapes cycle through every 2-D shape class, multiplicities 1/7, Custom material
    derived  first leaf of a block = Hexagon ring that defines the pitch, last leaf = DerivedShape (left-over area);
             every other block hot (HT9 ring / UZr pins / Sodium left-over at 450 C)
    hot      real materials (HT9 / UZr / Sodium) at 450 C from 25 C input: hot and cold dimensions differ
"""
import math

from harness.armi_env import armi_ready
from harness.tlc import MachineryError

# shape name -> (class name, kwargs as a function of the free length scale s)
SHAPES = {
    "Circle": ("Circle", lambda s: dict(od=s, id=0.0)),
    "Annulus": ("Circle", lambda s: dict(od=s, id=0.55 * s)),
    "Hexagon": ("Hexagon", lambda s: dict(op=s, ip=0.0)),
    "HexRing": ("Hexagon", lambda s: dict(op=s, ip=0.8 * s)),
    "Rectangle": ("Rectangle", lambda s: dict(lengthOuter=s, widthOuter=0.7 * s, lengthInner=0.3 * s, widthInner=0.2 * s)),
    "SolidRectangle": ("SolidRectangle", lambda s: dict(lengthOuter=s, widthOuter=0.6 * s)),
    "Square": ("Square", lambda s: dict(widthOuter=s, widthInner=0.4 * s)),
    "Triangle": ("Triangle", lambda s: dict(base=s, height=0.8 * s)),
    "HoledHexagon": ("HoledHexagon", lambda s: dict(op=s, holeOD=0.2 * s, nHoles=3)),
    "Helix": ("Helix", lambda s: dict(od=s, id=0.0, axialPitch=6.0 * s, helixDiameter=2.0 * s)),
}
MIXED = ["Hexagon", "Annulus", "Rectangle", "Triangle", "Square", "Helix", "SolidRectangle", "HoledHexagon", "Circle", "HexRing"]
FAMILIES = ("circle", "mixed", "derived", "hot")


class World:
    pass


def _cls(name):
    from armi.reactor import components

    return getattr(components, name)


def make_component(shape, name, area, material="Custom", mult=1, tin=25.0, thot=25.0):
    """A component of the given shape whose hot area (getArea()) is `area`; the free scale is calibrated."""
    armi_ready()
    clsname, kw = SHAPES[shape]
    cls = _cls(clsname)
    s = 1.0
    c = None
    for _ in range(3):
        c = cls(name, material, Tinput=tin, Thot=thot, mult=mult, **kw(s))
        a = c.getArea()
        if not a > 0:
            raise MachineryError("cannot calibrate %s: area %r" % (shape, a))
        if abs(a - area) <= 1e-13 * area:
            break
        s *= math.sqrt(area / a)
    if abs(c.getArea() - area) > 1e-12 * area:
        raise MachineryError("calibration of %s to area %r failed: %r" % (shape, area, c.getArea()))
    return c


def make_unshaped(name, area, material="Custom", tin=25.0, thot=25.0):
    return _cls("UnshapedComponent")(name, material, Tinput=tin, Thot=thot, area=area)


def _materials(family, i, salt=0, last=False):
    if family == "hot":
        return (["HT9", "UZr", "HT9"][(i + salt) % 3], 25.0, 450.0)
    if family == "derived" and salt % 2 == 1:
        # every other block of the derived family is hot: steel ring, fuel pins, sodium as the left-over shape
        return ("Sodium" if last else ["HT9", "UZr"][i % 2], 25.0, 450.0)
    return ("Custom", 25.0, 25.0)


def make_block(name, areas, height, family="circle", salt=0):
    """HexBlock whose components have the given hot areas (in the given order)."""
    armi_ready()
    from armi.reactor import blocks

    b = blocks.HexBlock(name, height=float(height))
    comps = []
    n = len(areas)
    total = float(sum(areas))
    for i, a in enumerate(areas):
        cname = "%s-c%d" % (name, i)
        mat, tin, thot = _materials(family, i, salt, last=(n >= 2 and i == n - 1))
        if family == "circle":
            c = make_component("Circle", cname, float(a), mat, 1, tin, thot)
        elif family == "hot":
            c = make_component(["Circle", "Hexagon", "Annulus"][(i + salt) % 3], cname, float(a), mat, [1, 1, 7][(i + salt) % 3], tin, thot)
        elif family == "mixed":
            k = (i + 3 * salt) % len(MIXED)
            if (i + salt) % 4 == 3:
                c = make_unshaped(cname, float(a), mat, tin, thot)
            else:
                c = make_component(MIXED[k], cname, float(a), mat, [1, 7, 3][k % 3], tin, thot)
        elif family == "derived":
            if n >= 2 and i == 0:
                # ring whose outer flat-to-flat gives the block the total area; its own area is a
                solid = make_component("Hexagon", cname + "x", total, mat, 1, tin, thot)
                op = solid.getDimension("op", cold=True)
                ip = op * math.sqrt(1.0 - float(a) / total)
                c = _cls("Hexagon")(cname, mat, Tinput=tin, Thot=thot, op=op, ip=ip, mult=1)
            elif n >= 2 and i == n - 1:
                c = _cls("DerivedShape")(cname, mat, Tinput=tin, Thot=thot)
            else:
                c = make_component("Circle", cname, float(a), mat, 7 if i % 2 else 1, tin, thot)
        else:
            raise MachineryError("unknown family " + family)
        comps.append(c)
    for c in comps:
        b.add(c)
    return b


def build_tree(tree, family="circle"):
    """Real objects for the tree the Inventory spec prints.  Node numbering as in the spec: leaves, blocks, assemblies,
    core.  Assemblies are placed in a third-core periodic hex grid according to the symmetry factor of their blocks:
    3 -> centre, 2 -> the two edge positions (2,-1) / (-1,2) (both occupied, so edge assemblies count half), 1 -> interior."""
    armi_ready()
    from armi.reactor import assemblies, blueprints, geometry, grids, reactors

    nl, nb, na = tree["nleaf"], tree["nblk"], tree["nasm"]
    parent = tree["parent"]
    core_id = nl + nb + na + 1
    kids = {x: [c for c in range(1, core_id) if parent[c - 1] == x] for x in range(1, core_id + 1)}
    w = World()
    w.tree, w.family, w.node, w.kids, w.core_id = tree, family, {}, kids, core_id
    w.leaves = list(range(1, nl + 1))
    w.blocks = list(range(nl + 1, nl + nb + 1))
    w.asms = list(range(nl + nb + 1, nl + nb + na + 1))

    r = reactors.Reactor("c02", blueprints.Blueprints())
    core = reactors.Core("Core")
    r.add(core)
    core.spatialGrid = grids.HexGrid.fromPitch(16.0)
    core.spatialGrid.geomType = geometry.GeomType.HEX
    core.spatialGrid.symmetry = str(geometry.SymmetryType(geometry.DomainType.THIRD_CORE, geometry.BoundaryType.PERIODIC))
    core.spatialGrid.armiObject = core
    w.r, w.core = r, core
    w.node[core_id] = core

    interior = [(1, 0), (2, 0), (3, -1), (3, 0)]
    edges = [(2, -1), (-1, 2)]
    for ai, a_id in enumerate(w.asms):
        blks = sorted(kids[a_id])
        a = assemblies.HexAssembly("fuel", assemNum=ai + 1)
        a.spatialGrid = grids.AxialGrid.fromNCells(len(blks))
        a.spatialGrid.armiObject = a
        for b_id in blks:
            leaves = sorted(kids[b_id])
            b = make_block("b%d" % b_id, [tree["area"][l - 1] for l in leaves], tree["height"][str(b_id)], family, salt=b_id)
            a.add(b)
            w.node[b_id] = b
            for l, c in zip(leaves, b):
                w.node[l] = c
        a.calculateZCoords()
        sym = tree["sym"][str(blks[0])]
        if sym == 3:
            ij = (0, 0)
        elif sym == 2:
            if not edges:
                raise MachineryError("at most two assemblies with symmetry factor 2")
            ij = edges.pop(0)
        else:
            ij = interior.pop(0)
        core.add(a, core.spatialGrid[ij[0], ij[1], 0])
        w.node[a_id] = a
    return w


def set_composition(w, N, H):
    """N[l-1] = {name: float}, H[l-1] = iterable of names that are keys of the component's numberDensities."""
    for l in w.leaves:
        c = w.node[l]
        c.p.numberDensities = {n: float(N[l - 1][n]) for n in H[l - 1]}
