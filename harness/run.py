"""./check <id> quick|thorough | --replay <path> | selftest"""
import importlib
import json
import os
import sys
import time
import traceback

from harness import common, findings
from harness.report import Report
from harness.tlc import MachineryError


def main(argv):
    if len(argv) < 2:
        print("usage: check <id> quick|thorough|selftest | check <id> --replay <path>")
        return 2
    pid = argv[0]
    mode = argv[1]
    try:
        mod = importlib.import_module("props." + pid.lower())
    except ImportError:
        traceback.print_exc()
        return 2
    if mode == "--replay":
        with open(argv[2]) as f:
            payload = json.load(f)
        try:
            return mod.replay(payload)
        except MachineryError as ex:
            print("MACHINERY-ERROR", ex)
            return 2
    if mode == "selftest":
        try:
            return mod.selftest()
        except MachineryError as ex:
            print("MACHINERY-ERROR", ex)
            return 2
    tier = mode if mode in ("quick", "thorough") else os.environ.get("VERIF_TIER", "quick")
    seed = common.seed()
    rep = Report(pid, tier, seed)
    try:
        mod.run(rep, tier, seed)
    except MachineryError as ex:
        print("MACHINERY-ERROR property=%s %s" % (pid, ex))
        return 2
    except Exception:
        traceback.print_exc()
        print("MACHINERY-ERROR property=%s unexpected exception in harness" % pid)
        return 2
    known = findings.known_keys(pid)
    unlisted = 0
    hit = []
    for v in rep.violations:
        if v["key"] in known:
            hit.append(v["key"])
            print("KNOWN-FINDING: property=%s %s [%s]" % (pid, known[v["key"]].get("what", v["what"]), v["key"]))
            continue
        unlisted += 1
        fn = os.path.join(common.violdir(), "%s-%s-%d.json" % (pid, "".join(c if c.isalnum() else "_" for c in v["key"])[:80], unlisted))
        payload = dict(v["payload"])
        payload.update({"property": pid, "key": v["key"], "what": v["what"], "seed": seed, "tier": tier})
        with open(fn, "w") as f:
            json.dump(payload, f, indent=1, default=str)
        print("VIOLATION property=%s replay=%s" % (pid, fn))
        print("  what: %s" % v["what"][:600])
    rep.write(unlisted, hit)
    print("%s %s: states=%d transitions=%d replayed=%d traces=%d violations=%d known=%d wall=%.1fs" % (
        pid, tier, rep.states, rep.transitions, rep.replayed, rep.traces, unlisted, len(hit), time.time() - rep.t0))
    return 1 if unlisted else 0


if __name__ == "__main__":
    sys.exit(main(sys.argv[1:]))
