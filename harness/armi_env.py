"""Configure armi once per process (imports /repo's working tree through the editable install)."""
import os
import sys

_done = False


def armi_ready():
    global _done
    if _done:
        return
    os.environ.setdefault("ARMI_VERIF_TRACE", "1")
    import armi

    if not armi.isConfigured():
        armi.configure(permissive=True)
    from armi import runLog

    try:
        runLog.setVerbosity("error")
    except Exception:
        pass
    if not os.environ.get("VERIF_ARMI_LOG"):
        # armi's own error chatter (refusals are exercised on purpose) would drown the check's output
        import logging

        logging.disable(logging.CRITICAL)
    _done = True
