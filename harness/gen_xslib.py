"""C10 helpers: generated cross-section libraries (ISOTXS / GAMISO / PMATRX kinds) and their projection.

Nothing here decides what is *expected*.  The module
  * builds small IsotxsLibrary objects of one kind from a descriptor (kind, nuclide labels, group-structure ids, dose ids,
    file-metadata variant, file-wide chi) with values that are unique per (source, label, datum, group), writes them with
    armi's own writers and reads them back with armi's own readers, so the libraries under test are exactly what the
    readers produce;
  * fingerprints the as-read data of every (source, label, kind) and, given a library found later, *recognises* whose
    data it holds (identity of the arrays by value), which group structure / dose factors / velocity / file metadata it
    carries -- the ids it reports are compared with the ids TLC printed;
  * builds a neutron+production library from a micro table printed by the Macros specification and runs the real
    macroscopic-constant functions on compositions printed by it.
All values are small dyadic numbers: exact in IEEE single (the file formats store float32) and in double.
"""
import os

import numpy as np

from harness.armi_env import armi_ready
from harness.tlc import MachineryError

KINDS = ("n", "g", "p")
MDNAME = {"n": "isotxsMetadata", "g": "gamisoMetadata", "p": "pmatrxMetadata"}
# model label index -> (armi nuclide name, xs-id suffix).  Two suffixes of one nuclide, fissile and non-fissile nuclides.
# The id "NA" is a substring of the label NA23AA of the other id: a suffix test on the whole label confuses the two.
LABELS = {1: ("U235", "AA"), 2: ("U235", "NA"), 3: ("NA23", "AA"), 4: ("PU239", "NA"), 5: ("FE56", "AA"), 6: ("FE56", "AC"),
          7: ("DUMP1", "AA"), 8: ("DUMP1", "NA")}     # 7, 8: dummy nuclides (nuclideBases.DummyNuclideBase), directory merges only
IDS = ("AA", "NA", "AC")                              # cross-section ids, in the order of LibraryMerge's IdOf
FISSILE_NAMES = ("U235", "PU239")

# group-structure ids: 1 and 2 have the same number of groups and different energies, 3 has one more group
N_BOUNDS = {1: [16.0, 4.0], 2: [16.0, 2.0], 3: [16.0, 4.0, 1.0]}
G_BOUNDS = {1: [8.0, 2.0], 2: [8.0, 1.0], 3: [8.0, 2.0, 0.5]}
SCAT_FLAGS = [100, 200, 300, 0]  # block order: elastic, inelastic, n2n, total
SCAT_ATTR = ["elasticScatter", "inelasticScatter", "n2nScatter", "totalScatter"]
OPT_RX = ["nalph", "np", "n2n", "nd", "nt"]


def label_of(li):
    from armi.nucDirectory import nuclideBases

    name, suffix = LABELS[li]
    return nuclideBases.byName[name].label + suffix


def is_fissile(li):
    return LABELS[li][0] in FISSILE_NAMES


def n_dose(i, ngs):
    return [float(i) + 0.25 * (g + 1) for g in range(len(N_BOUNDS[ngs]))]


def g_dose(i, ggs):
    return [float(i) + 0.125 * (g + 1) for g in range(len(G_BOUNDS[ggs]))]


def velocity(sid, ngs):
    return [1024.0 * (4 - g) + sid for g in range(len(N_BOUNDS[ngs]))]


def val(sid, li, datum, g, extra=0):
    """A positive dyadic number < 2^13 / 8 that is different for every (source, label, datum, group, extra)."""
    return (1 + g + 4 * extra + 16 * datum + 512 * li + 4096 * sid) / 8.0


# ------------------------------------------------------------------------------------------------------------
# in-memory construction (the shape the writers expect)
# ------------------------------------------------------------------------------------------------------------
def _new_lib():
    armi_ready()
    from armi.nuclearDataIO import xsLibraries

    return xsLibraries.IsotxsLibrary()


def _new_nuc(lib, label):
    from armi.nuclearDataIO import xsNuclides

    nuc = xsNuclides.XSNuclide(lib, label)
    lib[label] = nuc
    return nuc


def iso_file_metadata(md, ng, meta, fw_chi, file_label, max_up=0):
    md["label"] = file_label
    md["fileId"] = 1
    md["numGroups"] = ng
    md["maxUpScatterGroups"] = max_up
    md["maxDownScatterGroups"] = ng - 1
    md["maxScatteringOrder"] = 1
    md["fileWideChiFlag"] = 1 if fw_chi is not None else 0
    md["maxScatteringBlocks"] = len(SCAT_FLAGS)
    md["subblockingControl"] = 1
    md["libraryLabel"] = "generated"
    # EMIN is part of the file metadata (the lower edge of the last group): variant 2 = another lower edge
    md["minimumNeutronEnergy"] = 0.5 if meta == 1 else 0.25
    if fw_chi is not None:
        md["chi"] = np.array(fw_chi, dtype=float)


def fill_iso_nuclide(nuc, kind, name, ng, spec):
    """spec: fis(bool), chi(list|None = use file-wide), rx{name: list}, opt{name: list|None}, total, transport (lists),
    scat{attr: dense ng x ng list | None}, efiss, ecapt"""
    from scipy import sparse

    md = getattr(nuc, MDNAME[kind])
    xs = nuc.micros if kind == "n" else nuc.gammaXS
    md["nuclideId"] = name
    md["libName"] = "GEN"
    md["isoIdent"] = name
    md["amass"] = float(spec.get("amass", 8.0))
    md["efiss"] = float(spec.get("efiss", 0.0))
    md["ecapt"] = float(spec.get("ecapt", 0.0))
    md["temp"] = 512.0
    md["sigPot"] = 2.0
    md["adens"] = 0.5
    md["classif"] = 0
    md["fisFlag"] = 1 if spec["fis"] else 0
    md["chiFlag"] = 1 if (spec["fis"] and spec.get("chi") is not None) else 0
    for r in OPT_RX:
        md[r] = 1 if spec["opt"].get(r) is not None else 0
    md["ltot"] = 1
    md["ltrn"] = 1
    md["strpd"] = 0
    md["scatFlag"] = np.array(SCAT_FLAGS)
    ords, jband, jj = [], {}, {}
    for n, attr in enumerate(SCAT_ATTR):
        m = spec["scat"].get(attr)
        ords.append(0 if m is None else 1)
        for g in range(ng):
            # row g = scattering INTO group g.  The band holds the in-group term and every sender between the first and the
            # last non-zero one: JBAND = its width, JJ = position of the in-group term counted from the highest sender index
            # (JJ > 1 <=> groups of lower energy scatter up into g)
            senders = [g] if m is None else [c for c in range(ng) if m[g][c] != 0 or c == g]
            jband[g, n] = max(senders) - min(senders) + 1
            jj[g, n] = max(senders) - g + 1
        if m is not None:
            setattr(xs, attr, sparse.csr_matrix(np.array(m, dtype=float)))
    md["ords"] = np.array(ords)
    md["jband"] = jband
    md["jj"] = jj
    xs.transport = np.array(spec["transport"], dtype=float).reshape(ng, 1)
    xs.total = np.array(spec["total"], dtype=float).reshape(ng, 1)
    xs.nGamma = np.array(spec["rx"]["nGamma"], dtype=float)
    if spec["fis"]:
        xs.fission = np.array(spec["rx"]["fission"], dtype=float)
        xs.neutronsPerFission = np.array(spec["rx"]["neutronsPerFission"], dtype=float)
        if spec.get("chi") is not None:
            xs.chi = np.array(spec["chi"], dtype=float)
    for r in OPT_RX:
        if spec["opt"].get(r) is not None:
            xs[r] = np.array(spec["opt"][r], dtype=float)


def hashed_iso_spec(sid, li, ng, kind, fw):
    """Which optional reactions / scatter blocks a generated nuclide carries is a function of (label, parity of the source):
    two sources of the same parity give a label entries of identical STRUCTURE (equal per-nuclide metadata) and different
    numbers -- the overlap is then caught by XSCollection.merge; sources of different parity differ in the metadata too."""
    h = (sid % 2) * 5 + li * 3 + (7 if kind == "g" else 0)
    fis = is_fissile(li) and kind == "n"
    spec = {"fis": fis, "rx": {}, "opt": {}, "scat": {}}
    spec["rx"]["nGamma"] = [val(sid, li, 1, g) for g in range(ng)]
    if fis:
        spec["rx"]["fission"] = [val(sid, li, 2, g) for g in range(ng)]
        spec["rx"]["neutronsPerFission"] = [2.0 + 0.25 * g for g in range(ng)]
        spec["chi"] = None if fw else [0.75, 0.25, 0.0][:ng] if ng == 3 else [0.75, 0.25]
    for k, r in enumerate(OPT_RX):
        spec["opt"][r] = [val(sid, li, 3 + k, g) for g in range(ng)] if (h >> k) & 1 else None
    spec["total"] = [val(sid, li, 9, g) for g in range(ng)]
    spec["transport"] = [val(sid, li, 10, g) for g in range(ng)]
    for k, attr in enumerate(SCAT_ATTR):
        if k > 0 and not ((h >> (k + 1)) & 1):
            spec["scat"][attr] = None  # elastic always present; inelastic / n2n / total optional
            continue
        bw = 1 + (h + k) % 3
        m = [[0.0] * ng for _ in range(ng)]
        for g in range(ng):
            for c in range(max(0, g - bw + 1), g + 1):
                if (g + c + h + k) % 4 != 3 or c == max(0, g - bw + 1):  # some zeros inside the band: sparse
                    m[g][c] = val(sid, li, 11 + k, g, c)
        spec["scat"][attr] = m
    spec["efiss"] = 0.5 + li if fis else 0.0
    spec["ecapt"] = 0.25 + li
    spec["amass"] = 8.0 * li
    return spec


def build_source(desc, sid):
    """desc: {"kind","labs":[label idx],"ngs","ggs","nd","gd","meta","fw"} -> in-memory library of that one kind."""
    lib = _new_lib()
    kind = desc["kind"]
    labs = list(desc["labs"])
    if kind in ("n", "g"):
        gs = desc["ngs"] if kind == "n" else desc["ggs"]
        bounds = N_BOUNDS[gs] if kind == "n" else G_BOUNDS[gs]
        ng = len(bounds)
        fw = [0.5, 0.5, 0.0][:ng] if (kind == "n" and desc.get("fw")) else None
        md = getattr(lib, MDNAME[kind])
        iso_file_metadata(md, ng, desc.get("meta", 1), fw, "ISOTXS" if kind == "n" else "GAMISO")
        if kind == "n":
            lib.neutronEnergyUpperBounds = np.array(bounds)
            lib.neutronVelocity = np.array(velocity(sid, gs))
        else:
            lib.gammaEnergyUpperBounds = np.array(bounds)
            md["gammaVelocity..NOT"] = [1.0] * ng
        for li in labs:
            nuc = _new_nuc(lib, label_of(li))
            fill_iso_nuclide(nuc, kind, LABELS[li][0], ng, hashed_iso_spec(sid, li, ng, kind, fw is not None))
    elif kind == "p":
        nn, ngam = len(N_BOUNDS[desc["ngs"]]), len(G_BOUNDS[desc["ggs"]])
        md = lib.pmatrxMetadata
        for k, v in (("numberCollapsingSpatialRegions", 0), ("numGammaGroups", ngam), ("numNeutronGroups", nn),
                     ("hasInPlateData", False), ("hasDoseConversionFactor", bool(desc.get("nd"))), ("maxScatteringOrder", 2),
                     ("maxNumberOfCompositions", 0), ("maxMaterials", 0), ("maxNumberOfRegions", 0),
                     ("maxNumberOfCollapsingRegions", 0), ("_dummy1", 0), ("_dummy2", 0)):
            md[k] = v
        md["minimumNeutronEnergy"] = 0.5 if desc.get("meta", 1) == 1 else 0.25
        md["minimumGammaEnergy"] = 0.125
        lib.neutronEnergyUpperBounds = np.array(N_BOUNDS[desc["ngs"]])
        lib.gammaEnergyUpperBounds = np.array(G_BOUNDS[desc["ggs"]])
        if desc.get("nd"):
            lib.neutronDoseConversionFactors = n_dose(desc["nd"], desc["ngs"])
            lib.gammaDoseConversionFactors = g_dose(desc["gd"], desc["ggs"])
        for li in labs:
            nuc = _new_nuc(lib, label_of(li))
            h = (sid % 2) * 5 + li * 3       # structure by (label, parity of the source), numbers by source: see hashed_iso_spec
            fill_pmatrx_nuclide(nuc, nn, ngam, {
                "nheat": [val(sid, li, 20, g) for g in range(nn)],           # every generated nuclide carries heating data
                "ndamage": [val(sid, li, 21, g) for g in range(nn)],
                "gheat": [val(sid, li, 22, g) for g in range(ngam)] if h & 1 else None,
                "prod": [[[val(sid, li, 23 + L, g, c) for c in range(nn)] for g in range(ngam)] for L in range((h >> 1) % 3)],
                "act": [[val(sid, li, 26 + a, g) for g in range(nn)] for a in range((h >> 2) % 2)],
            })
    else:
        raise MachineryError("unknown library kind %r" % kind)
    return lib


def fill_pmatrx_nuclide(nuc, nn, ngam, spec):
    md = nuc.pmatrxMetadata
    md["hasNeutronHeatingAndDamage"] = spec.get("nheat") is not None
    md["maxScatteringOrder"] = len(spec.get("prod", []))
    md["hasGammaHeating"] = spec.get("gheat") is not None
    md["numberNeutronXS"] = len(spec.get("act", []))
    md["collapsingRegionNumber"] = 0
    if spec.get("nheat") is not None:
        nuc.neutronHeating = np.array(spec["nheat"], dtype=float)
        nuc.neutronDamage = np.array(spec["ndamage"], dtype=float)
    if spec.get("gheat") is not None:
        nuc.gammaHeating = np.array(spec["gheat"], dtype=float)
    if spec.get("act"):
        md["activationXS"] = [list(map(float, a)) for a in spec["act"]]
        md["activationMT"] = [102 + a for a in range(len(spec["act"]))]
        md["activationMTU"] = [0] * len(spec["act"])
    for L, m in enumerate(spec.get("prod", []), start=1):
        arr = np.array(m, dtype=float).reshape(ngam, nn)
        if L == 1:
            nuc.isotropicProduction = arr
        elif L == 2:
            nuc.linearAnisotropicProduction = arr
        else:
            nuc.nOrderProductionMatrix[L] = arr


def _iomod(kind):
    from armi.nuclearDataIO.cccc import gamiso, isotxs, pmatrx

    return {"n": isotxs, "g": gamiso, "p": pmatrx}[kind]


# ------------------------------------------------------------------------------------------------------------
# sources as the readers produce them, fingerprints, recognition
# ------------------------------------------------------------------------------------------------------------
def _bytes(v):
    from scipy import sparse

    if v is None:
        return b"N"
    if sparse.issparse(v):
        return b"S" + np.ascontiguousarray(v.toarray(), dtype=float).tobytes()
    if isinstance(v, np.ndarray):
        return b"A%r" % (v.shape,) + np.ascontiguousarray(v, dtype=float).tobytes()
    if isinstance(v, dict):
        return b"D" + b"".join(repr(k).encode() + _bytes(v[k]) for k in sorted(v, key=repr))
    if isinstance(v, (list, tuple)):
        return b"L" + b"".join(_bytes(x) for x in v)
    return repr(v).encode()


def kind_payload(nuc, kind):
    """Everything a nuclide holds of one kind: its per-file metadata (chiFlag apart, it is observed separately) and arrays."""
    md = getattr(nuc, MDNAME[kind])
    items = {k: v for k, v in md.items() if k != "chiFlag"}
    if kind == "p":
        data = {a: getattr(nuc, a) for a in ("neutronHeating", "neutronDamage", "gammaHeating", "isotropicProduction",
                                             "linearAnisotropicProduction", "nOrderProductionMatrix")}
        empty = not items and all(v is None or v == {} for v in data.values())
    else:
        xs = nuc.micros if kind == "n" else nuc.gammaXS
        data = {k: v for k, v in xs.__dict__.items() if k != "source"}
        empty = not items and all(v is None or (isinstance(v, dict) and not v) for v in data.values())
    if empty:
        return None
    return _bytes(items) + b"|" + _bytes(data)


def file_md_payload(md):
    """File-level metadata apart from what the merge deliberately rewrites (file-wide chi, its flag, the free-text label)."""
    items = {k: v for k, v in md.items() if k not in ("chi", "fileWideChiFlag", "libraryLabel")}
    return _bytes(items) if items else None


class Sources:
    """The generated libraries of one scenario: files written once per distinct (descriptor, id), re-read for every use."""

    def __init__(self, workdir):
        armi_ready()
        self.dir = workdir
        self.paths = {}
        self.fp = {}        # (kind, fingerprint bytes) -> sid            nuclide payloads
        self.meta_fp = {}   # (kind, payload) -> metadata variant of the descriptor
        os.makedirs(workdir, exist_ok=True)

    def key(self, desc, sid):
        return "%s-%s-%d%d%d%d%d%d-s%d" % (desc["kind"], "".join(str(x) for x in desc["labs"]), desc.get("ngs", 0), desc.get("ggs", 0),
                                          desc.get("nd", 0), desc.get("gd", 0), desc.get("meta", 1), 1 if desc.get("fw") else 0, sid)

    def path(self, desc, sid):
        k = self.key(desc, sid)
        if k not in self.paths:
            fn = os.path.join(self.dir, "SRC%d_%s" % (sid, k))
            lib = build_source(desc, sid)
            _iomod(desc["kind"]).writeBinary(lib, fn)
            self.paths[k] = fn
            ref = _iomod(desc["kind"]).readBinary(fn)
            self.register(ref, desc, sid)
        return self.paths[k]

    def register(self, lib, desc, sid):
        kind = desc["kind"]
        for li in desc["labs"]:
            p = kind_payload(lib[label_of(li)], kind)
            if p is None:
                raise MachineryError("generator: source %d has no %s payload for label %d" % (sid, kind, li))
            old = self.fp.setdefault((kind, li, p), sid)
            if old != sid:
                raise MachineryError("generator: sources %d and %d are indistinguishable on label %d" % (old, sid, li))
        mp = file_md_payload(getattr(lib, MDNAME[kind]))
        self.meta_fp[(kind, mp)] = desc.get("meta", 1)

    def load(self, desc, sid):
        return _iomod(desc["kind"]).readBinary(self.path(desc, sid))

    # -- recognition ---------------------------------------------------------------------------------------
    def whose(self, nuc, kind, li):
        p = kind_payload(nuc, kind)
        if p is None:
            return 0
        return self.fp.get((kind, li, p), -1)

    def meta_id(self, md, kind):
        p = file_md_payload(md)
        if p is None:
            return 0
        return self.meta_fp.get((kind, p), -1)


def _match(arr, table):
    if arr is None:
        return 0
    a = np.asarray(arr, dtype=float)
    for k, v in table.items():
        if a.shape == (len(v),) and np.array_equal(a, np.asarray(v)):
            return k
    return -1


def sid_of_path(fn, pathmap=None):
    b = os.path.basename(fn)
    if b.startswith("SRC"):
        return int(b[3:].split("_")[0])
    return (pathmap or {}).get(fn, -1)


DUMMY_N, DUMMY_PH = -3, -4      # LibraryMergeDir: synthesised neutron data / placeholder gamma, production entry of a dummy


def project_library(lib, srcs, nsrc, labels, pathmap=None, dummies=()):
    """Observable content of one library, in the vocabulary of LibraryMerge: integers (ids, 0/1 flags) and sequences of
    integers only; what cannot be named is a negative integer (-1 = matches nothing known / inconsistent)."""
    if not lib.__dict__:
        return {"alive": False}
    out = {"alive": True}
    ne = getattr(lib, "_neutronEnergyUpperBounds", None)
    ge = getattr(lib, "_gammaEnergyUpperBounds", None)
    out["ngs"] = _match(ne, N_BOUNDS)
    out["ggs"] = _match(ge, G_BOUNDS)
    ndv = getattr(lib, "_neutronDoseConversionFactors", None)
    gdv = getattr(lib, "_gammaDoseConversionFactors", None)
    # dose factors are recognised whatever group structure the library carries (a refused merge may leave the two at odds)
    def dose_id(v, fn, bounds):
        if v is None:
            return 0
        hits = {_match(v, {i: fn(i, gs) for i in (1, 2)}) for gs in bounds}
        hits.discard(-1)
        return hits.pop() if len(hits) == 1 else -1

    out["nd"] = dose_id(ndv, n_dose, N_BOUNDS)
    out["gd"] = dose_id(gdv, g_dose, G_BOUNDS)
    vel = getattr(lib, "_neutronVelocity", None)
    vhits = {_match(vel, {s: velocity(s, gs) for s in range(1, nsrc + 1)}) for gs in N_BOUNDS} - {-1} if vel is not None else {0}
    out["vel"] = vhits.pop() if len(vhits) == 1 else -1
    hd = lib.pmatrxMetadata["hasDoseConversionFactor"]
    out["pdose"] = 0 if hd is None else 2 if hd is True else 1 if hd is False else -1
    out["meta"] = {}
    out["files"] = {}
    for k in KINDS:
        md = getattr(lib, MDNAME[k])
        out["meta"][k] = srcs.meta_id(md, k)
        out["files"][k] = sorted(sid_of_path(f, pathmap) for f in md.fileNames)
    imd = lib.isotxsMetadata
    chi = imd["chi"]
    flag = imd["fileWideChiFlag"]
    out["fw"] = 1 if chi is not None else 0
    if (chi is not None) != (flag == 1) and len(imd):
        out["fw"] = -1 if chi is not None else -2      # chi present but fileWideChiFlag != 1  /  absent but the flag says 1
    listed = list(lib.nuclideLabels)
    held = set(lib._nuclides)
    lab_ix = {label_of(li): li for li in labels}
    if len(set(listed)) != len(listed) or set(listed) != held:
        out["labels"] = [-1]                          # nuclideLabels and the nuclide table disagree (or a label is listed twice)
    else:
        out["labels"] = sorted(lab_ix.get(x, -2) for x in listed)     # -2: a label no source has
    # the per-id view: getNuclides(id) must be the nuclides whose label ENDS with the id
    out["ids"] = []
    for xsid in IDS:
        try:
            out["ids"].append(sorted(lab_ix.get(n.containerKey, -2) for n in lib.getNuclides(xsid)))
        except Exception:  # noqa: BLE001  observed as "could not be listed"
            out["ids"].append([-1])
    nucs = []
    for li in labels:
        lab = label_of(li)
        if lab not in held:
            nucs.append({"n": 0, "g": 0, "p": 0, "cf": 0, "owner": 0})
            continue
        nuc = lib[lab]
        cf = nuc.isotxsMetadata["chiFlag"]
        who = {k: srcs.whose(nuc, k, li) for k in KINDS}
        if li in dummies:
            # data of a dummy nuclide that no source file holds were made by armi's addDummyNuclidesToLibrary: only that
            # they exist is observed (the placeholder's content is the function's own business)
            who = {k: (DUMMY_N if k == "n" else DUMMY_PH) if v == -1 else v for k, v in who.items()}
        nucs.append({
            "n": who["n"], "g": who["g"], "p": who["p"],
            "cf": int(bool(cf)) if cf in (None, 0, 1) else -1,
            "owner": 1 if nuc.container is lib else 0,
        })
    out["nucs"] = nucs
    return out


# ------------------------------------------------------------------------------------------------------------
# Macros: a library from a printed micro table, and the real functions on a printed composition
# ------------------------------------------------------------------------------------------------------------
def frac(q):
    return q[0] / q[1]


def vec(qs):
    return [frac(q) for q in qs]


def mat(qm):
    return [vec(r) for r in qm]


MACRO_NUC = {1: "U235", 2: "FE56", 3: "NA23", 4: "PU239"}   # nuclide 4 is in no generated library


class MacroWorld:
    """The real library of one micro table (ISOTXS + GAMISO + PMATRX parts, written, re-read and merged by armi), blocks."""

    def __init__(self, table, workdir):
        armi_ready()
        from armi.nucDirectory import nuclideBases
        from armi.nuclearDataIO import xsLibraries

        self.table = table
        ng, ngam = table["ng"], table["ngam"]
        absparts, kinds = table["absParts"], table["scatKinds"]
        nlib, glib, plib = _new_lib(), _new_lib(), _new_lib()
        iso_file_metadata(nlib.isotxsMetadata, ng, 1, None, "ISOTXS", max_up=ng - 1)
        nlib.neutronEnergyUpperBounds = np.array([2.0 ** (ng - g) for g in range(ng)])
        nlib.neutronVelocity = np.array([1024.0 * (ng - g) for g in range(ng)])
        iso_file_metadata(glib.gamisoMetadata, ngam, 1, None, "GAMISO", max_up=ngam - 1)
        glib.gammaEnergyUpperBounds = np.array([2.0 ** (ngam - g) for g in range(ngam)])
        glib.gamisoMetadata["gammaVelocity..NOT"] = [1.0] * ngam
        md = plib.pmatrxMetadata
        for k, v in (("numberCollapsingSpatialRegions", 0), ("numGammaGroups", ngam), ("numNeutronGroups", ng),
                     ("hasInPlateData", False), ("hasDoseConversionFactor", False), ("maxScatteringOrder", 0),
                     ("maxNumberOfCompositions", 0), ("maxMaterials", 0), ("maxNumberOfRegions", 0),
                     ("maxNumberOfCollapsingRegions", 0), ("_dummy1", 0), ("_dummy2", 0)):
            md[k] = v
        md["minimumNeutronEnergy"] = 0.5
        md["minimumGammaEnergy"] = 0.125
        plib.neutronEnergyUpperBounds = np.array([2.0 ** (ng - g) for g in range(ng)])
        plib.gammaEnergyUpperBounds = np.array([2.0 ** (ngam - g) for g in range(ngam)])
        self.labels = []

        def iso_spec(e, r, ngr):
            rx = {name: vec(r["rx"][i]) for i, name in enumerate(absparts)}
            return {"fis": e["fis"], "chi": ([1.0] + [0.0] * (ngr - 1)) if e["fis"] else None,
                    "rx": {"nGamma": rx["nGamma"], "fission": rx["fission"], "neutronsPerFission": vec(r["nu"])},
                    "opt": {name: (rx[name] if r["has"][absparts.index(name)] else None) for name in OPT_RX},
                    "total": vec(r["total"]), "transport": vec(r["transport"]),
                    "scat": {k: (mat(r["scat"][i]) if r["hasScat"][i] else None) for i, k in enumerate(kinds)},
                    "efiss": frac(e["efiss"]), "ecapt": frac(e["ecapt"])}

        for e in table["entries"]:
            name = MACRO_NUC[e["nuc"]]
            label = nuclideBases.byName[name].label + e["sfx"]
            self.labels.append(label)
            fill_iso_nuclide(_new_nuc(nlib, label), "n", name, ng, iso_spec(e, e["n"], ng))
            fill_iso_nuclide(_new_nuc(glib, label), "g", name, ngam, iso_spec(e, e["g"], ngam))
            fill_pmatrx_nuclide(_new_nuc(plib, label), ng, ngam,
                                {"nheat": vec(e["nheat"]), "ndamage": vec(e["nheat"]),
                                 "gheat": vec(e["gheat"]) if e["hasGHeat"] else None})
        os.makedirs(workdir, exist_ok=True)
        files = {k: os.path.join(workdir, "MACRO%d.%s" % (table["table"], ext)) for k, ext in (("n", "isotxs"), ("g", "gamiso"), ("p", "pmatrx"))}
        self.lib = xsLibraries.IsotxsLibrary()
        for k, lib0 in (("n", nlib), ("g", glib), ("p", plib)):
            _iomod(k).writeBinary(lib0, files[k])
            self.lib.merge(_iomod(k).readBinary(files[k]))

    def block(self, sfx, dens):
        """A real HexBlock with one Custom-material component holding exactly the given number densities."""
        from armi.reactor import blocks
        from armi.reactor.components import Circle

        b = blocks.HexBlock("macro", height=1.0)
        c = Circle("fuel", "Custom", Tinput=25.0, Thot=25.0, od=1.0, id=0.0, mult=1)
        c.p.numberDensities = dict(dens)
        b.add(c)
        b.p.xsType = sfx[0]
        b.p.envGroup = sfx[1]
        return b

    def micro_total_scatter(self, i, rad="n"):
        nuc = self.lib[self.labels[i]]
        return _dense((nuc.micros if rad == "n" else nuc.gammaXS).getTotalScatterMatrix())


def _dense(m):
    from scipy import sparse

    if sparse.issparse(m):
        return m.toarray().tolist()
    return np.asarray(m).tolist()


def _flat(a):
    a = np.asarray(a, dtype=float)
    if a.ndim == 2 and a.shape[1] == 1:
        a = a[:, 0]
    return a.tolist()


XS_VECTORS = ("nuSigF", "total", "transport", "absorption", "removal")


def _collection_fields(prefix, m, t):
    out = {}
    for r in t["absParts"]:
        out[prefix + ".rx." + r] = _flat(m[r])
    for k in XS_VECTORS:
        out[prefix + "." + k] = _flat(m[k])
    for k in t["scatKinds"]:
        out[prefix + ".scat." + k] = _dense(m[k])
    out[prefix + ".totalScatter"] = _dense(m.totalScatter)
    return out


def run_macro_case(world, case, mult_world, empty_dict=False):
    """Call the real functions on one composition.  Returns {quantity: array | "refused" | "None" | {"raises": name}}:
      direct.*  / gdirect.*   one computeMacroscopicGroupConstants / compute*Constants call each (neutron / gamma collection)
      mult.*                  computeMacroscopicGroupConstants with multLib = the library of another table
      creator.* / gcreator.*  MacroscopicCrossSectionCreator.createMacrosFromMicros on a real block, libType micros / gammaXS
      names.*   / minimum.*   the same with nucNames / with minimumNuclideDensity as the case says
    (a creator call that raised or was refused is reported once, under the bare prefix)."""
    from armi.nuclearDataIO import xsCollections as xc
    from armi.utils import units

    t = world.table
    sfx = case["sfx"]
    dens = {} if empty_dict else {MACRO_NUC[i + 1]: frac(q) for i, q in enumerate(case["comp"])}
    lib, mlib = world.lib, mult_world.lib
    out = {}

    def guarded(fn):
        try:
            v = fn()
        except ValueError as ex:       # the documented refusal of a nuclide the library does not hold
            if "not in microscopic library" in str(ex):
                return "refused"
            return {"raises": "ValueError: %s" % str(ex)[:120]}
        except Exception as ex:  # noqa: BLE001  an exception out of a legal call is an observation (a verdict), not a harness error
            return {"raises": "%s: %s" % (type(ex).__name__, str(ex)[:120])}
        return "None" if v is None else v

    def flat(fn, scale=1.0):
        def f():
            v = fn()
            return None if v is None else _flat(np.asarray(v, dtype=float) / scale)
        return f

    cmgc = xc.computeMacroscopicGroupConstants
    for prefix, lt in (("direct", "micros"), ("gdirect", "gammaXS")):
        for r in t["absParts"]:
            out["%s.rx.%s" % (prefix, r)] = guarded(flat(lambda r=r, lt=lt: xc.computeMacroscopicGroupConstants(r, dens, lib, sfx, libType=lt)))
        out[prefix + ".nuSigF"] = guarded(flat(lambda lt=lt: xc.computeMacroscopicGroupConstants(
            "fission", dens, lib, sfx, libType=lt, multConstant="neutronsPerFission")))
        out[prefix + ".total"] = guarded(flat(lambda lt=lt: xc.computeMacroscopicGroupConstants("total", dens, lib, sfx, libType=lt)))
        out[prefix + ".transport"] = guarded(flat(lambda lt=lt: xc.computeMacroscopicGroupConstants("transport", dens, lib, sfx, libType=lt)))
    # the deposition constants are returned in J/cm; the specification states them in the library's unit (eV)
    out["direct.nheat"] = guarded(flat(lambda: xc.computeNeutronEnergyDepositionConstants(dens, lib, sfx), units.JOULES_PER_eV))
    out["direct.gheat"] = guarded(flat(lambda: xc.computeGammaEnergyDepositionConstants(dens, lib, sfx), units.JOULES_PER_eV))
    out["direct.fisE"] = guarded(flat(lambda: xc.computeFissionEnergyGenerationConstants(dens, lib, sfx)))
    out["direct.capE"] = guarded(flat(lambda: xc.computeCaptureEnergyGenerationConstants(dens, lib, sfx)))
    # multipliers from ANOTHER library (multLib), the cross sections from this one
    out["mult.nuSigFx"] = guarded(flat(lambda: xc.computeMacroscopicGroupConstants(
        "fission", dens, lib, sfx, libType="micros", multConstant="neutronsPerFission", multLib=mlib)))
    out["mult.fisEx"] = guarded(flat(lambda: xc.computeMacroscopicGroupConstants(
        "fission", dens, lib, sfx, libType="micros", multConstant="efiss", multLib=mlib)))
    out["mult.capEx"] = guarded(flat(lambda: xc.computeMacroscopicGroupConstants(
        "nGamma", dens, lib, sfx, libType="micros", multConstant="ecapt", multLib=mlib)))
    del cmgc

    def creator(prefix, lib_type="micros", names=None, minimum=0.0):
        def call():
            b = world.block(sfx, dens)
            return xc.MacroscopicCrossSectionCreator(minimumNuclideDensity=minimum).createMacrosFromMicros(lib, b, nucNames=names, libType=lib_type)
        m = guarded(call)
        if isinstance(m, (str, dict)):
            out[prefix] = m
        else:
            out.update(_collection_fields(prefix, m, t))

    creator("creator")
    creator("gcreator", lib_type="gammaXS")
    for sel in case["sel"]:
        if sel["tag"] == "names":
            creator("names", names=[MACRO_NUC[i] for i in sel["names"]])
        else:
            creator("minimum", minimum=frac(sel["thr"]))
    return out


def _expected_collection(prefix, e, table, refused):
    if refused:
        return {prefix: "refused"}
    out = {}
    for i, r in enumerate(table["absParts"]):
        out["%s.rx.%s" % (prefix, r)] = vec(e["rx"][i])
    for k in XS_VECTORS:
        out[prefix + "." + k] = vec(e[k])
    for i, k in enumerate(table["scatKinds"]):
        out[prefix + ".scat." + k] = mat(e["scat"][i])
    out[prefix + ".totalScatter"] = mat(e["totalScatter"])
    return out


def expected_macro(case, table):
    """The arrays TLC printed, as floats, under the quantity names run_macro_case reports."""
    out = {}
    ref = case["refused"]
    for prefix, rad in (("direct", "n"), ("gdirect", "g")):
        e = case[rad]
        for i, r in enumerate(table["absParts"]):
            out["%s.rx.%s" % (prefix, r)] = "refused" if ref else vec(e["rx"][i])
        for k in ("nuSigF", "total", "transport"):
            out[prefix + "." + k] = "refused" if ref else vec(e[k])
    for k in ("nheat", "gheat", "fisE", "capE"):
        out["direct." + k] = "refused" if ref else vec(case["x"][k])
    for k in ("nuSigFx", "fisEx", "capEx"):
        out["mult." + k] = "refused" if ref else vec(case["x"][k])
    out.update(_expected_collection("creator", case["n"], table, ref))
    out.update(_expected_collection("gcreator", case["g"], table, ref))
    for sel in case["sel"]:
        out.update(_expected_collection(sel["tag"], sel["exp"], table, sel["refused"]))
    return out
