"""Hand-built HexAssembly generator (no blueprints): k blocks of given heights, compositions and parameter profiles.

Nothing here is an oracle: the builder only *constructs* armi objects from a description and offers read-outs
(homogenised number densities, atoms, parameters) that adapters compare with values computed by TLC.

    a = build_assembly(heights=[10.0, 25.0, 15.0], kinds=["grid plate", "fuel", "plenum"],
                       dens=[{"U235": 0.0, "FE": 1e-3, "NA": 2e-3}, ...],      # *homogenised* block densities
                       params=[{"power": 3.0, "mgFlux": [1.0, 2.0]}, ...], assem_type="fuel")

Every block is a full hexagonal cell (same pitch for all blocks, so one area for the whole assembly):
    pin          7 x Circle       material Custom   carries nuclide CLASS_NUC["pin"]    (named "fuel" => Flags.FUEL in fuel blocks)
    duct         Hexagon annulus  material Custom   carries nuclide CLASS_NUC["duct"]
    coolant      DerivedShape     material Sodium   carries nuclide CLASS_NUC["fluid"]  (a Fluid: matters for setBlockMesh "auto")
    intercoolant Hexagon annulus  material Sodium   carries nuclide CLASS_NUC["fluid"]
Custom/Sodium at Tinput == Thot: no thermal expansion, dimensions are exactly the inputs.  Component densities are
set to  homogenised / area fraction  so that Block.getNumberDensity(nuc) is the requested homogenised value.
"""
from harness.armi_env import armi_ready

CLASS_NUC = {"pin": "U235", "duct": "FE", "fluid": "NA"}
NUC_CLASS = {v: k for k, v in CLASS_NUC.items()}
NUCS = ("U235", "FE", "NA")
PITCH = 16.0
_T = 25.0


def make_block(name, kind, height, dens, params=None, geom="cold"):
    """One full-hex block of type `kind`; dens = {nuclide: homogenised number density [1/b-cm]}.
    geom "cold": everything at input temperature, the pitch is defined by the inter-assembly coolant hexagon (a fluid);
    geom "hot" : the outermost, pitch-defining hexagon is a SOLID duct of HT9 at Thot = 450 C (Tinput 25 C) that expands
                 thermally; no inter-assembly coolant outside it (the hot pitch differs from the input dimension)."""
    armi_ready()
    from armi.reactor import blocks, components

    b = blocks.HexBlock(name, height=float(height))
    b.setType(kind)
    pin = components.Circle("fuel" if kind == "fuel" else "pin", "Custom", Tinput=_T, Thot=_T, od=0.8, id=0.0, mult=7)
    cool = components.DerivedShape("coolant", "Sodium", Tinput=_T, Thot=_T)
    if geom == "hot":
        duct = components.Hexagon("duct", "HT9", Tinput=_T, Thot=450.0, op=PITCH, ip=15.0, mult=1)
        comps, fluids = (pin, duct, cool), [cool]
    else:
        duct = components.Hexagon("duct", "Custom", Tinput=_T, Thot=_T, op=15.6, ip=15.0, mult=1)
        ic = components.Hexagon("intercoolant", "Sodium", Tinput=_T, Thot=_T, op=PITCH, ip=15.6, mult=1)
        comps, fluids = (pin, duct, cool, ic), [cool, ic]
    for c in comps:
        b.add(c)
    area = b.getArea()
    frac = {"pin": pin.getArea() / area, "duct": duct.getArea() / area, "fluid": sum(c.getArea() for c in fluids) / area}
    by_class = {"pin": [pin], "duct": [duct], "fluid": fluids}
    for cls, comps in by_class.items():
        for c in comps:
            c.setNumberDensities({})
    for c in fluids + [duct]:  # Sodium / HT9 came with their own densities: start from nothing
        for nuc in list(c.getNumberDensities()):
            c.setNumberDensity(nuc, 0.0)
    for nuc, val in (dens or {}).items():
        cls = NUC_CLASS[nuc]
        for c in by_class[cls]:
            c.setNumberDensity(nuc, float(val) / frac[cls])
    b.clearCache()
    for k, v in (params or {}).items():
        if v is not None:
            set_param(b, k, v)
    return b


def set_param(b, name, v):
    import numpy as np

    b.p[name] = np.array(v, dtype=float) if isinstance(v, (list, tuple)) else v


def build_assembly(heights, kinds, dens, params=None, assem_type="fuel", assem_num=1, geom="cold"):
    armi_ready()
    from armi.reactor import assemblies, grids

    a = assemblies.HexAssembly(assem_type, assemNum=assem_num)
    a.spatialGrid = grids.AxialGrid.fromNCells(len(heights))
    a.spatialGrid.armiObject = a
    for i, h in enumerate(heights):
        a.add(make_block("b%d" % i, kinds[i], h, dens[i], None if params is None else params[i], geom))
    a.reestablishBlockOrder()
    a.calculateZCoords()
    # what blueprints set on every assembly / block they build (mesh subdivisions used by Core.findAllMeshPoints)
    a.p.AziMesh = 1
    a.p.RadMesh = 1
    for b in a:
        b.p.axMesh = 1
    return a


def build_core(assems):
    """A real Reactor + Core on a hex grid holding the given assemblies in ring/position order (first = centre)."""
    armi_ready()
    from armi.reactor import blueprints, geometry, grids, reactors

    r = reactors.Reactor("gen", blueprints.Blueprints())
    core = reactors.Core("Core")
    r.add(core)
    core.spatialGrid = grids.HexGrid.fromPitch(PITCH)
    core.spatialGrid.geomType = geometry.GeomType.HEX
    core.spatialGrid.symmetry = str(geometry.SymmetryType(geometry.DomainType.FULL_CORE, geometry.BoundaryType.NO_SYMMETRY))
    core.spatialGrid.armiObject = core
    n = 0
    ring = 1
    it = iter(assems)
    done = False
    while not done:
        for pos in range(1, core.spatialGrid.getPositionsInRing(ring) + 1):
            a = next(it, None)
            if a is None:
                done = True
                break
            i, j = core.spatialGrid.getIndicesFromRingAndPos(ring, pos)
            core.add(a, core.spatialGrid[int(i), int(j), 0])
            n += 1
        ring += 1
    return r


# -- read-outs ---------------------------------------------------------------------------------------------
def block_state(b, nucs=NUCS, pnames=()):
    """height, homogenised densities, parameters (arrays -> lists, unset -> None) of one real block"""
    import numpy as np

    out = {"h": float(b.getHeight()), "n": {n: float(b.getNumberDensity(n)) for n in nucs}, "p": {}}
    for k in pnames:
        v = b.p[k]
        if v is None:
            out["p"][k] = None
        elif isinstance(v, (list, tuple, np.ndarray)):
            out["p"][k] = [float(x) for x in v]
        else:
            out["p"][k] = float(v)
    return out


def atoms_per_area(a, nuc, area=None):
    """(atoms of nuc in the assembly) * barn / hex area  ==  sum over blocks of N_hom * h   [1/b-cm * cm].
    area = the cross-section of the assembly the atoms are referred to (measured once, on the source assembly as built): a
    re-meshed copy with a different cross-section then shows as lost / gained atoms.  Default: each block's own area."""
    from armi.utils import units

    return sum(b.getNumberOfAtoms(nuc) * units.CM2_PER_BARN / (area or b.getArea()) for b in a)
