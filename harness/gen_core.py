"""Small-core builder: a real Reactor + Core (+ SpentFuelPool) filled with hand-built assemblies, in milliseconds.

Nothing here is an oracle: the builder only *constructs* armi objects from a layout description and offers
fingerprints (heights, component dimensions, number densities) that adapters compare before/after operations.

    w = build_core(layout={1: "GFP", 2: "GFP", 3: "GF"}, fresh={4: "GFP"}, places={1: 1, 2: 2, 3: 3}, n_locs=4,
                   track=True, stationary=("G",), geom="hex", symmetry="full")
    w.core, w.r, w.sfp, w.fh, w.asm[id], w.blk[(id, k)] (k = 1-based axial position at build time)

Block type letters (one HexBlock/CartesianBlock per letter, bottom to top):
    G  "grid plate"  (Flags.GRID_PLATE)   HT9 plate
    F  "fuel"        (Flags.FUEL)         UZr pins + HT9 clad
    P  "plenum"      (Flags.PLENUM)       HT9 clad tubes
    S  "axial shield"(Flags.AXIAL|SHIELD) HT9 pins
    (each inside an HT9 duct with a sodium inter-assembly gap)
Every block gets its own hot temperature (and fuel blocks their own U235 content) derived from (assembly id,
position), so that no two blocks have the same fingerprint: an exchanged, copied or altered block is visible.
geom: "hex" (symmetry "full" | "third" periodic) or "cartesian".  Build time ~15 ms for 5 assemblies.
"""
import math

from harness.armi_env import armi_ready

# C14 switches this on (props/c14.py): the other users of this generator (C13 geometry conversion, C04) assume stacks
# whose blocks end at common elevations
UNEVEN_PLATES = False
TYPE_NAMES = {"G": "grid plate", "F": "fuel", "P": "plenum", "S": "axial shield"}
HEIGHTS = {"G": 15.0, "F": 25.0, "P": 40.0, "S": 20.0}  # same letter => same height (stationary blocks keep mesh)


class OperatorStub:
    """FuelHandler only needs .r and .cs of its operator for the shuffling primitives."""

    def __init__(self, r, cs=None):
        self.r = r
        self.cs = cs


class World:
    pass


_LOCS = {}


def _cached(fn):
    def wrapper(n):
        key = (fn.__name__, n)
        if key not in _LOCS:
            _LOCS[key] = fn(n)
        return list(_LOCS[key])

    return wrapper


@_cached
def hex_locations(n):
    """first n (i, j) hex indices in ring/position order of a full-core HexGrid"""
    from armi.reactor import grids

    g = grids.HexGrid.fromPitch(1.0)
    out = []
    ring = 1
    while len(out) < n:
        for pos in range(1, g.getPositionsInRing(ring) + 1):
            i, j = g.getIndicesFromRingAndPos(ring, pos)
            out.append((int(i), int(j)))
            if len(out) == n:
                break
        ring += 1
    return out


@_cached
def third_locations(n):
    """first n locations of a third-core (periodic) hex grid that lie in the represented domain"""
    from armi.reactor import geometry, grids

    g = grids.HexGrid.fromPitch(1.0)
    g.symmetry = str(geometry.SymmetryType(geometry.DomainType.THIRD_CORE, geometry.BoundaryType.PERIODIC))
    out = []
    ring = 1
    while len(out) < n:
        for pos in range(1, g.getPositionsInRing(ring) + 1):
            i, j = g.getIndicesFromRingAndPos(ring, pos)
            loc = g[i, j, 0]
            if g.locatorInDomain(loc, symmetryOverlap=False):
                out.append((int(i), int(j)))
                if len(out) == n:
                    break
        ring += 1
    return out


def cart_locations(n):
    side = int(math.ceil(math.sqrt(n)))
    return [(i, j) for j in range(side) for i in range(side)][:n]


def make_block(letter, aid, k, geom="hex"):
    from armi.reactor import blocks, components

    hexa = geom != "cartesian"
    b = (blocks.HexBlock if hexa else blocks.CartesianBlock)("blk-%d-%d" % (aid, k))
    b.setType(TYPE_NAMES[letter])
    # a distinct hot temperature per (assembly, position): distinct dimensions and densities per block
    thot = 400.0 + 7.0 * aid + 1.5 * k
    npins = 7
    comps = []
    if letter == "F":
        comps.append(components.Circle("fuel", "UZr", Tinput=25.0, Thot=thot + 100.0, od=0.80, id=0.0, mult=npins))
        comps.append(components.Circle("clad", "HT9", Tinput=25.0, Thot=thot, od=1.00, id=0.86, mult=npins))
    elif letter == "P":
        comps.append(components.Circle("clad", "HT9", Tinput=25.0, Thot=thot, od=1.00, id=0.86, mult=npins))
    elif letter == "S":
        comps.append(components.Circle("shield", "HT9", Tinput=25.0, Thot=thot, od=0.90, id=0.0, mult=npins))
    if hexa:
        if letter == "G":
            comps.append(components.Hexagon("grid", "HT9", Tinput=25.0, Thot=thot, op=14.0, ip=0.0, mult=1))
        comps.append(components.Hexagon("duct", "HT9", Tinput=25.0, Thot=thot, op=15.6, ip=15.0, mult=1))
        comps.append(components.Hexagon("intercoolant", "Sodium", Tinput=25.0, Thot=thot, op=16.0, ip=15.6, mult=1))
    else:
        if letter == "G":
            comps.append(components.Rectangle("grid", "HT9", Tinput=25.0, Thot=thot, widthOuter=12.0, lengthOuter=12.0,
                                              widthInner=0.0, lengthInner=0.0, mult=1))
        comps.append(components.Rectangle("duct", "HT9", Tinput=25.0, Thot=thot, widthOuter=15.6, lengthOuter=15.6,
                                          widthInner=15.0, lengthInner=15.0, mult=1))
        comps.append(components.Rectangle("intercoolant", "Sodium", Tinput=25.0, Thot=thot, widthOuter=16.0,
                                          lengthOuter=16.0, widthInner=15.6, lengthInner=15.6, mult=1))
    for c in comps:
        b.add(c)
    b.p.axMesh = 1  # as blueprints do (axial mesh points per block, read by Core.processLoading)
    # grid plates are not all of one height (every second assembly's plate is 1 cm shorter): exchanging stationary
    # blocks that end at different elevations is legal (armi logs a warning), and must not disturb anything else
    b.setHeight(HEIGHTS[letter] - (1.0 if UNEVEN_PLATES and letter == "G" and aid % 2 == 0 else 0.0))
    if letter == "F":
        # a per-block U235 content so number densities differ between otherwise identical fuel blocks
        fuel = comps[0]
        fuel.setNumberDensity("U235", fuel.getNumberDensity("U235") * (1.0 + 0.01 * ((aid * 5 + k) % 17)))
    return b


def make_assembly(aid, letters, geom="hex", assem_num=None):
    from armi.reactor import assemblies, grids

    cls = assemblies.HexAssembly if geom != "cartesian" else assemblies.CartesianAssembly
    typ = "feed fuel" if "F" in letters else "reflector"
    a = cls(typ, assemNum=assem_num)
    # what Assembly.add does per block (Composite.add, re-establish order, z-coordinates), done once for the stack:
    # Assembly.add rebuilds the axial grid on every call, which dominates the build time of a small core
    from armi.reactor import composites

    for k, letter in enumerate(letters, start=1):
        b = make_block(letter, aid, k, geom)
        a._checkPotentialChild(b, "add")
        composites.Composite.add(a, b)
    a.reestablishBlockOrder()
    a.calculateZCoords()
    return a


def flags_for(letters):
    from armi.reactor.flags import Flags

    m = {"G": Flags.GRID_PLATE, "F": Flags.FUEL, "P": Flags.PLENUM, "S": Flags.AXIAL | Flags.SHIELD}
    return [m[x] for x in letters]


def build_core(layout, fresh, places, n_locs, track=True, stationary=(), geom="hex", symmetry="full", sfp_side=4,
               placeholder=lambda aid: -(1000 + aid), pooled=None, regen=True, db_file=None):
    """layout: {asm id: letters} initial assemblies (numbered 0.. in id order, as blueprints do);
    pooled: {asm id: letters} assemblies pre-loaded into the spent-fuel pool (numbered after the core ones, the way a
    blueprint-defined pool is loaded), whatever the tracking setting;
    fresh: {asm id: letters} assemblies not yet charged (placeholder, negative assembly numbers);
    places: {asm id: 1-based location index}; n_locs: number of core locations offered to the operations.
    regen: run Core.regenAssemblyLists() once the pool is loaded (what restoring/distributing a reactor does; a
    factory-built or database-loaded reactor does NOT know its pre-loaded pool by name -- pass False to see that);
    db_file: path of an h5 file: the reactor is written to it with armi's Database (once; the file is reused) and the
    world that is returned holds the reactor LOADED from it (Database.load): every restored assembly carries the
    lastLocationLabel "database".  Fresh assemblies are not part of a reactor and are built as usual."""
    armi_ready()
    import os

    from armi.physics.fuelCycle.fuelHandlers import FuelHandler
    from armi.reactor import blueprints, geometry, grids, reactors
    from armi.reactor.spentFuelPool import SpentFuelPool

    if db_file is not None and os.path.exists(db_file):
        return _load_world(db_file, layout, pooled or {}, fresh, places, n_locs, track, stationary, geom, symmetry,
                           placeholder, regen, sfp_side)
    w = World()
    bp = blueprints.Blueprints()
    r = reactors.Reactor("gen", bp)
    core = reactors.Core("Core")
    r.add(core)
    if geom == "cartesian":
        core.spatialGrid = grids.CartesianGrid.fromRectangle(16.0, 16.0)
        core.spatialGrid.symmetry = str(geometry.SymmetryType(geometry.DomainType.FULL_CORE, geometry.BoundaryType.NO_SYMMETRY))
        core.spatialGrid.geomType = geometry.GeomType.CARTESIAN
        locs = cart_locations(n_locs)
    else:
        core.spatialGrid = grids.HexGrid.fromPitch(16.0, numRings=5)
        core.spatialGrid.geomType = geometry.GeomType.HEX
        if symmetry == "third":
            core.spatialGrid.symmetry = str(geometry.SymmetryType(geometry.DomainType.THIRD_CORE, geometry.BoundaryType.PERIODIC))
            locs = third_locations(n_locs)
        else:
            core.spatialGrid.symmetry = str(geometry.SymmetryType(geometry.DomainType.FULL_CORE, geometry.BoundaryType.NO_SYMMETRY))
            locs = hex_locations(n_locs)
    core.spatialGrid.armiObject = core
    if db_file is not None:
        # Database.load sorts the reactor (sortReactor setting): the loaded core lists its assemblies in armi's
        # location order, whatever order they were added in.  Location INDICES are abstract, so the cells are handed
        # out such that assembly k (k-th to be added, number k-1) is also the k-th of the loaded, sorted core.
        locs = _db_cells(core, locs, [places[aid] for aid in sorted(layout)], n_locs)
    sfp = SpentFuelPool("Spent Fuel Pool")
    sfp.spatialGrid = grids.CartesianGrid.fromRectangle(50.0, 50.0)
    sfp.spatialGrid.armiObject = sfp
    for j in range(sfp_side):
        for i in range(sfp_side):
            sfp.spatialGrid[i, j, 0]  # the grid's known locations define the number of columns
    r.add(sfp)

    w.r, w.core, w.sfp = r, core, sfp
    w.locs = locs  # 1-based location index l  <->  locs[l-1] = (i, j)
    w.loc_index = {ij: n + 1 for n, ij in enumerate(locs)}
    w.asm, w.blk, w.letters = {}, {}, {}
    r.p.maxAssemNum = 0
    for aid in sorted(layout):
        a = make_assembly(aid, layout[aid], geom, assem_num=r.incrementAssemNum())
        w.asm[aid] = a
        w.letters[aid] = layout[aid]
        for k, b in enumerate(a, start=1):
            w.blk[(aid, k)] = b
        i, j = locs[places[aid] - 1]
        core.add(a, core.spatialGrid[i, j, 0])
    for aid in sorted(pooled or {}):
        a = make_assembly(aid, pooled[aid], geom, assem_num=r.incrementAssemNum())
        w.asm[aid] = a
        w.letters[aid] = pooled[aid]
        for k, b in enumerate(a, start=1):
            w.blk[(aid, k)] = b
        sfp.add(a)  # no locator: the pool's own col/row filling
    # the case settings reach the core the way they do in a case: Core.processLoading(cs) reads trackAssems (via
    # setOptionsFromCs) and stationaryBlockFlags (the setting's default when the case does not mention it, [] = no
    # block is designated to stay)
    core.processLoading(_settings(track, stationary))
    if db_file is not None:
        from armi.bookkeeping.db.database import Database

        r.p.cycle, r.p.timeNode = 0, 0
        for a in w.asm.values():
            a.p.numMoves = 0  # the state a case starts from: nobody has moved yet
        db = Database(db_file, "w")
        db.open()
        try:
            db.writeToDB(r)
        finally:
            db.close()
        import json

        with open(db_file + ".json", "w") as f:
            json.dump({"locs": [list(x) for x in locs]}, f)
        return _load_world(db_file, layout, pooled or {}, fresh, places, n_locs, track, stationary, geom, symmetry,
                           placeholder, regen, sfp_side)
    if pooled and regen:
        # a restored reactor knows its pooled assemblies and their blocks by name (Core.regenAssemblyLists, run when a
        # reactor is unpickled/distributed; observed on armi's own cached test reactor with its blueprint-defined pool)
        core.regenAssemblyLists()
    for aid in sorted(fresh):
        a = make_assembly(aid, fresh[aid], geom, assem_num=placeholder(aid))
        w.asm[aid] = a
        w.letters[aid] = fresh[aid]
        for k, b in enumerate(a, start=1):
            w.blk[(aid, k)] = b
    # the state a loaded case starts from: nobody has moved yet
    for a in w.asm.values():
        a.p.numMoves = 0
    core.p.maxAssemNum = len(layout) - 1 if layout else 0
    w.fh = FuelHandler(OperatorStub(r))
    w.sfp_side = sfp_side
    w.fingerprint0 = {key: block_fingerprint(b) for key, b in w.blk.items()}
    return w


_CS = {}


def _settings(track, stationary):
    key = (bool(track), tuple(stationary))
    if key not in _CS:
        from armi import settings

        names = {"G": "GRID_PLATE", "F": "FUEL", "P": "PLENUM", "S": "AXIAL SHIELD"}
        new = {"trackAssems": bool(track), "detailedAxialExpansion": True}
        if tuple(stationary) != ("G",):  # ("G",) is the setting's default: such a case does not mention the setting
            new["stationaryBlockFlags"] = [names[x] for x in stationary]
        _CS[key] = settings.Settings().modified(newSettings=new)
    return _CS[key]


def _db_cells(core, locs, used, n_locs):
    """a numbering of the first n_locs cells such that the cells at indices used[0], used[1], ... come in armi's own
    sort order of assemblies"""
    # ArmiObject.__lt__: objects of one grid compare by their complete indices in (k, j, i) order
    cells = sorted((locs[l - 1] for l in used), key=lambda c: (c[1], c[0]))
    rest = [c for c in locs if c not in cells]
    out = [None] * n_locs
    for l, c in zip(used, cells):
        out[l - 1] = c
    for n in range(n_locs):
        if out[n] is None:
            out[n] = rest.pop(0)
    return out


def _load_world(db_file, layout, pooled, fresh, places, n_locs, track, stationary, geom, symmetry, placeholder, regen,
                sfp_side):
    """the world around a reactor loaded from db_file with armi's own Database.load"""
    import json

    from armi.bookkeeping.db.database import Database
    from armi.physics.fuelCycle.fuelHandlers import FuelHandler
    from armi.reactor import blueprints

    db = Database(db_file, "r")
    db.open()
    try:
        r = db.load(0, 0, cs=_settings(track, stationary), bp=blueprints.Blueprints())
    finally:
        db.close()
    w = World()
    w.r, w.core, w.sfp = r, r.core, r.excore["sfp"]
    with open(db_file + ".json") as f:
        locs = [tuple(x) for x in json.load(f)["locs"]]
    w.locs = locs
    w.loc_index = {ij: n + 1 for n, ij in enumerate(locs)}
    w.asm, w.blk, w.letters = {}, {}, {}
    bynum = {int(a.p.assemNum): a for a in list(w.core) + list(w.sfp)}
    for n, aid in enumerate(sorted(layout) + sorted(pooled)):  # numbered in this order when they were built
        a = bynum[n]
        w.asm[aid] = a
        w.letters[aid] = (layout.get(aid) or pooled.get(aid))
        for k, b in enumerate(a, start=1):
            w.blk[(aid, k)] = b
    if pooled and regen:
        w.core.regenAssemblyLists()
    if w.sfp.numColumns is None:
        w.sfp._updateNumberOfColumns()  # the pool computes this lazily at its first add; the projection needs it
    for aid in sorted(fresh):
        a = make_assembly(aid, fresh[aid], geom, assem_num=placeholder(aid))
        a.p.numMoves = 0
        w.asm[aid] = a
        w.letters[aid] = fresh[aid]
        for k, b in enumerate(a, start=1):
            w.blk[(aid, k)] = b
    w.fh = FuelHandler(OperatorStub(r))
    w.sfp_side = sfp_side
    w.from_db = True
    w.fingerprint0 = {key: block_fingerprint(b) for key, b in w.blk.items()}
    return w


# -- fingerprints ------------------------------------------------------------------------------------------
def block_fingerprint(b):
    """height + per component: name, material, every defined dimension (hot), every number density.  Exact floats."""
    comps = []
    for c in b:
        dims = []
        for d in sorted(c.DIMENSION_NAMES):
            try:
                v = c.getDimension(d)
            except Exception:
                v = None
            dims.append((d, None if v is None else float(v)))
        nd = c.getNumberDensities()
        comps.append((c.getName(), c.material.getName(), tuple(dims), tuple(sorted((k, float(v)) for k, v in nd.items())),
                      float(c.temperatureInC)))
    return (b.getType(), float(b.getHeight()), tuple(comps))


def fingerprint_diff(f0, f1):
    if f0 == f1:
        return None
    if f0[0] != f1[0]:
        return "type %r -> %r" % (f0[0], f1[0])
    if f0[1] != f1[1]:
        return "height %r -> %r" % (f0[1], f1[1])
    if len(f0[2]) != len(f1[2]):
        return "component count %d -> %d" % (len(f0[2]), len(f1[2]))
    for c0, c1 in zip(f0[2], f1[2]):
        if c0 != c1:
            for x, y, what in zip(c0, c1, ("name", "material", "dimensions", "number densities", "temperature")):
                if x != y:
                    return "component %s: %s changed" % (c0[0], what)
    return "changed"
