"""Parse every top-level module under spec/ with SANY (setup-time sanity)."""
import glob
import os
import sys

from harness import common, tlc

bad = 0
for d in sorted(glob.glob(os.path.join(common.SPEC, "*"))):
    if not os.path.isdir(d) or os.path.basename(d) == "common":
        continue
    for f in sorted(glob.glob(os.path.join(d, "*.tla"))):
        mod = os.path.splitext(os.path.basename(f))[0]
        try:
            tlc.sany(mod, d)
        except tlc.MachineryError as ex:
            bad += 1
            print("SANY FAILED", mod, str(ex)[-500:])
print("sany: %d failures" % bad)
sys.exit(0)  # informational: every check runs SANY on its own modules
