"""Per-run report: collects TLC statistics, replay/trace counts, samples and violations; writes evidence."""
import json
import os
import time

from harness import common


class Report:
    def __init__(self, pid, tier, seed):
        self.pid, self.tier, self.seed = pid, tier, seed
        self.t0 = time.time()
        self.tlc = []  # (label, summary dict)
        self.states = 0
        self.transitions = 0
        self.replayed = 0
        self.traces = 0
        self.evaluations = 0
        self.nontrivial = 0
        self.rules = []
        self.samples = []
        self.violations = []  # dicts: key, what, payload
        self.assumptions = []
        self.extra = {}
        self.exhaustive = None
        self.notes = []

    # -- accounting ------------------------------------------------------------------------------------
    def add_tlc(self, label, res, constants=None):
        s = res.summary()
        s["label"] = label
        if constants:
            s["constants"] = constants
        self.tlc.append(s)
        self.states += res.distinct
        self.transitions += res.generated

    def add_replay(self, label, n, nontrivial, rule=None):
        self.replayed += n
        self.evaluations += n
        self.nontrivial += nontrivial
        self.extra.setdefault("replay", {})[label] = {"behaviours": n, "nontrivial": nontrivial}
        if rule and rule not in self.rules:
            self.rules.append(rule)

    def add_traces(self, label, n, events=0, rule=None):
        self.traces += n
        self.evaluations += n
        self.nontrivial += n
        self.extra.setdefault("traces", {})[label] = {"traces": n, "events": events}
        if rule and rule not in self.rules:
            self.rules.append(rule)

    def sample(self, s):
        if len(self.samples) < 6:
            self.samples.append(s)

    def violation(self, key, what, payload=None):
        for v in self.violations:
            if v["key"] == key:
                v["count"] = v.get("count", 1) + 1
                return
        self.violations.append({"key": key, "what": what, "payload": payload or {}})

    def assume(self, *texts):
        for t in texts:
            if t not in self.assumptions:
                self.assumptions.append(t)

    def note(self, t):
        self.notes.append(t)

    # -- output ----------------------------------------------------------------------------------------
    def write(self, n_unlisted, known_hit):
        # evidence/<id>.json describes runs against /repo only; a run against a scratch checkout (VERIF_REPO, used for
        # seeded changes) writes its report under .work instead
        evdir = common.EVID if common.REPO == "/repo" else os.path.join(common.WORK, "evidence-scratch")
        os.makedirs(evdir, exist_ok=True)
        cov = {
            "states": self.states,
            "transitions": self.transitions,
            "traces_validated_against_impl": self.replayed + self.traces,
            "samples": self.samples or ["(no sample recorded)"],
            "evaluations": self.evaluations,
            "distinct_nontrivial": self.nontrivial,
            "rule": " | ".join(self.rules) or "see tlc_runs / replay",
            "tlc_runs": self.tlc,
            "known_findings_matched": known_hit,
            "notes": self.notes,
        }
        try:
            import armi

            cov["armi_path"] = os.path.dirname(armi.__file__)
        except Exception:
            pass
        if self.exhaustive is not None:
            cov["exhaustive"] = self.exhaustive
        cov.update(self.extra)
        ev = {
            "property_id": self.pid,
            "tier": self.tier,
            "seed": self.seed,
            "level": "model_checking",
            "coverage": cov,
            "assumptions": self.assumptions,
            "wall_s": round(time.time() - self.t0, 2),
            "violations": n_unlisted,
        }
        with open(os.path.join(evdir, self.pid + ".json"), "w") as f:
            json.dump(ev, f, indent=1, default=str)
            f.write("\n")
