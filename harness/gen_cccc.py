"""C09 helpers: value pools, call-logging record classes, independent frame parsers, executors for the cases
printed by spec/cccc/CcccRecord*.cfg (one record stream per case) and spec/cccc/CcccFormats*.cfg (one file per case).

Nothing here decides what is *expected*: sizes, frame counts, record sequences, field kinds and the container
manifest all come from the JSON TLC printed.  This module builds inputs, runs the real code, measures, compares.
"""
import contextlib
import io
import itertools
import random
import re
import struct

import numpy as np

F32_RTOL = 2.0 ** -24  # "reals to the precision of the format": IEEE single keeps 24 significant bits
INT_FMT, LONG_FMT, FLT_FMT, DBL_FMT = "i", "q", "f", "d"
ASC_INT, ASC_FLT = 11, 24


def cccc_mod():
    from armi.nuclearDataIO.cccc import cccc

    return cccc


# ------------------------------------------------------------------------------------------------------------
# value pools (inputs only).  "typ" values stay inside every encoding's comfortable range: |int| < 1e9,
# reals float32-exact with two-digit decimal exponents; the extremes live in the spec's value classes.
# ------------------------------------------------------------------------------------------------------------
class Pool:
    def __init__(self, seed):
        self.r = random.Random(seed)

    def int(self, dom="i32"):
        if dom == "small":
            return self.r.randrange(1, 9)
        v = self.r.choice([1, -1]) * self.r.randrange(1000, 99999999)
        return v

    def long(self):
        return self.r.randrange(1000, 1 << 40)

    def f32(self):
        # m * 2^e, |m| < 2^12: exact in IEEE single and double, decimal exponent within +-12
        m = self.r.randrange(1, 4096) * self.r.choice([1, -1])
        return float(m) * 2.0 ** self.r.randrange(-20, 21)

    def dbl(self):
        if self.r.random() < 0.5:
            return self.f32()
        return self.r.uniform(-1, 1) * 10.0 ** self.r.randrange(-30, 31)

    def string(self, w):
        if w == 0:
            return ""
        n = self.r.randrange(0, w + 1)
        if n == 0:
            return ""
        alpha = "ABCDEFGHIJKLMNOPQRSTUVWXYZ"  # no digits: a text field must never parse as a frame count
        s = "".join(self.r.choice(alpha + " ") for _ in range(n - 1)) + self.r.choice(alpha)  # no trailing blank
        return s

    def scalar(self, k, w=0, dom="i32"):
        if k == "int":
            return self.int(dom)
        if k == "bool":
            return self.r.random() < 0.5
        if k == "long":
            return self.long()
        if k == "float":
            return self.f32()
        if k == "double":
            return self.dbl()
        if k == "string":
            return self.string(w)
        raise ValueError(k)


def class_value(f):
    """Concrete value of a spec value class (CcccRecord.tla Values)."""
    k, val = f["k"], f["val"]
    if k in ("int", "long"):
        return int(val)
    if k == "bool":
        return val == "True"
    if k in ("float", "double"):
        return float(val)
    if f["vc"] == "full":
        return (val * (f["w"] // max(1, len(val)) + 1))[: f["w"]]
    return val[: f["w"]]


# ------------------------------------------------------------------------------------------------------------
# call-logging record classes (instrumentation by subclassing; the rw* bodies are armi's own)
# ------------------------------------------------------------------------------------------------------------
class CallLog:
    def __init__(self):
        self.records = []
        self.cur = None

    def begin(self):
        self.cur = []
        self.records.append(self.cur)

    def add(self, k, w=0):
        if self.cur is None:
            self.begin()
        if self.cur and self.cur[-1]["k"] == k and self.cur[-1]["w"] == w:
            self.cur[-1]["n"] += 1
        else:
            self.cur.append({"k": k, "w": w, "n": 1})


_LOG = None
_CLASSES = None


def logging_classes():
    """Subclasses of the four record classes that log every scalar rw call (run-length encoded) per record."""
    global _CLASSES
    if _CLASSES is not None:
        return _CLASSES
    cccc = cccc_mod()

    def make(base):
        class Logged(base):
            _quiet = 0

            def open(self):
                self._quiet += 1
                try:
                    r = base.open(self)
                finally:
                    self._quiet -= 1
                if _LOG is not None:
                    _LOG.begin()
                return r

            def close(self):
                self._quiet += 1
                try:
                    return base.close(self)
                finally:
                    self._quiet -= 1

            def _note(self, k, w=0):
                if not self._quiet and _LOG is not None:
                    _LOG.add(k, w)

            def rwInt(self, val):
                r = base.rwInt(self, val)
                self._note("int")
                return r

            def rwFloat(self, val):
                r = base.rwFloat(self, val)
                self._note("float")
                return r

            def rwDouble(self, val):
                self._quiet += 1  # AsciiRecordReader.rwDouble is rwFloat underneath
                try:
                    r = base.rwDouble(self, val)
                finally:
                    self._quiet -= 1
                self._note("double")
                return r

            def rwString(self, val, length):
                r = base.rwString(self, val, length)
                self._note("string", int(length))
                return r

        if hasattr(base, "rwLong"):

            def rwLong(self, val):
                r = base.rwLong(self, val)
                self._note("long")
                return r

            Logged.rwLong = rwLong
        Logged.__name__ = "Logged" + base.__name__
        return Logged

    _CLASSES = {
        "rb": make(cccc.BinaryRecordReader),
        "wb": make(cccc.BinaryRecordWriter),
        "r": make(cccc.AsciiRecordReader),
        "w": make(cccc.AsciiRecordWriter),
    }
    return _CLASSES


@contextlib.contextmanager
def logged_streams():
    """Route cccc.Stream.createRecord through the logging classes; yields the CallLog."""
    global _LOG
    cccc = cccc_mod()
    saved = cccc.Stream._fileModes
    cccc.Stream._fileModes = dict(logging_classes())
    _LOG = CallLog()
    try:
        yield _LOG
    finally:
        cccc.Stream._fileModes = saved
        _LOG = None


@contextlib.contextmanager
def logged_records():
    global _LOG
    _LOG = CallLog()
    try:
        yield _LOG
    finally:
        _LOG = None


# ------------------------------------------------------------------------------------------------------------
# independent frame parsers
# ------------------------------------------------------------------------------------------------------------
def bin_frames(buf):
    """Walk a binary stream frame by frame.  Returns (frames, problem): frames = [(head, payload_len, tail)].
    The walk trusts `head` only to find the tail; a stream whose heads are wrong ends with a problem string."""
    out, p, n = [], 0, len(buf)
    while p < n:
        if p + 4 > n:
            return out, "truncated head at byte %d" % p
        (head,) = struct.unpack_from(INT_FMT, buf, p)
        if head < 0 or p + 8 + head > n:
            return out, "head %d at byte %d runs past the end of the stream (%d bytes)" % (head, p, n)
        (tail,) = struct.unpack_from(INT_FMT, buf, p + 4 + head)
        out.append((head, head, tail))
        if tail != head:
            return out, "record %d: head %d != tail %d" % (len(out), head, tail)
        p += 8 + head
    return out, None


def asc_frames(text):
    """ASCII stream: one record per line: head(11) payload tail(11).  Returns [(head, payload_chars, tail)]."""
    out = []
    lines = text.split("\n")
    if lines and lines[-1] == "":
        lines.pop()
    else:
        return out, "stream does not end with a newline"
    for i, ln in enumerate(lines):
        if len(ln) < 2 * ASC_INT:
            return out, "record %d: line of %d characters" % (i + 1, len(ln))
        try:
            head, tail = int(ln[:ASC_INT]), int(ln[-ASC_INT:])
        except ValueError:
            return out, "record %d: frame counts not parseable: %r ... %r" % (i + 1, ln[:ASC_INT], ln[-ASC_INT:])
        out.append((head, len(ln) - 2 * ASC_INT, tail))
    return out, None


WIDE_INT = re.compile(r"[+-]\d{10,}")
WIDE_EXP = re.compile(r"E[+-]\d{3,}|NAN|INF", re.I)


def ascii_width_class(text):
    """Which fixed-width rule an ASCII stream breaks, judged from the text alone (None if it breaks none)."""
    if WIDE_EXP.search(text):
        return "real-exponent-3-digits"
    if WIDE_INT.search(text):
        return "int-10-digits"
    return None


# ------------------------------------------------------------------------------------------------------------
# record layer: execute one case of CcccRecord on the real writers / readers
# ------------------------------------------------------------------------------------------------------------
def _field_values(f, pool):
    if f["vc"] != "typ":
        return [class_value(f)] * f["n"]
    return [pool.scalar(f["k"], f["w"]) for _ in range(f["n"])]


def _write_field(rec, f, vals):
    k, c = f["k"], f["c"]
    if c == "s":
        v = vals[0]
        if k == "int":
            rec.rwInt(v)
        elif k == "bool":
            rec.rwBool(v)
        elif k == "long":
            rec.rwLong(v)
        elif k == "float":
            rec.rwFloat(v)
        elif k == "double":
            rec.rwDouble(v)
        else:
            rec.rwString(v, f["w"])
    elif c == "l":
        rec.rwList(list(vals), k, f["n"], f["w"])
    else:
        arr = _to_matrix(vals, f["sh"], k)
        {"float": rec.rwMatrix, "double": rec.rwDoubleMatrix, "int": rec.rwIntMatrix}[k](arr, *f["sh"])


def _to_matrix(vals, sh, k):
    """File order = itertools.product over sh (outermost first); container index = reversed file index."""
    fsh = tuple(reversed(sh))
    arr = np.zeros(fsh, dtype=(np.int64 if k == "int" else np.float64))
    for v, idx in zip(vals, itertools.product(*[range(n) for n in sh])):
        arr[tuple(reversed(idx))] = v
    return arr


def _read_field(rec, f, drop=0):
    """Returns the list of scalars read (in file order)."""
    k, c, n = f["k"], f["c"], f["n"] - drop
    if c == "s":
        if n <= 0:
            return []
        if k == "int":
            return [rec.rwInt(None)]
        if k == "bool":
            return [rec.rwBool(None)]
        if k == "long":
            return [rec.rwLong(None)]
        if k == "float":
            return [rec.rwFloat(None)]
        if k == "double":
            return [rec.rwDouble(None)]
        return [rec.rwString(None, f["w"])]
    if c == "l" or drop:
        return list(rec.rwList(None, k, n, f["w"]))
    arr = {"float": rec.rwMatrix, "double": rec.rwDoubleMatrix, "int": rec.rwIntMatrix}[k](None, *f["sh"])
    return [arr[tuple(reversed(idx))] for idx in itertools.product(*[range(m) for m in f["sh"]])]


def same_value(k, exact, enc, wrote, got):
    if k in ("int", "long"):
        return int(got) == int(wrote)
    if k == "bool":
        return bool(got) is bool(wrote)
    if k == "string":
        return str(got) == str(wrote)
    a, b = float(wrote), float(got)
    if a == b:
        return True
    if k == "float" and enc == "bin":
        if exact:
            return False
        return abs(a - b) <= F32_RTOL * abs(a)
    return False


def run_record_case(case, seed):
    """Write the case's records with the real writer, measure the stream, read it back with the real reader.
    Returns (observed, problems): observed mirrors the spec's Obs; problems = list of (key, text)."""
    cccc = cccc_mod()
    enc = case["enc"]
    pool = Pool(seed)
    L = logging_classes()
    W, R = (L["wb"], L["rb"]) if enc == "bin" else (L["w"], L["r"])
    stream = io.BytesIO() if enc == "bin" else io.StringIO()
    problems = []
    written = []
    with logged_records() as log:
        for rec in case["recs"]:
            vals = [_field_values(f, pool) for f in rec["fields"]]
            written.append(vals)
            try:
                with W(stream) as r:
                    for f, v in zip(rec["fields"], vals):
                        _write_field(r, f, v)
            except Exception as ex:  # noqa: BLE001 -- any refusal of a well-formed field is a finding
                kinds = "+".join(sorted({f["k"] for f in rec["fields"]}))
                return None, [("record:%s:write-raises:%s" % (enc, kinds), "writer raised %s: %s" % (type(ex).__name__, ex))]
        calls = [list(c) for c in log.records]
    buf = stream.getvalue()
    obs = {"enc": enc, "recs": []}
    # split the stream where the specification says the frames are
    off = 0
    for i, rec in enumerate(case["recs"]):
        piece = buf[off: off + rec["framelen"]]
        off += rec["framelen"]
        o = {"framelen": len(piece), "calls": calls[i] if i < len(calls) else None}
        try:
            if enc == "bin":
                o["head"] = struct.unpack_from(INT_FMT, piece, 0)[0]
                o["tail"] = struct.unpack_from(INT_FMT, piece, len(piece) - 4)[0]
                o["len"] = len(piece) - 8
            else:
                o["head"], o["tail"] = int(piece[:ASC_INT]), int(piece[-ASC_INT - 1: -1])
                o["len"] = len(piece) - 2 * ASC_INT - 1
                o["newline"] = piece[-1:] == "\n"
        except (ValueError, struct.error) as ex:
            o["head"] = o["tail"] = "unparseable: %s" % ex
        obs["recs"].append(o)
    obs["streamlen"] = len(buf)
    obs["width_class"] = ascii_width_class(buf) if enc == "asc" else None
    # read back with the real reader: the writer's own call sequence, one scalar fewer, one int more
    for variant in ("same", "short", "long"):
        want = case[variant]
        if want == "skip":
            obs[variant] = "skip"
            continue
        stream.seek(0)
        outcome, got_all = "ok", []
        try:
            for i, rec in enumerate(case["recs"]):
                last = i == len(case["recs"]) - 1
                fs = rec["fields"]
                dropi = None
                if variant == "short" and last:
                    sized = [j for j, f in enumerate(fs) if f["n"] > 0 and f["bytes"] > 0]
                    dropi = sized[-1]
                with R(stream) as r:
                    got = []
                    for j, f in enumerate(fs):
                        got.append(_read_field(r, f, drop=1 if j == dropi else 0))
                    if variant == "long" and last:
                        r.rwInt(None)
                    got_all.append(got)
        except Exception as ex:  # noqa: BLE001 -- the reader refuses: BufferError / ValueError / struct.error
            outcome = "error"
            obs[variant + "_exc"] = "%s: %s" % (type(ex).__name__, str(ex)[:200])
        obs[variant] = outcome
        if variant == "same" and outcome == "ok":
            for i, rec in enumerate(case["recs"]):
                for f, wv, gv in zip(rec["fields"], written[i], got_all[i]):
                    if len(wv) != len(gv) or not all(same_value(f["k"], f["exact"], enc, a, b) for a, b in zip(wv, gv)):
                        problems.append(("record:%s:readback:%s:%s" % (enc, f["k"], f["vc"]),
                                         "%s field (%s) written %r read back %r" % (f["k"], f["vc"], wv[:4], list(gv)[:4])))
    return obs, problems


# ------------------------------------------------------------------------------------------------------------
# record layer, code -> spec: random long histories on the real writers, logged event by event
# ------------------------------------------------------------------------------------------------------------
def random_field(r, enc):
    kinds = ["int", "bool", "float", "double", "string"] + (["long"] if enc == "bin" else [])
    c = r.choice("ssslm")
    if c == "s":
        k = r.choice(kinds)
        return {"k": k, "c": "s", "n": 1, "w": r.randrange(0, 31) if k == "string" else 0, "sh": []}
    if c == "l":
        k = r.choice(["int", "float", "double", "string"])
        n = r.randrange(0, 7)
        return {"k": k, "c": "l", "n": n, "w": r.randrange(1, 13) if k == "string" else 0, "sh": [n]}
    k = r.choice(["int", "float", "double"])
    sh = [r.randrange(0, 4) for _ in range(r.randrange(1, 4))]
    n = 1
    for x in sh:
        n *= x
    return {"k": k, "c": "m", "n": n, "w": 0, "sh": sh}


_RW_NAME = {"int": "RwInt", "bool": "RwBool", "long": "RwLong", "float": "RwFloat", "double": "RwDouble", "string": "RwString"}


def record_traces(ntraces, maxrecs, maxfields, seed):
    cccc = cccc_mod()
    r = random.Random(seed * 104729 + 7)
    traces = []
    for t in range(ntraces):
        enc = "bin" if t % 2 == 0 else "asc"
        W = cccc.BinaryRecordWriter if enc == "bin" else cccc.AsciiRecordWriter
        stream = io.BytesIO() if enc == "bin" else io.StringIO()
        pool = Pool(r.randrange(1 << 30))
        ev = []
        for _ in range(r.randrange(1, maxrecs + 1)):
            start = len(stream.getvalue())
            rec = W(stream)
            rec.open()
            ev.append({"a": {"n0": "Open"}, "post": {"numBytes": rec.numBytes, "payload": sum(len(x) for x in rec.data)}})
            for _ in range(r.randrange(0, maxfields + 1)):
                f = random_field(r, enc)
                f["vc"] = "typ"
                vals = _field_values(f, pool)
                _write_field(rec, f, vals)
                a = {"n0": _RW_NAME[f["k"]] if f["c"] == "s" else ("RwList" if f["c"] == "l" else "RwMatrix"),
                     "k": f["k"], "c": f["c"], "n": f["n"], "w": f["w"], "sh": f["sh"]}
                ev.append({"a": a, "post": {"numBytes": rec.numBytes, "payload": sum(len(x) for x in rec.data)}})
            rec.close()
            piece = stream.getvalue()[start:]
            if enc == "bin":
                post = {"head": struct.unpack_from(INT_FMT, piece, 0)[0], "len": len(piece) - 8,
                        "tail": struct.unpack_from(INT_FMT, piece, len(piece) - 4)[0]}
            else:
                post = {"head": int(piece[:ASC_INT]), "len": len(piece) - 2 * ASC_INT - 1, "tail": int(piece[-ASC_INT - 1: -1])}
            ev.append({"a": {"n0": "Close"}, "post": post})
        traces.append({"id": "r%d" % t, "enc": enc, "ev": ev})
    return traces
