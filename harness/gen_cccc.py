"""C09 helpers: value pools, call-logging record classes, independent frame parsers, executors for the cases
printed by spec/cccc/CcccRecord*.cfg (one record stream per case) and spec/cccc/CcccFormats*.cfg (one file per case).

Nothing here decides what is *expected*: sizes, frame counts, record sequences, field kinds and the container
manifest all come from the JSON TLC printed.  This module builds inputs, runs the real code, measures, compares.
"""
import contextlib
import io
import itertools
import random
import re
import signal
import struct
import threading

import numpy as np

F32_RTOL = 2.0 ** -24  # "reals to the precision of the format": IEEE single keeps 24 significant bits
INT_FMT, LONG_FMT, FLT_FMT, DBL_FMT = "i", "q", "f", "d"
ASC_INT, ASC_FLT = 11, 24


class CaseTimeout(BaseException):
    """Raised by the watchdog inside the real code; a BaseException so that armi's `except Exception` cannot eat it."""


@contextlib.contextmanager
def watchdog(seconds):
    """Bound the time the real reader / writer may take on one case (a mutated loop bound must end in a verdict)."""
    if threading.current_thread() is not threading.main_thread() or not hasattr(signal, "setitimer"):
        yield
        return

    def handler(signum, frame):
        raise CaseTimeout()

    old = signal.signal(signal.SIGALRM, handler)
    signal.setitimer(signal.ITIMER_REAL, seconds)
    try:
        yield
    finally:
        signal.setitimer(signal.ITIMER_REAL, 0)
        signal.signal(signal.SIGALRM, old)


CASE_TIMEOUT = 10.0


def cccc_mod():
    from armi.nuclearDataIO.cccc import cccc

    return cccc


# ------------------------------------------------------------------------------------------------------------
# value pools (inputs only).  "typ" values stay inside every encoding's comfortable range: |int| < 1e9,
# reals float32-exact with two-digit decimal exponents; the extremes live in the spec's value classes.
# ------------------------------------------------------------------------------------------------------------
class Pool:
    def __init__(self, seed):
        self.r = random.Random(seed)

    def int(self, dom="i32"):
        if dom == "small":
            return self.r.randrange(1, 9)
        v = self.r.choice([1, -1]) * self.r.randrange(1000, 99999999)
        return v

    def long(self):
        return self.r.randrange(1000, 1 << 40)

    def f32(self):
        # m * 2^e, |m| < 2^12: exact in IEEE single and double, decimal exponent within +-12
        m = self.r.randrange(1, 4096) * self.r.choice([1, -1])
        return float(m) * 2.0 ** self.r.randrange(-20, 21)

    def dbl(self):
        if self.r.random() < 0.5:
            return self.f32()
        return self.r.uniform(-1, 1) * 10.0 ** self.r.randrange(-30, 31)

    def string(self, w):
        if w == 0:
            return ""
        n = self.r.randrange(0, w + 1)
        if n == 0:
            return ""
        alpha = "ABCDEFGHIJKLMNOPQRSTUVWXYZ"  # no digits: a text field must never parse as a frame count
        s = "".join(self.r.choice(alpha + " ") for _ in range(n - 1)) + self.r.choice(alpha)  # no trailing blank
        return s

    def scalar(self, k, w=0, dom="i32"):
        if k == "int":
            return self.int(dom)
        if k == "bool":
            return self.r.random() < 0.5
        if k == "long":
            return self.long()
        if k == "float":
            return self.f32()
        if k == "double":
            return self.dbl()
        if k == "string":
            return self.string(w)
        raise ValueError(k)


def class_value(f):
    """Concrete value of a spec value class (CcccRecord.tla Values)."""
    k, val = f["k"], f["val"]
    if k in ("int", "long"):
        return int(val)
    if k == "bool":
        return val == "True"
    if k in ("float", "double"):
        return float(val)
    if f["vc"] == "full":
        return (val * (f["w"] // max(1, len(val)) + 1))[: f["w"]]
    return val[: f["w"]]


# ------------------------------------------------------------------------------------------------------------
# call-logging record classes (instrumentation by subclassing; the rw* bodies are armi's own)
# ------------------------------------------------------------------------------------------------------------
class CallLog:
    def __init__(self):
        self.records = []
        self.cur = None

    def begin(self):
        self.cur = []
        self.records.append(self.cur)

    def add(self, k, w=0):
        if self.cur is None:
            self.begin()
        if self.cur and self.cur[-1]["k"] == k and self.cur[-1]["w"] == w:
            self.cur[-1]["n"] += 1
        else:
            self.cur.append({"k": k, "w": w, "n": 1})


_LOG = None
_CLASSES = None


def logging_classes():
    """Subclasses of the four record classes that log every scalar rw call (run-length encoded) per record."""
    global _CLASSES
    if _CLASSES is not None:
        return _CLASSES
    cccc = cccc_mod()

    def make(base):
        class Logged(base):
            _quiet = 0

            def open(self):
                self._quiet += 1
                try:
                    r = base.open(self)
                finally:
                    self._quiet -= 1
                if _LOG is not None:
                    _LOG.begin()
                return r

            def close(self):
                self._quiet += 1
                try:
                    return base.close(self)
                finally:
                    self._quiet -= 1

            def _note(self, k, w=0):
                if not self._quiet and _LOG is not None:
                    _LOG.add(k, w)

            def rwInt(self, val):
                r = base.rwInt(self, val)
                self._note("int")
                return r

            def rwFloat(self, val):
                r = base.rwFloat(self, val)
                self._note("float")
                return r

            def rwDouble(self, val):
                self._quiet += 1  # AsciiRecordReader.rwDouble is rwFloat underneath
                try:
                    r = base.rwDouble(self, val)
                finally:
                    self._quiet -= 1
                self._note("double")
                return r

            def rwString(self, val, length):
                r = base.rwString(self, val, length)
                self._note("string", int(length))
                return r

        if hasattr(base, "rwLong"):

            def rwLong(self, val):
                r = base.rwLong(self, val)
                self._note("long")
                return r

            Logged.rwLong = rwLong
        Logged.__name__ = "Logged" + base.__name__
        return Logged

    _CLASSES = {
        "rb": make(cccc.BinaryRecordReader),
        "wb": make(cccc.BinaryRecordWriter),
        "r": make(cccc.AsciiRecordReader),
        "w": make(cccc.AsciiRecordWriter),
    }
    return _CLASSES


@contextlib.contextmanager
def logged_streams():
    """Route cccc.Stream.createRecord through the logging classes; yields the CallLog."""
    global _LOG
    cccc = cccc_mod()
    saved = cccc.Stream._fileModes
    cccc.Stream._fileModes = dict(logging_classes())
    _LOG = CallLog()
    try:
        yield _LOG
    finally:
        cccc.Stream._fileModes = saved
        _LOG = None


@contextlib.contextmanager
def logged_records():
    global _LOG
    _LOG = CallLog()
    try:
        yield _LOG
    finally:
        _LOG = None


# ------------------------------------------------------------------------------------------------------------
# independent frame parsers
# ------------------------------------------------------------------------------------------------------------
def bin_frames(buf):
    """Walk a binary stream frame by frame.  Returns (frames, problem): frames = [(head, payload_len, tail)].
    The walk trusts `head` only to find the tail; a stream whose heads are wrong ends with a problem string."""
    out, p, n = [], 0, len(buf)
    while p < n:
        if p + 4 > n:
            return out, "truncated head at byte %d" % p
        (head,) = struct.unpack_from(INT_FMT, buf, p)
        if head < 0 or p + 8 + head > n:
            return out, "head %d at byte %d runs past the end of the stream (%d bytes)" % (head, p, n)
        (tail,) = struct.unpack_from(INT_FMT, buf, p + 4 + head)
        out.append((head, head, tail))
        if tail != head:
            return out, "record %d: head %d != tail %d" % (len(out), head, tail)
        p += 8 + head
    return out, None


def asc_frames(text):
    """ASCII stream: one record per line: head(11) payload tail(11).  Returns [(head, payload_chars, tail)]."""
    out = []
    lines = text.split("\n")
    if lines and lines[-1] == "":
        lines.pop()
    else:
        return out, "stream does not end with a newline"
    for i, ln in enumerate(lines):
        if len(ln) < 2 * ASC_INT:
            return out, "record %d: line of %d characters" % (i + 1, len(ln))
        try:
            head, tail = int(ln[:ASC_INT]), int(ln[-ASC_INT:])
        except ValueError:
            return out, "record %d: frame counts not parseable: %r ... %r" % (i + 1, ln[:ASC_INT], ln[-ASC_INT:])
        out.append((head, len(ln) - 2 * ASC_INT, tail))
    return out, None


WIDE_INT = re.compile(r"[+-]\d{10,}")
WIDE_EXP = re.compile(r"E[+-]\d{3,}|NAN|INF", re.I)


def ascii_width_class(text):
    """Which fixed-width rule an ASCII stream breaks, judged from the text alone (None if it breaks none)."""
    if WIDE_EXP.search(text):
        return "real-exponent-3-digits"
    if WIDE_INT.search(text):
        return "int-10-digits"
    return None


# ------------------------------------------------------------------------------------------------------------
# record layer: execute one case of CcccRecord on the real writers / readers
# ------------------------------------------------------------------------------------------------------------
def _field_values(f, pool):
    if f["vc"] != "typ":
        return [class_value(f)] * f["n"]
    return [pool.scalar(f["k"], f["w"]) for _ in range(f["n"])]


def _write_field(rec, f, vals):
    k, c = f["k"], f["c"]
    if c == "s":
        v = vals[0]
        if k == "int":
            rec.rwInt(v)
        elif k == "bool":
            rec.rwBool(v)
        elif k == "long":
            rec.rwLong(v)
        elif k == "float":
            rec.rwFloat(v)
        elif k == "double":
            rec.rwDouble(v)
        else:
            rec.rwString(v, f["w"])
    elif c == "l":
        rec.rwList(list(vals), k, f["n"], f["w"])
    else:
        arr = _to_matrix(vals, f["sh"], k)
        {"float": rec.rwMatrix, "double": rec.rwDoubleMatrix, "int": rec.rwIntMatrix}[k](arr, *f["sh"])


def _to_matrix(vals, sh, k):
    """File order = itertools.product over sh (outermost first); container index = reversed file index."""
    fsh = tuple(reversed(sh))
    arr = np.zeros(fsh, dtype=(np.int64 if k == "int" else np.float64))
    for v, idx in zip(vals, itertools.product(*[range(n) for n in sh])):
        arr[tuple(reversed(idx))] = v
    return arr


def _read_field(rec, f, drop=0):
    """Returns the list of scalars read (in file order)."""
    k, c, n = f["k"], f["c"], f["n"] - drop
    if c == "s":
        if n <= 0:
            return []
        if k == "int":
            return [rec.rwInt(None)]
        if k == "bool":
            return [rec.rwBool(None)]
        if k == "long":
            return [rec.rwLong(None)]
        if k == "float":
            return [rec.rwFloat(None)]
        if k == "double":
            return [rec.rwDouble(None)]
        return [rec.rwString(None, f["w"])]
    if c == "l" or drop:
        return list(rec.rwList(None, k, n, f["w"]))
    arr = {"float": rec.rwMatrix, "double": rec.rwDoubleMatrix, "int": rec.rwIntMatrix}[k](None, *f["sh"])
    return [arr[tuple(reversed(idx))] for idx in itertools.product(*[range(m) for m in f["sh"]])]


def same_value(k, exact, enc, wrote, got):
    if k in ("int", "long"):
        return int(got) == int(wrote)
    if k == "bool":
        return bool(got) is bool(wrote)
    if k == "string":
        return str(got) == str(wrote)
    a, b = float(wrote), float(got)
    if a == b:
        return True
    if k == "float" and enc == "bin":
        if exact:
            return False
        return abs(a - b) <= F32_RTOL * abs(a)
    return False


def run_record_case(case, seed):
    """Write the case's records with the real writer, measure the stream, read it back with the real reader.
    Returns (observed, problems): observed mirrors the spec's Obs; problems = list of (key, text)."""
    cccc = cccc_mod()
    enc = case["enc"]
    pool = Pool(seed)
    L = logging_classes()
    W, R = (L["wb"], L["rb"]) if enc == "bin" else (L["w"], L["r"])
    stream = io.BytesIO() if enc == "bin" else io.StringIO()
    problems = []
    written = []
    with logged_records() as log:
        for rec in case["recs"]:
            vals = [_field_values(f, pool) for f in rec["fields"]]
            written.append(vals)
            try:
                with W(stream) as r:
                    for f, v in zip(rec["fields"], vals):
                        _write_field(r, f, v)
            except Exception as ex:  # noqa: BLE001 -- any refusal of a well-formed field is a finding
                kinds = "+".join(sorted({f["k"] for f in rec["fields"]}))
                return None, [("record:%s:write-raises:%s" % (enc, kinds), "writer raised %s: %s" % (type(ex).__name__, ex))]
        calls = [list(c) for c in log.records]
    buf = stream.getvalue()
    obs = {"enc": enc, "recs": []}
    # split the stream where the specification says the frames are
    off = 0
    for i, rec in enumerate(case["recs"]):
        piece = buf[off: off + rec["framelen"]]
        off += rec["framelen"]
        o = {"framelen": len(piece), "calls": calls[i] if i < len(calls) else None}
        try:
            if len(piece) < (8 if enc == "bin" else 2 * ASC_INT + 1):
                raise ValueError("truncated: %d of %d %s on the stream" % (len(piece), rec["framelen"], "bytes" if enc == "bin" else "characters"))
            if enc == "bin":
                o["head"] = struct.unpack_from(INT_FMT, piece, 0)[0]
                o["tail"] = struct.unpack_from(INT_FMT, piece, len(piece) - 4)[0]
                o["len"] = len(piece) - 8
            else:
                o["head"], o["tail"] = int(piece[:ASC_INT]), int(piece[-ASC_INT - 1: -1])
                o["len"] = len(piece) - 2 * ASC_INT - 1
                o["newline"] = piece[-1:] == "\n"
        except (ValueError, struct.error) as ex:
            o["head"] = o["tail"] = "unparseable: %s" % ex
        obs["recs"].append(o)
    obs["streamlen"] = len(buf)
    obs["width_class"] = ascii_width_class(buf) if enc == "asc" else None
    # read back with the real reader: the writer's own call sequence, one scalar fewer, one int more
    for variant in ("same", "short", "long"):
        want = case[variant]
        if want == "skip":
            obs[variant] = "skip"
            continue
        stream.seek(0)
        outcome, got_all = "ok", []
        try:
            for i, rec in enumerate(case["recs"]):
                last = i == len(case["recs"]) - 1
                fs = rec["fields"]
                dropi = None
                if variant == "short" and last:
                    sized = [j for j, f in enumerate(fs) if f["n"] > 0 and f["bytes"] > 0]
                    dropi = sized[-1]
                with R(stream) as r:
                    got = []
                    for j, f in enumerate(fs):
                        got.append(_read_field(r, f, drop=1 if j == dropi else 0))
                    if variant == "long" and last:
                        r.rwInt(None)
                    got_all.append(got)
        except Exception as ex:  # noqa: BLE001 -- the reader refuses: BufferError / ValueError / struct.error
            outcome = "error"
            obs[variant + "_exc"] = "%s: %s" % (type(ex).__name__, str(ex)[:200])
        obs[variant] = outcome
        if variant == "same" and outcome == "ok":
            for i, rec in enumerate(case["recs"]):
                for f, wv, gv in zip(rec["fields"], written[i], got_all[i]):
                    if len(wv) != len(gv) or not all(same_value(f["k"], f["exact"], enc, a, b) for a, b in zip(wv, gv)):
                        problems.append(("record:%s:readback:%s:%s" % (enc, f["k"], f["vc"]),
                                         "%s field (%s) written %r read back %r" % (f["k"], f["vc"], wv[:4], list(gv)[:4])))
    return obs, problems


# ------------------------------------------------------------------------------------------------------------
# record layer, code -> spec: random long histories on the real writers, logged event by event
# ------------------------------------------------------------------------------------------------------------
def random_field(r, enc):
    kinds = ["int", "bool", "float", "double", "string"] + (["long"] if enc == "bin" else [])
    c = r.choice("ssslm")
    if c == "s":
        k = r.choice(kinds)
        return {"k": k, "c": "s", "n": 1, "w": r.randrange(0, 31) if k == "string" else 0, "sh": []}
    if c == "l":
        k = r.choice(["int", "float", "double", "string"])
        n = r.randrange(0, 7)
        return {"k": k, "c": "l", "n": n, "w": r.randrange(1, 13) if k == "string" else 0, "sh": [n]}
    k = r.choice(["int", "float", "double"])
    sh = [r.randrange(0, 4) for _ in range(r.randrange(1, 4))]
    n = 1
    for x in sh:
        n *= x
    return {"k": k, "c": "m", "n": n, "w": 0, "sh": sh}


_RW_NAME = {"int": "RwInt", "bool": "RwBool", "long": "RwLong", "float": "RwFloat", "double": "RwDouble", "string": "RwString"}


def record_traces(ntraces, maxrecs, maxfields, seed):
    """Whatever the real writer does (raises, leaves a truncated frame), the history is logged and left to TLC to
    reject: a post-state of -1 can never match the specification."""
    cccc = cccc_mod()
    r = random.Random(seed * 104729 + 7)
    traces = []
    for t in range(ntraces):
        enc = "bin" if t % 2 == 0 else "asc"
        W = cccc.BinaryRecordWriter if enc == "bin" else cccc.AsciiRecordWriter
        stream = io.BytesIO() if enc == "bin" else io.StringIO()
        pool = Pool(r.randrange(1 << 30))
        ev = []
        broken = False
        for _ in range(r.randrange(1, maxrecs + 1)):
            if broken:
                break
            start = len(stream.getvalue())
            rec = W(stream)
            try:
                rec.open()
                ev.append({"a": {"n0": "Open"}, "post": {"numBytes": rec.numBytes, "payload": sum(len(x) for x in rec.data)}})
            except Exception:  # noqa: BLE001
                ev.append({"a": {"n0": "Open"}, "post": {"numBytes": -1, "payload": -1}})
                broken = True
                break
            for _ in range(r.randrange(0, maxfields + 1)):
                f = random_field(r, enc)
                f["vc"] = "typ"
                vals = _field_values(f, pool)
                a = {"n0": _RW_NAME[f["k"]] if f["c"] == "s" else ("RwList" if f["c"] == "l" else "RwMatrix"),
                     "k": f["k"], "c": f["c"], "n": f["n"], "w": f["w"], "sh": f["sh"]}
                try:
                    _write_field(rec, f, vals)
                    ev.append({"a": a, "post": {"numBytes": rec.numBytes, "payload": sum(len(x) for x in rec.data)}})
                except Exception:  # noqa: BLE001
                    ev.append({"a": a, "post": {"numBytes": -1, "payload": -1}})
                    broken = True
                    break
            if broken:
                break
            post = {"head": -1, "len": -1, "tail": -1}
            try:
                rec.close()
                piece = stream.getvalue()[start:]
                if enc == "bin" and len(piece) >= 8:
                    post = {"head": struct.unpack_from(INT_FMT, piece, 0)[0], "len": len(piece) - 8,
                            "tail": struct.unpack_from(INT_FMT, piece, len(piece) - 4)[0]}
                elif enc == "asc" and len(piece) >= 2 * ASC_INT + 1:
                    post = {"head": int(piece[:ASC_INT]), "len": len(piece) - 2 * ASC_INT - 1, "tail": int(piece[-ASC_INT - 1: -1])}
                else:
                    post = {"head": -1, "len": len(piece), "tail": -1}      # truncated frame
            except Exception:  # noqa: BLE001
                pass
            ev.append({"a": {"n0": "Close"}, "post": post})
            if post["head"] == -1:
                broken = True
        traces.append({"id": "r%d" % t, "enc": enc, "ev": ev})
    return traces


# ------------------------------------------------------------------------------------------------------------
# format layer: containers built from the manifest the specification printed
# ------------------------------------------------------------------------------------------------------------
NUC_LABELS = ["U235AA", "FE56AA"]
NUC_IDS = ["U235", "FE56"]
MCC3_IDS = ["U235_7", "PU2397"]
SCAT_ATTR = {100: "elasticScatter", 200: "inelasticScatter", 300: "n2nScatter", 0: "totalScatter"}


def _lit_ints(dom):
    s = dom[1:]
    return [int(x) for x in s.split(",")] if s else []


def _lit_pairs(dom):
    s = dom[1:]
    return [tuple(int(y) for y in x.split(",")) for x in s.split(";")] if s else []


def gen_value(e, pool, idx=0):
    """A value for one manifest entry (inputs only; the manifest says what kind, shape and domain)."""
    k, sh, w, dom = e["k"], e["sh"], e["w"], e["dom"]
    n = 1
    for x in sh:
        n *= x
    if dom == "fix":
        return bool(e["v"]) if k == "bool" else int(e["v"])
    if k in ("sparse", "sparse8"):
        dense = np.zeros(tuple(sh))
        for rc in _lit_pairs(dom):
            dense[rc] = pool.f32() if k == "sparse" else pool.dbl()
        return dense
    if k == "string":
        if dom.startswith("="):
            return dom[1:]

        def one(j):
            if dom == "nucid":
                return NUC_IDS[idx]
            if dom == "mcc3id":
                return MCC3_IDS[j]
            if dom == "strfull":
                return "".join(pool.r.choice("ABCDEFGHIJKLMNOPQRSTUVWXYZ") for _ in range(w))
            return pool.string(w)

        return one(0) if not sh else [one(j) for j in range(n)]
    if k == "int":
        if dom.startswith("="):
            vals = _lit_ints(dom)
        else:
            vals = [pool.int(dom) for _ in range(n)]
        return vals[0] if not sh else np.array(vals, dtype=np.int64).reshape(tuple(sh))
    vals = [(pool.f32() if k == "float" else pool.dbl()) for _ in range(n)]
    return vals[0] if not sh else np.array(vals, dtype=np.float64).reshape(tuple(sh))


def same_entry(e, enc, wrote, got):
    """None if the datum read back equals the datum written, else a short description."""
    k = e["k"]
    if got is None:
        return "read back None, written %s" % _brief(wrote)
    try:
        if k in ("sparse", "sparse8"):
            g = got.toarray() if hasattr(got, "toarray") else np.asarray(got)
            return None if g.shape == wrote.shape and np.array_equal(g, wrote) else "matrix differs: written %s read %s" % (_brief(wrote), _brief(g))
        if not e["sh"]:
            if k == "string":
                return None if str(got) == wrote else "written %r read %r" % (wrote, got)
            if k == "bool":
                return None if isinstance(got, (bool, np.bool_)) and bool(got) == wrote else "written %r read %r" % (wrote, got)
            if k == "int":
                return None if int(got) == wrote and float(got) == int(got) else "written %r read %r" % (wrote, got)
            return None if same_value(k, True, enc, wrote, got) else "written %r read %r" % (wrote, got)
        if k == "string":
            g = [str(x) for x in list(got)]
            return None if g == list(wrote) else "written %r read %r" % (wrote, g)
        g = np.asarray(got)
        wv = np.asarray(wrote)
        if g.size != wv.size:
            return "written %d values, read back %d" % (wv.size, g.size)
        if wv.size and g.shape != wv.shape:
            return "written shape %s, read back shape %s" % (wv.shape, g.shape)
        if not np.array_equal(g.astype(np.float64), wv.astype(np.float64)):
            return "written %s read %s" % (_brief(wv), _brief(g))
        return None
    except Exception as ex:  # noqa: BLE001
        return "not comparable: %s (%r)" % (ex, type(got))


def _brief(x):
    s = repr(x.tolist() if hasattr(x, "tolist") else x)
    return s if len(s) < 160 else s[:160] + "..."


class Adapter:
    """Per-format glue: create the container, resolve the manifest's paths, call the real reader / writer."""

    def __init__(self, case):
        self.case = case
        self.fmt = case["fmt"]
        self.h = case["h"]

    # ---- generic build / compare
    def build(self, seed):
        pool = Pool(seed)
        c = self.new()
        vals = {}
        for e in self.case["manifest"]:
            idx = int(e["p"].split(":")[1]) - 1 if e["p"].startswith(("nuc:", "reg:")) else 0
            v = gen_value(e, pool, idx)
            vals[e["p"]] = v
            self.set(c, e["p"], _copy(v), e)
        self.finish(c)
        return c, vals

    def compare(self, c2, vals, enc):
        """-> [(path, description)] for every datum that did not come back as written."""
        out = []
        for e in self.case["manifest"]:
            try:
                got = self.get(c2, e["p"], e)
            except Exception as ex:  # noqa: BLE001
                d = "not retrievable: %s: %s" % (type(ex).__name__, ex)
            else:
                d = same_entry(e, enc, vals[e["p"]], got)
            if d:
                out.append((e["p"], d))
        return out

    def finish(self, c):
        pass

    # ---- public entry points other than the prescribed stream (CcccFormats!EntriesOf)
    def entries(self):
        import importlib

        out = []
        for e in self.case.get("entries", []):
            mod = importlib.import_module("armi.nuclearDataIO.cccc." + e["mod"])
            if e["kind"] == "factory":
                try:
                    tgt = getattr(mod, e["fn"])(*[bool(a) for a in e["args"]])
                except Exception as ex:  # noqa: BLE001
                    out.append(("%s.%s" % (e["mod"], e["fn"]), ex, None))
                    continue
                name = "%s.%s" % (e["mod"], e["fn"])
            elif e["kind"] == "class":
                tgt, name = getattr(mod, e["fn"]), "%s.%s" % (e["mod"], e["fn"])
            else:
                tgt, name = mod, "%s.module-functions" % e["mod"]

            def rd(fn, enc, tgt=tgt):
                return (tgt.readBinary if enc == "bin" else tgt.readAscii)(fn)

            def wr(c, fn, enc, tgt=tgt):
                return (tgt.writeBinary if enc == "bin" else tgt.writeAscii)(c, fn)

            out.append((name, rd, wr))
        return out

    def _named_stream(self, module):
        return getattr(module, self.case["stream"]) if self.case.get("stream", "module") != "module" else None

    # ---- defaults for StreamWithDataContainer formats
    stream = None

    def new(self):
        return self.stream()._getDataContainer()

    def md(self, c):
        return c.metadata

    def set(self, c, p, v, e):
        root, _, key = p.partition(":")
        if root == "md":
            self.md(c)[key] = v
        elif root == "d":
            setattr(c, key, v)
        else:
            raise KeyError(p)

    def get(self, c, p, e):
        root, _, key = p.partition(":")
        if root == "md":
            return self.md(c)[key]
        if root == "d":
            return getattr(c, key)
        raise KeyError(p)

    def write(self, c, fn, enc):
        s = self.stream()
        (s.writeBinary if enc == "bin" else s.writeAscii)(c, fn)

    def read(self, fn, enc):
        s = self.stream()
        return (s.readBinary if enc == "bin" else s.readAscii)(fn)


def _copy(v):
    return v.copy() if isinstance(v, np.ndarray) else (list(v) if isinstance(v, list) else v)


class GeodstA(Adapter):
    def stream(self):
        from armi.nuclearDataIO.cccc import geodst

        return geodst.GeodstStream


class LabelsA(Adapter):
    def stream(self):
        from armi.nuclearDataIO.cccc import labels

        return labels.LabelsStream


class PwdintA(Adapter):
    def stream(self):
        from armi.nuclearDataIO.cccc import pwdint

        return pwdint.PwdintStream


class RzfluxA(Adapter):
    def stream(self):
        from armi.nuclearDataIO.cccc import rzflux

        return rzflux.RzfluxStream


class RtfluxA(Adapter):
    def stream(self):
        from armi.nuclearDataIO.cccc import rtflux

        return self._named_stream(rtflux)       # the class the specification prescribes (StreamOf), not the factory


class NhfluxA(Adapter):
    def stream(self):
        from armi.nuclearDataIO.cccc import nhflux

        return self._named_stream(nhflux)       # the class the specification prescribes (StreamOf), not the factory


class Dif3dA(Adapter):
    def stream(self):
        from armi.nuclearDataIO.cccc import dif3d

        return dif3d.Dif3dStream

    def set(self, c, p, v, e):
        root, _, key = p.partition(":")
        if root in ("twoD", "threeD", "fourD", "fiveD"):
            if getattr(c, root) is None:
                setattr(c, root, {})
            getattr(c, root)[key] = v
        else:
            Adapter.set(self, c, p, v, e)

    def get(self, c, p, e):
        root, _, key = p.partition(":")
        if root in ("twoD", "threeD", "fourD", "fiveD"):
            return getattr(c, root)[key]
        return Adapter.get(self, c, p, e)


class FixsrcA(Adapter):
    def new(self):
        return {}

    def set(self, c, p, v, e):
        c["arr"] = v

    def get(self, c, p, e):
        return c["arr"]

    def write(self, c, fn, enc):
        from armi.nuclearDataIO.cccc import fixsrc

        fixsrc.writeBinary(fn, c["arr"])

    def read(self, fn, enc):
        from armi.nuclearDataIO.cccc import fixsrc

        return {"arr": fixsrc.readBinary(fn)}


class _XsLibA(Adapter):
    """ISOTXS / GAMISO / PMATRX: an IsotxsLibrary of XSNuclides."""

    mdname = "isotxsMetadata"
    xsname = "micros"

    def new(self):
        from armi.nuclearDataIO import xsLibraries, xsNuclides

        lib = xsLibraries.IsotxsLibrary()
        for i in range(self.h["nNuc"]):
            lib[NUC_LABELS[i]] = xsNuclides.XSNuclide(lib, NUC_LABELS[i])
        return lib

    def md(self, c):
        return getattr(c, self.mdname)

    def _nuc(self, c, i):
        return c[c.nuclideLabels[i - 1]]

    def set(self, c, p, v, e):
        parts = p.split(":")
        if parts[0] == "md":
            self.md(c)[parts[1]] = v
        elif parts[0] == "lib":
            setattr(c, parts[1], v)
        elif parts[0] == "nuc":
            self.set_nuc(self._nuc(c, int(parts[1])), parts[2], parts[3], v, e)
        else:
            raise KeyError(p)

    def get(self, c, p, e):
        parts = p.split(":")
        if parts[0] == "md":
            return self.md(c)[parts[1]]
        if parts[0] == "lib":
            return getattr(c, parts[1])
        if parts[0] == "nuc":
            return self.get_nuc(self._nuc(c, int(parts[1])), parts[2], parts[3], e)
        raise KeyError(p)


class IsotxsA(_XsLibA):
    def iomod(self):
        from armi.nuclearDataIO.cccc import isotxs

        return isotxs

    def set_nuc(self, nuc, kind, key, v, e):
        from scipy import sparse

        md = getattr(nuc, self.mdname)
        xs = getattr(nuc, self.xsname)
        if kind == "md":
            if key in ("jband", "jj"):
                nsb, ng = e["sh"]
                flat = [int(x) for x in np.asarray(v).ravel()]
                md[key] = {(g, n): flat[n * ng + g] for n in range(nsb) for g in range(ng)}
            else:
                md[key] = v
        elif kind == "x":
            setattr(xs, key, v)
        elif kind == "scat":
            flag = int(md["scatFlag"][int(key)])
            setattr(xs, SCAT_ATTR[flag], sparse.csr_matrix(v))
        else:
            raise KeyError(kind)

    def get_nuc(self, nuc, kind, key, e):
        md = getattr(nuc, self.mdname)
        xs = getattr(nuc, self.xsname)
        if kind == "md":
            if key in ("jband", "jj"):
                nsb, ng = e["sh"]
                return np.array([md[key][(g, n)] for n in range(nsb) for g in range(ng)]).reshape(nsb, ng)
            return md[key]
        if kind == "x":
            return getattr(xs, key)
        if kind == "scat":
            flag = int(md["scatFlag"][int(key)])
            return getattr(xs, SCAT_ATTR[flag])
        raise KeyError(kind)

    def write(self, c, fn, enc):
        m = self.iomod()
        (m.writeBinary if enc == "bin" else m.writeAscii)(c, fn)

    def read(self, fn, enc):
        m = self.iomod()
        return (m.readBinary if enc == "bin" else m.readAscii)(fn)


class GamisoA(IsotxsA):
    mdname = "gamisoMetadata"
    xsname = "gammaXS"

    def iomod(self):
        from armi.nuclearDataIO.cccc import gamiso

        return gamiso


class PmatrxA(_XsLibA):
    mdname = "pmatrxMetadata"

    def set_nuc(self, nuc, kind, key, v, e):
        if kind == "md":
            if key == "activationXS":
                v = [np.array(row) for row in v]
            elif key in ("activationMT", "activationMTU"):
                v = [int(x) for x in v]
            nuc.pmatrxMetadata[key] = v
        elif kind == "a":
            setattr(nuc, key, v)
        elif kind == "prod":
            L = int(key)
            if L == 1:
                nuc.isotropicProduction = v
            elif L == 2:
                nuc.linearAnisotropicProduction = v
            else:
                nuc.nOrderProductionMatrix[L] = v
        else:
            raise KeyError(kind)

    def get_nuc(self, nuc, kind, key, e):
        if kind == "md":
            v = nuc.pmatrxMetadata[key]
            if key == "activationXS" and v is not None:
                return np.array([np.asarray(r) for r in v])
            return v
        if kind == "a":
            return getattr(nuc, key)
        L = int(key)
        if L == 1:
            return nuc.isotropicProduction
        if L == 2:
            return nuc.linearAnisotropicProduction
        return nuc.nOrderProductionMatrix.get(L)

    def write(self, c, fn, enc):
        from armi.nuclearDataIO.cccc import pmatrx

        (pmatrx.writeBinary if enc == "bin" else pmatrx.writeAscii)(c, fn)

    def read(self, fn, enc):
        from armi.nuclearDataIO.cccc import pmatrx

        return (pmatrx.readBinary if enc == "bin" else pmatrx.readAscii)(fn)


class DlayxsA(Adapter):
    def new(self):
        from armi.nucDirectory import nuclideBases
        from armi.nuclearDataIO.cccc import dlayxs

        d = dlayxs.Dlayxs()
        for i in range(self.h["nNuc"]):
            d[nuclideBases.byMcc3Id[MCC3_IDS[i]]] = dlayxs.DelayedNeutronData(self.h["G"], d.numPrecursorGroups)
        return d

    def _nuc(self, c, i):
        return list(c.keys())[i - 1]

    def set(self, c, p, v, e):
        parts = p.split(":")
        if parts[0] == "md":
            c.metadata[parts[1]] = np.array(v) if parts[1] in ("nuclideIDs", "dummy2") else v
        elif parts[0] == "lib":
            setattr(c, parts[1], v)
        elif parts[2] == "dnpf":
            c[self._nuc(c, int(parts[1]))].delayNeutronsPerFission[: v.shape[0], :] = v
        else:
            c.nuclideFamily[self._nuc(c, int(parts[1]))] = v

    def get(self, c, p, e):
        parts = p.split(":")
        if parts[0] == "md":
            return c.metadata[parts[1]]
        if parts[0] == "lib":
            return getattr(c, parts[1])
        if parts[2] == "dnpf":
            full = c[self._nuc(c, int(parts[1]))].delayNeutronsPerFission
            rest = full[e["sh"][0]:, :]
            if np.any(rest):
                return None
            return full[: e["sh"][0], :]
        return c.nuclideFamily[self._nuc(c, int(parts[1]))]

    def write(self, c, fn, enc):
        from armi.nuclearDataIO.cccc import dlayxs

        (dlayxs.writeBinary if enc == "bin" else dlayxs.writeAscii)(c, fn)

    def read(self, fn, enc):
        from armi.nuclearDataIO.cccc import dlayxs

        return (dlayxs.readBinary if enc == "bin" else dlayxs.readAscii)(fn)


class CompxsA(Adapter):
    def new(self):
        from armi.nuclearDataIO import xsLibraries

        return xsLibraries.CompxsLibrary()

    def build(self, seed):
        # regions can only be created once the file-level metadata exists (CompxsRegion reads it in __init__)
        from armi.nuclearDataIO.cccc import compxs

        pool = Pool(seed)
        c = self.new()
        vals = {}
        man = self.case["manifest"]
        for e in [e for e in man if not e["p"].startswith("reg:")]:
            v = gen_value(e, pool)
            vals[e["p"]] = v
            self.set(c, e["p"], _copy(v), e)
        for i in range(self.h["nComp"]):
            reg = compxs.CompxsRegion(c, i)
            reg.macros.higherOrderScatter = {}
        for e in [e for e in man if e["p"].startswith("reg:")]:
            v = gen_value(e, pool)
            vals[e["p"]] = v
            self.set(c, e["p"], _copy(v), e)
        return c, vals

    def set(self, c, p, v, e):
        from scipy import sparse

        parts = p.split(":")
        if parts[0] == "md":
            c.compxsMetadata[parts[1]] = v
        elif parts[0] == "lib":
            setattr(c, parts[1], v)
        else:
            reg = c.regions[int(parts[1]) - 1]
            kind, key = parts[2], parts[3]
            if kind == "md":
                if key == "numPrecursorsProduced":
                    for g in range(v.shape[0]):
                        reg.metadata[key, g] = v[g]
                elif key in ("chiFlag",):
                    reg.metadata[key] = v
                elif e["k"] == "double":
                    reg.metadata[key] = [float(x) for x in v]
                else:
                    reg.metadata[key] = v
            elif kind == "x":
                reg.macros[key] = v
            else:
                L = int(key)
                m = sparse.csc_matrix(v)
                if L == 0:
                    reg.macros.totalScatter = m
                else:
                    reg.macros.higherOrderScatter[L] = m

    def get(self, c, p, e):
        parts = p.split(":")
        if parts[0] == "md":
            return c.compxsMetadata[parts[1]]
        if parts[0] == "lib":
            return getattr(c, parts[1])
        reg = c.regions[int(parts[1]) - 1]
        kind, key = parts[2], parts[3]
        if kind == "md":
            if key == "numPrecursorsProduced":
                return np.array([reg.metadata[key, g] for g in range(e["sh"][0])])
            return reg.metadata[key]
        if kind == "x":
            return reg.macros[key]
        L = int(key)
        return reg.macros.totalScatter if L == 0 else reg.macros.higherOrderScatter.get(L)

    def write(self, c, fn, enc):
        from armi.nuclearDataIO.cccc import compxs

        (compxs.writeBinary if enc == "bin" else compxs.writeAscii)(c, fn)

    def read(self, fn, enc):
        from armi.nuclearDataIO.cccc import compxs

        return (compxs.readBinary if enc == "bin" else compxs.readAscii)(fn)


ADAPTERS = {"GEODST": GeodstA, "DIF3D": Dif3dA, "NHFLUX": NhfluxA, "LABELS": LabelsA, "PWDINT": PwdintA, "RTFLUX": RtfluxA,
            "RZFLUX": RzfluxA, "FIXSRC": FixsrcA, "ISOTXS": IsotxsA, "GAMISO": GamisoA, "PMATRX": PmatrxA, "DLAYXS": DlayxsA,
            "COMPXS": CompxsA}


# ------------------------------------------------------------------------------------------------------------
# format layer: one case = one header; write / measure / read / compare / re-write, in each encoding
# ------------------------------------------------------------------------------------------------------------
def _site(ex, fmt):
    """(function, exception type) of the failing call site.  isotxs / compxs / pmatrx re-raise as OSError and
    IORecord.__exit__ as BufferError from an except block, so the chain of causes is walked: the function is the
    innermost frame inside the format's own module on the innermost traceback that has such a frame, the type is
    the root exception's."""
    import traceback

    chain = [ex]
    while (chain[-1].__cause__ or chain[-1].__context__) is not None and len(chain) < 10:
        chain.append(chain[-1].__cause__ or chain[-1].__context__)
    name = None
    anyframe = None
    for e in chain:
        frames = [fr for fr in traceback.extract_tb(e.__traceback__) if "/nuclearDataIO/" in fr.filename]
        own = [fr.name for fr in frames if not fr.filename.endswith("/cccc/cccc.py")]
        if own:
            name = own[-1]
        if frames:
            anyframe = frames[-1].name
    et = type(chain[-1]).__name__
    last = traceback.extract_tb(chain[-1].__traceback__)
    if last and last[-1].filename.endswith("/cccc/cccc.py") and last[-1].name in (
            "open", "close", "rwInt", "rwLong", "rwFloat", "rwDouble", "rwString"):
        # the record reader itself stumbled (count mismatch, unparseable text, short read): which of these it is
        # depends on the bytes it happened to land on, so they are one class
        et = "misframed"
    return (name or anyframe or "?"), et


def _measure(fn, enc):
    if enc == "bin":
        with open(fn, "rb") as f:
            buf = f.read()
        fr, prob = bin_frames(buf)
        return buf, fr, prob
    with open(fn, "r", newline="") as f:
        text = f.read()
    fr, prob = asc_frames(text)
    return text, fr, prob


def _frames_diff(case, enc, frames, prob):
    """First difference between the measured frame sequence and the specification's record sequence."""
    recs = case["recs"]
    for i, r in enumerate(recs):
        if i >= len(frames):
            return recs[_backtrack(recs, i, enc)]["tag"], "record %d (%s) of %d is missing: the file has %d records%s" % (
                i + 1, r["tag"], len(recs), len(frames), "; " + prob if prob else "")
        head, plen, tail = frames[i]
        want_len = r["bytes"] if enc == "bin" else r["chars"]
        if head != r["bytes"] or tail != r["bytes"] or plen != want_len:
            tag = recs[_backtrack(recs, i, enc)]["tag"] if len(frames) != len(recs) else r["tag"]
            return tag, "record %d (%s): expected head=tail=%d payload=%d, file has head=%d tail=%d payload=%d (%d records, grammar %d)" % (
                i + 1, r["tag"], r["bytes"], want_len, head, tail, plen, len(frames), len(recs))
    if len(frames) > len(recs):
        return "extra", "file has %d records, the grammar %d" % (len(frames), len(recs))
    if prob:
        return "stream", prob
    return None


def _calls_diff(case, logrecs):
    recs = case["recs"]
    for i, r in enumerate(recs):
        if i >= len(logrecs):
            return r["tag"], "record %d (%s): no rw* calls recorded (only %d records)" % (i + 1, r["tag"], len(logrecs))
        if logrecs[i] != r["calls"]:
            return r["tag"], "record %d (%s): expected calls %s, observed %s" % (i + 1, r["tag"], json_short(r["calls"]), json_short(logrecs[i]))
    if len(logrecs) > len(recs):
        return "extra", "%d records opened, the grammar has %d" % (len(logrecs), len(recs))
    return None


def json_short(x):
    import json

    s = json.dumps(x, separators=(",", ":"))
    return s if len(s) < 240 else s[:240] + "..."


class Scratch:
    """Two scratch files for the writers.  Anonymous in-memory files (memfd) when the platform has them -- the real
    writers open a *path*, /proc/self/fd/N re-opens the memfd with truncation -- else files in the work directory."""

    def __init__(self, wd):
        import os

        self.fds = []
        self.paths = []
        for i in range(2):
            try:
                fd = os.memfd_create("c09-%d" % i)
                self.fds.append(fd)
                path = "/proc/self/fd/%d" % fd
                with open(path, "wb") as f:
                    f.write(b"x")
            except (AttributeError, OSError):
                path = os.path.join(wd, "scratch%d.cccc" % i)
            self.paths.append(path)

    def close(self):
        import os

        for fd in self.fds:
            try:
                os.close(fd)
            except OSError:
                pass


def _backtrack(recs, i, enc):
    """Records of equal size are indistinguishable on the wire: name the first of the equal-sized run."""
    key = "bytes" if enc == "bin" else "chars"
    while i > 0 and recs[i - 1][key] == recs[i][key] and recs[i - 1]["bytes"] == recs[i]["bytes"]:
        i -= 1
    return i


def _run_enc(case, ad, enc, seed, scratch, stages, add, calls):
    """All stages of one case in one encoding.  `add(stage, what, text)` records a divergence; stages[enc] tracks how
    far the case got.  Only the real reader / writer may raise here: their exceptions are verdicts; everything the
    harness does with their output is total (truncated or malformed output is measured, not trusted)."""
    fmt = case["fmt"]
    f1, f2 = scratch.paths
    c, vals = ad.build(seed)
    try:
        ad.write(c, f1, enc)
    except Exception as ex:  # noqa: BLE001
        site, et = _site(ex, fmt)
        add("write-raises", site + ":" + et, "writer raised %s in %s" % (et, site))
        return
    stages[enc] = "written"
    buf, frames, prob = _measure(f1, enc)
    d = _frames_diff(case, enc, frames, prob)
    if d:
        wc = ascii_width_class(buf) if enc == "asc" else None
        if wc:
            add(None, "ascii:width:" + wc, "%s ASCII: %s" % (fmt, d[1]))
        else:
            add("frames", d[0], d[1])
        return
    try:
        c2 = ad.read(f1, enc)
    except Exception as ex:  # noqa: BLE001
        site, et = _site(ex, fmt)
        add("read-raises", site + ":" + et, "reader raised %s in %s on the file the writer produced" % (et, site))
        return
    stages[enc] = "read"
    lost = set()
    for path, d in ad.compare(c2, vals, enc):
        what = re.sub(r":\d+:", ":", path)
        if what not in lost:
            lost.add(what)
            add("readback", what, "%s: %s" % (path, d))
    # a datum that does not come back is reported; the remaining stages still run on what was read
    try:
        ad.write(c2, f2, enc)
    except Exception as ex:  # noqa: BLE001
        site, et = _site(ex, fmt)
        add("rewrite-raises", site + ":" + et, "writing what was read raised %s in %s" % (et, site))
        return
    buf2 = _measure(f2, enc)[0]
    if buf2 != buf:
        pos = next((i for i, (a, b) in enumerate(zip(buf, buf2)) if a != b), min(len(buf), len(buf2)))
        add("rewrite-differs", "bytes", "writing what was read differs from the file at offset %d (lengths %d / %d)" % (pos, len(buf), len(buf2)))
        return
    stages[enc] = "rewritten"
    # every other public entry point for this (format, flags) must behave like the prescribed stream
    for ent in ad.entries():
        name = ent[0]
        if ent[2] is None:
            site, et = _site(ent[1], fmt)
            add("entry-raises", "%s:%s:%s" % (name, site, et), "%s raised %s" % (name, et))
            return
        _, rd, wr = ent
        try:
            ce = rd(f1, enc)
        except Exception as ex:  # noqa: BLE001
            site, et = _site(ex, fmt)
            add("entry-raises", "%s:read:%s:%s" % (name, site, et), "reading through %s raised %s in %s" % (name, et, site))
            return
        bad = ad.compare(ce, vals, enc)
        if bad:
            add("entry-readback", "%s:%s" % (name, re.sub(r":\d+:", ":", bad[0][0])),
                "read through %s instead of %s: %s: %s" % (name, case.get("stream"), bad[0][0], bad[0][1]))
            return
        c4, _ = ad.build(seed)
        try:
            wr(c4, f2, enc)
        except Exception as ex:  # noqa: BLE001
            site, et = _site(ex, fmt)
            add("entry-raises", "%s:write:%s:%s" % (name, site, et), "writing through %s raised %s in %s" % (name, et, site))
            return
        if _measure(f2, enc)[0] != buf:
            add("entry-write-differs", name, "the file written through %s differs from the one written through %s" % (name, case.get("stream")))
            return
    stages[enc] = "entries"
    if calls:
        # the same write and read again with call-logging records: field kinds and counts per record
        c3, _ = ad.build(seed)
        try:
            with logged_streams() as log:
                ad.write(c3, f2, enc)
        except Exception as ex:  # noqa: BLE001
            site, et = _site(ex, fmt)
            add("write-nondeterministic", "raises:" + site + ":" + et, "a second write of an equal container raised %s in %s" % (et, site))
            return
        if _measure(f2, enc)[0] != buf:
            add("write-nondeterministic", "bytes", "two writes of equal containers produced different files (uninitialised data written?)")
            return
        d = _calls_diff(case, log.records)
        if d:
            add("calls-write", d[0], d[1])
            return
        try:
            with logged_streams() as log:
                ad.read(f1, enc)
        except Exception as ex:  # noqa: BLE001
            site, et = _site(ex, fmt)
            add("read-nondeterministic", "raises:" + site + ":" + et, "a second read of the same file raised %s in %s" % (et, site))
            return
        d = _calls_diff(case, log.records)
        if d:
            add("calls-read", d[0], d[1])
            return
    stages[enc] = "complete"


def run_format_case(case, seed, scratch, calls=True):
    """-> list of (key, text, extra): the first divergence per encoding (read-back lists every lost datum).
    Keys: FMT:stage:what:class[:ascii-only]."""
    fmt = case["fmt"]
    cls = case.get("cls", "any")     # input class of the header (CcccFormats!ClassOf): part of every key
    try:
        ad = ADAPTERS[fmt](case)
        ad.build(seed)
    except Exception as ex:  # noqa: BLE001 -- nothing of the real reader/writer has run yet: a generator problem
        raise RuntimeError("generator could not build a %s container for %r: %s: %s" % (fmt, case["h"], type(ex).__name__, ex)) from ex
    out = []
    seen_bin = set()
    stages = {}
    for enc in case["encs"]:
        found = []
        stages[enc] = "build"

        def add(stage, what, text):
            key = what if stage is None else "%s:%s:%s:%s" % (fmt, stage, what, cls)
            found.append((key, "%s %s [%s]: %s" % (fmt, "binary" if enc == "bin" else "ASCII", cls, text)))

        try:
            with watchdog(CASE_TIMEOUT):
                _run_enc(case, ad, enc, seed, scratch, stages, add, calls)
        except CaseTimeout:
            add("timeout", "after-" + stages[enc], "the real code did not finish within %g s (stage after '%s')" % (CASE_TIMEOUT, stages[enc]))
        except (MemoryError, RecursionError) as ex:
            add("exhausted", "%s:after-%s" % (type(ex).__name__, stages[enc]), "the real code exhausted resources: %s" % type(ex).__name__)
        for key, text in found:
            if enc == "bin":
                seen_bin.add(key)
            elif key not in seen_bin and not key.startswith("ascii:"):
                key = key + ":ascii-only"
            out.append((key, text, {"enc": enc}))
    run_format_case.last_stages = stages
    return out


def isotxs_loca(case, seed, scratch):
    """The LOCA words the real writer put into the 2D record of a binary ISOTXS file (None if it cannot be written)."""
    ad = ADAPTERS[case["fmt"]](case)
    c, _ = ad.build(seed)
    try:
        ad.write(c, scratch.paths[0], "bin")
    except Exception:  # noqa: BLE001
        return None
    buf, frames, _ = _measure(scratch.paths[0], "bin")
    if len(frames) < 3:
        return None
    off = sum(8 + f[1] for f in frames[:2]) + 4
    n = case["h"]["nNuc"]
    end = off + frames[2][1]
    if frames[2][1] < 4 * n or end > len(buf):
        return None
    return list(struct.unpack_from("%di" % n, buf, end - 4 * n))


# ------------------------------------------------------------------------------------------------------------
# fixtures shipped with armi: read, re-write, byte-compare (directly and through the other encoding)
# ------------------------------------------------------------------------------------------------------------
def _io(fmt):
    from armi.nuclearDataIO.cccc import compxs, dif3d, dlayxs, gamiso, geodst, isotxs, labels, nhflux, pmatrx, pwdint, rtflux, rzflux

    mods = {"ISOTXS": isotxs, "GAMISO": gamiso, "PMATRX": pmatrx, "DLAYXS": dlayxs, "COMPXS": compxs}
    streams = {"GEODST": geodst.GeodstStream, "DIF3D": dif3d.Dif3dStream, "NHFLUX": nhflux.NhfluxStream,
               "NHFLUX-VARIANT": nhflux.NhfluxStreamVariant, "LABELS": labels.LabelsStream, "PWDINT": pwdint.PwdintStream,
               "RTFLUX": rtflux.RtfluxStream, "RZFLUX": rzflux.RzfluxStream}
    m = mods.get(fmt) or streams[fmt]

    def rd(fn, enc):
        return (m.readBinary if enc == "bin" else m.readAscii)(fn)

    def wr(d, fn, enc):
        return (m.writeBinary if enc == "bin" else m.writeAscii)(d, fn)

    return rd, wr


def fixtures(thorough):
    import os

    from harness import common

    root = os.path.join(common.REPO, "armi")
    c = os.path.join(root, "nuclearDataIO", "cccc", "tests", "fixtures")
    x = os.path.join(root, "nuclearDataIO", "tests", "fixtures")
    out = [
        dict(name="simple_hexz.geodst", path=os.path.join(c, "simple_hexz.geodst"), fmt="GEODST", enc="bin"),
        dict(name="simple_hexz.dif3d", path=os.path.join(c, "simple_hexz.dif3d"), fmt="DIF3D", enc="bin"),
        dict(name="simple_hexz.nhflux", path=os.path.join(c, "simple_hexz.nhflux"), fmt="NHFLUX", enc="bin"),
        dict(name="simple_hexz.nhflux.variant", path=os.path.join(c, "simple_hexz.nhflux.variant"), fmt="NHFLUX-VARIANT", enc="bin"),
        dict(name="labels.binary", path=os.path.join(c, "labels.binary"), fmt="LABELS", enc="bin"),
        dict(name="labels.ascii", path=os.path.join(c, "labels.ascii"), fmt="LABELS", enc="asc"),
        dict(name="simple_cartesian.pwdint", path=os.path.join(c, "simple_cartesian.pwdint"), fmt="PWDINT", enc="bin"),
        dict(name="simple_cartesian.rtflux", path=os.path.join(c, "simple_cartesian.rtflux"), fmt="RTFLUX", enc="bin"),
        dict(name="simple_cartesian.rzflux", path=os.path.join(c, "simple_cartesian.rzflux"), fmt="RZFLUX", enc="bin"),
        dict(name="mc2v3.dlayxs", path=os.path.join(c, "mc2v3.dlayxs"), fmt="DLAYXS", enc="bin"),
        dict(name="COMPXS.ascii", path=os.path.join(root, "tests", "COMPXS.ascii"), fmt="COMPXS", enc="asc"),
        dict(name="mc2v3-AA.isotxs", path=os.path.join(x, "mc2v3-AA.isotxs"), fmt="ISOTXS", enc="bin"),
        dict(name="mc2v3-AA.gamiso", path=os.path.join(x, "mc2v3-AA.gamiso"), fmt="GAMISO", enc="bin"),
        dict(name="mc2v3-AA.pmatrx", path=os.path.join(x, "mc2v3-AA.pmatrx"), fmt="PMATRX", enc="bin"),
        dict(name="tests/ISOAA", path=os.path.join(root, "tests", "ISOAA"), fmt="ISOTXS", enc="bin", mask=(4, 28)),
    ]
    if thorough:
        for f in sorted(os.listdir(x)):
            if f.startswith("mc2v3-AA"):
                continue
            fmt = "ISOTXS" if (f.endswith(".isotxs") or f.startswith("ISO")) else "GAMISO" if f.endswith(".gamiso") else "PMATRX" if f.endswith(".pmatrx") else None
            if fmt:
                out.append(dict(name=f, path=os.path.join(x, f), fmt=fmt, enc="bin"))
    return [f for f in out if os.path.exists(f["path"])]


def _content(fn, enc, mask=None):
    if enc == "bin":
        with open(fn, "rb") as f:
            b = f.read()
        if mask:
            b = b[: mask[0]] + b"\0" * (mask[1] - mask[0]) + b[mask[1]:]
        return b
    with open(fn, "r") as f:  # text mode, universal newlines
        return f.read()


def run_fixture(fx, scratch):
    """-> [(key, text)]"""
    rd, wr = _io(fx["fmt"])
    fmt = fx["fmt"].split("-")[0]
    enc, other = fx["enc"], ("asc" if fx["enc"] == "bin" else "bin")
    ref = _content(fx["path"], enc, fx.get("mask"))
    f1, f2 = scratch.paths
    out = []

    def raised(stage, ex, e):
        site, et = _site(ex, fmt)
        key = "fixture:%s:%s-raises:%s:%s%s" % (fx["name"], stage, site, et, ":ascii-only" if e == "asc" else "")
        out.append((key, "fixture %s: %s (%s) raised %s in %s" % (fx["name"], stage, "ASCII" if e == "asc" else "binary", et, site)))

    try:
        d = rd(fx["path"], enc)
    except Exception as ex:  # noqa: BLE001
        raised("read", ex, enc)
        return out
    try:
        wr(d, f1, enc)
    except Exception as ex:  # noqa: BLE001
        raised("write", ex, enc)
        return out
    if _content(f1, enc, fx.get("mask")) != ref:
        out.append(("fixture:%s:rewrite-differs" % fx["name"], "fixture %s: writing what was read does not reproduce the file" % fx["name"]))
    # through the other encoding and back
    try:
        wr(d, f2, other)
    except Exception as ex:  # noqa: BLE001
        raised("write", ex, other)
        return out
    try:
        d2 = rd(f2, other)
    except Exception as ex:  # noqa: BLE001
        wc = ascii_width_class(_content(f2, "asc")) if other == "asc" else None
        if wc:
            out.append(("ascii:width:" + wc, "fixture %s: its ASCII form cannot be read back: a value is wider than its fixed field (%s)" % (fx["name"], wc)))
        else:
            raised("read", ex, other)
        return out
    try:
        wr(d2, f1, enc)
    except Exception as ex:  # noqa: BLE001
        raised("rewrite", ex, enc)
        return out
    if _content(f1, enc, fx.get("mask")) != ref:
        out.append(("fixture:%s:via-%s-differs" % (fx["name"], other), "fixture %s: %s -> %s -> %s does not reproduce the file" % (fx["name"], enc, other, enc)))
    return out


# ------------------------------------------------------------------------------------------------------------
# worker processes: the real code runs in forked children, the parent only collects results.  A child that dies
# (SIGSEGV / SIGABRT from native code, os._exit, kill by the kernel) costs exactly the job it was working on -- that
# job's result is ("crash", <signal name>) -- and the remaining jobs of its lane continue in a fresh child.
# ------------------------------------------------------------------------------------------------------------
def _signame(code):
    if code is None:
        return "unknown"
    if code < 0:
        try:
            return signal.Signals(-code).name
        except ValueError:
            return "signal-%d" % -code
    return "exit-%d" % code


def _job_worker(conn, handler, jobs, idxs):
    import os
    import sys

    try:
        for i in idxs:
            conn.send(("start", i))
            try:
                r = ("ok", handler(jobs[i]))
            except BaseException as ex:  # noqa: BLE001 -- a harness problem inside the child: reported, never swallowed
                import traceback

                r = ("error", "%s: %s\n%s" % (type(ex).__name__, ex, traceback.format_exc()[-1500:]))
            conn.send(("done", i, r))
        conn.close()
    finally:
        sys.stdout.flush()
        os._exit(0)  # no atexit handlers of the parent (work-directory cleanup) in the child


def run_jobs(jobs, handler, nworkers=3, crash_class=None, crash_cap=3):
    """Run handler(job) for every job in forked children (`nworkers` lanes, jobs dealt round-robin, each lane in order).
    Returns a list aligned with jobs: ("ok", result) | ("error", text) | ("crash", signal) | ("skipped", why)."""
    import collections
    import multiprocessing as mp
    from multiprocessing.connection import wait

    ctx = mp.get_context("fork")
    results = [None] * len(jobs)
    crashes = collections.Counter()
    crash_class = crash_class or (lambda job: "any")
    lanes = [{"pending": collections.deque(range(w, len(jobs), nworkers)), "conn": None, "proc": None, "cur": None}
             for w in range(max(1, min(nworkers, len(jobs))))]

    def start(lane):
        keep = collections.deque()
        for i in lane["pending"]:
            if crashes[crash_class(jobs[i])] >= crash_cap:
                results[i] = ("skipped", "crash-cap")    # this class already killed crash_cap children: verdict recorded
            else:
                keep.append(i)
        lane["pending"] = keep
        lane["conn"] = lane["proc"] = lane["cur"] = None
        if not keep:
            return
        rc, wc = ctx.Pipe(duplex=False)
        p = ctx.Process(target=_job_worker, args=(wc, handler, jobs, list(keep)))
        p.start()
        wc.close()
        lane.update(proc=p, conn=rc)

    for lane in lanes:
        start(lane)
    while any(lane["conn"] is not None for lane in lanes):
        ready = wait([lane["conn"] for lane in lanes if lane["conn"] is not None])
        for lane in lanes:
            if lane["conn"] is None or lane["conn"] not in ready:
                continue
            try:
                msg = lane["conn"].recv()
            except (EOFError, OSError):
                lane["proc"].join()
                code = lane["proc"].exitcode
                lane["conn"].close()
                if lane["pending"]:
                    # died while working on (or about to take) the first pending job
                    idx = lane["cur"] if lane["cur"] is not None else lane["pending"][0]
                    results[idx] = ("crash", _signame(code))
                    crashes[crash_class(jobs[idx])] += 1
                    while lane["pending"] and lane["pending"][0] != idx:
                        lane["pending"].popleft()
                    if lane["pending"]:
                        lane["pending"].popleft()
                start(lane)
                continue
            if msg[0] == "start":
                lane["cur"] = msg[1]
            else:
                results[msg[1]] = msg[2]
                lane["cur"] = None
                if lane["pending"] and lane["pending"][0] == msg[1]:
                    lane["pending"].popleft()
    return results
