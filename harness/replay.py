"""Spec -> code: rebuild TLC's explored state graph from emitted edges and step every edge through real objects.

An edge is a JSON object  {"lvl": n, "from": <vars>, "act": {"n": name, ...}, "to": <vars'>, "obs": <Obs'>, ["fobs": <Obs>]}
emitted by the specification from an ACTION_CONSTRAINT (see spec/common/Emit idiom in DESIGN.md A.1).
"""
import json
import math
import random
from collections import deque

FLOAT_RTOL = 1e-9
FLOAT_ATOL = 1e-30


def skey(s):
    return json.dumps(s, sort_keys=True, separators=(",", ":"))


class Graph:
    def __init__(self, edges):
        self.edges = []
        self.succ = {}
        self.roots = {}
        seen = set()
        for e in edges:
            if not isinstance(e, dict) or "act" not in e:
                continue
            fk, tk = skey(e["from"]), skey(e["to"])
            ek = (fk, skey(e["act"]), tk)
            if ek in seen:
                continue
            seen.add(ek)
            e["_fk"], e["_tk"] = fk, tk
            self.edges.append(e)
            self.succ.setdefault(fk, []).append(e)
            if e.get("lvl") == 1:
                self.roots.setdefault(fk, e)
        # BFS tree
        self.path = {}
        q = deque()
        for fk in self.roots:
            self.path[fk] = []
            q.append(fk)
        while q:
            k = q.popleft()
            for e in self.succ.get(k, ()):
                if e["_tk"] not in self.path:
                    self.path[e["_tk"]] = self.path[k] + [e]
                    q.append(e["_tk"])

    def states(self):
        return len(self.path)


def diff(exp, got, path="", rtol=FLOAT_RTOL, atol=FLOAT_ATOL):
    """First difference between the spec's observation and the projection; None if equal.
    Only keys present in the spec's observation are compared (the spec decides what is observable)."""
    if isinstance(exp, dict):
        if not isinstance(got, dict):
            return "%s: expected object %r, observed %r" % (path, _short(exp), _short(got))
        for k in exp:
            if k not in got:
                return "%s.%s: missing in projection" % (path, k)
            d = diff(exp[k], got[k], path + "." + str(k), rtol, atol)
            if d:
                return d
        return None
    if isinstance(exp, (list, tuple)):
        if not isinstance(got, (list, tuple)) or len(exp) != len(got):
            return "%s: expected %r, observed %r" % (path, _short(exp), _short(got))
        for i, (a, b) in enumerate(zip(exp, got)):
            d = diff(a, b, "%s[%d]" % (path, i), rtol, atol)
            if d:
                return d
        return None
    if isinstance(exp, bool) or isinstance(got, bool):
        return None if exp is got or exp == got and type(exp) == type(got) else "%s: expected %r, observed %r" % (path, exp, got)
    if isinstance(exp, float) or isinstance(got, float):
        try:
            a, b = float(exp), float(got)
        except Exception:
            return "%s: expected %r, observed %r" % (path, exp, got)
        if math.isnan(a) and math.isnan(b):
            return None
        if abs(a - b) <= rtol * max(abs(a), abs(b)) + atol:
            return None
        return "%s: expected %r, observed %r" % (path, exp, got)
    return None if exp == got else "%s: expected %r, observed %r" % (path, exp, got)


def _short(x):
    s = json.dumps(x, default=str)
    return s if len(s) < 300 else s[:300] + "..."


def strip(e):
    return {k: v for k, v in e.items() if not k.startswith("_")}


def replay_graph(graph, adapter, max_edges=None, rng=None, check_prefix=False, on_progress=None):
    """Execute  path(from) ; act  on a fresh world for every edge (or a sample) and compare with the spec.
    Returns (n_replayed, n_nontrivial, divergences)."""
    edges = graph.edges
    if max_edges is not None and len(edges) > max_edges:
        rng = rng or random.Random(0)
        edges = rng.sample(edges, max_edges)
    divs = []
    n = 0
    nontriv = 0
    for e in edges:
        pre = graph.path.get(e["_fk"])
        if pre is None:
            continue
        root = pre[0]["from"] if pre else e["from"]
        d = run_behaviour(adapter, root, pre + [e], check_from=len(pre) if not check_prefix else 0,
                          fobs=(pre[0] if pre else e).get("fobs"))
        n += 1
        if e["_fk"] != e["_tk"]:
            nontriv += 1
        if d:
            divs.append(d)
            if len(divs) >= 25:
                break
    return n, nontriv, divs


def run_behaviour(adapter, root, steps, check_from=0, fobs=None):
    """steps: list of edges; compares the projection with edge['obs'] after every step >= check_from."""
    world = adapter.build(root)
    try:
        if fobs and check_from == 0:
            d = diff(fobs, adapter.project(world))
            if d:
                return {"diverged_at": 0, "first_difference": d, "behaviour": [], "action": {"n": "Init"},
                        "expected": fobs, "observed": adapter.project(world)}
        for i, e in enumerate(steps):
            # an exception escaping a legal operation (or a query) of the real code is a divergence, not a harness failure
            try:
                adapter.apply(world, e["act"])
                got = adapter.project(world) if i >= check_from else None
            except Exception as ex:  # noqa: BLE001
                import traceback

                return {
                    "diverged_at": i + 1,
                    "first_difference": ".exception: %s escaped from the real code: %s" % (type(ex).__name__, str(ex)[:300]),
                    "root": root,
                    "behaviour": [s["act"] for s in steps[: i + 1]],
                    "action": e["act"],
                    "expected": e["obs"],
                    "observed": {"exception": traceback.format_exc()[-2000:]},
                }
            if i >= check_from:
                d = diff(e["obs"], got)
                if d:
                    return {
                        "diverged_at": i + 1,
                        "first_difference": d,
                        "root": root,
                        "behaviour": [s["act"] for s in steps[: i + 1]],
                        "action": e["act"],
                        "expected": e["obs"],
                        "observed": got,
                    }
    finally:
        if hasattr(adapter, "dispose"):
            adapter.dispose(world)
    return None
