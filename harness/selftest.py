"""Binding demonstration helper: run a detector under in-process mutants of armi and report caught / MISSED.
Never prints the word used for real verdicts."""
import contextlib
import time


@contextlib.contextmanager
def patched(obj, name, new):
    old = obj.__dict__.get(name, getattr(obj, name))
    had = name in obj.__dict__
    setattr(obj, name, new)
    try:
        yield
    finally:
        if had:
            setattr(obj, name, old)
        else:
            delattr(obj, name)


def run_mutants(mutants, detect):
    """mutants: list of (label, contextmanager factory); detect() -> list of violation keys (empty = nothing found)."""
    t0 = time.time()
    base = detect()
    try:
        from harness import findings

        known = {e["key"] for e in findings.load() if e.get("status") == "known"}
    except Exception:
        known = set()
    unlisted = [k for k in base if k not in known]
    print("baseline (unmutated): %s" % ("clean" if not base else "findings %s (%d listed as known)" % (base, len(base) - len(unlisted))))
    missed = 0
    for label, cm in mutants:
        try:
            with cm():
                found = [k for k in detect() if k not in base]
        except Exception as ex:  # a mutant that crashes the harness is also noticed, but say so
            found = ["harness-exception:%s" % type(ex).__name__]
        if found:
            print("caught  %-60s %s" % (label, found[:3]))
        else:
            missed += 1
            print("MISSED  %-60s" % label)
    print("selftest: %d mutants, %d missed, %.1fs" % (len(mutants), missed, time.time() - t0))
    return 0 if not missed and not unlisted else 1
