"""Dimension tables per 2-D component shape class, material inventory and measured material inputs (C03; C12 may reuse).

Nothing here computes an expected result.  The module supplies INPUTS:
  * SHAPES: for every extruded shape class, which constructor dimensions are lengths (they must expand thermally --
    stated here from geometry, independently of the class' THERMAL_EXPANSION_DIMS, so that a length missing from that set is
    noticed) and which are counts, nominal values that give a positive area, and the role assignments
    (which real dimension plays the specification's "e1" (outer / free) and "e2" (inner / free) dimension).
  * materials(): every material class of armi.materials with its kind (solid / inert / fluid / void / custom), the
    temperature range in which its expansion correlation declares itself valid (measured by recording the
    checkTempRange calls the correlation itself makes) and the measured factors f(T) = 1 + linearExpansionPercent(T)/100
    (fluids: rho(T) = pseudoDensity(T)).
"""
import math

from harness.armi_env import armi_ready

# ---------------------------------------------------------------------------------------------------------------------
# shapes
# ---------------------------------------------------------------------------------------------------------------------
L, N = "length", "count"
# name -> {"dims": {dim: (kind, nominal value when the dimension plays no role)}, "roles": [(e1, e2)], "n": count dim}
# Value ranges the adapter uses:  e1 in [1.2, 1.7],  e2 in [0.3, 1.0]  (always e2 < e1, also after expansion by a
# different material); nominal values of the other dimensions are chosen so that the area stays positive for all of them.
SHAPES = {
    "Circle": {"dims": {"od": (L, 1.4), "id": (L, 0.4), "mult": (N, 2.0)}, "roles": [("od", "id")]},
    "Hexagon": {"dims": {"op": (L, 1.4), "ip": (L, 0.4), "mult": (N, 2.0)}, "roles": [("op", "ip")]},
    "Rectangle": {"dims": {"lengthOuter": (L, 1.5), "lengthInner": (L, 0.5), "widthOuter": (L, 1.5), "widthInner": (L, 0.5),
                           "mult": (N, 2.0)},
                  "roles": [("lengthOuter", "lengthInner"), ("widthOuter", "widthInner")]},
    "SolidRectangle": {"dims": {"lengthOuter": (L, 1.5), "widthOuter": (L, 1.1), "mult": (N, 2.0)},
                       "roles": [("lengthOuter", "widthOuter"), ("widthOuter", "lengthOuter")]},
    # a Square is a Rectangle whose lengths equal its widths: the constructor stores lengthOuter / lengthInner as well
    # (inherited dimensions its own area formula does not use); they are lengths and start at the constructor's widths
    "Square": {"dims": {"widthOuter": (L, 1.4), "widthInner": (L, 0.4), "mult": (N, 2.0)}, "roles": [("widthOuter", "widthInner")],
               "aliases": {"lengthOuter": "widthOuter", "lengthInner": "widthInner"}},
    "Triangle": {"dims": {"base": (L, 1.5), "height": (L, 1.1), "mult": (N, 2.0)}, "roles": [("base", "height"), ("height", "base")]},
    "HoledHexagon": {"dims": {"op": (L, 1.4), "holeOD": (L, 0.4), "nHoles": (N, 1.0), "mult": (N, 2.0)}, "roles": [("op", "holeOD")]},
    "HexHoledCircle": {"dims": {"od": (L, 1.4), "holeOP": (L, 0.4), "mult": (N, 2.0)}, "roles": [("od", "holeOP")]},
    "HoledRectangle": {"dims": {"holeOD": (L, 0.4), "lengthOuter": (L, 1.5), "widthOuter": (L, 1.5), "mult": (N, 2.0)},
                       "roles": [("lengthOuter", "holeOD"), ("widthOuter", "holeOD")]},
    "HoledSquare": {"dims": {"holeOD": (L, 0.4), "widthOuter": (L, 1.4), "mult": (N, 2.0)}, "roles": [("widthOuter", "holeOD")]},
    "Helix": {"dims": {"od": (L, 1.25), "axialPitch": (L, 5.0), "helixDiameter": (L, 2.0), "mult": (N, 2.0), "id": (L, 0.4)},
              "roles": [("od", "id"), ("helixDiameter", "id"), ("axialPitch", "id")]},
    # no dimensions: the cold area is the input, getComponentArea scales it by the square of the factor
    "UnshapedComponent": {"dims": {}, "roles": [(None, None)], "kwargs": {"area": 1.7}},
}
# registered 2-D classes that have no thermal-expansion law of their own
EXCLUDED = {
    "Component": "abstract base: getComponentArea raises NotImplementedError",
    "ShapedComponent": "abstract base: getComponentArea raises NotImplementedError",
    "NullComponent": "getDimension returns 0.0 for every key; no area",
    "DerivedShape": "area is derived from the parent block and its siblings, by design it cannot drive expansion itself",
}
# partner component (component 2 of the specification): two unconstrained lengths and a count
PARTNERS = {"SolidRectangle": ("lengthOuter", "widthOuter", "mult"), "Triangle": ("base", "height", "mult")}

# numeric table values val(c, d, b), b = 0 constructor input, b >= 1 alternatives used by setDimension
VALUES = {
    (1, "e1"): (1.30, 1.45, 1.60),
    (1, "e2"): (0.40, 0.45, 0.35),
    (1, "n"): (2.0, 3.0, 5.0),
    (2, "e1"): (0.80, 0.90, 0.85),
    (2, "e2"): (0.60, 0.50, 0.55),
    (2, "n"): (1.0, 4.0, 6.0),
}


def inherited_dims(cls):
    """Dimension names of the class and of every base class (DIMENSION_NAMES along the MRO), without modArea."""
    names = []
    for k in cls.__mro__:
        for d in getattr(k, "DIMENSION_NAMES", ()):
            if d != "modArea" and d not in names:
                names.append(d)
    return names


def extra_dims(shape, comp):
    """Inherited dimensions that are not constructor arguments of the shape, classified on a constructed instance:
    {"alias": {name: constructor dimension it starts equal to}, "zero": [names stored as 0], "unset": [names never assigned]}.
    Raises ValueError for an inherited dimension that carries a value the table does not explain."""
    spec = SHAPES[shape]
    out = {"alias": dict(spec.get("aliases", {})), "zero": [], "unset": []}
    for d in inherited_dims(type(comp)):
        if d in spec["dims"] or d in out["alias"]:
            continue
        try:
            v = comp.p[d]
        except Exception:  # noqa: BLE001  ParameterError: never assigned
            out["unset"].append(d)
            continue
        if v is None:
            out["unset"].append(d)
        elif isinstance(v, (int, float)) and v == 0:
            out["zero"].append(d)
        else:
            raise ValueError("%s: inherited dimension %s = %r has no entry in the dimension table" % (shape, d, v))
    return out


def shape_classes():
    """(covered, excluded, problems): registered 2-D classes against the table; problems must be empty."""
    armi_ready()
    from armi.reactor.components import ComponentType

    problems = []
    covered, excluded = [], {}
    for cls in ComponentType.TYPES.values():
        if cls.is3D:
            continue
        name = cls.__name__
        if name in EXCLUDED:
            excluded[name] = EXCLUDED[name]
            continue
        if name not in SHAPES:
            problems.append("registered 2-D component class %s has no dimension table in harness/gen_components.py" % name)
            continue
        dims = [d for d in cls.DIMENSION_NAMES if d != "modArea"]
        if sorted(dims) != sorted(SHAPES[name]["dims"]):
            problems.append("%s: DIMENSION_NAMES %s differ from the table %s" % (name, dims, sorted(SHAPES[name]["dims"])))
            continue
        try:    # every inherited dimension is a table length / count, an alias, stored as zero, or never assigned
            extra_dims(name, build_component(name, SHAPES[name]["roles"][0], "Custom", 25.0, 25.0, "probe"))
        except ValueError as ex:
            problems.append(str(ex))
            continue
        covered.append(name)
    n3d = sum(1 for c in ComponentType.TYPES.values() if c.is3D)
    return covered, excluded, problems, n3d


def class_of(name):
    armi_ready()
    from armi.reactor import components

    return getattr(components, name)


def ctor_dims(shape, role, comp_index=1):
    """Constructor dimension values: role dimensions from VALUES[(comp_index, e1/e2/n)][0], the others nominal."""
    spec = SHAPES[shape]
    e1, e2 = role
    kw = {}
    for d, (_, nominal) in spec["dims"].items():
        kw[d] = VALUES[(comp_index, "e1")][0] if d == e1 else VALUES[(comp_index, "e2")][0] if d == e2 else (
            VALUES[(comp_index, "n")][0] if d == "mult" else nominal)
    return kw


def build_component(shape, role, material, tin, thot, cname, values=None, comp_index=1):
    """Instantiate shape with the role dimensions taken from VALUES[(comp_index, e1/e2/n)][0] and the others nominal."""
    spec = SHAPES[shape]
    kw = dict(spec.get("kwargs", {}))
    e1, e2 = role
    for d, (_, nominal) in spec["dims"].items():
        if d == e1:
            kw[d] = VALUES[(comp_index, "e1")][0]
        elif d == e2:
            kw[d] = VALUES[(comp_index, "e2")][0]
        elif d == "mult":
            kw[d] = VALUES[(comp_index, "n")][0]
        else:
            kw[d] = nominal
    return class_of(shape)(cname, material, Tinput=tin, Thot=thot, **kw)


def dim_map(shape, role):
    """real dimension name -> abstract dimension of the specification (e1, e2, n, e0, n0)."""
    spec = SHAPES[shape]
    out = {}
    for d, (k, _) in spec["dims"].items():
        if d == role[0]:
            out[d] = "e1"
        elif d == role[1]:
            out[d] = "e2"
        elif d == "mult":
            out[d] = "n"
        else:
            out[d] = "e0" if k == L else "n0"
    return out


# ---------------------------------------------------------------------------------------------------------------------
# materials
# ---------------------------------------------------------------------------------------------------------------------
DEFAULT_RANGE_C = (25.0, 600.0)
MIN_SPAN_C = 30.0
END_NOT_USABLE = {}     # material -> declared range end at which its own correlation is not a finite real number
# correlations that declare no range but are undefined in part of the default one (saturation curve ends at 373.9 C)
DEFAULT_OVERRIDES_C = {"SaturatedWater": (25.0, 350.0), "SaturatedSteam": (25.0, 350.0)}
C_TO_K = 273.15


def material_classes():
    armi_ready()
    import armi.materials as M
    from armi.materials import iterAllMaterialClassesInNamespace

    return sorted(iterAllMaterialClassesInNamespace(M), key=lambda c: c.__name__)


def _recorded_range(mat, fn, probe_c):
    """Call fn(probe) with checkTempRange recording: the intersection of the ranges the correlation itself checks,
    converted to Celsius by comparing the checked value with the probe.  None if the correlation checks nothing."""
    checks = []

    def rec(minT, maxT, val, label=""):
        checks.append((float(minT), float(maxT), float(val), label))

    mat.checkTempRange = rec
    try:
        fn(probe_c)
    finally:
        del mat.checkTempRange
    lo, hi, labels = -math.inf, math.inf, []
    for mn, mx, val, label in checks:
        if abs(val - probe_c) < 1e-6:
            off = 0.0
        elif abs(val - (probe_c + C_TO_K)) < 1e-6:
            off = C_TO_K
        else:
            continue
        lo, hi = max(lo, mn - off), min(hi, mx - off)
        labels.append(label)
    if not labels or not lo < hi:
        return None
    return (lo, hi, sorted(set(labels)))


class MatInfo:
    """One material class: kind-independent measurements; temps/factors are produced per temperature draw."""

    def __init__(self, cls):
        from armi.materials import custom, material

        self.cls = cls
        self._inside = {}
        self.name = cls.__name__
        self.is_fluid = issubclass(cls, material.Fluid)
        self.is_custom = issubclass(cls, custom.Custom)
        m = cls()
        # fluids are asked in Kelvin: the value of the density correlation is an input, however it must be asked for
        fn = (lambda tc: m.pseudoDensity(Tk=tc + C_TO_K)) if self.is_fluid else (lambda tc: m.linearExpansionPercent(Tc=tc))
        rng = None
        try:
            rng = _recorded_range(m, fn, 123.0)
        except Exception:  # noqa: BLE001  a correlation that cannot be evaluated at the probe declares no range
            rng = None
        self.declared = rng is not None
        self.range_c = (rng[0], rng[1]) if rng else None
        self.range_labels = rng[2] if rng else []

    def inside(self, t_c):
        """True iff every range check the correlation itself makes at t_c passes (exact in the correlation's own unit)."""
        if t_c in self._inside:
            return self._inside[t_c]
        self._inside[t_c] = r = self._inside_uncached(t_c)
        return r

    def _inside_uncached(self, t_c):
        m = self.cls()
        checks = []
        m.checkTempRange = lambda minT, maxT, val, label="": checks.append(minT <= val <= maxT)
        try:
            v = m.pseudoDensity(Tk=t_c + C_TO_K) if self.is_fluid else m.linearExpansionPercent(Tc=t_c)
        except NotImplementedError:
            raise
        except Exception:  # noqa: BLE001
            return False
        if isinstance(v, complex) or not math.isfinite(v):
            END_NOT_USABLE[self.name] = "%s at %s C: %r" % ("pseudoDensity" if self.is_fluid else "linearExpansionPercent", t_c, v)
            return False
        return all(checks)

    def range(self):
        return self.range_c or DEFAULT_OVERRIDES_C.get(self.name, DEFAULT_RANGE_C)

    def temps(self, fracs, other=None):
        """Distinct temperatures (deg C) at the given fractions of this material's valid range, intersected with the
        other material's when two components share one temperature table; None if the ranges do not overlap enough."""
        lo, hi = self.range()
        if other is not None:
            lo, hi = max(lo, other.range()[0]), min(hi, other.range()[1])
        if hi - lo < MIN_SPAN_C:
            return None
        return [round(lo + f * (hi - lo), 3) for f in fracs]

    def measure(self, temps_c):
        """The material-defined inputs at these temperatures, from a fresh instance of the material:
        solids f = 1 + linearExpansionPercent/100, fluids rho = pseudoDensity."""
        m = self.cls()
        if self.is_fluid:
            vals = [float(m.pseudoDensity(Tk=t + C_TO_K)) for t in temps_c]
        else:
            vals = [1.0 + float(m.linearExpansionPercent(Tc=t)) / 100.0 for t in temps_c]
        if any(not math.isfinite(v) or isinstance(v, complex) for v in vals):
            raise ValueError("non-finite material input for %s at %s: %s" % (self.name, temps_c, vals))
        return vals

    def kind(self, vals):
        """Classification of the INPUT (which constant Kind[c] of the specification applies)."""
        if self.is_fluid:
            if all(v == 0 for v in vals):
                return "void"
            if all(v != 0 for v in vals):
                return "fluid"
            return None
        if self.is_custom:
            return "custom"
        if all(v == 1.0 for v in vals):
            return "inert"
        return "solid"


_MATS = None


def materials():
    global _MATS
    if _MATS is None:
        _MATS = [MatInfo(c) for c in material_classes()]
    return _MATS
