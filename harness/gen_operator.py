"""A real armi Operator on the smallest test reactor with a caller-defined interface stack.

Used by props/c15.py (run schedule) and meant to be reused by the C06 builder (database histories):

    rig = Rig()                                   # loads armi/tests/smallestTestReactor once (~0.3 s)
    rig.configure(history=..., settings={...})    # cycle history + any other case settings, assigned in place
    o = rig.new_operator()                        # operators.factory(cs), attached to the rig's reactor, empty stack
    rec = Recorder.make(o, index=1, ...)          # recording interfaces; o.addInterface(rec, enabled=..., ...)
    rig.reset_time(cycle, node)                   # the restart point: r.p.cycle / r.p.timeNode as MainInterface leaves them
    o.operate()

Nothing of armi is patched except the console banner of Operator.__init__ (reportingUtils.writeWelcomeHeaders spawns
four subprocesses, 40 ms per operator; it only prints) -- pass banner=True to keep it.

The smallest-reactor input needs three overrides before a standard operate() works: detailAssemLocationsBOL=[] (the listed
location does not exist), a restart point inside the history, and a stack without the default interfaces (fuelHandlerName
in that input does not resolve).  With keep_db=True the real DatabaseInterface is kept in the stack and initialised
(`db` setting on), which is what C06 needs.
"""
import os

from harness.armi_env import armi_ready

SMALLEST = "smallestTestReactor/armiRunSmallest.yaml"
SENTINEL = -7.0  # stepLength / power before the run (never a legal value)

# every setting that takes part in the cycle history; configure() assigns all of them on each call
_HISTORY_KEYS = ("nCycles", "burnSteps", "cycleLength", "cycleLengths", "availabilityFactor", "availabilityFactors",
                 "powerFractions", "cycles")


class Rig:
    def __init__(self, custom=None, quiet=True):
        armi_ready()
        import logging

        from armi import runLog, settings
        from armi.reactor.tests import test_reactors

        if quiet:
            logging.disable(100)  # armi prints event banners at its "header" level (100) whatever the verbosity is

        base = {"detailAssemLocationsBOL": [], "startCycle": 0, "startNode": 0, "db": False, "nCycles": 1, "burnSteps": 0}
        base.update(custom or {})
        cwd = os.getcwd()
        o, r = test_reactors.loadTestReactor(inputFileName=SMALLEST, customSettings=base)
        os.chdir(cwd)
        runLog.setVerbosity("error")
        o.removeAllInterfaces()
        self.r = r
        self.cs = o.cs.duplicate()
        self._defaults = {k: settings.Settings()[k] for k in _HISTORY_KEYS}
        self.o = None

    # -- settings -----------------------------------------------------------------------------------------
    def configure(self, history=None, settings=None):
        """Assign the cycle-history settings (all of them: the ones not given fall back to the framework defaults, which is
        what the settings reader leaves for keys the user did not write) and any other settings, in place."""
        cs = self.cs
        if history is not None:
            vals = dict(self._defaults)  # a key that is not given takes the framework default (cycles: [])
            vals.update(history)
            cs["cycles"] = []
            for k in _HISTORY_KEYS:
                if k != "cycles":
                    cs[k] = vals[k]
            cs["cycles"] = vals["cycles"]
        for k, v in (settings or {}).items():
            cs[k] = v
        return cs

    # -- operator -----------------------------------------------------------------------------------------
    def new_operator(self, banner=False):
        from armi import operators, runLog
        from armi.bookkeeping.report import reportingUtils

        saved = reportingUtils.writeWelcomeHeaders
        if not banner:
            reportingUtils.writeWelcomeHeaders = lambda o, cs: None
        try:
            o = operators.factory(self.cs)
        finally:
            reportingUtils.writeWelcomeHeaders = saved
        runLog.setVerbosity("error")
        o.reattach(self.r)
        self.o = o
        return o

    def reset_time(self, cycle=0, node=0):
        r = self.r
        r.p.cycle = cycle
        r.p.timeNode = node
        r.p.stepLength = SENTINEL
        r.p.cycleLength = SENTINEL
        r.p.availabilityFactor = SENTINEL
        r.p.capacityFactor = SENTINEL
        r.core.p.power = SENTINEL
        r.core.p.coupledIteration = 0


# ------------------------------------------------------------------------------------------------------------
_CLASSES = {}


def recorder_class(index, coupled):
    """Interface subclass `rec<index>`; a coupled one has a `function` so that Interface.__init__ builds its TightCoupler
    from cs['tightCouplingSettings'] through the real code path (_setTightCouplerByInterfaceFunction)."""
    key = (index, bool(coupled))
    if key not in _CLASSES:
        from armi import interfaces

        class _Rec(interfaces.Interface):
            name = "rec%d" % index
            function = ("recfn%d" % index) if coupled else None

            def __init__(self, r, cs, sink, env, flags):
                interfaces.Interface.__init__(self, r, cs)
                self.index = index
                self.sink = sink  # list receiving one dict per call
                self.env = env  # decides return values: env.halt(i, cycle) ; env.conv(i, cycle, node, iteration)
                self.flags = flags
                self.val = 0.0

            def _see(self, e, **kw):
                r = self.r
                ev = {"e": e, "i": self.index, "c": -1, "n": -1, "it": -1, "rc": int(r.p.cycle), "rn": int(r.p.timeNode),
                      "ci": int(r.core.p.coupledIteration), "_sl": float(r.p.stepLength), "_pw": float(r.core.p.power),
                      "ret": False, "cv": True}
                ev.update(kw)
                self.sink.append(ev)
                return ev

            def _answer(self, ev):
                """Return value of the hook: a halting interface answers whatever the environment says (a halt request at BOC,
                a meaningless value elsewhere); the others return None like the hooks of armi itself."""
                if not self.flags.get("hlt"):
                    return None
                if ev["e"] == "BOC":
                    ev["ret"] = bool(self.env.halt(self.index, ev["c"]))
                else:
                    ev["ret"] = bool(self.env.noise(self.index, ev["e"], ev["rc"], ev["rn"], ev["it"]))
                return ev["ret"]

            def interactBOL(self):
                interfaces.Interface.interactBOL(self)
                ev = self._see("BOL")
                start = self.flags.get("setsStart")
                if start is not None:
                    # restart put in place by a beginning-of-life hook, as MainInterface.interactBOL does for
                    # loadStyle=fromDB (r.p.cycle / r.p.timeNode = startCycle / startNode)
                    self.r.p.cycle, self.r.p.timeNode = int(start[0]), int(start[1])
                return self._answer(ev)

            def interactBOC(self, cycle=None):
                return self._answer(self._see("BOC", c=_int(cycle)))

            def interactEveryNode(self, cycle, node):
                return self._answer(self._see("EN", c=_int(cycle), n=_int(node)))

            def interactEOC(self, cycle=None):
                return self._answer(self._see("EOC", c=_int(cycle)))

            def interactEOL(self):
                return self._answer(self._see("EOL"))

            def interactCoupled(self, iteration):
                ev = self._see("CPL", it=_int(iteration))
                if self.coupler is not None:
                    cv = bool(self.env.conv(self.index, ev["rc"], ev["rn"], iteration))
                    ev["cv"] = cv
                    if not cv:
                        self.val += 1.0  # |new - previous| = 1 >= tolerance 0.5 : not converged; unchanged value: converged
                return self._answer(ev)

            def getTightCouplingValue(self):
                return self.val

        _Rec.__name__ = _Rec.__qualname__ = "Rec%d%s" % (index, "c" if coupled else "")
        _CLASSES[key] = _Rec
    return _CLASSES[key]


def _int(x):
    return -99 if x is None else int(x)


class DbStub:
    """Stands in for the database interface when coupling is on (Operator._performTightCoupling writes the DB itself
    through getInterface('database').writeDBEveryNode()).  Attached disabled, so it is never part of a dispatch."""

    _cls = None

    @classmethod
    def make(cls, r, cs, sink):
        if cls._cls is None:
            from armi import interfaces

            class _Db(interfaces.Interface):
                name = "database"

                def __init__(self, r, cs, sink):
                    interfaces.Interface.__init__(self, r, cs)
                    self.sink = sink

                def writeDBEveryNode(self):
                    r = self.r
                    self.sink.append({"e": "DBW", "i": 0, "c": -1, "n": -1, "it": -1, "rc": int(r.p.cycle),
                                      "rn": int(r.p.timeNode), "ci": int(r.core.p.coupledIteration),
                                      "_sl": float(r.p.stepLength), "_pw": float(r.core.p.power), "ret": False, "cv": True})

            cls._cls = _Db
        return cls._cls(r, cs, sink)


class ScriptEnv:
    """Environment answers looked up in tables (spec -> code replay); anything not in the tables is False."""

    def __init__(self, halts=None, convs=None, noises=None):
        self.halts = halts or {}
        self.convs = convs or {}
        self.noises = noises or {}

    def noise(self, i, e, cycle, node, iteration):
        return self.noises.get((i, e, cycle, node, iteration), False)

    def halt(self, i, cycle):
        return self.halts.get((i, cycle), False)

    def conv(self, i, cycle, node, iteration):
        return self.convs.get((i, cycle, node, iteration), False)


class RandomEnv:
    """Seeded environment (code -> spec traces): halts with probability p_halt, converges with probability p_conv."""

    def __init__(self, rng, p_halt=0.15, p_conv=0.5, p_noise=0.0):
        self.rng, self.p_halt, self.p_conv, self.p_noise = rng, p_halt, p_conv, p_noise

    def noise(self, i, e, cycle, node, iteration):
        return e != "CPL" and self.rng.random() < self.p_noise

    def halt(self, i, cycle):
        return self.rng.random() < self.p_halt

    def conv(self, i, cycle, node, iteration):
        return self.rng.random() < self.p_conv


def build_stack(rig, o, ifs, sink, env, order=None, tol=0.5, sets_start=None):
    """Attach recorders with the given flag records [{en,bf,rev,dfr,cpl,hlt}, ...] in stack order (1-based index = stack
    position) through the real Operator.addInterface.  `order` optionally gives the order of the addInterface calls
    (a permutation of 1..m); positions are then reached with addInterface(index=...).  sets_start = (i, cycle, node) makes
    interactBOL of recorder i assign r.p.cycle / r.p.timeNode (enter operate() at (0, 0) then).  Returns the recorders."""
    m = len(ifs)
    order = order or list(range(1, m + 1))
    recs = {}
    placed = []  # indices already in the stack, in stack order
    for i in order:
        f = dict(ifs[i - 1])
        if sets_start and sets_start[0] == i:
            f["setsStart"] = (sets_start[1], sets_start[2])
        rec = recorder_class(i, f["cpl"])(rig.r, rig.cs, sink, env, f)
        pos = sum(1 for j in placed if j < i)
        kw = {"reverseAtEOL": bool(f["rev"]), "enabled": bool(f["en"]), "bolForce": bool(f["bf"])}
        if pos == len(placed):
            o.addInterface(rec, **kw)
        else:
            o.addInterface(rec, index=pos, **kw)
        placed.insert(pos, i)
        recs[i] = rec
    return recs


def stack_settings(ifs, dcyc, tight, cap, skip, tol=0.5):
    """The case settings that carry the stack-related configuration."""
    return {
        "deferredInterfaceNames": ["rec%d" % (k + 1) for k, f in enumerate(ifs) if f["dfr"]],
        "deferredInterfacesCycle": int(dcyc),
        "tightCoupling": bool(tight),
        "tightCouplingMaxNumIters": int(cap),
        "cyclesSkipTightCouplingInteraction": [c for c, s in enumerate(skip) if s],
        "tightCouplingSettings": {"recfn%d" % (k + 1): {"parameter": "keff", "convergence": tol}
                                  for k, f in enumerate(ifs) if f["cpl"]} if tight else {},
    }
