"""Development tool (not used at check time): writes the model-checking / emission configs of spec/params.

    /venv/bin/python -m harness.gen_c16_cfgs        (re-creates spec/params/RetainState_*.cfg except _trace.cfg)

The table below is the single place where the constants of every RetainState instance are chosen; the .cfg files are
committed, so the checks never depend on this module.
"""
import os

from harness import common

INV = """INIT Init
NEXT Next
CONSTRAINT Bound
VIEW View
INVARIANT TypeOK
INVARIANT StacksAligned
INVARIANT BackupsAreSnapshots
INVARIANT GridBackupsAreSnapshots
INVARIANT GateSound
INVARIANT CacheNoLeak
INVARIANT SerialsUnique
INVARIANT SerialsBelowNext
INVARIANT ExitRestores
INVARIANT ExitRestoresGrid
INVARIANT EnterKeepsValues
INVARIANT CopyEqual
INVARIANT OnlyTargetChanges
INVARIANT SerialFresh
INVARIANT ReadOnlyRefuses
INVARIANT ReadOnlyForever
INVARIANT RefusalsChangeNoValue
CHECK_DEADLOCK FALSE
"""
def cfg(name, comment, N, NVal, NGrid, MaxDepth, MaxLevel, keeps, acts, tree, emit=False, grid="stack", pickle="fresh", only=None,
        dbserial="max", dbcls="McDbCls", copycls="McAllCls", calls="McCallsOf", unset="NoUnset", link="LinkNone", parof="McParOf"):
    s = "\\* %s\n" % comment
    s += 'CONSTANTS N = %d  Par = {"p", "q"}  NVal = %d  NGrid = %d  MaxDepth = %d  MaxLevel = %d\n' % (N, NVal, NGrid, MaxDepth, MaxLevel)
    s += '          GridSlot = "%s"  PickleSerial = "%s"  DbSerial = "%s"\n' % (grid, pickle, dbserial)
    s += "CONSTANTS Keeps <- %s  Acts <- %s  Parent0 <- Parent%s  Cls0 <- Cls%s\n" % (keeps, acts, tree, tree)
    s += "          ParOf <- %s  GridCls <- McGridCls  MatCls <- McMatCls\n" % parof
    s += "          DbCls <- %s  CopyCls <- %s  CallsOf <- %s  Unset0 <- %s  Link0 <- %s\n" % (dbcls, copycls, calls, unset, link)
    if emit:
        s += "ACTION_CONSTRAINT %s\n" % (emit if isinstance(emit, str) else "Emit")
    if only:
        s += "INIT Init\nNEXT Next\nCONSTRAINT Bound\n" + "".join("INVARIANT %s\n" % i for i in only) + "CHECK_DEADLOCK FALSE\n"
    else:
        s += INV
    with open(os.path.join(common.SPEC, "params", name), "w") as f:
        f.write(s)

TABLE = [
    {'name': 'RetainState_mc.cfg', 'comment': 'exhaustive, ALL actions together: block + 2 components + 3 pool ids, 2 parameters x 2 values, nesting <= 2 (quick)', 'N': 6, 'NVal': 2, 'NGrid': 2, 'MaxDepth': 2, 'MaxLevel': 4, 'keeps': 'KeepsSmall', 'acts': 'ActsAll', 'tree': 'A'},
    {'name': 'RetainState_mc_thorough.cfg', 'comment': 'exhaustive, ALL actions together, deeper (thorough)', 'N': 4, 'NVal': 2, 'NGrid': 2, 'MaxDepth': 2, 'MaxLevel': 6, 'keeps': 'KeepsTwo', 'acts': 'ActsAll', 'tree': 'A'},
    {'name': 'RetainState_mcP.cfg', 'comment': 'exhaustive, parameters focus: block > component, scopes and assignments only (quick)', 'N': 2, 'NVal': 2, 'NGrid': 2, 'MaxDepth': 2, 'MaxLevel': 6, 'keeps': 'KeepsTwo', 'acts': 'ActsParams', 'tree': 'D'},
    {'name': 'RetainState_mcP_thorough.cfg', 'comment': 'exhaustive, parameters focus: block > 2 components (shared definitions), nesting 3, all keep-sets (thorough)', 'N': 3, 'NVal': 2, 'NGrid': 2, 'MaxDepth': 3, 'MaxLevel': 5, 'keeps': 'KeepsFull', 'acts': 'ActsParams', 'tree': 'A'},
    {'name': 'RetainState_mcG.cfg', 'comment': 'exhaustive, grid/cache focus: assembly > block > component, nesting 3 (quick)', 'N': 3, 'NVal': 2, 'NGrid': 2, 'MaxDepth': 3, 'MaxLevel': 6, 'keeps': 'KeepsNone', 'acts': 'ActsGrid', 'tree': 'B'},
    {'name': 'RetainState_mcG_thorough.cfg', 'comment': 'exhaustive, grid/cache focus, 3 grid values, deeper (thorough)', 'N': 3, 'NVal': 2, 'NGrid': 3, 'MaxDepth': 3, 'MaxLevel': 7, 'keeps': 'KeepsNone', 'acts': 'ActsGrid', 'tree': 'B'},
    {'name': 'RetainState_mcC.cfg', 'comment': 'exhaustive, copy/read-only focus: block > component + 2 pool ids (quick)', 'N': 4, 'NVal': 2, 'NGrid': 2, 'MaxDepth': 1, 'MaxLevel': 5, 'keeps': 'KeepsSmall', 'acts': 'ActsCopy', 'tree': 'D'},
    {'name': 'RetainState_mcC_thorough.cfg', 'comment': 'exhaustive, copy/read-only focus: block > 2 components + 3 pool ids (thorough)', 'N': 6, 'NVal': 2, 'NGrid': 2, 'MaxDepth': 1, 'MaxLevel': 5, 'keeps': 'KeepsSmall', 'acts': 'ActsCopy', 'tree': 'A'},
    {'name': 'RetainState_emitP.cfg', 'comment': 'edge emission, parameters focus (quick)', 'N': 2, 'NVal': 2, 'NGrid': 2, 'MaxDepth': 2, 'MaxLevel': 5, 'keeps': 'KeepsTwo', 'acts': 'ActsParams', 'tree': 'D', 'emit': True},
    {'name': 'RetainState_emitP_thorough.cfg', 'comment': 'edge emission, parameters focus, 5 actions deep (thorough)', 'N': 2, 'NVal': 2, 'NGrid': 2, 'MaxDepth': 2, 'MaxLevel': 6, 'keeps': 'KeepsTwo', 'acts': 'ActsParams', 'tree': 'D', 'emit': True},
    {'name': 'RetainState_emitG.cfg', 'comment': 'edge emission, grid/cache focus: assembly (axial bounds) > block (hex pitch) (quick)', 'N': 2, 'NVal': 2, 'NGrid': 2, 'MaxDepth': 2, 'MaxLevel': 6, 'keeps': 'KeepsNone', 'acts': 'ActsGridQ', 'tree': 'E', 'emit': True},
    {'name': 'RetainState_emitG_thorough.cfg', 'comment': 'edge emission, grid/cache focus (thorough)', 'N': 3, 'NVal': 2, 'NGrid': 2, 'MaxDepth': 3, 'MaxLevel': 6, 'keeps': 'KeepsNone', 'acts': 'ActsGrid', 'tree': 'B', 'emit': True},
    {'name': 'RetainState_emitC.cfg', 'comment': 'edge emission, copy/read-only focus (quick)', 'N': 4, 'NVal': 2, 'NGrid': 2, 'MaxDepth': 1, 'MaxLevel': 4, 'keeps': 'KeepsNone', 'acts': 'ActsCopy', 'tree': 'D', 'emit': True},
    {'name': 'RetainState_emitC_thorough.cfg', 'comment': 'edge emission, copy/read-only focus (thorough)', 'N': 6, 'NVal': 2, 'NGrid': 2, 'MaxDepth': 1, 'MaxLevel': 4, 'keeps': 'KeepsSmall', 'acts': 'ActsCopy', 'tree': 'A', 'emit': True},
    {'name': 'RetainState_emitP2_thorough.cfg', 'comment': 'edge emission, parameters focus: block > 2 components sharing definitions, all keep-sets (thorough)', 'N': 3, 'NVal': 2, 'NGrid': 2, 'MaxDepth': 2, 'MaxLevel': 4, 'keeps': 'KeepsFull', 'acts': 'ActsParams', 'tree': 'A', 'emit': True},
    {'name': 'RetainState_mcP2_thorough.cfg', 'comment': 'exhaustive, parameters focus, deep: block > component, nesting 3, 6 actions (thorough)', 'N': 2, 'NVal': 2, 'NGrid': 2, 'MaxDepth': 3, 'MaxLevel': 7, 'keeps': 'KeepsSmall', 'acts': 'ActsParams', 'tree': 'D'},
    {'name': 'RetainState_asbuilt_grid.cfg', 'comment': 'the grid backup AS BUILT (one slot): TLC must refute ExitRestoresGrid (selftest only; no VIEW: as built the snapshots are not determined by the backups)', 'N': 2, 'NVal': 2, 'NGrid': 2, 'MaxDepth': 2, 'MaxLevel': 7, 'keeps': 'KeepsNone', 'acts': 'ActsAsBuilt', 'tree': 'D', 'grid': 'single', 'pickle': 'fresh', 'only': ['ExitRestoresGrid']},
    {'name': 'RetainState_asbuilt_serial.cfg', 'comment': 'pickle AS BUILT (the copy keeps the serial): TLC must refute SerialsUnique (selftest only)', 'N': 4, 'NVal': 2, 'NGrid': 2, 'MaxDepth': 1, 'MaxLevel': 3, 'keeps': 'KeepsNone', 'acts': 'ActsAsBuilt', 'tree': 'D', 'grid': 'stack', 'pickle': 'kept', 'only': ['SerialsUnique']},
    {'name': 'RetainState_mcD.cfg', 'comment': 'exhaustive, database focus: write / load / loadReadOnly / copies, block > component + 6 pool ids (quick)', 'N': 8, 'NVal': 2, 'NGrid': 2, 'MaxDepth': 1, 'MaxLevel': 5, 'keeps': 'KeepsNone', 'acts': 'ActsDb', 'tree': 'D'},
    {'name': 'RetainState_mcD_thorough.cfg', 'comment': 'exhaustive, database focus, deeper (thorough)', 'N': 10, 'NVal': 2, 'NGrid': 2, 'MaxDepth': 1, 'MaxLevel': 7, 'keeps': 'KeepsNone', 'acts': 'ActsDb', 'tree': 'D'},
    {'name': 'RetainState_emitR.cfg', 'comment': 'edge emission, read-only family: assembly > block > component made read-only, every mutator (quick + thorough)', 'N': 3, 'NVal': 2, 'NGrid': 2, 'MaxDepth': 1, 'MaxLevel': 3, 'keeps': 'KeepsNone', 'acts': 'ActsRO', 'tree': 'B', 'emit': True},
    {'name': 'RetainState_emitR_thorough.cfg', 'comment': 'edge emission, read-only family with copies: assembly > block > 2 components + pool (thorough)', 'N': 8, 'NVal': 2, 'NGrid': 2, 'MaxDepth': 1, 'MaxLevel': 4, 'keeps': 'KeepsNone', 'acts': 'ActsRO', 'tree': 'C', 'emit': True},
    {'name': 'RetainState_emitD.cfg', 'comment': 'edge emission, database family on the smallest test reactor: write, load, loadReadOnly, deep copies of assemblies (quick)', 'N': 42, 'NVal': 2, 'NGrid': 2, 'MaxDepth': 1, 'MaxLevel': 5, 'keeps': 'KeepsNone', 'acts': 'ActsDbR', 'tree': 'R', 'emit': 'EmitDb', 'dbcls': 'RDbCls', 'copycls': 'RCopyCls', 'calls': 'NoCalls'},
    {'name': 'RetainState_emitD_thorough.cfg', 'comment': 'edge emission, database family on the smallest test reactor, deeper (thorough)', 'N': 54, 'NVal': 2, 'NGrid': 2, 'MaxDepth': 1, 'MaxLevel': 6, 'keeps': 'KeepsNone', 'acts': 'ActsDbR', 'tree': 'R', 'emit': 'EmitDb', 'dbcls': 'RDbCls', 'copycls': 'RCopyCls', 'calls': 'NoCalls'},
    {'name': 'RetainState_asbuilt_dbserial.cfg', 'comment': 'Database.load setting the counter to the largest STORED serial (a seeded change): TLC must refute SerialsBelowNext (selftest only)', 'N': 8, 'NVal': 2, 'NGrid': 2, 'MaxDepth': 1, 'MaxLevel': 6, 'keeps': 'KeepsNone', 'acts': 'ActsDb', 'tree': 'D', 'dbserial': 'db', 'only': ['SerialsBelowNext', 'SerialFresh', 'SerialsUnique']},
    {'name': 'RetainState_emitU.cfg', 'comment': 'edge emission: cmp.q starts UNSET (parameter without default); keep-sets with exactly one of two same-named definitions (quick)', 'N': 2, 'NVal': 2, 'NGrid': 2, 'MaxDepth': 2, 'MaxLevel': 4, 'keeps': 'KeepsOne', 'acts': 'ActsParams', 'tree': 'D', 'emit': True, 'unset': 'McUnset'},
    {'name': 'RetainState_emitU_thorough.cfg', 'comment': 'edge emission: unset start / one-of-two same-named keep-sets, deeper (thorough)', 'N': 2, 'NVal': 2, 'NGrid': 2, 'MaxDepth': 2, 'MaxLevel': 5, 'keeps': 'KeepsOne', 'acts': 'ActsParams', 'tree': 'D', 'emit': True, 'unset': 'McUnset'},
    {'name': 'RetainState_emitL.cfg', 'comment': 'edge emission: block > fuel, clad, bond with LINKED dimensions; copies, scopes, assignments to the linked-to and the linked dimension (quick)', 'N': 8, 'NVal': 2, 'NGrid': 2, 'MaxDepth': 1, 'MaxLevel': 4, 'keeps': 'KeepsLink', 'acts': 'ActsLinkQ', 'tree': 'F', 'emit': 'EmitL', 'unset': 'McUnset', 'link': 'LinkF', 'copycls': 'BlkOnly', 'parof': 'QOnly'},
    {'name': 'RetainState_emitL_thorough.cfg', 'comment': 'edge emission: linked dimensions, copies and pickles of every object (thorough)', 'N': 8, 'NVal': 2, 'NGrid': 2, 'MaxDepth': 1, 'MaxLevel': 4, 'keeps': 'KeepsLink', 'acts': 'ActsLink', 'tree': 'F', 'emit': 'EmitL', 'unset': 'McUnset', 'link': 'LinkF'},
    {'name': 'RetainState_mcL.cfg', 'comment': 'exhaustive: linked dimensions + unset start, copies and scopes (quick)', 'N': 8, 'NVal': 2, 'NGrid': 2, 'MaxDepth': 2, 'MaxLevel': 4, 'keeps': 'KeepsLink', 'acts': 'ActsLink', 'tree': 'F', 'unset': 'McUnset', 'link': 'LinkF'},
    {'name': 'RetainState_mcL_thorough.cfg', 'comment': 'exhaustive: linked dimensions + unset start, copies and scopes (thorough)', 'N': 8, 'NVal': 2, 'NGrid': 2, 'MaxDepth': 2, 'MaxLevel': 5, 'keeps': 'KeepsLink', 'acts': 'ActsLink', 'tree': 'F', 'unset': 'McUnset', 'link': 'LinkF'},
    {'name': 'RetainState_emitF.cfg', 'comment': 'edge emission: a tree made read-only INSIDE an open scope; the exit is refused and nothing is restored (quick + thorough)', 'N': 2, 'NVal': 2, 'NGrid': 2, 'MaxDepth': 2, 'MaxLevel': 5, 'keeps': 'KeepsNone', 'acts': 'ActsFreeze', 'tree': 'D', 'emit': True, 'parof': 'QOnly'},
    {'name': 'RetainState_emitG2_thorough.cfg', 'comment': 'edge emission, grid focus with Block.setHeight: assembly > block, deeper (thorough)', 'N': 2, 'NVal': 2, 'NGrid': 3, 'MaxDepth': 2, 'MaxLevel': 6, 'keeps': 'KeepsNone', 'acts': 'ActsGrid', 'tree': 'E', 'emit': True},
]

if __name__ == "__main__":
    for row in TABLE:
        cfg(**row)
    print("wrote %d configs" % len(TABLE))
