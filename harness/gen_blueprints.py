"""C18 -- render abstract blueprint documents (as emitted by spec/bp/Blueprint.tla) to blueprint YAML text + settings,
build the real objects, and project them.  Also the small helpers around lattice text maps (spec/bp/AsciiMap.tla).

Nothing here decides what the right answer is: rendering is a syntactic transcription of the abstract document,
projection reads attributes of the real objects.  Other builders may import it:

    text = render(doc)                  # doc: the JSON object printed by Blueprint_mc!EmitState under "doc"
    bp   = load_blueprints(text)        # Blueprints.load from a stream (works with the installed ruamel)
    r    = build_reactor(text)          # reactors.factory(default settings, bp)
    proj = project_reactor(r)           # {"core": [[i, j, type]..], "asm": {"i,j": {...blocks, components...}}, ...}
"""
import io

from harness.armi_env import armi_ready

# ------------------------------------------------------------------------------------------------------------
# lattice text maps
# ------------------------------------------------------------------------------------------------------------
MAP_CLASS = {
    "cart": "AsciiMapCartesian",
    "third": "AsciiMapHexThirdFlatsUp",
    "fullflat": "AsciiMapHexFullFlatsUp",
    "fulltips": "AsciiMapHexFullTipsUp",
}
SYMMETRY = {"full": "full", "third": "third periodic", "quarter": "quarter reflective", "eighth": "eighth periodic"}


def map_class(g):
    armi_ready()
    from armi.utils import asciimaps

    return getattr(asciimaps, MAP_CLASS[g])


def lines_to_text(lines, indent=True):
    """token rows -> text.  White space between tokens carries no meaning; rows are indented like armi's own maps
    only to exercise the reader's stripping."""
    out = []
    for k, row in enumerate(lines):
        out.append((" " * (k % 3) if indent else "") + "  ".join(row))
    return "\n".join(out) + "\n"


def text_to_lines(text):
    return [ln.split() for ln in text.strip("\n").splitlines()]


def cells_dict(seq):
    return {(int(i), int(j)): str(v) for i, j, v in seq}


def cells_seq(d, drop="-"):
    return sorted([int(i), int(j), str(v)] for (i, j), v in d.items() if str(v) != drop)


def read_map(g, text):
    m = map_class(g)()
    m.readAscii(text)
    return m


def write_map(g, cells):
    """fresh map from i,j data -> text (the two public steps gridContentsToAscii + writeAscii)."""
    m = map_class(g)()
    for ij, v in cells.items():
        m[ij] = v
    m.gridContentsToAscii()
    s = io.StringIO()
    m.writeAscii(s)
    return s.getvalue()


def grid_yaml(name, geom, dom, lines=None, cells=None, pitch=None, bounds=None):
    y = ["%s:" % name, "    geom: %s" % geom, "    symmetry: %s" % SYMMETRY[dom]]
    if pitch:
        y += ["    lattice pitch:", "        x: %s" % num(pitch[0]), "        y: %s" % num(pitch[1])]
    if bounds:
        y += ["    grid bounds:"]
        for k, vals in bounds.items():
            y += ["        %s: [%s]" % (k, ", ".join(num(v) for v in vals))]
    if lines is not None:
        y += ["    lattice map: |"] + ["        " + ln for ln in lines_to_text(lines).splitlines()]
    if cells is not None:
        if cells:
            y += ["    grid contents:"] + ["        [%d, %d]: %s" % (i, j, v) for i, j, v in cells]
        else:
            y += ["    grid contents: {}"]
    return "\n".join(y) + "\n"


def load_grids(text):
    armi_ready()
    from ruamel.yaml import CLoader

    from armi.reactor.blueprints.gridBlueprint import Grids

    return Grids.load(io.StringIO(text), Loader=CLoader)


def save_grids(grids, tryMap=True):
    from armi.reactor.blueprints.gridBlueprint import saveToStream

    s = io.StringIO()
    saveToStream(s, grids, full=False, tryMap=tryMap)
    return s.getvalue()


def saved_map_lines(saved_text, name):
    """the `lattice map` of one grid in a saved grids section, as token rows (None if saved as a dictionary)."""
    from ruamel.yaml import YAML

    data = YAML(typ="safe").load(saved_text)
    lm = (data.get(name) or {}).get("lattice map")
    return None if not lm else text_to_lines(lm)


# ------------------------------------------------------------------------------------------------------------
# numbers of the abstract documents
# ------------------------------------------------------------------------------------------------------------
def num(v):
    """abstract number -> YAML scalar text.  ints stay ints; [n, d] rationals become the shortest exact decimal
    when there is one (all generated denominators divide a power of ten), else repr(float)."""
    if isinstance(v, (list, tuple)):
        n, d = v
        return dec(n, d)
    return str(v)


def dec(n, d):
    from fractions import Fraction

    f = Fraction(n, d)
    if f.denominator == 1:
        return "%d.0" % f.numerator
    for k in range(1, 12):
        if (10 ** k) % f.denominator == 0:
            q = f.numerator * (10 ** k // f.denominator)
            s = "%0*d" % (k + 1, abs(q))
            return ("-" if q < 0 else "") + s[:-k] + "." + s[-k:]
    return repr(n / d)


def fl(v):
    if isinstance(v, (list, tuple)):
        return v[0] / v[1]
    return float(v)


# ------------------------------------------------------------------------------------------------------------
# abstract document -> blueprint YAML text
# ------------------------------------------------------------------------------------------------------------
FORMATS = {"mf": "mass fractions", "nd": "number densities", "nf": "number fractions"}
LENGTH_UNIT = 100  # abstract lengths count 0.01 cm


def _dim_text(name, v):
    if v["k"] == "link":
        return "%s.%s" % (v["c"], v["d"])
    if name == "mult":
        return str(v["v"])
    return dec(v["v"], LENGTH_UNIT)


def _obj(x):
    """TLC prints a function with an empty domain as []"""
    return {} if isinstance(x, list) and not x else x


def render(doc):
    """The YAML text of an abstract document.  Purely syntactic; duplicate names become duplicate keys, on purpose."""
    y = []
    if doc.get("nuc"):
        y.append("nuclide flags:")
        for n in doc["nuc"]:
            y.append("    %s: {burn: false, xs: true}" % n)
    if doc["iso"]:
        y.append("custom isotopics:")
        for iso in doc["iso"]:
            y.append("    %s:" % iso["name"])
            y.append("        input format: %s" % FORMATS[iso["fmt"]])
            for nuc, v in iso["vec"]:
                y.append("        %s: %s" % (nuc, num(v)))
            if iso["dens"][0] != 0:
                y.append("        density: %s" % num(iso["dens"]))
    y.append("blocks:")
    for k, b in enumerate(doc["blocks"], 1):
        y.append("    %s: &b%d" % (" ".join(b["name"]), k))
        if b["grid"]:
            y.append("        grid name: %s" % b["grid"])
        for c in b["comps"]:
            y.append("        %s:" % c["name"])
            y.append("            shape: %s" % c["shape"])
            if c["shape"] == "Group":
                continue
            y.append("            material: %s" % c["mat"])
            if c["iso"]:
                y.append("            isotopics: %s" % c["iso"])
            y.append("            Tinput: %s.0" % c["ti"])
            y.append("            Thot: %s.0" % c["th"])
            for d, v in sorted(_obj(c["dims"]).items()):
                if v["k"] != "none":
                    y.append("            %s: %s" % (d, _dim_text(d, v)))
            if c["lat"]:
                y.append("            latticeIDs: [%s]" % ", ".join('"%s"' % i for i in c["lat"]))
    if doc.get("comps"):
        y.append("components:")
        for c in doc["comps"]:
            y.append("    %s:" % c["name"])
            y.append("        shape: %s" % c["shape"])
            y.append("        material: %s" % c["mat"])
            y.append("        Tinput: %s.0" % c["ti"])
            y.append("        Thot: %s.0" % c["th"])
            for d, v in sorted(_obj(c["dims"]).items()):
                if v["k"] != "none":
                    y.append("        %s: %s" % (d, _dim_text(d, v)))
    if doc.get("groups"):
        y.append("component groups:")
        for g in doc["groups"]:
            y.append("    %s:" % g["name"])
            for name, mult in g["members"]:
                y.append("        %s:" % name)
                y.append("            mult: %s" % mult)
    y.append("assemblies:")
    for a in doc["asms"]:
        y.append("    %s:" % " ".join(a["name"]))
        y.append("        specifier: %s" % a["spec"])
        y.append("        blocks: [%s]" % ", ".join("*b%d" % k for k in a["blocks"]))
        y.append("        height: [%s]" % ", ".join("%d.0" % h for h in a["height"]))
        y.append("        axial mesh points: [%s]" % ", ".join(str(m) for m in a["mesh"]))
        y.append("        xs types: [%s]" % ", ".join(a["xs"]))
        if a["mods"]:
            y.append("        material modifications:")
            one = lambda v: "''" if not v else str(v[0]) if len(v) == 1 else num(v)  # noqa: E731  blank | name | number
            vals = lambda m: "[%s]" % ", ".join(one(v) for v in m["vals"])  # noqa: E731
            for m in a["mods"]:
                if m["scope"] == "":
                    y.append("            %s: %s" % (m["key"], vals(m)))
            scopes = []
            for m in a["mods"]:
                if m["scope"] and m["scope"] not in scopes:
                    scopes.append(m["scope"])
            if scopes:
                y.append("            by component:")
                for s in scopes:
                    y.append("                %s:" % s)
                    for m in a["mods"]:
                        if m["scope"] == s:
                            y.append("                    %s: %s" % (m["key"], vals(m)))
    y.append("systems:")
    y.append("    core:")
    y.append("        grid name: %s" % doc["core"])
    y.append("        origin: {x: 0.0, y: 0.0, z: 0.0}")
    y.append("grids:")
    for g in doc["grids"]:
        bounds = None
        if g.get("bounds"):  # theta-R-Z: hundredths of a radian / of a cm
            bounds = {"theta": [[v, LENGTH_UNIT] for v in g["bounds"][0]], "r": [[v, LENGTH_UNIT] for v in g["bounds"][1]]}
        if g["mode"] == "map":
            t = grid_yaml(g["name"], g["geom"], g["dom"], lines=g["text"])
        else:
            t = grid_yaml(g["name"], g["geom"], g["dom"], cells=[[i, j, '"%s"' % v] for i, j, v in g["cells"]], bounds=bounds)
        y += ["    " + ln for ln in t.splitlines()]
    return "\n".join(y) + "\n"


# ------------------------------------------------------------------------------------------------------------
# text -> real objects
# ------------------------------------------------------------------------------------------------------------
_CS = None


def quiet():
    """armi's HEADER log level lies above CRITICAL: silence it too (refusals are exercised on purpose)."""
    import logging
    import os
    import warnings

    armi_ready()
    if not os.environ.get("VERIF_ARMI_LOG"):
        logging.disable(1000)
        warnings.filterwarnings("ignore", category=RuntimeWarning, module=r"armi\..*")


def default_settings():
    global _CS
    if _CS is None:
        quiet()
        from armi import settings

        _CS = settings.Settings()
        quiet()
    return _CS


def load_blueprints(text):
    quiet()
    from armi.reactor.blueprints import Blueprints

    return Blueprints.load(io.StringIO(text))


def build_reactor(text, cs=None):
    from armi.reactor import reactors

    bp = load_blueprints(text)
    return reactors.factory(cs or default_settings(), bp)


# ------------------------------------------------------------------------------------------------------------
# real objects -> observation
# ------------------------------------------------------------------------------------------------------------
def flag_names(obj):
    from armi.reactor.flags import Flags

    return sorted(Flags.toString(obj.p.flags).split())


def project_composition(c):
    """weight-free observables of a component's composition (unit conversions only)."""
    from armi.nucDirectory import nuclideBases
    from armi.utils import units

    K = units.MOLES_PER_CC_TO_ATOMS_PER_BARN_CM
    nd = {n: float(v) for n, v in c.getNumberDensities().items() if v > 0.0}
    md = {n: v * nuclideBases.byName[n].weight / K for n, v in nd.items()}
    rho = sum(md.values())
    ntot = sum(nd.values())
    out = {"nd": nd, "md": md, "rho": rho, "nuclides": sorted(nd),
           "nf": {n: v / ntot for n, v in nd.items()} if ntot else {},
           "mf": {n: v / rho for n, v in md.items()} if rho else {}}
    hm = {n: v for n, v in md.items() if nuclideBases.byName[n].isHeavyMetal()}
    if hm:
        out["hmf"] = {n: v / sum(hm.values()) for n, v in hm.items()}
        out["hmnuclides"] = sorted(hm)
    u5, u8 = md.get("U235", 0.0), md.get("U238", 0.0)
    if u5 + u8 > 0:
        out["enr"] = u5 / (u5 + u8)
    if rho:
        out["zr"] = sum(v for n, v in md.items() if n.startswith("ZR")) / rho
    return out


def project_component(c):
    from armi.reactor import grids
    from armi.reactor.components import Component

    if not isinstance(c, Component):  # a component group: a composite of its members
        return {"name": c.name, "shape": "Group", "members": {m.name: project_component(m) for m in c}, "nmembers": len(c)}
    from armi.reactor.components.component import _DimensionLink

    dims, links = {}, []
    for d in c.DIMENSION_NAMES:
        raw = c.p[d]
        if isinstance(raw, _DimensionLink):
            links.append([d, raw.getLinkedComponent().name, raw[1]])
        if d == "mult" or d == "modArea":
            continue
        v = c.getDimension(d, cold=True)
        if v is not None:
            dims[d] = float(v) * LENGTH_UNIT
    loc = c.spatialLocator
    cells = sorted([int(x.i), int(x.j)] for x in loc) if isinstance(loc, grids.MultiIndexLocation) else []
    out = {"name": c.name, "shape": type(c).__name__, "mat": c.material.name, "ti": float(c.inputTemperatureInC),
           "th": float(c.temperatureInC), "dims": dims, "links": sorted(links), "cells": cells, "comp": project_composition(c)}
    if "mult" in c.DIMENSION_NAMES:
        m = c.getDimension("mult")
        out["mult"] = None if m is None else float(m)
    return out


def project_block(b):
    return {"type": b.getType(), "flags": flag_names(b), "height": float(b.getHeight()), "zbot": float(b.p.zbottom),
            "ztop": float(b.p.ztop), "xs": b.p.xsType, "axMesh": int(b.p.axMesh), "k": int(b.spatialLocator.k),
            "comps": {c.name: project_component(c) for c in b}, "ncomps": len(b)}


def project_assembly(a):
    return {"type": a.getType(), "flags": flag_names(a), "blocks": [project_block(b) for b in a],
            "cell": [int(a.spatialLocator.i), int(a.spatialLocator.j)]}


def project_reactor(r):
    core = r.core
    asm = {}
    for a in core:
        asm.setdefault("%d,%d" % (int(a.spatialLocator.i), int(a.spatialLocator.j)), []).append(project_assembly(a))
    book = {
        "children": len(core),
        "byName": len(core.assembliesByName),
        "byLocator": sum(1 for a in core if core.childrenByLocator.get(a.spatialLocator) is a),
        "blocksByName": len(core.blocksByName),
        "nblocks": sum(len(a) for a in core),
        "parents": all(a.parent is core for a in core) and core.parent is r,
        "namesUnique": len({a.getName() for a in core}) == len(core),
    }
    return {"asm": asm, "book": book, "mesh": [float(z) for z in core.p.referenceBlockAxialMesh],
            "geom": str(core.spatialGrid.geomType) if hasattr(core.spatialGrid, "geomType") else "",
            "symmetry": str(core.spatialGrid.symmetry)}
