"""C18 -- render abstract blueprint documents (as emitted by spec/bp/Blueprint.tla) to blueprint YAML text + settings,
build the real objects, and project them.  Also the small helpers around lattice text maps (spec/bp/AsciiMap.tla).

Nothing here decides what the right answer is: rendering is a syntactic transcription of the abstract document,
projection reads attributes of the real objects.  Other builders may import it:

    text = render(doc)                  # doc: the JSON object printed by Blueprint_mc!EmitState under "doc"
    bp   = load_blueprints(text)        # Blueprints.load from a stream (works with the installed ruamel)
    r    = build_reactor(text)          # reactors.factory(default settings, bp)
    proj = project_reactor(r)           # {"core": [[i, j, type]..], "asm": {"i,j": {...blocks, components...}}, ...}
"""
import io

from harness.armi_env import armi_ready

# ------------------------------------------------------------------------------------------------------------
# lattice text maps
# ------------------------------------------------------------------------------------------------------------
MAP_CLASS = {
    "cart": "AsciiMapCartesian",
    "third": "AsciiMapHexThirdFlatsUp",
    "fullflat": "AsciiMapHexFullFlatsUp",
    "fulltips": "AsciiMapHexFullTipsUp",
}
SYMMETRY = {"full": "full", "third": "third periodic", "quarter": "quarter reflective", "eighth": "eighth periodic"}


def map_class(g):
    armi_ready()
    from armi.utils import asciimaps

    return getattr(asciimaps, MAP_CLASS[g])


def lines_to_text(lines, indent=True):
    """token rows -> text.  White space between tokens carries no meaning; rows are indented like armi's own maps
    only to exercise the reader's stripping."""
    out = []
    for k, row in enumerate(lines):
        out.append((" " * (k % 3) if indent else "") + "  ".join(row))
    return "\n".join(out) + "\n"


def text_to_lines(text):
    return [ln.split() for ln in text.strip("\n").splitlines()]


def cells_dict(seq):
    return {(int(i), int(j)): str(v) for i, j, v in seq}


def cells_seq(d, drop="-"):
    return sorted([int(i), int(j), str(v)] for (i, j), v in d.items() if str(v) != drop)


def read_map(g, text):
    m = map_class(g)()
    m.readAscii(text)
    return m


def write_map(g, cells):
    """fresh map from i,j data -> text (the two public steps gridContentsToAscii + writeAscii)."""
    m = map_class(g)()
    for ij, v in cells.items():
        m[ij] = v
    m.gridContentsToAscii()
    s = io.StringIO()
    m.writeAscii(s)
    return s.getvalue()


def grid_yaml(name, geom, dom, lines=None, cells=None, pitch=None, bounds=None):
    y = ["%s:" % name, "    geom: %s" % geom, "    symmetry: %s" % SYMMETRY[dom]]
    if pitch:
        y += ["    lattice pitch:", "        x: %s" % num(pitch[0]), "        y: %s" % num(pitch[1])]
    if bounds:
        y += ["    grid bounds:"]
        for k, vals in bounds.items():
            y += ["        %s: [%s]" % (k, ", ".join(num(v) for v in vals))]
    if lines is not None:
        y += ["    lattice map: |"] + ["        " + ln for ln in lines_to_text(lines).splitlines()]
    if cells is not None:
        if cells:
            y += ["    grid contents:"] + ["        [%d, %d]: %s" % (i, j, v) for i, j, v in cells]
        else:
            y += ["    grid contents: {}"]
    return "\n".join(y) + "\n"


def load_grids(text):
    armi_ready()
    from ruamel.yaml import CLoader

    from armi.reactor.blueprints.gridBlueprint import Grids

    return Grids.load(io.StringIO(text), Loader=CLoader)


def save_grids(grids, tryMap=True):
    from armi.reactor.blueprints.gridBlueprint import saveToStream

    s = io.StringIO()
    saveToStream(s, grids, full=False, tryMap=tryMap)
    return s.getvalue()


def saved_map_lines(saved_text, name):
    """the `lattice map` of one grid in a saved grids section, as token rows (None if saved as a dictionary)."""
    from ruamel.yaml import YAML

    data = YAML(typ="safe").load(saved_text)
    lm = (data.get(name) or {}).get("lattice map")
    return None if not lm else text_to_lines(lm)


# ------------------------------------------------------------------------------------------------------------
# numbers of the abstract documents
# ------------------------------------------------------------------------------------------------------------
def num(v):
    """abstract number -> YAML scalar text.  ints stay ints; [n, d] rationals become the shortest exact decimal
    when there is one (all generated denominators divide a power of ten), else repr(float)."""
    if isinstance(v, (list, tuple)):
        n, d = v
        return dec(n, d)
    return str(v)


def dec(n, d):
    from fractions import Fraction

    f = Fraction(n, d)
    if f.denominator == 1:
        return "%d.0" % f.numerator
    for k in range(1, 12):
        if (10 ** k) % f.denominator == 0:
            q = f.numerator * (10 ** k // f.denominator)
            s = "%0*d" % (k + 1, abs(q))
            return ("-" if q < 0 else "") + s[:-k] + "." + s[-k:]
    return repr(n / d)


def fl(v):
    if isinstance(v, (list, tuple)):
        return v[0] / v[1]
    return float(v)
