"""C12 -- real armi assemblies for the designs of spec/axexp/AxialExpansion.tla.

Only *builds* (from the catalogue the specification prints) and *projects*; no expected value is computed here.

Materials: the specification states two solid expansion laws, L_A = 1 + tau/20 and L_B = 1 + tau/40 with
tau = Tc/250 (tau = 0 is exactly 0.0 C, the input temperature of every component), and fluids whose number density does not depend on temperature.  The classes below are HT9 /
Sodium with exactly those laws (the same device armi's own test_axialExpansionChanger.FakeMat uses).
"""
from harness.armi_env import armi_ready

SCALE = 0.02  # cm per catalogue length unit (pins 0.2..0.9 cm, duct 15/16 cm flat to flat)
T0 = 0.0  # input temperature of every component = level 0 (exactly 0.0 C on purpose)
DT = 250.0  # one temperature level of the specification

_cls = {}


def materials_():
    """name -> material class (created once; armi must be configured first)"""
    if _cls:
        return _cls
    armi_ready()
    from armi.materials import ht9, sodium
    from armi.utils import units

    class C12MatA(ht9.HT9):
        name = "C12MatA"

        def linearExpansionPercent(self, Tk=None, Tc=None):
            return 0.02 * units.getTc(Tc, Tk)

    class C12MatB(ht9.HT9):
        name = "C12MatB"

        def linearExpansionPercent(self, Tk=None, Tc=None):
            return 0.01 * units.getTc(Tc, Tk)

    class C12Fluid(sodium.Sodium):
        name = "C12Fluid"

        def pseudoDensity(self, Tk=None, Tc=None):
            return 0.85

    _cls.update({"A": C12MatA, "B": C12MatB, "F": C12Fluid})
    # resolvable by name (a database load re-creates components from the material's name)
    for k in (C12MatA, C12MatB, C12Fluid):
        k.__module__ = __name__
        k.__qualname__ = k.__name__
        globals()[k.__name__] = k
    from armi import materials

    if __name__ not in materials._MATERIAL_NAMESPACE_ORDER:
        materials.setMaterialNamespaceOrder([__name__] + list(materials._MATERIAL_NAMESPACE_ORDER))
    return _cls


def _flags(names):
    from armi.reactor.flags import Flags

    f = Flags(0)
    for n in names:
        f |= getattr(Flags, n.upper())
    return f


def make_component(name, ct, hot=0):
    from armi.reactor.components import Circle, Hexagon, UnshapedComponent

    mat = materials_()[ct["mat"]]()
    base = {"Tinput": T0, "Thot": T0 + DT * hot}
    if ct["cls"] == "Circle":
        c = Circle(name, mat, od=ct["od"] * SCALE, id=ct["idm"] * SCALE, mult=float(ct["mult"]), **base)
    elif ct["cls"] == "Hexagon":
        c = Hexagon(name, mat, op=ct["od"] * SCALE, ip=ct["idm"] * SCALE, mult=float(ct["mult"]), **base)
    else:
        c = UnshapedComponent(name, mat, area=1.0, **base)
    c.setType(name, _flags(ct["flags"]))
    return c


def make_block(tname, bt, CT, height, hot=0):
    from armi.reactor.blocks import HexBlock
    from armi.reactor.components import DerivedShape, Hexagon

    b = HexBlock(tname, height=float(height))
    for cn in bt["comps"]:
        b.add(make_component(cn, CT[cn], hot))
    fl = materials_()["F"]
    b.add(DerivedShape("coolant", fl(), Tinput=T0, Thot=T0))
    b.add(Hexagon("intercoolant", fl(), Tinput=T0, Thot=T0, op=17.0, ip=16.0, mult=1.0))
    b.setType(tname, _flags(bt["flags"]))
    b.getVolumeFractions()
    return b


def make_dummy(height):
    from armi.reactor.blocks import HexBlock
    from armi.reactor.components import Hexagon
    from armi.reactor.flags import Flags

    b = HexBlock("dummy", height=float(height))
    b.add(Hexagon("dummy coolant", materials_()["F"](), Tinput=T0, Thot=T0, op=17.0, ip=0.0, mult=1.0))
    b.getVolumeFractions()
    b.setType("dummy", Flags.DUMMY)
    return b


def build_assembly(A, CT, BT):
    """A = the specification's design record (types, hs, top, hd, expl)."""
    armi_ready()
    from armi.reactor import grids
    from armi.reactor.assemblies import HexAssembly

    a = HexAssembly("c12Assembly")
    a.spatialGrid = grids.AxialGrid.fromNCells(numCells=1)
    a.spatialGrid.armiObject = a
    for t, hgt in zip(A.get("types0", A["types"]), A["hs"]):  # types0 = as built (blocks may be replaced later in a history)
        a.add(make_block(t, BT[t], CT, hgt, A.get("hot", 0)))
    if A.get("top"):
        a.add(make_block(A["top"], BT[A["top"]], CT, A["hd"], A.get("hot", 0)))  # an ordinary block on top (not flagged DUMMY)
    else:
        a.add(make_dummy(A["hd"]))
    a.calculateZCoords()
    a.reestablishBlockOrder()
    for b, en in zip(a, A["expl"]):
        if en:
            b.setAxialExpTargetComp(b.getComponentByName(en))  # what BlockBlueprint.construct does for an explicit target
    return a


def temp_grid(ng):
    return [0.0 if j == 1 else (26.0 * (j - 1) + 1.0) / 13.0 for j in range(1, ng + 1)]


def temp_field(levels):
    return [T0 + DT * lv for lv in levels]


_rule_cls = {}


def changer_class(rule):
    """AxialExpansionChanger whose linkage is decided by `rule`.  "default" is armi's class itself; any other rule is
    installed the documented way: a subclass of AssemblyAxialLinkage overriding the areAxiallyLinked hook."""
    armi_ready()
    from armi.reactor.converters.axialExpansionChanger import AxialExpansionChanger
    from armi.reactor.converters.axialExpansionChanger.assemblyAxialLinkage import AssemblyAxialLinkage, areAxiallyLinked
    from armi.reactor.converters.axialExpansionChanger.expansionData import ExpansionData
    from armi.reactor.flags import Flags

    if rule == "default":
        return AxialExpansionChanger, AssemblyAxialLinkage
    if rule not in _rule_cls:
        if rule != "freeclad":
            raise ValueError("unknown link rule " + rule)

        class FreeCladLinkage(AssemblyAxialLinkage):
            """cladding tubes are never linked to anything; everything else follows the default rule"""

            @staticmethod
            def areAxiallyLinked(componentA, componentB):
                if componentA.hasFlags(Flags.CLAD) or componentB.hasFlags(Flags.CLAD):
                    return False
                return areAxiallyLinked(componentA, componentB)

        class FreeCladChanger(AxialExpansionChanger):
            def setAssembly(self, a, setFuel=True, expandFromTinputToThot=False):
                self.linked = FreeCladLinkage(a)
                self.expansionData = ExpansionData(a, setFuel=setFuel, expandFromTinputToThot=expandFromTinputToThot)
                self._isTopDummyBlockPresent()

        _rule_cls[rule] = (FreeCladChanger, FreeCladLinkage)
    return _rule_cls[rule]
