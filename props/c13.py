"""C13 -- symmetry conversions of the core multiply and restore the model exactly.

spec/core/SymmetryConversion.tla is the reference design (one action per public call of ThirdCoreHexToFullCoreChanger /
EdgeAssemblyChanger and per branch of it); this module binds it to the real code:

1. exhaustive TLC run of the reference (all invariants, per-action coverage) + the literal restore clause that TLC refutes
   (interpretation I2), whose refuting behaviour is run on the real code and reported as a note;
2. spec -> code: the graph TLC explores from a family of loading patterns is printed edge by edge with the observation of
   every state; walks of real convert / restorePreviousGeometry / addEdgeAssemblies / removeEdgeAssemblies /
   scaleParamsRelatedToSymmetry calls (and `solve`: assignment of every valued volume-integrated parameter, standing for the
   flux solve between adding the edge assemblies and scaling; `editCopy`: a client pushes an unregistered block into a
   temporary copy while the core is full) on
   generated third cores (harness/gen_core.py assemblies, random block parameters, ONE array object assigned to every
   block as a volume-integrated parameter, two zones) take every edge at least once and compare,
   after EVERY call, the complete projection (cells, which original each assembly is / copies, rotation, symmetry factor,
   reported mass and volume fractions, stored parameter scales, every other parameter and the block contents unchanged,
   childrenByLocator / assembliesByName / blocksByName / string-location lookups, name uniqueness, object sharing) and the
   core totals (count, volume, mass of every nuclide, calcTotalParam / getTotalBlockParam of volume-integrated parameters,
   with addSymmetricPositions and calcBasedOnFullObj) against the exact rational coefficient vectors TLC printed;
3. code -> spec: seeded random call histories on random loading patterns of a 5-ring third core (holes, edge cells) are
   recorded from the real code and validated by TLC event by event; for some of them (and for the full test reactor in the
   thorough tier) TLC also prints the coefficient vectors of every matched state and the recorded totals are compared.

Nothing here computes an expected value: images, factors, scales, lookups and coefficients all come from TLC's evaluation of
the specification; the adapter builds, applies, measures ratios against the values the assemblies were built with, compares.
"""
import json
import math
import os
import random
import re
from collections import deque
from fractions import Fraction

from harness import common, gen_core, tlc, tracecheck
from harness import replay as rp
from harness.armi_env import armi_ready

MODDIR = os.path.join(common.SPEC, "core")
MOD = "SymmetryConversion_mc"
TRACE = "SymmetryConversion_trace"
ACTIONS = ("Convert", "ConvertAlreadyFull", "Restore", "RestoreNothing", "AddEdges", "AddEdgesAlreadyThere",
           "AddEdgesFullCore", "RemoveEdges", "RemoveEdgesFullCore", "ScaleParams", "ScaleParamsNothing", "Solve", "EditCopy")

# tolerances (constants of the adapter)
RTOL_RATIO = 1e-9   # a measured ratio (stored / built value, reported / full volume ...) is one division of two doubles that
                    # went through at most a few multiplications / divisions by 2 or 3 per conversion of the history
RTOL_TOTAL = 1e-9   # core totals are sums of <= ~10^3 products compared with the same sum taken with exact coefficients
MAX_DEN = 12        # denominators of the rationals the specification can produce are 1, 2, 3 (and 6); anything else is reported raw

LETTERS = ("GF", "F", "GFP")   # block stacks of the generated assemblies, by original index mod 3

# volume-integrated block parameters given values (scalars, an array, a plain list; reactionRates stays None)
VI_SCALARS = ("power", "massHmBOL", "kgHM", "powerGenerated")
VI_VECTOR = "mgFlux"
VI_LIST = "adjMgFlux"
# ONE array object created by the harness and assigned (no copying setter) to every block of every assembly, the way a client
# hands a uniform flux guess to all blocks: the converters must never modify it in place (Obs.inputsIntact)
VI_ALIASED = "lastMgFlux"
ZONES = ("A", "B")              # two zones, by parity of the original's index (ZoneOfOrigin in the specification)
OTHER_SET = ("pdens", "buRate")
# scalar fluxes: as built until scaleParamsRelatedToSymmetry recomputes them from the combined multigroup fluxes (Obs.fx);
# they are observed through fx and left out of "every other parameter is unchanged"
FX_SET = ("flux", "fluxAdj")
FX_ALL = ("flux", "fluxAdj", "fluxGamma")
PER_ASSEMBLY_NUCLIDES = ("", "U235", "FE", "NA")
TAG = "percentBu"               # tag that identifies which original an assembly is / is a copy of (never scaled, copied verbatim)

# parameters of a COPY that legitimately differ from its source: identity, move bookkeeping, the rotation itself
# (Core.add stamps a new assembly with its charge time / cycle / fissile mass / burnup on entry)
COPY_DIFF_ASM = {"assemNum", "serialNum", "numMoves", "chargeTime", "chargeCycle", "chargeFis", "chargeBu"}
COPY_DIFF_BLK = {"assemNum", "serialNum", "orientation", "displacementX", "displacementY"}   # (the displacement is observed as Obs.disp)
DISP0_CM = (0.3, -0.2)          # displacement every block is built with, in cm (D0 of the specification); the parameter is in metres
RTOL_DISP = 1e-12               # two products and a sum of doubles per rotation


# ------------------------------------------------------------------------------------------------------------
# helpers (no oracle here: measuring, comparing, naming)
# ------------------------------------------------------------------------------------------------------------
def _same(x, y):
    import numpy as np

    if x is y:
        return True
    tx, ty = type(x), type(y)
    if tx is ty and tx in (float, int, bool, str):
        return x == y or (tx is float and x != x and y != y)
    if x is None or y is None:
        return x is None and y is None
    if isinstance(x, str) or isinstance(y, str):
        return isinstance(x, str) and isinstance(y, str) and x == y
    try:
        ax, ay = np.asarray(x), np.asarray(y)
        if ax.shape != ay.shape:
            return False
        if ax.dtype.kind in "fc" or ay.dtype.kind in "fc":
            return bool(np.array_equal(ax, ay, equal_nan=True))
        return bool(np.array_equal(ax, ay))
    except Exception:
        return repr(x) == repr(y)


def np_equal(x, y):
    import numpy as np

    return np.array_equal(x, y)


def _is_nonzero_number(v):
    import numpy as np

    if v is None or isinstance(v, (str, bytes, bool)):
        return False
    try:
        a = np.asarray(v, dtype=float)
    except Exception:  # noqa: BLE001
        return False
    return a.size > 0 and bool(np.any(a != 0.0)) and bool(np.all(np.isfinite(a)))


def _ratio(new, old):
    """elementwise new/old of a scalar / list / array parameter value as a flat list of floats; entries that were built as
    zero must still be zero; None if the shapes differ"""
    import numpy as np

    try:
        a, b = np.asarray(new, dtype=float).ravel(), np.asarray(old, dtype=float).ravel()
    except Exception:  # noqa: BLE001
        return None
    if a.shape != b.shape:
        return None
    out = []
    for x, y in zip(a, b):
        if y == 0.0:
            if x != 0.0:
                return None
        else:
            out.append(float(x) / float(y))
    return out


def _as_rational(values):
    """all measured ratios agree with one small rational -> [num, den]; otherwise what was measured"""
    if not values:
        return {"unmeasured": True}
    f = Fraction(values[0]).limit_denominator(MAX_DEN)
    for v in values:
        if not (abs(v - f) <= RTOL_RATIO * max(abs(v), abs(float(f)))):
            return {"inconsistent": sorted(set(round(x, 12) for x in values))[:6]}
    return [f.numerator, f.denominator]


def _snap_params(obj):
    out = {}
    for pd in obj.p.paramDefs:
        try:
            v = obj.p[pd.name]
        except Exception as ex:  # noqa: BLE001  parameters without a default that were never set
            v = "<%s>" % type(ex).__name__
        if hasattr(v, "copy") and not isinstance(v, (str, bytes)):
            try:
                v = v.copy()
            except Exception:  # noqa: BLE001
                pass
        out[pd.name] = v
    return out


def _owned_ids(a, not_owned=()):
    """identities of everything an assembly is expected to own exclusively (not_owned: objects the harness itself shares)"""
    import numpy as np

    ids = {}

    def add(o, what):
        if o is not None and id(o) not in not_owned:
            ids[id(o)] = what

    def params(o, what):
        add(o.p, what + ".p")
        for pd in o.p.paramDefs:
            v = getattr(o.p, pd.fieldName, None)
            if isinstance(v, (dict, list, np.ndarray)):
                add(v, "%s.p.%s" % (what, pd.name))

    add(a, "assembly")
    params(a, "assembly")
    add(a.spatialGrid, "assembly.spatialGrid")
    add(a.spatialLocator, "assembly.spatialLocator")
    for b in a:
        add(b, "block")
        params(b, "block")
        add(b.spatialGrid, "block.spatialGrid")
        add(b.spatialLocator, "block.spatialLocator")
        for c in b:
            add(c, "component")
            params(c, "component")
            add(getattr(c, "material", None), "component.material")
            add(c.spatialLocator, "component.spatialLocator")
    return ids


class World:
    pass


# ------------------------------------------------------------------------------------------------------------
# adapter
# ------------------------------------------------------------------------------------------------------------
class CoreAdapter:
    """Generated third cores (harness/gen_core.py assemblies) driven through the real converters."""

    def __init__(self, seed=0, all_cells=None):
        armi_ready()
        from armi.reactor import geometry, grids
        from armi.reactor.converters import geometryConverters
        from armi.reactor.parameters import ParamLocation

        self.gc, self.geometry, self.grids, self.ParamLocation = geometryConverters, geometry, grids, ParamLocation
        self.seed = seed
        self.all_cells = [tuple(c) for c in all_cells] if all_cells else None

    # -- construction --------------------------------------------------------------------------------------
    def build(self, root):
        return self.build_cells([tuple(c) for c in root["pat"]])

    def build_cells(self, pat):
        w = World()
        # trackAssems on and a spent fuel pool present: a purge (discharge=False) must still not leave anything there
        g = gen_core.build_core(layout={}, fresh={}, places={}, n_locs=1, track=True, symmetry="third")
        w.r, w.core = g.r, g.core
        w.orig, w.V0, w.M0, w.A0 = {}, {}, {}, {}
        for o, (i, j) in enumerate(pat, start=1):
            a = gen_core.make_assembly(o, LETTERS[o % 3], assem_num=w.r.incrementAssemNum())
            self.measure_detached(w, o, a)
            w.core.add(a, w.core.spatialGrid[i, j, 0])
            w.orig[o] = a
        self.finish(w)
        return w

    def measure_detached(self, w, o, a):
        """full volume / mass / area of an assembly that is in no core (no symmetry applies)"""
        w.V0[o] = float(a.getVolume())
        nucs = sorted({n for b in a for n in b.getNuclides()})
        w.M0[o] = {n: float(a.getMass(n)) for n in nucs}
        w.M0[o][""] = float(a.getMass())
        w.A0[o] = [float(b.getArea()) for b in a]

    def finish(self, w):
        """block parameters (set once everything is placed: the stored value IS the built value), snapshots, changers"""
        import numpy as np

        viDefs = next(iter(w.orig.values()))[0].p.paramDefs.atLocation(self.ParamLocation.VOLUME_INTEGRATED)
        w.vi = set(viDefs.names)
        for o, a in w.orig.items():
            for k, b in enumerate(a):
                rng = random.Random(self.seed * 1000003 + o * 101 + k)
                for n in VI_SCALARS:
                    b.p[n] = rng.uniform(0.5, 2.0) * 10.0 ** rng.randrange(0, 7)
                b.p[VI_VECTOR] = np.array([rng.uniform(0.5, 2.0) * 1e12 for _ in range(3)])   # (its setter makes arrays of lists)
                b.p[VI_LIST] = [rng.uniform(0.5, 2.0) * 1e10 for _ in range(3)]                # stays a plain list
                for n in OTHER_SET + FX_SET:
                    b.p[n] = rng.uniform(0.5, 2.0)
                b.p[TAG] = float(o) + k / 16.0
                b.p.displacementX, b.p.displacementY = DISP0_CM[0] / 100.0, DISP0_CM[1] / 100.0      # a bowed core
        w.alias = np.array([3.0e11, 5.0e11, 7.0e11])
        w.alias0 = w.alias.copy()
        for a in w.orig.values():
            for b in a:
                b.p[VI_ALIASED] = w.alias
        from armi.reactor import zones as zonesmod

        for z, name in enumerate(ZONES, start=1):
            locs = [a.getLocation() for o, a in w.orig.items() if (1 if o % 2 == 1 else 2) == z]
            w.core.zones.addZone(zonesmod.Zone(name, locs))
        w.nucs = sorted({n for m in w.M0.values() for n in m})
        w.P0 = {o: [_snap_params(b) for b in a] for o, a in w.orig.items()}
        w.PA0 = {o: _snap_params(a) for o, a in w.orig.items()}
        w.fp0 = {o: [gen_core.block_fingerprint(b) for b in a] for o, a in w.orig.items()}
        w.name0 = {o: (a.getName(), [b.getName() for b in a]) for o, a in w.orig.items()}
        w.oid = {id(a): o for o, a in w.orig.items()}
        w.pool0 = self.pool_size(w)
        kids0 = {id(a) for a in w.core}
        w.outside0 = {id(a) for a in w.core.assembliesByName.values() if id(a) not in kids0}
        w.outside0 |= {id(b.parent) for b in w.core.blocksByName.values() if id(b.parent) not in kids0}
        w.seen = {}            # id(object) -> name at first sight, for every assembly object ever seen in the core
        w.keep = []            # keeps every object ever seen alive (ids stay unique)
        w.used = set()         # every assembly name ever seen
        self.note_names(w)
        w.ch = self.gc.ThirdCoreHexToFullCoreChanger()
        w.ec = self.gc.EdgeAssemblyChanger()
        w.fresh_ok = True

    @staticmethod
    def pool_size(w):
        sfp = w.r.excore.get("sfp")
        return 0 if sfp is None else len(sfp)

    def note_names(self, w):
        """names of copies must be new when the copy first appears and stay afterwards"""
        ok = True
        for a in w.core:
            n = a.getName()
            if id(a) in w.seen:
                ok = ok and w.seen[id(a)] == n
            else:
                if id(a) not in w.oid and n in w.used:
                    ok = False
                w.seen[id(a)] = n
                w.keep.append(a)
            w.used.add(n)
        w.fresh_ok = ok

    # -- operations ----------------------------------------------------------------------------------------
    def apply(self, w, a):
        n = a["n"]
        if n == "convert":
            w.ch.convert(w.r)
        elif n == "restore":
            w.ch.restorePreviousGeometry()
        elif n == "addEdges":
            (w.ec if a["kept"] else self.gc.EdgeAssemblyChanger()).addEdgeAssemblies(w.core)
        elif n == "removeEdges":
            (w.ec if a["kept"] else self.gc.EdgeAssemblyChanger()).removeEdgeAssemblies(w.core)
        elif n == "scaleParams":
            self.gc.EdgeAssemblyChanger.scaleParamsRelatedToSymmetry(w.core)
        elif n == "solve":
            self.solve(w, a["ps"])
        elif n == "editCopy":
            self.edit_copy(w)
        else:
            raise AssertionError("unknown call " + n)
        self.note_names(w)
        return ""

    def edit_copy(self, w):
        """a client edits a temporary copy while the core is full: a new bottom block (a renamed deep copy of the present one)
        is pushed into the copy that sits in the smallest cell; the core is not told"""
        import copy

        copies = sorted((a for a in w.core if id(a) not in w.oid), key=lambda a: (int(a.spatialLocator.i), int(a.spatialLocator.j)))
        a = copies[0]
        nb = copy.deepcopy(a[0])
        nb.name = "Bextra-%s" % a.getName()
        a.insert(0, nb)

    def solve(self, w, scales):
        """Stands for the flux solve: ASSIGN every valued volume-integrated parameter of every block (built value times the
        scale the action names for the assembly in the x-th occupied cell, sorted) and the scalar fluxes (built values)."""
        import numpy as np

        kids = sorted(w.core, key=lambda a: (int(a.spatialLocator.i), int(a.spatialLocator.j)))
        if len(kids) != len(scales):
            raise AssertionError("solve: %d scales for %d assemblies" % (len(scales), len(kids)))
        for a, (num, den) in zip(kids, scales):
            o = self.origin_of(w, a)
            f = num / den
            shift = len(a) - len(w.P0[o])           # 1 for a copy that carries an extra bottom block (editCopy)
            for k, b in enumerate(a):
                p0 = w.P0[o][max(k - shift, 0)]
                for name, old in p0.items():
                    if name in w.vi and _is_nonzero_number(old):
                        if isinstance(old, list):
                            b.p[name] = [v * f for v in old]
                        elif isinstance(old, np.ndarray):
                            b.p[name] = old * f
                        else:
                            b.p[name] = old * f
                for name in FX_SET:
                    b.p[name] = p0[name]

    # -- projection ----------------------------------------------------------------------------------------
    def origin_of(self, w, a):
        if id(a) in w.oid:
            return w.oid[id(a)]
        try:
            t = float(a[0].p[TAG])
        except Exception:  # noqa: BLE001
            return -1
        o = int(t)
        return o if o in w.orig and t == float(o) else -1

    def rot_of(self, a):
        vals = set()
        for b in a:
            ori = b.p.orientation
            vals.add(None if ori is None else float(ori[2]))
        if len(vals) != 1:
            return {"blocksDiffer": sorted(str(v) for v in vals)}
        v = vals.pop()
        if v is None:
            return 0
        q = v / 120.0
        return int(q) if q == int(q) and 0 <= q < 3 else v

    def kind_of(self, w, a):
        if id(a) in w.oid:
            return 0
        r = self.rot_of(a)
        return r if r in (1, 2) else 3

    def measure(self, w, a, o):
        """(vq, ps, other) of one assembly against the values original o was built with"""
        vq = []
        for nuc in PER_ASSEMBLY_NUCLIDES:     # every nuclide is compared in the core totals; per assembly a few suffice
            m0 = w.M0[o].get(nuc, 0.0)
            if m0 > 0.0:
                vq.append(float(a.getMass(nuc or None)) / m0)
        blocks = list(a)
        if len(blocks) == len(w.P0[o]) + 1:
            # projection rule (Obs.ed): an assembly with one block more than its origin is "edited"; its quantities are not
            # projected; the scalar fluxes of the blocks it shares with the origin still are
            fx = all(_same(b.p[n], w.P0[o][k][n]) for k, b in enumerate(blocks[1:]) for n in FX_SET)
            return [0, 0], [0, 0], [0, 0], fx
        if len(blocks) != len(w.P0[o]):
            return {"blocks": len(blocks)}, {"blocks": len(blocks)}, {"blocks": len(blocks)}, None
        ps, changed = [], []
        fx = True
        is_orig = id(a) in w.oid
        for k, b in enumerate(blocks):
            p0 = w.P0[o][k]
            for name, old in p0.items():
                if not is_orig and name in COPY_DIFF_BLK:
                    continue
                if name in FX_ALL:
                    try:
                        fx = fx and _same(b.p[name], old)
                    except Exception:  # noqa: BLE001
                        fx = False
                    continue
                try:
                    new = b.p[name]
                except Exception as ex:  # noqa: BLE001
                    new = "<%s>" % type(ex).__name__
                if name in w.vi and _is_nonzero_number(old):
                    # a volume-integrated parameter with a value: measured against the built value (zeros must stay zeros)
                    if new is None or isinstance(new, str):
                        changed.append("block.%s" % name)
                    else:
                        r = _ratio(new, old)
                        if r is None:
                            changed.append("block.%s" % name)
                        else:
                            ps.extend(r)
                elif not _same(new, old):
                    changed.append("block.%s" % name)
            if gen_core.block_fingerprint(b) != w.fp0[o][k]:
                changed.append("block.content")
        for name, old in w.PA0[o].items():
            if not is_orig and name in COPY_DIFF_ASM:
                continue
            try:
                new = a.p[name]
            except Exception as ex:  # noqa: BLE001
                new = "<%s>" % type(ex).__name__
            if not _same(new, old):
                changed.append("assembly.%s" % name)
        other = [1, 1] if not changed else {"changed": sorted(set(changed))[:8]}
        psr = _as_rational(ps)
        if isinstance(psr, dict) and "inconsistent" in psr:
            # projection rule (Obs.ps): values that are no common multiple of the built values project to <<0, 0>> ("mixed"),
            # which the specification expects only after scaleParamsRelatedToSymmetry has paired assemblies of different origin
            w.last_notes.append("parameter scales of original %d are not uniform: %s" % (o, psr["inconsistent"]))
            psr = [0, 0]
        return _as_rational(vq), psr, other, fx

    def project(self, w):
        core = w.core
        sym = core.symmetry
        dom, bnd = sym.domain, sym.boundary
        G = self.geometry
        if dom == G.DomainType.THIRD_CORE and bnd == G.BoundaryType.PERIODIC:
            symname = "third"
        elif dom == G.DomainType.FULL_CORE and bnd == G.BoundaryType.NO_SYMMETRY:
            symname = "full"
        else:
            symname = str(sym)

        def cell_of(a):
            idx = a.spatialLocator.getCompleteIndices()
            return [int(idx[0]), int(idx[1])]

        kids = sorted(core, key=cell_of)
        cells = [cell_of(a) for a in kids]
        asm = []
        owned = []
        vol_ok = True
        w.last_notes = []
        for a in kids:
            o = self.origin_of(w, a)
            sfs = {float(b.getSymmetryFactor()) for b in a} | {float(a.getSymmetryFactor())}
            sf = sfs.pop() if len(sfs) == 1 else {"blocksDiffer": sorted(sfs)}
            if o < 1:
                asm.append({"o": o, "orig": False, "rot": self.rot_of(a), "sf": sf, "vq": None, "vqv": None, "ps": None, "fx": None,
                            "other": None, "zone": None, "ed": None})
            else:
                vq, ps, other, fx = self.measure(w, a, o)
                # projection rule (see Obs.vqv in the specification): the volume of an original assembly on the 120-degree
                # line is not projected
                ed = len(a) == len(w.P0[o]) + 1
                zone = core.zones.findZoneItIsIn(a)
                zone = 0 if zone is None else (ZONES.index(zone.name) + 1 if zone.name in ZONES else zone.name)
                if ed:
                    vqv = [0, 0]
                elif id(a) in w.oid and cell_class(cell_of(a)) == "line120":
                    vqv = [0, 0]
                    vol_ok = False
                else:
                    vqv = _as_rational([float(a.getVolume()) / w.V0[o]])
                asm.append({"o": o, "orig": id(a) in w.oid, "rot": self.rot_of(a),
                            "sf": int(sf) if isinstance(sf, float) and sf == int(sf) else sf, "vq": vq, "vqv": vqv, "ps": ps,
                            "fx": fx, "other": other, "zone": zone, "ed": ed})
            owned.append(_owned_ids(a, not_owned=(id(w.alias),)))
        shared = 0
        notes = []
        seen = {}
        for x, ids in enumerate(owned):
            for i, what in ids.items():
                if i in seen and seen[i][0] != x:
                    shared += 1
                    if len(notes) < 4:
                        notes.append("%s of the assembly at %s is also %s of the assembly at %s" % (what, cells[x], seen[i][1], cells[seen[i][0]]))
                else:
                    seen[i] = (x, what)
        by_loc = sorted([int(l.i), int(l.j)] for l in core.childrenByLocator)
        where = []
        for (i, j) in (self.all_cells or []):
            loc = core.spatialGrid[i, j, 0]
            a1 = core.getAssemblyWithStringLocation(core.spatialGrid.getLabel((i, j)))
            a2 = core.childrenByLocator.get(loc)
            if a1 is not a2:
                where.append({"disagree": [repr(a1), repr(a2)]})
            elif a1 is None:
                where.append([0, 0])
            else:
                where.append([self.origin_of(w, a1), self.kind_of(w, a1)])
        name_finds, blk_finds = [], []
        for a, c in zip(kids, cells):
            if core.assembliesByName.get(a.getName()) is a and core.getAssemblyByName(a.getName()) is a:
                name_finds.append(c)
            if all(core.blocksByName.get(b.getName()) is b for b in a):
                blk_finds.append(c)
        live = {id(a) for a in kids}
        # entries for objects that are not children now and were not registered when the world was built (a loaded reactor
        # also lists assemblies that wait outside the core)
        stale_names = sum(1 for a in core.assembliesByName.values() if id(a) not in live and id(a) not in w.outside0)
        stale_owner = {id(b.parent) for b in core.blocksByName.values() if id(b.parent) not in live and id(b.parent) not in w.outside0}
        names = [a.getName() for a in kids]
        bnames = [b.getName() for a in kids for b in a]
        kept = all(a.getName() == w.name0[o][0] and [b.getName() for b in a] == w.name0[o][1]
                   for o, a in w.orig.items() if id(a) in live)
        return {
            "sym": symname, "mult": core.powerMultiplier, "cells": cells, "asm": asm, "byLoc": by_loc, "where": where,
            "nameFinds": name_finds, "blkFinds": blk_finds, "staleNames": stale_names, "staleBlks": len(stale_owner),
            "count": len(core), "zoneCounts": [len(core.getAssemblies(zones=[z])) for z in ZONES],
            "totOk": not any(x.get("ed") for x in asm), "inputsIntact": bool(np_equal(w.alias, w.alias0)), "parOk": all(x["ps"] != [0, 0] or x.get("ed") for x in asm), "pool": self.pool_size(w) - w.pool0, "shared": shared, "namesUnique": len(set(names)) == len(names) and len(set(bnames)) == len(bnames),
            "origNamesKept": kept, "freshNames": bool(w.fresh_ok), "volOk": vol_ok, "notes": notes + w.last_notes,
        }

    # -- totals against the specification's coefficient vectors ---------------------------------------------
    def measure_disp(self, w):
        """per assembly (sorted cells) and block: displacement in cm, and coords() minus the centre of the assembly's cell"""
        out = []
        for a in sorted(w.core, key=lambda a: (int(a.spatialLocator.i), int(a.spatialLocator.j))):
            cx, cy, _ = a.spatialLocator.getGlobalCoordinates()
            out.append([(float(b.p.displacementX) * 100.0, float(b.p.displacementY) * 100.0,
                         float(b.coords()[0]) - float(cx), float(b.coords()[1]) - float(cy)) for b in a])
        return out

    def check_disp(self, obs, measured):
        """the displacement of every block against the exact numbers a + b*sqrt(3) the specification printed"""
        r3 = math.sqrt(3.0)
        if len(obs["disp"]) != len(measured):
            return ".disp: %d assemblies expected, %d measured" % (len(obs["disp"]), len(measured))
        for x, (quad, blocks) in enumerate(zip(obs["disp"], measured)):
            (axn, axd), (bxn, bxd), (ayn, ayd), (byn, byd) = quad
            ex = axn / axd + bxn / bxd * r3
            ey = ayn / ayd + byn / byd * r3
            for dx, dy, cdx, cdy in blocks:
                for what, e, g, tol in (("x", ex, dx, RTOL_DISP), ("y", ey, dy, RTOL_DISP), ("coords.x", ex, cdx, 1e-6), ("coords.y", ey, cdy, 1e-6)):
                    # (coords() is rounded to FLOAT_DIMENSION_DECIMALS and is a difference of numbers ~1e2: absolute 1e-6)
                    if not (abs(e - g) <= tol * max(abs(e), abs(g)) + (1e-6 if what.startswith("coords") else 1e-15)):
                        return ".disp[%d].%s: expected %r, observed %r" % (x, what, e, g)
        return None

    def measure_totals(self, w):
        """what the core reports now (raw floats)"""
        core = w.core
        t = {"volume": float(core.getVolume()), "disp": self.measure_disp(w)}
        for nuc in w.nucs:
            t["mass." + (nuc or "all")] = float(core.getMass(nuc or None))
        for p in VI_SCALARS:
            t["param.%s" % p] = float(core.calcTotalParam(p, generationNum=2))
            t["blockParam.%s" % p] = float(core.getTotalBlockParam(p))
            t["paramSymmetric.%s" % p] = float(core.calcTotalParam(p, generationNum=2, addSymmetricPositions=True))
            t["paramFullObj.%s" % p] = float(core.calcTotalParam(p, generationNum=2, calcBasedOnFullObj=True))
        return t

    def check_totals(self, w, obs, measured=None):
        """the measured totals against the linear forms whose exact rational coefficients the specification printed"""
        if "disp" in obs:
            d = self.check_disp(obs, measured["disp"] if measured is not None else self.measure_disp(w))
            if d:
                return d
        if not obs["d"].get("totOk", True):
            return None     # an edited copy (one block more than its source) is in the core: totals are not comparable
        got = measured if measured is not None else self.measure_totals(w)
        vol = [Fraction(n, d) for n, d in obs["vol"]]
        par = [Fraction(n, d) for n, d in obs["par"]]
        full = [Fraction(n, d) for n, d in obs["full"]]
        mult = obs["d"]["mult"]

        def lin(coef, q):
            return math.fsum(float(c) * q(o) for o, c in enumerate(coef, start=1))

        exp = {}
        if obs["d"]["volOk"]:
            exp["volume"] = lin(vol, lambda o: w.V0[o])
        for nuc in w.nucs:
            exp["mass." + (nuc or "all")] = lin(vol, lambda o: w.M0[o].get(nuc, 0.0))
        for p in (VI_SCALARS if obs["d"]["parOk"] else ()):
            q = lambda o, p=p: math.fsum(float(b[p]) for b in w.P0[o])  # noqa: E731
            e = lin(par, q)
            exp["param.%s" % p] = e
            exp["blockParam.%s" % p] = e
            exp["paramSymmetric.%s" % p] = e * mult
            exp["paramFullObj.%s" % p] = lin(full, q)
        for what, e in exp.items():
            g = got[what]
            if not (abs(e - g) <= RTOL_TOTAL * max(abs(e), abs(g))):
                return ".total.%s: expected %r, observed %r" % (what, e, g)
        return None

    def compare(self, w, obs, totals=True):
        got = self.project(w)
        d = rp.diff(obs["d"], got)
        if d is None and not totals:
            d = self.check_disp(obs, self.measure_disp(w))
        if d is None and totals:
            d = self.check_totals(w, obs)
        return d, got


class ReactorAdapter(CoreAdapter):
    """The full test reactor (blueprints, 73 assemblies, 9 rings, third core) instead of a generated core."""

    def build_reactor(self):
        from armi.reactor.tests.test_reactors import loadTestReactor
        from armi.tests import TEST_ROOT

        import contextlib
        import io

        with contextlib.redirect_stdout(io.StringIO()):     # the loader's banner and interface log go to stdout
            o, r = loadTestReactor(TEST_ROOT)
        w = World()
        w.r, w.core, w.o = r, r.core, o
        w.orig, w.V0, w.M0, w.A0 = {}, {}, {}, {}
        kids = sorted(r.core, key=lambda a: (int(a.spatialLocator.i), int(a.spatialLocator.j)))
        w.pat = [(int(a.spatialLocator.i), int(a.spatialLocator.j)) for a in kids]
        import copy

        for n, a in enumerate(kids, start=1):
            w.orig[n] = a
            det = copy.deepcopy(a)  # a detached copy has symmetry factor 1 and the same content
            self.measure_detached(w, n, det)
        self.finish(w)
        w.ch = self.gc.ThirdCoreHexToFullCoreChanger(o.cs)
        return w


# ------------------------------------------------------------------------------------------------------------
# keys
# ------------------------------------------------------------------------------------------------------------
def pattern_class(pat):
    """input class of a loading pattern (part of the violation keys): judged on the cells that are not edge cells, because
    convert discards the edge assemblies first"""
    cells = {tuple(c) for c in pat if cell_class(tuple(c)) != "line120"}
    if not cells:
        return "edges-only"
    if cells == {(0, 0)}:
        return "centre-only"
    if (0, 0) not in cells:
        return "no-centre"
    return "std"


def cell_class(c):
    i, j = c
    if (i, j) == (0, 0):
        return "centre"
    if i > 0 and i == -2 * j:
        return "line0"
    if j > 0 and j == -2 * i:
        return "line120"
    return "other"


def field_of(first_difference, got):
    head = first_difference.split(":")[0]
    m = re.match(r"^\.asm\[(\d+)\]\.(\w+)", head)
    if m and got and isinstance(got.get("cells"), list) and int(m.group(1)) < len(got["cells"]):
        return "asm.%s@%s" % (m.group(2), cell_class(got["cells"][int(m.group(1))]))
    return re.sub(r"\[\d+\]", "", head).strip(".") or "state"


def key_of(prefix, pat, prev_br, br, first_difference, got):
    return "%s:%s>%s:%s:%s" % (prefix, prev_br, br, field_of(first_difference, got), pattern_class(pat))


# ------------------------------------------------------------------------------------------------------------
# spec -> code: covering walks over the emitted graph
# ------------------------------------------------------------------------------------------------------------
def run_path(ad, root, steps, obs_of):
    """fresh world, every step checked; returns (divergence | None)"""
    w = ad.build(root)
    d, got = ad.compare(w, obs_of[rp.skey(root)])
    if d:
        return _div(root, [], {"n": "init", "kept": False, "br": "Init"}, "Init", d, obs_of[rp.skey(root)], got)
    prev = "Init"
    for i, e in enumerate(steps):
        div = step_check(ad, w, root, steps[: i + 1], prev, obs_of)
        if div:
            return div
        prev = e["act"]["br"]
    return None


def step_check(ad, w, root, steps, prev, obs_of):
    e = steps[-1]
    exp = obs_of.get(e["_tk"])
    try:
        ad.apply(w, e["act"])
        # a call that leaves the abstract state where it was: the whole projection is compared again, the (costly) core totals
        # only where the state has changed
        d, got = ad.compare(w, exp, totals=e["_fk"] != e["_tk"])
    except Exception as ex:  # noqa: BLE001  an exception escaping a legal call or query is a verdict
        import traceback

        return _div(root, steps, e["act"], prev, ".exception: %s escaped from the real code: %s" % (type(ex).__name__, str(ex)[:300]),
                    exp, {"exception": traceback.format_exc()[-2500:]})
    if d:
        return _div(root, steps, e["act"], prev, d, exp, got)
    return None


def _div(root, steps, act, prev, d, exp, got):
    return {"root": root, "behaviour": [s["act"] for s in steps], "action": act, "prev": prev, "first_difference": d,
            "expected": exp, "observed": got, "diverged_at": len(steps)}


def cover(graph, ad, obs_of, max_walk, max_calls):
    """Walk every edge of the emitted graph through the real code with as few rebuilt worlds as possible.
    Returns (n_steps, n_edges_done, n_nontrivial, n_worlds, divergences, n_edges_left)."""
    todo = {}
    for e in graph.edges:
        if e["_tk"] in obs_of and e["_fk"] in graph.path:
            todo[id(e)] = e
    total = len(todo)
    divs, steps_done, worlds, nontriv = [], 0, 0, 0
    bad = set()   # edges at which the real code diverged: never walked again (what lies only behind them stays unvisited)

    def nearest(cur):
        """shortest list of edges from cur that ends with an edge still to do"""
        q = deque([(cur, [])])
        seen = {cur}
        while q:
            k, path = q.popleft()
            outs = graph.succ.get(k, ())
            for e in outs:
                if id(e) in todo:
                    return path + [e]
            for e in outs:
                if id(e) not in bad and e["_tk"] not in seen and e["_tk"] in obs_of:
                    seen.add(e["_tk"])
                    q.append((e["_tk"], path + [e]))
        return None

    for rk in list(graph.roots):
        while steps_done < max_calls:
            plan = nearest(rk)
            if plan is None:
                break
            root = graph.roots[rk]["from"]
            w = ad.build(root)
            worlds += 1
            d, got = ad.compare(w, obs_of[rk])
            if d:
                divs.append(_div(root, [], {"n": "init", "kept": False, "br": "Init"}, "Init", d, obs_of[rk], got))
                for e in list(todo.values()):
                    if graph.path.get(e["_fk"]) is not None and (graph.path[e["_fk"]] or [e])[0]["_fk"] == rk:
                        todo.pop(id(e), None)
                break
            cur, walk, prev = rk, [], "Init"
            while len(walk) < max_walk:
                if not plan:
                    plan = nearest(cur)
                    if plan is None:
                        break
                e = plan.pop(0)
                walk.append(e)
                div = step_check(ad, w, root, walk, prev, obs_of)
                steps_done += 1
                if id(e) in todo:
                    todo.pop(id(e))
                    if e["_fk"] != e["_tk"]:
                        nontriv += 1
                if div:
                    bad.add(id(e))
                    # confirm on the shortest behaviour that ends with this edge (smaller replay file); keep the walk otherwise
                    short = graph.path[e["_fk"]] + [e]
                    if [x["act"] for x in short] != [x["act"] for x in walk]:
                        d2 = run_path(ad, root, short, obs_of)
                        if d2 and d2["diverged_at"] == len(short):
                            div = d2
                    divs.append(div)
                    break
                prev = e["act"]["br"]
                cur = e["_tk"]
            if len(divs) >= 40:
                return steps_done, total - len(todo), nontriv, worlds, divs, len(todo)
    return steps_done, total - len(todo), nontriv, worlds, divs, len(todo)


# ------------------------------------------------------------------------------------------------------------
# code -> spec: random histories on random patterns
# ------------------------------------------------------------------------------------------------------------
CALLS = [{"n": "convert", "kept": False}, {"n": "restore", "kept": False}, {"n": "addEdges", "kept": True},
         {"n": "addEdges", "kept": False}, {"n": "removeEdges", "kept": True}, {"n": "removeEdges", "kept": False},
         {"n": "scaleParams", "kept": False}, {"n": "scaleParams", "kept": False},
         {"n": "solve", "kept": False, "mode": "physical"}, {"n": "solve", "kept": False, "mode": "asis"},
         {"n": "editCopy", "kept": False}]


def random_pattern(rng, dom):
    lines = [c for c in dom if cell_class(c) in ("line0", "line120")]
    p = rng.random()
    density = rng.choice([0.25, 0.5, 0.8, 1.0])
    cells = {c for c in dom if cell_class(c) == "other" and rng.random() < density}
    if rng.random() < 0.8:
        cells.add((0, 0))
    for c in lines:
        q = 0.6 if cell_class(c) == "line0" else (0.0 if p < 0.5 else 0.4)
        if rng.random() < q:
            cells.add(c)
    if not cells:
        cells.add(rng.choice(dom))
    return sorted(cells)


def drive(ad, w, calls, tid, pat, with_totals):
    """run the calls on the real code; the trace for TLC, and (on the side) the totals the core reported after each call"""
    ev, totals = [], []
    last = ad.project(w)
    sf0 = {x["o"]: x["sf"] for x in last["asm"] if x["orig"]}     # factors the built values were written under (measured)
    for a in calls:
        a = dict(a)
        if a["n"] == "scaleParams" and (last["sym"] != "third" or last["count"] == 0):
            continue      # the call is meant for a (non-empty) third core that carries its edge assemblies: precondition I6
        if a["n"] == "editCopy" and (last["sym"] != "full" or all(x["orig"] for x in last["asm"]) or any(x["ed"] for x in last["asm"])):
            continue      # only a temporary copy of a full core is edited, and only once (precondition of the action)
        if a["n"] == "solve" and "ps" not in a:
            # the values a driver writes are inputs, logged with the event: either what a solver would write for the part of
            # each assembly that is modelled now (built factor / current factor, both as measured), or the present values again
            mode = a.pop("mode", "physical")
            a["ps"] = []
            for x in last["asm"]:
                cur = x["ps"]
                if mode == "asis" and isinstance(cur, list) and cur != [0, 0]:
                    a["ps"].append(cur)
                else:
                    sfn = x["sf"] if isinstance(x["sf"], int) and x["sf"] > 0 else 1
                    f = Fraction(int(sf0.get(x["o"], 1)) if isinstance(sf0.get(x["o"], 1), int) else 1, sfn)
                    a["ps"].append([f.numerator, f.denominator])
        try:
            ad.apply(w, a)
            post = ad.project(w)
            last = post
            post.pop("notes", None)
            ev.append({"a": a, "post": post})
            if with_totals:
                totals.append(ad.measure_totals(w))
        except Exception as ex:  # noqa: BLE001  an escaping exception ends the history; TLC rejects the event
            ev.append({"a": a, "post": {"exception": "%s: %s" % (type(ex).__name__, str(ex)[:200])}})
            break
    return {"id": tid, "pat": [list(c) for c in pat], "coef": bool(with_totals), "ev": ev}, totals


def drive_traces(ad, ntraces, nev, seed, dom, n_totals=0):
    rng = random.Random(seed * 7919 + 13)
    traces, side = [], {}
    for t in range(ntraces):
        pat = random_pattern(rng, dom)
        w = ad.build_cells(pat)
        calls = [dict(rng.choice(CALLS)) for _ in range(nev)]
        tr, totals = drive(ad, w, calls, "t%d" % t, pat, t < n_totals)
        traces.append(tr)
        if totals:
            side[tr["id"]] = (w, totals)
    return traces, side


def check_side_totals(rep, ad, res, side, prefix):
    """traces driven with coef=true: TLC printed the coefficient vectors of every state it matched; the totals the core
    reported at that event are compared with them here (TLC cannot hold the floats)"""
    n = 0
    for p in res.prints:
        if not (isinstance(p, dict) and "coef" in p and p["coef"] in side):
            continue
        w, totals = side[p["coef"]]
        k = p["at"] - 1
        if k >= len(totals):
            continue
        obs = {"vol": p["vol"], "par": p["par"], "full": p["full"], "d": {"mult": p["mult"], "volOk": p["volOk"], "parOk": p["parOk"], "totOk": p["totOk"]}, "disp": p["disp"]}
        d = ad.check_totals(w, obs, measured=totals[k])
        n += 1
        if d:
            rep.violation("%s:%s:%s" % (prefix, p["br"], re.sub(r"\[\d+\]", "", d.split(":")[0]).strip(".")),
                          "totals reported by the core after event %d (%s) of recorded history %s differ from the specification's: %s" % (
                              k + 1, p["br"], p["coef"], d), {"direction": "trace-totals", "id": p["coef"], "event": k + 1, "difference": d})
    return n


# ------------------------------------------------------------------------------------------------------------
_SELFTEST = False
_EMIT_CACHE = {}


def emitted(cfg):
    if cfg not in _EMIT_CACHE:
        _EMIT_CACHE[cfg] = tlc.run(MOD, cfg, MODDIR, workers=1, coverage=False, timeout=3000)
    return _EMIT_CACHE[cfg]


def parse_refutation(out):
    """loading pattern and call sequence of TLC's counterexample to the literal clause"""
    m = re.search(r"/\\ pat = (<<.*>>)\s*$", out, re.M)
    if not m:
        return None, None
    pat = [[int(x), int(y)] for x, y in re.findall(r"<<(-?\d+), (-?\d+)>>", m.group(1))]
    calls = []
    for name in re.findall(r"^State \d+: <(\w+) line", out, re.M):
        call = {"Convert": "convert", "ConvertAlreadyFull": "convert", "Restore": "restore", "RestoreNothing": "restore"}.get(name)
        if call is None:
            call = "addEdges" if name.startswith("AddEdges") else "removeEdges"
        calls.append({"n": call, "kept": False, "br": name})
    return pat, calls


def run(rep, tier, seed):
    thorough = tier == "thorough"
    sfx = "_thorough" if thorough else ""
    tlc.sany(MOD, MODDIR)
    if thorough:
        tlc.sany(TRACE, MODDIR)      # (quick: the trace-validation run parses it; a parse error there is a MachineryError too)
    rep.exhaustive = True

    # 1. exhaustive model checking of the reference design
    if not _SELFTEST:
        cfg = "SymmetryConversion_mc%s.cfg" % sfx
        res = tlc.run(MOD, cfg, MODDIR, want_prints=False, timeout=3000)
        rep.add_tlc("exhaustive:" + cfg, res)
        if res.violation:
            rep.violation("tlc:" + res.violation["name"], "TLC: %s violated in the specification" % res.violation["name"],
                          {"direction": "tlc", "trace": res.violation["trace"][:20000]})
        never = [a for a in ACTIONS if res.coverage.get(a, (0, 0))[1] == 0]
        if never:
            raise tlc.MachineryError("vacuous: actions never taken in %s: %s" % (cfg, never))

        # 1a. non-vacuity of the invariants about the flows through scaleParamsRelatedToSymmetry (thorough: TLC witnesses over 4
        #     calls; quick: the same flows are looked up in the emitted graph, see phase_walks)
        for wcfg, inv in () if not thorough else (("SymmetryConversion_witness_combined.cfg", "NeverCombined"), ("SymmetryConversion_witness_trip.cfg", "NeverScaledTrip")):
            wres = tlc.run(MOD, wcfg, MODDIR, workers=4, want_prints=False, coverage=False, timeout=600)
            rep.add_tlc("witness:" + inv, wres)
            if not wres.violation or wres.violation["name"] != inv:
                raise tlc.MachineryError("vacuous: TLC did not reach the flow that %s witnesses" % inv)

        # 1b. the literal restore clause (I2): refuted by TLC on the reference; what the real code does is reported as a note
        lit = tlc.run(MOD, "SymmetryConversion_lit.cfg", MODDIR, want_prints=False, coverage=False, timeout=3000)
        rep.add_tlc("literal-clause:LitRestoreKeepsEdges", lit)
        if not lit.violation or lit.violation["name"] != "LitRestoreKeepsEdges":
            raise tlc.MachineryError("the literal restore clause was expected to be refuted by TLC on the reference")
        pat, calls = parse_refutation(lit.out)
        if not pat or not calls:
            raise tlc.MachineryError("could not read TLC's counterexample to the literal restore clause")
        ad0 = CoreAdapter(seed)
        w = ad0.build_cells([tuple(c) for c in pat])
        before = sorted([int(a.spatialLocator.i), int(a.spatialLocator.j)] for a in w.core)
        try:
            for c in calls:
                ad0.apply(w, c)
        except Exception as ex:  # noqa: BLE001  (reported by the walks; here only the note is lost)
            rep.note("literal clause (I2): the real code raised %s on TLC's counterexample" % type(ex).__name__)
        after = sorted([int(a.spatialLocator.i), int(a.spatialLocator.j)] for a in w.core)
        rep.note("literal clause 'Restore returns the state before Convert' (I2): TLC's shortest counterexample is pattern %s, calls %s; "
                 "the real code goes from cells %s to %s (edge assemblies are discarded by convert and not brought back)" % (
                     pat, [c["n"] for c in calls], before, after))
        if before == after:
            rep.note("the real code DID bring the edge assemblies back: interpretation I2 of the specification no longer describes it")

    phase_walks(rep, thorough, seed)
    if _SELFTEST and rep.violations:
        return     # binding demonstration: the first phase that notices a mutant is enough
    phase_traces(rep, thorough, seed)
    if _SELFTEST and rep.violations:
        return
    phase_geomconv(rep, thorough, seed)

    # 4. thorough: the full test reactor (blueprints, 73 assemblies, 9 rings) through one long history
    if thorough and not _SELFTEST:
        reactor_history(rep, seed)

    rep.assume(
        "I1: the x3 clause compares the full core with the third-core model without its edge assemblies (convert discards them first)",
        "I2: Restore / RemoveEdges return the edge-free third-core model; edge assemblies that were there before Convert or before "
        "AddEdges are not brought back (the literal reading is refuted on the reference and reported as a note)",
        "I3: the assembly-number counters are not part of the restored state; names of copies are checked for being unique and new",
        "volume of an ORIGINAL assembly on the 120-degree line is not projected (stale first-block area cache in Assembly.getVolume; "
        "outside every clause of the statement), and the core's total volume is not compared while one is present",
        "totals: volume, mass of every nuclide and parameter totals are linear in the per-original full values measured on the "
        "detached assemblies; the specification supplies the exact rational coefficients",
        "tolerances: rtol %g on measured ratios and on totals (a few multiplications/divisions by 2 and 3 in double precision)" % RTOL_RATIO,
    )


def phase_walks(rep, thorough, seed):
    """2. spec -> code"""
    sfx = "_thorough" if thorough else ""
    ecfg = "SymmetryConversion_emit%s.cfg" % sfx
    eres = emitted(ecfg)
    rep.add_tlc("edges:" + ecfg, eres)
    conf = [p["config"] for p in eres.prints if isinstance(p, dict) and "config" in p]
    if not conf:
        raise tlc.MachineryError("emission printed no config line")
    obs_of = {rp.skey(p["st"]): p["obs"] for p in eres.prints if isinstance(p, dict) and "st" in p}
    edges = [p for p in eres.prints if isinstance(p, dict) and "act" in p]
    g = rp.Graph(edges)
    # non-vacuity: the two flows through scaleParamsRelatedToSymmetry are in the graph that is walked
    for flow_ in (["AddEdges", "ScaleParamsNothing", "RemoveEdges"], ["AddEdges", "Solve", "ScaleParams"]):
        front = [e for e in g.edges if e["act"]["br"] == flow_[0] and e["_fk"] != e["_tk"]]
        for br in flow_[1:]:
            front = [e2 for e in front for e2 in g.succ.get(e["_tk"], ()) if e2["act"]["br"] == br]
        if not front:
            raise tlc.MachineryError("vacuous: no emitted behaviour contains %s" % flow_)
    ad = CoreAdapter(seed, all_cells=conf[0]["all"])
    # deterministic cap on the number of real calls (quick: the whole graph is walked; thorough: ~15 k calls cover it)
    nsteps, ndone, nontriv, nworlds, divs, left = cover(g, ad, obs_of, max_walk=60, max_calls=20000 if thorough else 4000)
    if ndone == 0:
        raise tlc.MachineryError("no edges replayed")
    rep.add_replay("walks", ndone, nontriv,
                   "every edge (s, call, t) of TLC's state graph is taken at least once by a walk of real converter calls on a "
                   "generated third core, the complete projection and all totals compared after every call; non-trivial = the "
                   "call changes the abstract state")
    rep.extra["walks"] = {"edges": len(g.edges), "edges_walked": ndone, "calls_made": nsteps, "worlds_built": nworlds,
                          "edges_not_walked": left, "states": g.states()}
    if left and not divs:
        rep.note("%d of %d edges were not reached within the call budget of this tier" % (left, len(g.edges)))
    for d in divs:
        k = key_of("replay", d["root"]["pat"], d["prev"], d["action"]["br"], d["first_difference"], d["observed"])
        rep.violation(k, "real converters diverge from SymmetryConversion at call %d (%s after %s) on pattern %s: %s" % (
            d["diverged_at"], d["action"]["br"], d["prev"], d["root"]["pat"], d["first_difference"]),
            dict(d, direction="replay", all_cells=conf[0]["all"]))
    if g.edges:
        e = next((x for x in g.edges if x["act"]["br"] == "Convert"), g.edges[0])
        rep.sample({"kind": "edge", "pattern": e["from"]["pat"], "path": [s["act"] for s in g.path[e["_fk"]]], "act": e["act"],
                    "expected": {k: obs_of[e["_tk"]][k] for k in ("vol", "par")}, "expected_cells": obs_of[e["_tk"]]["d"]["cells"]})



def phase_traces(rep, thorough, seed):
    """3. code -> spec"""
    dom = dom_r5()
    ntr, nev = (150, 12) if thorough else (24, 8)
    adT = CoreAdapter(seed + 1, all_cells=dom["all"])
    traces, side = drive_traces(adT, ntr, nev, seed, dom["dom"], n_totals=20 if thorough else 4)
    bad, stats = tracecheck.validate(TRACE, "SymmetryConversion_trace.cfg", MODDIR, traces, timeout=3000)
    check_universe(stats["tlc"], dom["all"], dom["dom"])
    rep.add_tlc("trace-validation", stats["tlc"])
    rep.extra["trace_totals_checked"] = check_side_totals(rep, adT, stats["tlc"], side, "trace-totals")
    rep.add_traces("random-histories", len(traces), sum(len(t["ev"]) for t in traces),
                   "seeded random call histories on random loading patterns of a 5-ring third core (holes, edge cells) run on the "
                   "real code; every event (call, complete projected post-state) must be a step of SymmetryConversion")
    rep.sample({"kind": "trace", "id": traces[0]["id"], "pat": traces[0]["pat"], "calls": [e["a"] for e in traces[0]["ev"]]})
    report_bad(rep, bad, "trace")


# ------------------------------------------------------------------------------------------------------------
# geomconv: HexToRZThetaConverter against spec/core/GeometryConversion.tla (pure function over a discrete domain of cases)
# ------------------------------------------------------------------------------------------------------------
GMOD = "GeometryConversion_mc"
G_LETTERS = {"reflector": "SS"}          # every other assembly type: grid plate + fuel ("GF"); all stacks are 40 cm high
RTOL_HOMOG = 1e-9                        # sums of <= ~40 products of doubles against the same sums taken with exact heights


class RZAdapter:
    """Generated FULL hex cores driven through the real HexToRZThetaConverter."""

    def __init__(self):
        armi_ready()
        from armi import settings
        from armi.reactor.converters import geometryConverters

        self.gc = geometryConverters
        self.cs = settings.Settings()

    def build(self, case):
        g = gen_core.build_core(layout={}, fresh={}, places={}, n_locs=1, track=False, symmetry="full")
        w = World()
        w.r, w.core, w.src = g.r, g.core, {}
        for n, (cell, typ) in enumerate(case["cells"], start=1):
            a = gen_core.make_assembly(n, G_LETTERS.get(typ, "GF"), assem_num=w.r.incrementAssemNum())
            a.setType(typ)
            w.core.add(a, w.core.spatialGrid[cell[0], cell[1], 0])
            w.src[tuple(cell)] = a
        w.nucs = sorted({n for b in w.core.getBlocks() for n in b.getNuclides()})
        w.r.blueprints.allNuclidesInProblem = list(w.nucs)
        return w

    def convert(self, w, case):
        conv = self.gc.HexToRZThetaConverter(self.cs, {
            "radialConversionType": "Ring Compositions", "axialConversionType": "Axial Coordinates", "uniformThetaMesh": True,
            "thetaBins": case["nb"], "axialMesh": [float(x) for x in case["mesh"]], "thetaMesh": None}, expandReactor=False)
        conv.convert(w.r)
        return conv

    def check(self, case, exp):
        """first difference between what the real converter builds and the specification's result, or None"""
        w = self.build(case)
        n_src = len(w.core)
        try:
            conv = self.convert(w, case)
        except ValueError as ex:
            return None if exp["err"] == "ValueError" else ".err: expected a converted reactor, ValueError raised: %s" % str(ex)[:160]
        if exp["err"]:
            return ".err: expected ValueError (a radial-theta zone without assemblies), the converter went through"
        new = conv.convReactor.core
        if len(w.core) != n_src:
            return ".source: the source core has %d assemblies after the conversion, %d before" % (len(w.core), n_src)
        nz, nb = len(exp["zones"]), case["nb"]
        if len(new) != nz * nb:
            return ".zones: expected %d radial zones x %d theta bins, the converted core has %d assemblies" % (nz, nb, len(new))

        def close(e, g):
            return abs(e - g) <= RTOL_HOMOG * max(abs(e), abs(g))

        for z in range(nz):
            for k in range(nb):
                a = new.childrenByLocator.get(new.spatialGrid[k, z, 0])
                if a is None:
                    return ".zones[%d].bins[%d]: no assembly at (theta %d, radial %d)" % (z, k, k, z)
                eblocks = exp["blocks"][z][k]
                if len(a) != len(eblocks):
                    return ".blocks[%d][%d]: expected %d axial blocks, observed %d" % (z, k, len(eblocks), len(a))
                zlow = 0.0
                for ai, (b, eb) in enumerate(zip(a, eblocks)):
                    where = ".blocks[%d][%d][%d]" % (z, k, ai)
                    if not close(float(eb["height"]), float(b.getHeight())) or not close(float(b.p.ztop - b.p.zbottom), float(eb["height"])):
                        return "%s.height: expected %r, observed %r (zbottom %r, ztop %r)" % (where, eb["height"], b.getHeight(), b.p.zbottom, b.p.ztop)
                    if not close(zlow + 1.0, float(b.p.zbottom) + 1.0):
                        return "%s.mesh: block starts at %r, the one below ends at %r" % (where, b.p.zbottom, zlow)
                    zlow = float(b.p.ztop)
                    if b.getType() != eb["type"]:
                        return "%s.type: expected %r, observed %r" % (where, eb["type"], b.getType())
                    srcs = [(w.src[tuple(c)][bi - 1], float(h)) for c, bi, _kind, h in eb["ov"]]
                    got_src = {id(x) for x in conv.blockMap[b]}
                    if got_src != {id(sb) for sb, _h in srcs}:
                        return "%s.sources: the converter homogenised %d source blocks here, the specification %d" % (where, len(got_src), len(srcs))
                    evol = math.fsum(sb.getVolume() / sb.getHeight() * h for sb, h in srcs)
                    if not close(evol, float(b.getVolume())):
                        return "%s.volume: expected %r, observed %r" % (where, evol, float(b.getVolume()))
                    for nuc in w.nucs:
                        e = math.fsum(sb.getNumberDensity(nuc) * sb.getVolume() / sb.getHeight() * h for sb, h in srcs)
                        g = float(b.getNumberDensity(nuc)) * float(b.getVolume())
                        if not (close(e, g) or (e == 0.0 and abs(g) < 1e-30)):
                            return "%s.atoms.%s: expected %r, observed %r" % (where, nuc, e, g)
                if not close(zlow, float(case["mesh"][-1])):
                    return ".blocks[%d][%d].top: stack ends at %r, mesh at %r" % (z, k, zlow, case["mesh"][-1])
        # (sum over blocks on both sides: Assembly.getVolume is "area of the first block x height", which is not the volume
        #  of a stack whose blocks have different cross-sections -- true of the generated stacks and of a homogenised one)
        vs = math.fsum(float(b.getVolume()) for b in w.core.getBlocks())
        vn = math.fsum(float(b.getVolume()) for a in new for b in a)
        if not close(vs, vn):
            return ".total.volume: source %r, converted %r" % (vs, vn)
        for nuc in w.nucs:
            e, g = float(w.core.getMass(nuc)), float(new.getMass(nuc))
            if not close(e, g):
                return ".total.mass.%s: source %r, converted %r" % (nuc, e, g)
        return None


_GEMIT = {}


def phase_geomconv(rep, thorough, seed):
    """5. HexToRZThetaConverter: TLC checks partition / conservation / mesh on every case; the thetaBins = 1 cases are replayed"""
    sfx = "_thorough" if thorough else ""
    if not _SELFTEST:
        res = tlc.run(GMOD, "GeometryConversion_mc%s.cfg" % sfx, MODDIR, want_prints=False, timeout=3000)
        rep.add_tlc("geomconv:exhaustive:GeometryConversion_mc%s.cfg" % sfx, res)
        if res.violation:
            rep.violation("rzt:tlc:" + res.violation["name"], "TLC: %s violated in GeometryConversion" % res.violation["name"],
                          {"direction": "tlc", "trace": res.violation["trace"][:20000]})
        never = [a for a in ("Convert", "ConvertRefused") if res.coverage.get(a, (0, 0))[1] == 0]
        if never:
            raise tlc.MachineryError("vacuous: GeometryConversion actions never taken: %s" % never)
    ecfg = "GeometryConversion_emit%s.cfg" % sfx
    if ecfg not in _GEMIT:
        _GEMIT[ecfg] = tlc.run(GMOD, ecfg, MODDIR, workers=1, coverage=False, timeout=3000)
    eres = _GEMIT[ecfg]
    rep.add_tlc("geomconv:cases:" + ecfg, eres)
    cases = [p for p in eres.prints if isinstance(p, dict) and "case" in p]
    if not cases:
        raise tlc.MachineryError("GeometryConversion emitted no case")
    ad = RZAdapter()
    n = refused = 0
    for p in cases:
        case, exp = p["case"], p["out"]
        try:
            d = ad.check(case, exp)
        except Exception as ex:  # noqa: BLE001  anything but the modelled refusal escaping the converter is a verdict
            import traceback

            d = ".exception: %s escaped from the real converter: %s" % (type(ex).__name__, str(ex)[:200])
            exp = dict(exp, traceback=traceback.format_exc()[-2000:])
        n += 1
        refused += bool(p["out"]["err"])
        if d:
            fld = re.sub(r"\[\d+\]", "", d.split(":")[0]).strip(".")
            rep.violation("rzt:%s:nb%d" % (fld, case["nb"]),
                          "HexToRZThetaConverter differs from GeometryConversion on centre=%s ring2=%s ring3=%s thetaBins=%d mesh=%s: %s" % (
                              case["centre"], case["d2"], case["d3"], case["nb"], case["mesh"], d),
                          {"direction": "geomconv", "case": case, "expected": exp, "difference": d})
    rep.add_replay("geomconv-cases", n, n - refused,
                   "every case TLC prints for GeometryConversion (loading x axial mesh, thetaBins = 1) is converted by the real "
                   "HexToRZThetaConverter on a generated full core; zones, homogenised source blocks, block types, heights, "
                   "volumes and the atoms of every nuclide are compared block by block, and the core totals")
    rep.extra["geomconv"] = {"cases_replayed": n, "refusals_among_them": refused}
    rep.sample({"kind": "geomconv-case", "case": {k: cases[len(cases) // 2]["case"][k] for k in ("centre", "d2", "d3", "nb", "mesh")},
                "expected_zones": cases[len(cases) // 2]["out"]["zones"]})


def report_bad(rep, bad, prefix):
    for b in bad:
        ev = b["trace"]["ev"]
        k = b["matched"]
        nxt = ev[k] if k < len(ev) else {}
        mm = b.get("mismatch") or {}
        d = ".exception" if "exception" in (nxt.get("post") or {}) else (rp.diff(mm.get("expected", {}), nxt.get("post", {})) or ".state")
        key = "%s:%s:%s:%s" % (prefix, mm.get("br", nxt.get("a", {}).get("n", b.get("invariant", "?"))),
                               field_of(d, nxt.get("post")), pattern_class(b["trace"].get("pat", [[0, 0]])))
        rep.violation(key, "recorded history is not a behaviour of SymmetryConversion at event %d (%s) on pattern %s: %s" % (
            k + 1, json.dumps(nxt.get("a")), b["trace"].get("pat"), d[:400]),
            {"direction": "trace", "trace": b["trace"], "matched": k, "mismatch": mm, "tlc": b.get("tlc")})


# cells of the 5-ring third core (120-degree line included) the trace driver draws its patterns from.  Stated here so that no
# TLC run is needed before driving; the trace-validation run prints Dom and All of its configuration and check_universe()
# refuses to go on if they are not these.
DOM5 = [(-2, 4), (-1, 2), (-1, 3), (-1, 4), (0, 0), (0, 1), (0, 2), (0, 3), (0, 4), (1, 0), (1, 1), (1, 2), (1, 3), (2, -1), (2, 0),
        (2, 1), (2, 2), (3, -1), (3, 0), (3, 1), (4, -2), (4, -1), (4, 0)]


def hexagon(nrings):
    """all cells within nrings hex rings, in the specification's SortedCells order"""
    n = nrings - 1
    return sorted([i, j] for i in range(-n, n + 1) for j in range(-n, n + 1) if max(abs(i), abs(j), abs(i + j)) <= n)


def dom_r5():
    return {"all": hexagon(5), "dom": list(DOM5)}


def check_universe(res, all_cells, dom=None):
    conf = [p["config"] for p in res.prints if isinstance(p, dict) and "config" in p]
    if not conf:
        raise tlc.MachineryError("the trace-validation run printed no config line")
    if conf[0]["all"] != [list(c) for c in all_cells]:
        raise tlc.MachineryError("cell universe of the trace configuration differs from the one the driver queried")
    if dom is not None and sorted(tuple(c) for c in conf[0]["dom"]) != sorted(dom):
        raise tlc.MachineryError("cell domain of the trace configuration differs from the one the driver drew patterns from")


def reactor_history(rep, seed):
    calls = [{"n": "convert", "kept": False}, {"n": "restore", "kept": False}, {"n": "addEdges", "kept": True},
             {"n": "scaleParams", "kept": False}, {"n": "solve", "kept": False, "mode": "physical"},
             {"n": "scaleParams", "kept": False}, {"n": "removeEdges", "kept": True}]
    universe = hexagon(9)
    ad = ReactorAdapter(seed, all_cells=universe)
    w = ad.build_reactor()
    tr, totals = drive(ad, w, calls, "testReactor", w.pat, True)
    ev = tr["ev"]
    traces = [tr]
    bad, stats = tracecheck.validate(TRACE, "SymmetryConversion_trace9.cfg", MODDIR, traces, timeout=3000)
    check_universe(stats["tlc"], universe)
    rep.extra["test_reactor_totals_checked"] = check_side_totals(rep, ad, stats["tlc"], {"testReactor": (w, totals)}, "trace-totals:testReactor")
    rep.add_tlc("trace-validation:test-reactor", stats["tlc"])
    rep.add_traces("test-reactor-history", 1, len(ev), "the full test reactor (loadTestReactor: blueprints, 73 assemblies, 9 rings) "
                   "through convert / restore / addEdges / removeEdges, validated by TLC event by event")
    report_bad(rep, bad, "trace:testReactor")


# ------------------------------------------------------------------------------------------------------------
def replay(payload):
    if payload.get("direction") == "replay":
        ad = CoreAdapter(payload.get("seed", 0), all_cells=payload["all_cells"])
        w = ad.build(payload["root"])
        for a in payload["behaviour"][:-1]:
            ad.apply(w, a)
        try:
            if payload["behaviour"]:
                ad.apply(w, payload["behaviour"][-1])
            d, got = ad.compare(w, payload["expected"])
        except Exception as ex:  # noqa: BLE001
            import traceback

            traceback.print_exc()
            print("diverges: %s escaped from the real code" % type(ex).__name__)
            return 1
        if d:
            print(json.dumps({"observed": got}, indent=1, default=str))
            print("diverges after %s: %s" % ([a["n"] for a in payload["behaviour"]], d))
        else:
            print("no divergence: behaviour conforms")
        return 1 if d else 0
    if payload.get("direction") == "trace":
        t = payload["trace"]
        ad = CoreAdapter(payload.get("seed", 0) + 1, all_cells=dom_r5()["all"])
        w = ad.build_cells([tuple(c) for c in t["pat"]])
        for k, e in enumerate(t["ev"]):
            try:
                ad.apply(w, e["a"])
                post = ad.project(w)
            except Exception as ex:  # noqa: BLE001
                print("event %d %s: %s escaped from the real code: %s" % (k + 1, e["a"], type(ex).__name__, ex))
                return 1
            post.pop("notes", None)
            if k == payload.get("matched"):
                exp = (payload.get("mismatch") or {}).get("expected")
                d = rp.diff(exp, post) if exp else None
                print("event %d %s: %s" % (k + 1, e["a"], d or "matches the specification now"))
                return 1 if d else 0
        return 0
    if payload.get("direction") == "geomconv":
        d = RZAdapter().check(payload["case"], payload["expected"])
        print(d or "no difference: the real converter conforms on this case")
        return 1 if d else 0
    print("replay of direction=%s: see payload (TLC trace)" % payload.get("direction"))
    return 0


def selftest():
    """In-process mutants of the anchored code; each must be detected by the walks or by trace validation."""
    global _SELFTEST
    from harness.report import Report
    from harness.selftest import run_mutants

    armi_ready()
    _SELFTEST = True

    def detect():
        rep = Report("C13", "quick", 0)
        run(rep, "quick", 0)
        return [v["key"] for v in rep.violations]

    try:
        rc = run_mutants(mutants(), detect)
        return 1 if corrupted_traces() or rc else 0
    finally:
        _SELFTEST = False


def corrupted_traces():
    """the trace validator must reject recorded histories with one field corrupted / one effective event dropped / one call
    renamed, and accept them untouched.  Returns the number of corruptions it let through."""
    import copy

    dom = dom_r5()
    ad = CoreAdapter(7, all_cells=dom["all"])
    pat = [(-1, 2), (0, 0), (1, 0), (1, 1), (2, -1), (3, -1), (4, -2)]
    calls = [{"n": "addEdges", "kept": True}, {"n": "convert", "kept": False}, {"n": "restore", "kept": False},
             {"n": "addEdges", "kept": False}, {"n": "removeEdges", "kept": True}]
    good, _ = drive(ad, ad.build_cells(pat), calls, "good", pat, False)
    if any("exception" in e["post"] for e in good["ev"]):
        print("corrupted-trace test skipped: the unmutated code raised on the reference history (see the findings of the check)")
        return 0

    def variant(tid, fn):
        t = copy.deepcopy(good)
        t["id"] = tid
        fn(t)
        return t

    def scale(t):
        t["ev"][1]["post"]["asm"][0]["ps"] = [2, 1]

    def drop(t):
        del t["ev"][1]

    def rename(t):
        t["ev"][3]["a"]["n"] = "removeEdges"

    def lookup(t):
        t["ev"][2]["post"]["staleNames"] = 2

    def image(t):
        c = t["ev"][1]["post"]["cells"]
        c[0], c[1] = c[1], c[0]

    traces = [good, variant("ps-of-a-copy-doubled", scale), variant("convert-event-dropped", drop), variant("addEdges-renamed", rename),
              variant("purged-names-still-listed", lookup), variant("two-cells-exchanged", image)]
    bad, _stats = tracecheck.validate(TRACE, "SymmetryConversion_trace.cfg", MODDIR, traces, timeout=3000)
    rejected = {b["trace"]["id"] for b in bad}
    missed = 0
    if "good" in rejected:
        print("MISSED  the untouched reference history was rejected")
        missed += 1
    for t in traces[1:]:
        if t["id"] in rejected:
            print("caught  corrupted trace: %s" % t["id"])
        else:
            print("MISSED  corrupted trace: %s" % t["id"])
            missed += 1
    return missed


def source_mutant(owner, name, old, new=None, count=1):
    """context manager factory: the function owner.name with `old` replaced by `new` in its source text
    (or, with a list of (old, new) pairs as `old`, all of them replaced)"""
    import inspect
    import textwrap

    from harness.selftest import patched

    raw = owner.__dict__[name]
    fn = raw.__func__ if isinstance(raw, (staticmethod, classmethod)) else raw
    src = textwrap.dedent(inspect.getsource(fn))
    for o_, n_ in (old if isinstance(old, list) else [(old, new)]):
        if src.count(o_) < 1:
            raise tlc.MachineryError("mutant text %r not found in %s.%s" % (o_, getattr(owner, "__name__", owner), name))
        src = src.replace(o_, n_, count)
    ns = {}
    exec(compile(src, "<mutant of %s>" % name, "exec"), fn.__globals__, ns)  # noqa: S102
    return lambda: patched(owner, name, ns[fn.__name__])


def mutants():
    import copy as copymod
    import types

    from armi.reactor import assemblies, blocks, cores
    from armi.reactor.converters import geometryConverters as gc
    from armi.reactor.grids import hexagonal
    from armi.reactor.parameters import ParamLocation
    from harness.selftest import patched as P

    T = gc.ThirdCoreHexToFullCoreChanger
    E = gc.EdgeAssemblyChanger
    S = source_mutant

    def deepcopy_sharing_material(x, memo=None):
        new = copymod.deepcopy(x, memo)
        if isinstance(x, assemblies.Assembly):
            new[0][0].material = x[0][0].material        # the classic incomplete deep copy
        return new

    def deepcopy_sharing_params(x, memo=None):
        new = copymod.deepcopy(x, memo)
        if isinstance(x, assemblies.Assembly):
            new[-1].p = x[-1].p
        return new

    fake_copy_1 = types.SimpleNamespace(deepcopy=deepcopy_sharing_material, copy=copymod.copy)
    fake_copy_2 = types.SimpleNamespace(deepcopy=deepcopy_sharing_params, copy=copymod.copy)

    def remove_aux_hoisted(self, assembly):
        del self.assembliesByName[assembly.getName()]
        try:
            for b in assembly:
                del self.blocksByName[b.getName()]
        except KeyError:
            pass

    def scale_arrays_in_place(self, oldSymmetryFactor):
        import numpy as np

        f = oldSymmetryFactor / self.getSymmetryFactor()
        if f == 1:
            return
        for b in self:
            for pd in self[0].p.paramDefs.atLocation(ParamLocation.VOLUME_INTEGRATED):
                v = b.p[pd.name]
                if v is None or isinstance(v, str):
                    continue
                if isinstance(v, np.ndarray):
                    v *= f                       # in place: every block that shares the array object is scaled again
                    b.p[pd.name] = v
                elif isinstance(v, list):
                    b.p[pd.name] = [x * f for x in v]
                else:
                    b.p[pd.name] = v * f

    def scale_all_params(self, oldSymmetryFactor):
        f = oldSymmetryFactor / self.getSymmetryFactor()
        if f == 1:
            return
        for b in self:
            for pd in b.p.paramDefs:
                v = b.p[pd.name] if pd.name in ("power", "flux", "pdens", "massHmBOL", "kgHM", "powerGenerated", "buRate") else None
                if isinstance(v, float):
                    b.p[pd.name] = v * f

    return [
        # -- grid: where the images are ---------------------------------------------------------------------
        ("getSymmetricEquivalents lists the images in the other order",
         S(hexagonal.HexGrid, "_getSymmetricIdenticalsThird", "[(-i - j, i), (j, -i - j)]", "[(j, -i - j), (-i - j, i)]")),
        ("getSymmetricEquivalents turns by 60 instead of 120 degrees",
         S(hexagonal.HexGrid, "_getSymmetricIdenticalsThird", "[(-i - j, i), (j, -i - j)]", "[(-j, i + j), (-i - j, i)]")),
        # -- convert ----------------------------------------------------------------------------------------
        ("convert rotates both copies by 120 degrees",
         S(T, "convert", "newAssem.rotate(count * angle)", "newAssem.rotate(angle)")),
        ("rotating a block's displacement: sign of the dispx*sin term of the new y flipped",
         S(blocks.HexBlock, "_rotateDisplacement", "dispx * math.sin(rad) + dispy * math.cos(rad)", "dispy * math.cos(rad) - dispx * math.sin(rad)")),
        ("convert does not scale the centre assembly",
         S(T, "convert", 'self._scaleBlockVolIntegratedParams(b, "up")', "pass")),
        ("convert forgets one of the added assemblies (restore leaves it behind)",
         S(T, "convert", "self._newAssembliesAdded.append(newAssem)", "self._newAssembliesAdded.append(newAssem) if count == 2 else None")),
        ("convert copies keep the source's material object", lambda: P(gc, "copy", fake_copy_1)),
        ("convert / addEdges copies share the top block's parameters with the source", lambda: P(gc, "copy", fake_copy_2)),
        ("convert leaves the edge assemblies in (no removeEdgeAssemblies first)",
         S(T, "convert", "edgeChanger.removeEdgeAssemblies(self._sourceReactor.core)", "pass")),
        ("the centre's arrays are scaled in place (imul / itruediv): shared array objects are scaled once per block",
         S(T, "_scaleBlockVolIntegratedParams", [("op = operator.mul", "op = operator.imul"), ("op = operator.truediv", "op = operator.itruediv")])),
        ("convert registers the SOURCE's location in the zone instead of the copy's",
         S(T, "convert", "thisZone.addLoc(newAssem.getLocation())", "thisZone.addLoc(a.getLocation())")),
        ("list-valued parameters of the centre are not scaled",
         S(T, "_scaleBlockVolIntegratedParams", "b.p[param] = [op(val, 3) for val in b.p[param]]", "pass")),
        # -- restore ----------------------------------------------------------------------------------------
        ("restore does not rescale the centre assembly",
         S(T, "restorePreviousGeometry", 'self._scaleBlockVolIntegratedParams(b, "down")', "pass")),
        ("restore leaves the symmetry at full core",
         S(T, "restorePreviousGeometry", "r.core.symmetry = geometry.SymmetryType.fromAny(", "_unused = geometry.SymmetryType.fromAny(")),
        ("restore discharges the added assemblies to the spent fuel pool",
         S(T, "restorePreviousGeometry", "r.core.removeAssembly(a, discharge=False)", "r.core.removeAssembly(a, discharge=True)")),
        ("restore divides the centre by 2", S(T, "_scaleBlockVolIntegratedParams", "op = operator.truediv", "op = lambda v, n: v / 2")),
        # -- core bookkeeping ---------------------------------------------------------------------------------
        ("removeAssembly leaves the names in the lookup tables", lambda: P(cores.Core, "_removeListFromAuxiliaries", lambda self, a: None)),
        ("removeAssembly stops forgetting block names at the first block the core does not know",
         lambda: P(cores.Core, "_removeListFromAuxiliaries", remove_aux_hoisted)),
        ("removeAssembly keeps the location entry",
         S(cores.Core, "removeAssembly", "self.childrenByLocator.pop(a1.spatialLocator)", "self.childrenByLocator.get(a1.spatialLocator)")),
        ("Core.add does not register the blocks by name",
         S(cores.Core, "add", "self.blocksByName[b.getName()] = b", "pass")),
        ("makeUnique keeps the source's number (copies are not renamed)",
         lambda: P(assemblies.Assembly, "makeUnique", lambda self: None)),
        # -- symmetry factor and parameter scaling ---------------------------------------------------------------
        ("getSymmetryFactor: centre of a third core counts fully", S(blocks.HexBlock, "getSymmetryFactor", "return 3.0", "return 1.0")),
        ("getSymmetryFactor: looks for the edge assembly in the wrong cell",
         S(blocks.HexBlock, "getSymmetryFactor", "self.core.spatialGrid[-1, 2, 0]", "self.core.spatialGrid[-2, 4, 0]")),
        ("getSymmetryFactor: only the 0-degree line is halved",
         S(blocks.HexBlock, "getSymmetryFactor", "grids.BOUNDARY_120_DEGREES,", "")),
        ("moveTo does not rescale the parameters of an edge copy",
         lambda: P(assemblies.Assembly, "scaleParamsToNewSymmetryFactor", lambda self, old: None)),
        ("moveTo rescales array parameters in place", lambda: P(assemblies.Assembly, "scaleParamsToNewSymmetryFactor", scale_arrays_in_place)),
        ("moveTo rescales parameters that are not volume integrated", lambda: P(assemblies.Assembly, "scaleParamsToNewSymmetryFactor", scale_all_params)),
        # -- edge assemblies ------------------------------------------------------------------------------------
        ("addEdgeAssemblies does not clear the caches of the 0-degree line (stale areas)",
         S(E, "addEdgeAssemblies", "a.clearCache()  # symmetry factors", "pass  #")),
        ("addEdgeAssemblies uses the second symmetric image", S(E, "addEdgeAssemblies", "i, j = locs[0]", "i, j = locs[1]")),
        ("addEdgeAssemblies overwrites a filled edge cell",
         S(E, "addEdgeAssemblies", "if core.childrenByLocator.get(spatialLocator):", "if False:")),
        ("addEdgeAssemblies copies the 60-degree line", S(E, "addEdgeAssemblies", "grids.BOUNDARY_0_DEGREES", "grids.BOUNDARY_60_DEGREES")),
        # -- assigned-since-the-last-transformation flags and scaleParamsRelatedToSymmetry ----------------------------
        ("addEdgeAssemblies clears the assignment flags BEFORE adding the copies (Core.add raises them again)",
         S(E, "addEdgeAssemblies", [
             ("    # Move the assemblies into their reflective position on symmetry line 3\n",       # (source dedented by 4)
              "    parameters.ALL_DEFINITIONS.resetAssignmentFlag(SINCE_LAST_GEOMETRY_TRANSFORMATION)\n"),
             ("    parameters.ALL_DEFINITIONS.resetAssignmentFlag(\n        SINCE_LAST_GEOMETRY_TRANSFORMATION\n    )\n", "    pass\n"),
         ])),
        ("addEdgeAssemblies does not clear the assignment flags at all",
         S(E, "addEdgeAssemblies", "parameters.ALL_DEFINITIONS.resetAssignmentFlag(", "(lambda *a: None)(")),
        ("scaleParamsRelatedToSymmetry scales parameters whether or not they were assigned since the transformation",
         S(gc, "_generateListOfParamsToScale", ".since(SINCE_LAST_GEOMETRY_TRANSFORMATION)", "")),
        ("scaleParamsRelatedToSymmetry overwrites with the twin's value instead of adding it",
         S(gc, "_scaleParamsInBlock", "b.p[paramName] = b.p[paramName] + bSymmetric.p[paramName]", "b.p[paramName] = bSymmetric.p[paramName]")),
        ("scaleParamsRelatedToSymmetry leaves the multigroup fluxes alone",
         S(gc, "_scaleParamsInBlock", "_scaleFluxValues(b, bSymmetric, paramName)", "pass")),
        ("scaleParamsRelatedToSymmetry pairs the two lines in opposite order",
         S(E, "scaleParamsRelatedToSymmetry", "core.getAssembliesOnSymmetryLine(grids.BOUNDARY_120_DEGREES),",
           "core.getAssembliesOnSymmetryLine(grids.BOUNDARY_120_DEGREES)[::-1],")),
        # -- HexToRZThetaConverter (geomconv stage) ------------------------------------------------------------------
        ("RZ conversion: a block that lies partly in the axial interval is homogenised with its whole volume",
         S(gc.HexToRZThetaConverter, "createHomogenizedRZTBlock", "blockVolumeHere = b.getVolume() * heightHere / b.getHeight()",
           "blockVolumeHere = b.getVolume()")),
        ("RZ conversion: fuel no longer decides the type of a homogenised block",
         lambda: P(gc.HexToRZThetaConverter, "_BLOCK_MIXTURE_TYPE_EXCLUSIONS", [])),
        ("RZ conversion: assembly types of a ring are taken in increasing instead of decreasing (count, name)",
         S(gc.HexToRZThetaConverter, "_getSortedAssemblyTypesInRadialZone", "reverse=True", "reverse=False")),
        ("RZ conversion: ring area taken twice (outer radius of every radial zone too large)",
         S(gc.HexToRZThetaConverter, "_createRadialThetaZone", "radialRingArea = (", "radialRingArea = 2.0 * (")),
        ("removeEdgeAssemblies removes only what the changer added itself",
         S(E, "removeEdgeAssemblies", "edgeAssemblies = core.getAssembliesOnSymmetryLine(grids.BOUNDARY_120_DEGREES)",
           "edgeAssemblies = list(self._newAssembliesAdded)")),
        ("removeEdgeAssemblies discharges instead of purging and forgets the tables",
         S(E, "removeEdgeAssemblies", "core.removeAssembly(a, discharge=False)", "core.remove(a)")),
    ]
