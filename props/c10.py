"""C10 -- cross-section libraries: lossless, order-independent, refusing merge (LibraryMerge) and macroscopic constants as
number-density-weighted sums (Macros).

spec -> code
  * LibraryMerge: TLC explores every merge order (refusals included) of every multiset of generated source libraries;
    every edge (s, merge(t,o), s') is executed as path(s);merge on libraries written and re-read by armi's own
    ISOTXS/GAMISO/PMATRX writers/readers; after the call ALL libraries are projected (whose data every nuclide holds,
    group structures, dose factors, velocity, file metadata, chi flags) and compared with the state TLC printed.
  * Macros: TLC enumerates micro tables x compositions, checks linearity / additivity / zero / defining sums in the
    specification over exact rationals and prints every case with the expected arrays; the real functions are called
    once per case.
code -> spec
  * seeded random scenarios (more and larger libraries, random merge orders) run on the real code; TLC validates every
    recorded history against LibraryMerge_trace.
"""
import json
import os
import random
import re

from harness import common, tlc, tracecheck
from harness import replay as rp
from harness import gen_xslib as G
from harness.armi_env import armi_ready

MODDIR = os.path.join(common.SPEC, "xs")
MERGE_INVS = ("MergedIsUnion", "LabelsAreUnion", "VelocityKept", "NoSilentCombine", "SourcesPartitioned")
# the exception classes of the three refusals.  ValueError: comparing the per-nuclide PMATRX metadata of two entries of one
# label that both carry activation cross sections (lists of arrays) trips numpy's "truth value is ambiguous" inside
# properties.numpyHackForEqual -- an accidental exception class, but the overlap IS rejected, which is all the statement asks
ERRKIND = {"ImmutablePropertyError": "Property", "OSError": "Metadata", "AttributeError": "Overlap", "ValueError": "Overlap"}
_SELFTEST = False
_CACHE = {}


def _tlc_verdict(rep, label, res):
    rep.add_tlc(label, res)
    if res.violation:
        rep.violation("tlc:" + res.violation["name"], "TLC: %s violated in the specification (%s)" % (res.violation["name"], label),
                      {"direction": "tlc", "trace": res.violation["trace"][:20000]})


def _cached(module, cfg, **kw):
    k = (module, cfg)
    if k not in _CACHE:
        _CACHE[k] = tlc.run(module, cfg, MODDIR, timeout=3000, **kw)
    return _CACHE[k]


# ------------------------------------------------------------------------------------------------------------
# LibraryMerge adapter
# ------------------------------------------------------------------------------------------------------------
_SOURCES = None


def sources():
    global _SOURCES
    if _SOURCES is None:
        _SOURCES = G.Sources(common.workdir("c10-src"))
    return _SOURCES


class MergeAdapter:
    """world = the real libraries of one scenario: index 0 an empty IsotxsLibrary, 1..NSrc as read from generated files."""

    def __init__(self, nlab):
        armi_ready()
        from armi.nuclearDataIO import xsLibraries
        from armi.utils import properties

        self.xsLibraries = xsLibraries
        self.refusals = (properties.ImmutablePropertyError, OSError, AttributeError, ValueError)
        self.labels = list(range(1, nlab + 1))

    def build(self, root):
        S = sources()
        libs = [self.xsLibraries.IsotxsLibrary()]
        for sid, d in enumerate(root["src"], start=1):
            libs.append(S.load(d, sid))
        return {"libs": libs, "nsrc": len(root["src"]), "err": "", "last": None}

    def apply(self, w, a):
        w["err"] = ""
        w["last"] = a
        if a["n"] not in ("Merge", "MergeRefused"):
            raise AssertionError("unknown action %r" % a)
        t, o = w["libs"][a["t"]], w["libs"][a["o"]]
        try:
            t.merge(o)
        except self.refusals as ex:
            # the three refusals the specification models; anything else (TypeError, KeyError, ...) escapes = a verdict
            w["err"] = ERRKIND.get(type(ex).__name__, type(ex).__name__)
        return w["err"]

    def project(self, w):
        S = sources()
        libs = [G.project_library(x, S, w["nsrc"], self.labels) for x in w["libs"]]
        return shape_obs(libs, w["err"], w["last"])


def shape_obs(libs, err, act, expected=False):
    """The observation, target first.  On a refusal the statement speaks about the target ("rejected with an error leaving
    the target unchanged"): the expected observation then carries no entry for `other`, so it is not compared."""
    out = {"err": err}
    if act is not None and "t" in act:
        out["target"] = libs[act["t"]]
        if not (expected and err):
            out["other"] = libs[act["o"]]
        out["rest"] = [x for i, x in enumerate(libs) if i not in (act["t"], act["o"])]
    else:
        out["rest"] = libs
    return out


def merge_key(div):
    """Stable identifier of a merge divergence: outcome class, which library, which group of fields."""
    a = div["action"]
    d = div["first_difference"]
    path = d.split(":")[0]
    if path.startswith(".exception"):
        m = re.search(r"exception: (\w+) escaped", d)
        return "merge:%s:exception:%s" % (a["n"], m.group(1) if m else "?")
    if path == ".err":
        return "merge:%s:outcome" % a["n"]
    parts = [p for p in re.sub(r"\[\d+\]", "", path).split(".") if p]
    who = parts[0] if parts else "?"
    field = parts[1] if len(parts) > 1 else "?"
    group = {"ngs": "properties", "ggs": "properties", "nd": "properties", "gd": "properties", "vel": "velocity",
             "meta": "file-metadata", "pdose": "file-metadata", "files": "file-metadata", "fw": "chi", "labels": "labels", "nucs": "nuclides",
             "alive": "consumed"}.get(field, field)
    if group == "nuclides" and len(parts) > 2:
        group = {"cf": "chi", "owner": "container"}.get(parts[2], "nuclide-data")
    exp_err = div.get("expected", {}).get("err", "")
    return "merge:%s%s:%s:%s" % (a["n"], ":" + exp_err if exp_err else "", who, group)


def edges_of(res):
    edges = []
    for p in res.prints:
        if isinstance(p, dict) and "act" in p:
            e = dict(p)
            e["obs"] = shape_obs(p["to"]["lib"], p["err"], p["act"], expected=True)
            edges.append(e)
    return edges


def run_merge(rep, thorough, seed):
    t = "_thorough" if thorough else ""
    # 1. the design itself: invariants over every merge order of every scenario
    cfgs = ["LibraryMerge_mc%s.cfg" % t]
    if thorough:
        cfgs += ["LibraryMerge_four_thorough.cfg", "LibraryMerge_all.cfg"]
    if not _SELFTEST:
        for cfg in cfgs:
            res = tlc.run("LibraryMerge_mc", cfg, MODDIR, want_prints=False, timeout=3000)
            _tlc_verdict(rep, "exhaustive:" + cfg, res)
            never = [a for a in ("Merge", "MergeRefused") if res.coverage.get(a, (0, 0))[1] == 0]
            if never:
                raise tlc.MachineryError("vacuous: actions never taken in %s: %s" % (cfg, never))
    # 2. spec -> code: every edge on real libraries
    ecfg = "LibraryMerge_emit%s.cfg" % t
    eres = _cached("LibraryMerge_mc", ecfg, workers=1, coverage=False)
    _tlc_verdict(rep, "edges:" + ecfg, eres)
    edges = edges_of(eres)
    g = rp.Graph(edges)
    ad = MergeAdapter(nlab=3)
    n, nt, divs, masked = replay_all(g, ad)
    if n == 0:
        raise tlc.MachineryError("no merge edges replayed")
    rep.add_replay("merge-edges", n, nt,
                   "every edge (s, target.merge(other), s') of TLC's state graph is executed as path(s);merge on libraries "
                   "written and re-read by armi's ISOTXS/GAMISO/PMATRX code; all libraries are projected and compared; "
                   "non-trivial = the merge succeeds (the state changes)")
    if masked:
        rep.note("%d merge edges not replayed because the path leading to them already diverged (reported at its first edge)" % masked)
    for key, d in divs.items():
        rep.violation(key, "real libraries diverge from LibraryMerge after %s (expected outcome %r): %s" % (
            json.dumps(d["action"]), d["expected"].get("err", ""), d["first_difference"]),
            dict(d, direction="replay", part="merge"))
    if g.edges:
        e = [x for x in g.edges if x["err"] == ""][len(g.edges) // 5]
        rep.sample({"kind": "merge-edge", "sources": e["from"]["src"], "path": [s["act"] for s in g.path[e["_fk"]]], "act": e["act"],
                    "expected_target": e["obs"].get("target")})
        e = [x for x in g.edges if x["err"] != ""][len(g.edges) // 7]
        rep.sample({"kind": "merge-refusal", "sources": e["from"]["src"], "path": [s["act"] for s in g.path[e["_fk"]]], "act": e["act"],
                    "expected_err": e["err"]})


def replay_all(g, ad):
    """Like rp.replay_graph, but keeps going after divergences, keeps ONE divergence per key (the shortest behaviour) and
    attributes a divergence to the first edge that shows it: edges are taken in BFS order and an edge whose BFS-tree
    prefix already diverged is not replayed (its prefix is reported instead).  Returns (n, nontrivial, divs, masked)."""
    divs = {}
    n = nt = masked = 0
    bad_states = set()
    for e in sorted(g.edges, key=lambda x: len(g.path.get(x["_fk"], ()))):
        pre = g.path.get(e["_fk"])
        if pre is None:
            continue
        if e["_fk"] in bad_states:
            masked += 1
            tree = g.path.get(e["_tk"])
            if tree and tree[-1] is e:
                bad_states.add(e["_tk"])
            continue
        root = pre[0]["from"] if pre else e["from"]
        d = rp.run_behaviour(ad, root, pre + [e], check_from=len(pre))
        n += 1
        nt += 1 if e["_fk"] != e["_tk"] else 0
        if d:
            tree = g.path.get(e["_tk"])
            if tree and tree[-1] is e:
                bad_states.add(e["_tk"])
            k = merge_key(d)
            cnt = divs.get(k, {}).get("count", 0) + 1
            if k not in divs or len(d["behaviour"]) < len(divs[k]["behaviour"]):
                divs[k] = d
            divs[k]["count"] = cnt
    return n, nt, divs, masked


# ------------------------------------------------------------------------------------------------------------
# code -> spec: random merge histories
# ------------------------------------------------------------------------------------------------------------
TRACE_NSRC, TRACE_NLAB = 5, 5


def random_desc(rng):
    kind = rng.choice(["n", "n", "g", "p", "p"])
    labs = sorted(rng.sample(range(1, TRACE_NLAB + 1), rng.choice([1, 1, 2, 2, 3])))
    gs = lambda: rng.choice([1, 1, 1, 1, 2, 3])  # noqa: E731
    d = {"kind": kind, "labs": labs, "ngs": 0, "ggs": 0, "nd": 0, "gd": 0, "meta": rng.choice([1, 1, 1, 1, 1, 2]), "fw": False}
    if kind == "n":
        d["ngs"] = gs()
        d["fw"] = rng.random() < 0.3
    elif kind == "g":
        d["ggs"] = gs()
    else:
        d["ngs"], d["ggs"] = gs(), gs()
        d["nd"] = d["gd"] = rng.choice([0, 0, 1, 1, 2])
    return d


def merge_traces(ntraces, nev, seed):
    rng = random.Random(seed * 104729 + 10)
    ad = MergeAdapter(nlab=TRACE_NLAB)
    S = sources()
    traces = []
    for t in range(ntraces):
        src = [random_desc(rng) for _ in range(TRACE_NSRC)]
        w = ad.build({"src": src})
        ev = []
        for _ in range(nev):
            alive = [i for i, x in enumerate(w["libs"]) if x.__dict__]
            if len(alive) < 2:
                break
            ti, oi = rng.sample(alive, 2)
            a = {"n": "merge", "t": ti, "o": oi}
            pre_other = G.project_library(w["libs"][oi], S, TRACE_NSRC, ad.labels)
            try:
                w["err"] = ""
                try:
                    w["libs"][ti].merge(w["libs"][oi])
                except ad.refusals as ex:
                    w["err"] = ERRKIND.get(type(ex).__name__, type(ex).__name__)
                libs = [G.project_library(x, S, TRACE_NSRC, ad.labels) for x in w["libs"]]
                if w["err"]:
                    libs[oi] = pre_other     # `other` is not observed at a refusal (see shape_obs)
                ev.append({"a": a, "post": {"libs": libs, "err": w["err"]}})
            except Exception as ex:  # noqa: BLE001  an escaping exception ends the history; TLC rejects the event
                ev.append({"a": a, "post": {"libs": [], "err": "exception %s: %s" % (type(ex).__name__, str(ex)[:160])}})
                break
        traces.append({"id": "m%d" % t, "src": src, "ev": ev})
    return traces


def run_merge_traces(rep, thorough, seed):
    traces = merge_traces(600 if thorough else 150, 9, seed)
    bad, stats = tracecheck.validate("LibraryMerge_trace", "LibraryMerge_trace.cfg", MODDIR, traces, timeout=3000)
    rep.add_tlc("trace-validation:merge", stats["tlc"])
    nref = sum(1 for t in traces for e in t["ev"] if e["post"]["err"])
    rep.add_traces("merge-histories", len(traces), sum(len(t["ev"]) for t in traces),
                   "seeded random scenarios of %d generated source libraries over %d labels, <= 9 random merge attempts each, run on "
                   "the real code; the projection of every library after every call must be a step of LibraryMerge "
                   "(%d recorded refusals)" % (TRACE_NSRC, TRACE_NLAB, nref))
    rep.sample({"kind": "merge-trace", "id": traces[0]["id"], "sources": traces[0]["src"], "events": [e["a"] for e in traces[0]["ev"]],
                "errors": [e["post"]["err"] for e in traces[0]["ev"]]})
    for b in bad:
        ev = b["trace"]["ev"]
        k = b["matched"]
        nxt = ev[k] if k < len(ev) else {}
        a = nxt.get("a", {})
        exp = (b.get("mismatch") or {}).get("expected")
        post = nxt.get("post", {})
        if "invariant" in b:
            key, why = "trace:merge:invariant:" + b["invariant"], "invariant %s fails on a recorded history" % b["invariant"]
        elif str(post.get("err", "")).startswith("exception"):
            key, why = "merge:%s:exception:%s" % ("Merge" if not (exp or {}).get("err") else "MergeRefused", post["err"].split()[1].rstrip(":")), post["err"]
        elif exp:
            act = {"n": "MergeRefused" if exp["err"] else "Merge", "t": a.get("t"), "o": a.get("o")}
            eo = shape_obs(exp["libs"], exp["err"], act, expected=True)
            go = shape_obs(post.get("libs", []), post.get("err"), act)
            d = rp.diff(eo, go) or ".?: recorded state is not the specification's"
            key = merge_key({"action": act, "first_difference": d, "expected": eo})
            why = d
        else:
            key, why = "trace:merge:unmatched", "no step of the specification matches"
        rep.violation(key, "recorded merge history %s is not a behaviour of LibraryMerge at event %d (%s): %s" % (
            b["trace"]["id"], k + 1, json.dumps(a), why[:400]),
            {"direction": "trace", "part": "merge", "trace": b["trace"], "matched": k, "expected": exp})


# ------------------------------------------------------------------------------------------------------------
# Macros: one real call per printed case
# ------------------------------------------------------------------------------------------------------------
MACRO_LAWS = ("ZeroForEmpty", "AdditiveOverNuclides", "Homogeneous", "AdditiveOverCompositions", "MissingZeroIsHarmless", "DerivedCommute")
MACRO_RTOL = 1e-9   # a handful of double additions/multiplications of dyadic or near-dyadic numbers


def macro_key(case, quantity, exp, got):
    """Input class x quantity x symptom."""
    if isinstance(got, dict) and "raises" in got:
        symptom = "exception:" + got["raises"].split(":")[0]
    elif got == "None":
        symptom = "None"
    elif got == "refused" or exp == "refused":
        symptom = "refusal"
    else:
        symptom = "value"
    if case["empty"]:
        return "macro:empty-composition:%s" % quantity.split(".")[0]
    q = re.sub(r"^(direct|creator)\.rx\..*$", r"\1.rx", quantity)
    return "macro:%s:%s" % (q, symptom)


def check_macro_case(world, table, case, empty_dict=False):
    """-> list of (key, text, payload)"""
    exp = G.expected_macro(case, table)
    got = G.run_macro_case(world, case, empty_dict=empty_dict)
    out = []
    for q, e in exp.items():
        if q not in got:
            o = got.get("creator", "missing")
            q0 = "creator"
        else:
            o, q0 = got[q], q
        d = rp.diff(e, o, rtol=MACRO_RTOL)
        if d:
            out.append((macro_key(case, q0, e, o), "%s for composition %s (suffix %s, table %d%s): expected %s, observed %s" % (
                q0, json.dumps(case["comp"]), case["sfx"], case["v"], ", empty dict" if empty_dict else "",
                json.dumps(e)[:200], json.dumps(o)[:300]),
                {"direction": "replay", "part": "macros", "case": case, "quantity": q0, "empty_dict": empty_dict,
                 "expected": e, "observed": o}))
    return out


def run_macros(rep, thorough, seed, mc_future):
    t = "_thorough" if thorough else ""
    eres = _cached("Macros_mc", "Macros_emit%s.cfg" % t, workers=1, coverage=False)
    _tlc_verdict(rep, "cases:Macros_emit%s.cfg" % t, eres)
    tables = {p["table"]: p for p in eres.prints if isinstance(p, dict) and "table" in p}
    cases = [p["case"] for p in eres.prints if isinstance(p, dict) and "case" in p]
    if not tables or not cases:
        raise tlc.MachineryError("Macros printed no tables / cases")
    wd = common.workdir("c10-macro")
    worlds = {v: G.MacroWorld(tb, wd) for v, tb in tables.items()}
    n = nontrivial = 0
    seen = set()
    for c in cases:
        runs = [False] + ([True] if c["empty"] else [])     # the empty composition also as an empty dict
        for empty_dict in runs:
            n += 1
            nontrivial += 0 if (c["empty"] or c["refused"]) else 1
            for key, text, payload in check_macro_case(worlds[c["v"]], tables[c["v"]], c, empty_dict):
                if key in seen:
                    rep.violation(key, text, payload)   # counted
                    continue
                seen.add(key)
                rep.violation(key, text, payload)
    rep.add_replay("macro-cases", n, nontrivial,
                   "every (table, suffix, composition) TLC enumerates is given to computeMacroscopicGroupConstants (7 reactions, nuSigF, "
                   "total, transport), the neutron/gamma energy-deposition and fission/capture energy-generation functions and to "
                   "MacroscopicCrossSectionCreator on a real HexBlock; non-trivial = neither empty nor refused")
    # XSCollection.getTotalScatterMatrix on every generated nuclide (matrices the nuclide lacks are skipped)
    m = 0
    for v, w in worlds.items():
        for i, e in enumerate(tables[v]["entries"]):
            m += 1
            lacking = [k for k, h in zip(tables[v]["scatKinds"], e["hasScat"]) if not h]
            try:
                got = w.micro_total_scatter(i)
            except Exception as ex:  # noqa: BLE001  a legal query that raises is an observation
                rep.violation("totalScatter:micro:exception:%s:lacking-%s" % (type(ex).__name__, "+".join(lacking) or "nothing"),
                              "XSCollection.getTotalScatterMatrix raised %s: %s on a nuclide without %s" % (type(ex).__name__, ex, lacking),
                              {"direction": "replay", "part": "totalScatter", "table": v, "entry": i, "hasScat": e["hasScat"]})
                continue
            d = rp.diff(G.mat(e["totScat"]), got, rtol=MACRO_RTOL)
            if d:
                rep.violation("totalScatter:micro:value:lacking-%s" % ("+".join(lacking) or "nothing"),
                              "XSCollection.getTotalScatterMatrix of table %d entry %d: %s" % (v, i, d),
                              {"direction": "replay", "part": "totalScatter", "table": v, "entry": i, "hasScat": e["hasScat"]})
    rep.add_replay("micro-total-scatter", m, m, "getTotalScatterMatrix on every generated nuclide")
    ok = [c for c in cases if not c["empty"] and not c["refused"] and c["sfx"] == "AA"]
    if ok:
        c = ok[len(ok) // 2]
        rep.sample({"kind": "macro-case", "table": c["v"], "suffix": c["sfx"], "composition": c["comp"],
                    "expected": {k: c["exp"][k] for k in ("absorption", "removal", "nuSigF")}})
    # the laws, checked by TLC for every case (started in the background at the beginning of the run)
    if mc_future is not None:
        res = mc_future.result()
        _tlc_verdict(rep, "exhaustive:" + res.cfgname, res)
        if res.coverage.get("Next", (0, 0))[1] == 0:
            raise tlc.MachineryError("vacuous: Macros explored no case")


def run(rep, tier, seed):
    import concurrent.futures

    thorough = tier == "thorough"
    tlc.sany("LibraryMerge_mc", MODDIR)
    tlc.sany("Macros_mc", MODDIR)
    rep.exhaustive = True
    with concurrent.futures.ThreadPoolExecutor(max_workers=1) as pool:
        fut = None
        if not _SELFTEST:
            cfg = "Macros_mc%s.cfg" % ("_thorough" if thorough else "")

            def job():
                r = tlc.run("Macros_mc", cfg, MODDIR, want_prints=False, timeout=3000, workers=8)
                r.cfgname = cfg
                return r
            fut = pool.submit(job)
        run_merge(rep, thorough, seed)
        run_merge_traces(rep, thorough, seed)
        run_macros(rep, thorough, seed, fut)
    rep.assume(
        "a source library is what armi's ISOTXS / GAMISO / PMATRX reader returns for a generated file of one kind; libraries are "
        "merged at most once and never into themselves",
        "order of nuclideLabels / fileNames is not content (compared as sets); the free-text libraryLabel is not content",
        "neutron velocity: the first merged library that has one provides it (documented 'just use the first one'); that one is "
        "present iff a neutron library was merged is order-independent",
        "every generated PMATRX nuclide carries neutron heating data (two data-free entries of the same label would merge silently)",
        "a refused merge is compared on both libraries, the target first",
        "zero for an empty composition = zero vector (not None, not an exception); a nuclide with non-zero density that the library "
        "lacks is refused with ValueError as documented; data a nuclide does not carry contribute nothing",
        "energy-deposition constants are compared in the library's unit (observed J/cm divided by units.JOULES_PER_eV)",
    )


def replay(payload):
    if payload.get("part") == "merge" and payload.get("direction") == "replay":
        ad = MergeAdapter(nlab=3)
        steps = [{"act": a, "obs": {}} for a in payload["behaviour"]]
        steps[-1]["obs"] = payload["expected"]
        d = rp.run_behaviour(ad, payload["root"], steps, check_from=len(steps) - 1)
        print(json.dumps(d, indent=1, default=str) if d else "no divergence: behaviour conforms")
        return 1 if d else 0
    print("replay of direction=%s: see payload" % payload.get("direction"))
    return 0
